"""C06: ownership - every allocation is released exactly once across any object history.
Model: coq/Own/World.v (value trees + allocation ledger), theorems coq/Properties/C06.v."""
import os
import vlib
import ownlib
from ownlib import hx, hxs


class Prog:
    """hand-written programs without counting handles by hand: h(op) appends an operation that binds a
    new handle and returns its number, o(op) one that does not"""

    def __init__(self):
        self.ops, self.n = [], 0

    def h(self, op):
        self.ops.append(op)
        self.n += 1
        return self.n - 1

    def o(self, op):
        self.ops.append(op)


class C06(vlib.PropertyCheck):
    id = 'C06'
    family = 'c05'
    harness = 'c05.c'
    generators = ['gen_constants.py', 'gen_c05.py']
    case_timeout = 300
    nontrivial_rule = ('a program is non-trivial when the model runs it without a fault, it allocates at least 3 blocks and ends by '
                       'deleting everything it holds; distinct = distinct case lines')
    assumptions = ['programs use only handles they hold and apply operations to objects of the right class; init is only called on '
                   'an object in its empty state (anything else is refused identically by model and harness)',
                   'malloc(0) returns a distinct block (glibc; the wrap layer of the harness does the same)',
                   'the compiled PCRE pattern is an opaque number of blocks per (pattern, flags), calibrated against the running '
                   'library and passed to the model as an oracle table',
                   'socket and module objects, spifconf/builtin storage are covered by C19/C11, not here']
    tie_text = ('correspondence harness: harness/c05.c built without sanitizers behind -Wl,--wrap=malloc,calloc,realloc,free,strdup '
                '(a monotone allocator that counts live blocks and keeps the live-pointer set: freeing a pointer that is not live '
                'is FAULT:Bad_free) and a second time with ASan/UBSan for use-after-free / double free; driver/c05_main.ml, '
                'checks/ownlib.py, lib/vlib.py')

    MANIFEST = dict(
        technique=('Rocq theorems about an executable ownership model (value trees with per-class footprint / release / dup-cost '
                   'functions read off the C code, an interpreter with an allocation ledger) + extracted-model/implementation '
                   'correspondence check with an allocator oracle'),
        text=('Proved in Rocq for all finite programs over the modelled object API (create, every allocating or releasing method '
              'of str, ustr, mbuff, objpair, tok, url, regexp, the nine list/vector/map classes, iterators, to_array blocks; dup, '
              'done, init, del; remove / remove_at / map remove; get_keys / get_values / get_pairs; substr / subbuff; the '
              'constructors of str, ustr, mbuff and tok from a FILE* or a descriptor on a regular file at any offset, an empty file, '
              'a pipe, a closed descriptor and no stream at all; every property setter incl. spif_tok_set_tokens and the '
              'quote / dquote / escape / len / size setters; edits of the token list and of text members through the pointers the '
              'getters hand out): the ledger '
              'of live allocations always equals the sum of the footprints of the objects the program holds (C06_ledger_invariant); '
              'a program that ends holding nothing leaves the heap as it found it (C06_balance); what del frees and what dup '
              'allocates is exactly the footprint (C06_release_is_footprint, C06_dup_allocates_footprint); done leaves the class\'s '
              'empty state owning only the object block, reusable (C06_done_reusable); an object handed back by remove / remove_at / '
              'map remove is a separately held handle outside the container\'s tree, so deleting either never touches the other '
              '(C06_handed_back_not_owned); map set leaves the caller\'s key and value held and stores fresh copies '
              '(C06_map_takes_copies), also in the pair form SPIF_MAP_SET(map, pair, NULL) where the pair stays the caller\'s '
              '(C06_map_pair_form_takes_copies) and when the map is handed its own stored value or entry '
              '(C06_map_own_objects_back); the queries count / get / contains / find / index / map get / has_key / has_value '
              'change nothing (C06_query_changes_nothing); a constructor from a stream either hands back an object, and then '
              'exactly its footprint was allocated, or returns NULL with nothing left allocated and nothing else changed - in '
              'particular on a non-empty seekable file whose stream is at its end (C06_stream_constructor, '
              'C06_stream_mbuff_at_eof); the only faults of the model are the two program errors - use of a handle that is not '
              'held, wrong class (C06_no_library_fault). Decided by the correspondence check only: that the C code allocates and '
              'frees where the model says (after every operation the live-block count of the wrap layer equals the model\'s ledger; '
              'after the final deletions it is back at its start; no free of a non-live pointer; the same programs under ASan '
              'show no use-after-free or double free).'),
        design_ref='DESIGN.md section 7, C06')

    def build_impl(self):
        os.environ['LV_EXACT'] = '1'    # monotone allocator: results decided by addresses are compared too
        exe, log = ownlib.build_bump('c06-' + getattr(self, 'tier', 'quick'))
        self._bump = exe
        return exe, log

    def gen(self, tier, rng):
        table = ownlib.calibrate(self._bump)
        oracle = 're=?'                 # replaced at the end by the table entries each program needs
        cases = []
        S = ownlib.class_states()
        for name, ops in S:
            n = ownlib.count_handles(ops)
            x = ownlib.subject(ops)
            pre = ' ; '.join(ops)
            # build and delete; build, done, read back, re-init, delete; done twice
            cases.append('own %s ; %s ; delall' % (oracle, pre))
            cases.append('done %s ; %s ; done %d ; dump %d ; init %d ; dump %d ; done %d ; delall' % (oracle, pre, x, x, x, x, x))
            # copy and delete in both orders
            cases.append('own %s ; %s ; dup %d ; del %d ; dumpall ; delall' % (oracle, pre, x, x))
            cases.append('own %s ; %s ; dup %d ; del %d ; dumpall ; delall' % (oracle, pre, x, n))
            # the object as element / key / value of containers that are then deleted non-empty
            if not name.startswith('re-bad'):
                for c in 'ald':
                    cases.append('own %s ; %s ; cont L %s ; lappend %d %d ; dup %d ; delall' % (oracle, pre, c, n, x, n))
                    # every query of the list with a copy of its element as probe
                    cases.append('own %s ; %s ; dup %d ; dup %d ; cont L %s ; lappend %d %d ; query %d %d ; linsert_at %d %d 3 ; query %d %d ; '
                                 'dumpall ; delall' % (oracle, pre, x, x, c, n + 2, x, n + 2, n, n + 2, n, n + 2, n + 1))
                    cases.append('own %s ; %s ; str 6b ; cont M %s ; mset %d %d %d ; mset %d %d %d ; mvalues %d _ ; mremove %d %d ; delall'
                                 % (oracle, pre, c, n + 1, n, x, n + 1, n, x, n + 1, n + 1, n))
                    # the same through the pair form: the caller's pair (new key, then existing key) is deleted
                    # before the map is read and deleted; then the map's own entry is handed back to set
                    cases.append('own %s ; %s ; str 6b ; cont M %s ; pair %d %d ; msetp %d %d ; dump %d ; msetp %d %d ; del %d ; dump %d ; '
                                 'msetown %d %d ; msetownp %d %d ; del %d ; dump %d ; mpairs %d _ ; dumpall ; delall'
                                 % (oracle, pre, c, n, x, n + 1, n + 2, n + 1, n + 1, n + 2, n + 2, n + 1,
                                    n + 1, n, n + 1, n, n, n + 1, n + 1))
        # done + reuse cycles on filled containers, removal of first / last / only entries, placeholders
        for c in 'ald':
            cases.append('own %s ; cont L %s ; str 61 ; lappend 0 1 ; str 62 ; lappend 0 2 ; str 63 ; lappend 0 3 ; lremove_at 0 0 ; '
                         'lremove_at 0 -1 ; lremove_at 0 0 ; lremove_at 0 0 ; str 64 ; lappend 0 8 ; done 0 ; str 65 ; lprepend 0 9 ; '
                         'toarray 0 ; iter 0 ; dumpall ; delall' % (oracle, c))
            cases.append('own %s ; cont L %s ; str 61 ; linsert_at 0 1 3 ; str 62 ; linsert_at 0 2 -1 ; lremove_at 0 0 ; lremove_at 0 1 ; '
                         'dup 0 ; done 0 ; dumpall ; delall' % (oracle, c))
            cases.append('own %s ; cont V %s ; str 62 ; vinsert 0 1 ; str 61 ; vinsert 0 2 ; str 63 ; vinsert 0 3 ; str 61 ; vremove 0 4 ; '
                         'str 63 ; vremove 0 6 ; dup 0 ; str 64 ; vinsert 8 9 ; str 60 ; vinsert 8 10 ; str 62 ; vremove 0 11 ; dumpall ; delall'
                         % (oracle, c))
            cases.append('map %s ; cont M %s ; str 6b ; str 76 ; mset 0 1 2 ; append 1 7878 ; append 2 7979 ; dump 0 ; del 1 ; del 2 ; '
                         'dump 0 ; str 6b ; str 7732 ; mset 0 3 4 ; dump 0 ; mremove 0 3 ; del 0 ; dump 5 ; delall' % (oracle, c))
            cases.append('map %s ; cont M %s ; str 6b31 ; str 76 ; mset 0 1 2 ; str 6b30 ; mset 0 3 2 ; str 6b32 ; mset 0 4 2 ; cont L %s ; '
                         'mkeys 0 5 ; mvalues 0 5 ; mpairs 0 5 ; mpairs 0 _ ; dup 0 ; mremove 0 1 ; mremove 0 4 ; mremove 0 3 ; mremove 0 3 ; '
                         'dumpall ; delall' % (oracle, c, c))
            # queries on filled / emptied containers (hit, miss, first, last)
            cases.append('own %s ; cont L %s ; str 61 ; query 0 1 ; lappend 0 1 ; str 62 ; lappend 0 2 ; str 61 ; query 0 3 ; str 7a ; query 0 4 ; '
                         'lremove_at 0 0 ; query 0 3 ; done 0 ; query 0 3 ; dumpall ; delall' % (oracle, c))
            cases.append('own %s ; cont V %s ; str 62 ; query 0 1 ; vinsert 0 1 ; str 61 ; vinsert 0 2 ; str 63 ; vinsert 0 3 ; str 61 ; query 0 4 ; '
                         'str 63 ; query 0 5 ; str 7a ; query 0 6 ; str 30 ; query 0 7 ; dumpall ; delall' % (oracle, c))
            cases.append('own %s ; cont M %s ; str 6b ; query 0 1 ; str 76 ; mset 0 1 2 ; query 0 1 ; query 0 2 ; str 6a ; mset 0 3 1 ; query 0 3 ; '
                         'query 0 1 ; mremove 0 1 ; query 0 1 ; dumpall ; delall' % (oracle, c))
            # pair form of set: caller deletes the pair first / the map first / keeps editing the pair
            cases.append('map %s ; cont M %s ; str 6b ; str 76 ; pair 1 2 ; msetp 0 3 ; del 3 ; dump 0 ; del 1 ; del 2 ; dump 0 ; delall' % (oracle, c))
            cases.append('map %s ; cont M %s ; str 6b ; str 76 ; pair 1 2 ; msetp 0 3 ; del 0 ; dump 3 ; delall' % (oracle, c))
            cases.append('map %s ; cont M %s ; str 6b ; str 76 ; pair 1 2 ; msetp 0 3 ; str 7732 ; setv 3 4 ; dump 0 ; msetp 0 3 ; dump 0 ; '
                         'str 6b32 ; setk 3 5 ; msetp 0 3 ; dumpall ; delall' % (oracle, c))
            # a pair without value / without key / emptied by done is refused (objpair_new_from_both ASSERTs both)
            cases.append('map %s ; cont M %s ; str 6b ; pair 1 _ ; msetp 0 2' % (oracle, c))
            cases.append('map %s ; cont M %s ; str 6b ; str 76 ; pair 1 2 ; msetp 0 3 ; done 3 ; dump 0 ; msetp 0 3' % (oracle, c))
            cases.append('map %s ; cont M %s ; str 6b ; str 76 ; mset 0 1 2 ; mremove 0 1 ; msetp 0 3 ; msetp 0 3 ; msetownp 0 1 ; msetown 0 1 ; '
                         'msetown 0 2 ; del 3 ; dumpall ; delall' % (oracle, c))
            # a pair whose value is itself a container / a pair
            cases.append('map %s ; cont M %s ; str 6b ; cont L %s ; str 65 ; lappend 2 3 ; pair 1 2 ; msetp 0 4 ; pair 1 4 ; msetp 0 5 ; dump 0 ; '
                         'del 4 ; del 5 ; del 2 ; dump 0 ; dup 0 ; del 0 ; dumpall ; delall' % (oracle, c, c))
            # iterators held across modification, emptying and deletion of their subject
            for I in 'LV':
                b = Prog()
                fill = 'lappend' if I == 'L' else 'vinsert'
                co = b.h('cont %s %s' % (I, c))
                b.o('%s %d %d' % (fill, co, b.h('str 61')))
                it = b.h('iter %d' % co)
                b.o('%s %d %d' % ('lprepend' if I == 'L' else 'vinsert', co, b.h('str 62')))
                b.h('dup %d' % it)
                if I == 'L':
                    b.h('lremove_at %d 0' % co)
                else:
                    b.h('vremove %d %d' % (co, b.h('str 61')))
                b.h('dup %d' % it)
                b.o('done %d' % co)
                b.h('dup %d' % it)
                b.o('%s %d %d' % (fill, co, b.h('str 63')))
                b.h('dup %d' % it)
                b.o('del %d' % co)
                b.o('del %d' % it)
                cases.append('own %s ; %s ; dumpall ; delall' % (oracle, ' ; '.join(b.ops)))
            cases.append('own %s ; cont M %s ; iter 0 ; str 6b ; str 76 ; mset 0 2 3 ; dup 1 ; pair 2 3 ; msetp 0 5 ; mremove 0 2 ; dup 1 ; '
                         'done 0 ; dup 1 ; del 0 ; del 1 ; dumpall ; delall' % (oracle, c))
            # done() followed by re-use without init, twice over
            cases.append('own %s ; cont V %s ; str 61 ; vinsert 0 1 ; done 0 ; str 62 ; vinsert 0 2 ; dup 0 ; done 0 ; done 0 ; str 63 ; '
                         'vinsert 0 4 ; dumpall ; delall' % (oracle, c))
            cases.append('own %s ; cont M %s ; str 6b ; str 76 ; mset 0 1 2 ; done 0 ; mset 0 2 1 ; pair 1 2 ; msetp 0 3 ; dup 0 ; done 0 ; '
                         'msetp 0 3 ; dumpall ; delall' % (oracle, c))
        # done() + re-use without init for the leaf classes
        cases.append('own %s ; str 6162 ; done 0 ; append 0 63 ; done 0 ; done 0 ; append 0 64 ; dup 0 ; dumpall ; delall' % oracle)
        cases.append('own %s ; str 6b ; str 76 ; pair 0 1 ; done 2 ; setk 2 0 ; setv 2 1 ; done 2 ; str 6b ; setk 2 3 ; dup 2 ; dumpall ; delall' % oracle)
        cases.append('own %s ; tok 6120622063 ; eval 0 ; done 0 ; eval 0 ; str 7820792c7a ; setsrc 0 1 ; str 2c ; setsep 0 2 ; eval 0 ; '
                     'done 0 ; done 0 ; str 71 ; setsrc 0 3 ; eval 0 ; dup 0 ; dumpall ; delall' % oracle)
        cases.append('own %s ; url 78713a2f2f753a7077406838312f703f71 ; done 0 ; unparse 0 ; str 6868 ; urlset 0 3 1 ; str 3939 ; urlset 0 4 2 ; '
                     'unparse 0 ; done 0 ; str 70 ; urlset 0 5 3 ; dup 0 ; dumpall ; delall' % oracle)
        for fl in ('i', 'ms', 'x', '8', 'imsx', '^'):
            cases.append('own %s ; re %s ; flags 0 %s ; dup 0 ; done 0 ; flags 0 %s ; compile 0 ; dup 0 ; init 0 ; dumpall ; delall'
                         % (oracle, hxs('a.b'), hxs(fl), hxs(fl)))
        # tokenizer re-evaluation, setter overwrite
        cases.append('own %s ; tok 6120622063 ; eval 0 ; eval 0 ; str 20 ; setsep 0 1 ; eval 0 ; str 78 ; setsrc 0 2 ; eval 0 ; dup 0 ; delall' % oracle)
        cases.append('own %s ; str 6b ; str 76 ; pair 0 1 ; str 6b32 ; setk 2 3 ; str 7632 ; setv 2 4 ; setv 2 _ ; delall' % oracle)
        cases += self.stream_cases(oracle, tier)
        cases += self.member_cases(oracle)
        # generated programs
        nprog = 700 if tier == 'quick' else 30000
        specs = []
        for i in range(nprog):
            theme = ['own', 'own', 'map', 'dupi'][i % 4]
            specs.append((theme, theme, [], rng.randint(3, 30)))
        for i in range(nprog // 4):
            name, ops = S[rng.randrange(len(S))]
            specs.append(('own', 'own', list(ops), len(ops) + rng.randint(3, 16)))
        cases = [ownlib.finalize(c, table) for c in cases]
        cases += ownlib.grow(rng, table, specs, 32)
        self._cases = cases
        return cases

    def stream_cases(self, oracle, tier):
        """the constructors from FILE* / descriptor of str, ustr, mbuff and tok: every kind of stream (regular file
        at offset 0, in the middle, at its end; empty file; pipe with and without data; closed descriptor; no
        stream), failing forms before and after succeeding ones, the ledger read after every call and after the
        final deletions"""
        out = []
        big = bytes((i * 7) % 250 + 1 for i in range(5000))          # longer than the 4096-byte read increment
        contents = [b'abc', b'ab\ncd', b'\n', b'a b  c\nz w', b'x' * 4095 + b'\n' + b'y' * 10, big]
        if tier != 'quick':
            contents += [b'q' * 4096, b'q' * 4097, b'q' * 8192, b'ab\n' * 3000]
        for cls in ('str', 'ustr', 'mbuff', 'tok'):
            for via in ('fp', 'fd'):
                for data in contents:
                    n, h = len(data), hx(data)
                    fail = ['fnew %s %s reg %s %d' % (cls, via, h, n), 'fnew %s %s reg - 0' % (cls, via), 'fnew %s %s bad - 0' % (cls, via),
                            'fnew %s %s bad %s 0' % (cls, via, h)]
                    good = ['fnew %s %s reg %s 0' % (cls, via, h), 'fnew %s %s reg %s %d' % (cls, via, h, n // 2),
                            'fnew %s %s reg %s %d' % (cls, via, h, n - 1), 'fnew %s %s pipe %s 0' % (cls, via, h),
                            'fnew %s %s pipe - 0' % (cls, via)]
                    if via == 'fd':
                        good.append('fnew %s fd closed - 0' % cls)
                    # (for str / ustr / tok the "failing" regular-file forms yield an empty string, not NULL; the
                    # model says which)
                    out.append('own %s ; %s ; %s ; dumpall ; delall' % (oracle, ' ; '.join(fail), ' ; '.join(good)))
                    out.append('own %s ; %s ; %s ; %s ; dumpall ; delall' % (oracle, ' ; '.join(good), ' ; '.join(fail), good[0]))
                    # one call per program: the ledger after a single failing call and after deleting what a
                    # single succeeding call made
                    if data in (contents[0], contents[1]):
                        for op in fail + good:
                            out.append('own %s ; %s ; delall ; %s ; %s ; delall' % (oracle, op, op, op))
        # the object made from a stream goes through the protocol like any other
        out.append('own %s ; fnew tok fp reg %s 0 ; eval 0 ; fnew tok fd reg %s 2 ; eval 1 ; dup 0 ; done 1 ; eval 1 ; fnew str fp reg 2c 0 ; '
                   'setsep 0 3 ; eval 0 ; dumpall ; delall' % (oracle, hx(b'a,b c\nd'), hx(b'a,b c\nd')))
        out.append('own %s ; fnew mbuff fd reg 6162636465 2 ; append 0 66 ; dup 0 ; substr 0 1 2 ; setlen 0 1 ; dup 0 ; done 0 ; '
                   'append 0 67 ; fnew mbuff fp reg 6162636465 5 ; fnew mbuff fp reg 6162636465 4 ; dumpall ; delall' % oracle)
        return out

    def member_cases(self, oracle):
        """setters and getters of every class between construction and deletion: the member a setter replaces is
        released, a list installed with set_tokens is the tokenizer's, an element taken out of the list handed
        out by get_tokens is the caller's, a member changed in place keeps its owner"""
        out = []
        for c in 'ald':
            out.append('own %s ; tok 6120622063 ; eval 0 ; cont L %s ; str 7a ; lappend 1 2 ; settoks 0 1 ; dump 0 ; cont L %s ; settoks 0 3 ; '
                       'dump 0 ; settoks 0 _ ; eval 0 ; tlremove_at 0 1 ; tlremove_at 0 7 ; tlremove_at 0 -1 ; tlremove_at 0 0 ; tlremove_at 0 0 ; '
                       'str 79 ; tlappend 0 9 ; dup 0 ; cont L %s ; str 78 ; linsert_at 11 12 2 ; settoks 10 11 ; tlremove_at 10 0 ; tlremove_at 10 1 ; '
                       'dup 10 ; done 10 ; dumpall ; delall' % (oracle, c, c, c))
        out.append('own %s ; tok %s ; setq 0 q 124 ; setq 0 d 0 ; setq 0 e 35 ; eval 0 ; dup 0 ; setq 0 q 39 ; eval 0 ; done 0 ; eval 0 ; '
                   'str 61 ; setsrc 0 2 ; eval 0 ; dumpall ; delall' % (oracle, hx(b"x |y z| 'w#  v'")))
        out.append('own %s ; tok 6120 ; mappend 0 0 62 ; str N ; setsep 0 1 ; mappend 0 1 2c ; mappend 0 1 - ; eval 0 ; str N ; setsrc 0 2 ; '
                   'mappend 0 0 - ; mappend 0 0 712c72 ; eval 0 ; dup 0 ; dumpall ; delall' % oracle)
        out.append('own %s ; str N ; mbuff N ; pair 0 1 ; mappend 2 0 6b ; mappend 2 1 7600 ; dup 2 ; ustr - ; setk 2 4 ; mappend 2 0 75 ; '
                   'cont M a ; msetp 5 2 ; mappend 2 0 76 ; dumpall ; delall' % oracle)
        out.append('own %s ; url %s ; str N ; urlset 0 3 1 ; mappend 0 3 6868 ; mappend 0 0 7a ; unparse 0 ; dup 0 ; mappend 2 6 7a ; '
                   'done 0 ; str N ; urlset 0 5 3 ; mappend 0 5 2f70 ; unparse 0 ; dumpall ; delall' % (oracle, hx(b'xq://h/p?q')))
        out.append('own %s ; mbuff 6162636465 ; setlen 0 5 ; setlen 0 3 ; dup 0 ; append 0 7a ; setlen 0 0 ; dup 0 ; append 0 79 ; setlen 0 -1 ; '
                   'str 6162 ; setlen 3 -1 ; ustr N ; setlen 4 -1 ; mbuff N ; setlen 5 0 ; setlen 5 -1 ; dup 5 ; dumpall ; delall' % oracle)
        return out

    def is_fault(self, out):
        return out is not None and 'FAULT' in out

    def split(self, case, out):
        """A: the ledger after every `delall` (heap back at its start); B: per-step ledgers and values"""
        ops = ownlib.ops_of(case)
        toks = ownlib.tokens(out)
        a = [ownlib.ledger_of(tk) for op, tk in zip(ops, toks) if op == 'delall']
        return ' '.join(a), out

    def oracle(self, case, iout):
        return ownlib.balance_oracle(case, iout)

    def nontrivial(self, case, mout):
        if 'FAULT' in mout or not case.endswith('delall'):
            return False
        try:
            return max(int(ownlib.ledger_of(t)) for t in ownlib.tokens(mout)) >= 3
        except ValueError:
            return False

    def extra_steps(self, ctx):
        """the same programs under ASan/UBSan: use after free, double free, overflow"""
        out = []
        cases = ownlib.corpus_cases(self.id) + getattr(self, '_cases', [])
        if not cases or not ctx['model_exe']:
            return out
        exe, log = ownlib.build_asan('c06-%s-asan' % ctx['tier'])
        if exe is None:
            return [('B', None, 'ASan build failed: ' + log[-300:])]
        work = os.path.join(vlib.BUILD, 'work', 'c06')
        os.makedirs(work, exist_ok=True)
        path = os.path.join(work, 'cases-asan.txt')
        with open(path, 'w') as f:
            for c in cases:
                f.write(c + '\n')
        mouts, _ = vlib.run_model(ctx['model_exe'], path, len(cases))
        iouts, det = vlib.run_cases(exe, path, len(cases), timeout_per_run=self.case_timeout)
        n = 0
        for c, m, i in zip(cases, mouts, iouts):
            if m is None or i is None:
                continue
            if self.is_fault(i) and not self.is_fault(m):
                out.append(('A', c, 'ASan build: ' + i[-120:]))
            elif not self.is_fault(i):
                om = ownlib.balance_oracle(c, i)
                if om:
                    out.append(('A', c, 'ASan build: oracle: ' + om))
            n += 1
        ctx['cov']['asan_runs'] = n
        return out


CHECK = C06()
