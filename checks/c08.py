"""C08: the command line option parser assigns exactly what the command line says (src/options.c)."""
import itertools
import re
import vlib


def hx(s):
    if isinstance(s, str):
        s = s.encode('latin1')
    return s.hex() or '-'


FL = dict(bool=1, cnt=2, int=32, str=64, args=128, abst=1024, pp=2048, dep=4096)


def opt(short, long, kinds, slot, mask=0):
    fl = sum(FL[k] for k in kinds.split('|')) if kinds else 0
    return '%02x:%s:%d:%s:%d' % (ord(short) if short else 0, hx(long), fl, slot, mask)


# ---- option tables: the six kinds with and without short forms, both passes, shared targets ----
T_MAIN = [
    opt('a', 'alpha', 'bool', 0, 0x01), opt('b', 'beta', 'bool|pp', 0, 0x02),
    opt('', 'gamma', 'bool', 0, 0x80000000), opt('n', 'nu', 'bool', 1, 0x04), opt('o', 'omicron', 'bool', 1, 0x0a),
    opt('i', 'int', 'int', 0), opt('', 'num', 'int|pp', 1),
    opt('s', 'str', 'str', 0), opt('', 'name', 'str|dep', 1),
    opt('l', 'list', 'args', 0),
    opt('t', 'theme', 'abst', 0), opt('', 'abs', 'abst|pp', 1),
    opt('c', 'count', 'cnt', 0), opt('', 'tally', 'cnt', 0),
]
# pre-parsed argument list, long-only argument list, no option without a short form before them
T_PPLIST = [
    opt('a', 'alpha', 'bool|pp', 2, 0x10), opt('l', 'list', 'args|pp', 1), opt('s', 'str', 'str|pp', 2),
    opt('i', 'int', 'int', 3), opt('t', 'theme', 'abst', 2), opt('', 'rest', 'args', 2), opt('b', 'beta', 'bool', 2, 0x01),
]
# only options with a short form (the lone "-" takes another path in the unrepaired parser)
T_SHORT = [
    opt('a', 'alpha', 'bool', 0, 0xffffffff), opt('i', 'int', 'int', 0), opt('s', 'str', 'str', 0),
    opt('l', 'list', 'args', 0), opt('t', 'theme', 'abst', 0), opt('c', 'count', 'cnt', 0),
]
# odd but legal tables: NULL value pointers, names that are prefixes of each other, names differing in
# case only, an empty long name, '-' and '=' as letters, combined type bits, no type bits
T_ODD = [
    opt('a', 'ab', 'bool', 0, 0x01), opt('A', 'abc', 'bool', 0, 0x02), opt('x', 'AB', 'bool', 0, 0x04),
    opt('i', 'int', 'int', '-'), opt('t', 'theme', 'abst', '-'), opt('s', 'str', 'str', '-'), opt('l', 'list', 'args', '-'),
    opt('=', '', 'bool', 1, 0x08), opt('-', 'a=b', 'str', 1), opt('m', 'mix', 'bool|int', 2, 0x10),
    opt('z', 'zero', '', 0), opt('q', 'abq', 'abst|int', 1), opt('\xe9', 'caf\xe9', 'bool', 3, 0x20),
]
T_EMPTY = []
TABLES = dict(main=T_MAIN, pplist=T_PPLIST, short=T_SHORT, odd=T_ODD, empty=T_EMPTY)

# ---- token alphabets ----
CORE = ['w', '-', '--', '-a', '-ab', '-ax', '-i', '-i5', '-s', '-l', '-t', '-x', 'false',
        '--alpha', '--alpha=no', '--int', '--int=7', '--str=v', '--list', '--list=', '--theme', '--zzz', '-no', '-ai']
MORE = ['', '1', '-7', '-b', '-c', '-n', '-o', '-ano', '-a-b', '-sv', '-lx', '-tv', '-t-a', '-ib', '--gamma', '--gamma=0',
        '--alpha=junk', '--alpha=', '--ALPHA', '--alp', '--alphax', '--beta', '--beta=on', '--num', '--num=-3', '--int=',
        '--int=0x1f', '--int=077', '--int=99999999999', '--str', '--str=', '--name', '--name=x y', '--list=a b',
        '--list="a b" c', "--list=a 'b c", '--list= ', '--list=a\\"b "c', '--theme=v', '--abs', '--abs=', '--count',
        '--count=3', '--tally', '--=', '---', '--a=b', '--rest', '--rest=x', 'true', 'off', 'YES', '-=', '--ab', '--abc=1',
        '--AbQ', '-q', '-m', '-m1', '-z', '--mix=4', '--caf\xe9', '-\xe9', '-\xe9a', '\xff', '--int= 12', '--int=-0x10',
        '--int=+5', '--int=9223372036854775808', '--int=-9223372036854775809', '--int=4294967296', '--int=0x', '--int=08']
MINI = ['w', '-', '-a', '-ab', '-i', '-i5', '-l', '-x', '--alpha=no', '--int', '--list=', '--zzz']


class C08(vlib.PropertyCheck):
    id = 'C08'
    family = 'c08'
    harness = 'c08.c'
    case_timeout = 300
    nontrivial_rule = ('argument vectors enumerated exhaustively over token alphabets (every spelling, unknown options, '
                       'missing values, lone "-", "--", "--x=", quoted words) for five option tables and the four '
                       '{preparse, remove_args} settings plus the two-pass sequence; a case is non-trivial when the model '
                       'does not fault and the parse changed a target, counted a bad option or changed argv; distinct = '
                       'distinct case lines')
    assumptions = ['every argv string, the argv array (argc + 1 slots, last NULL, no NULL before it), the option array, every '
                   'long name and every target variable is a separate block of exactly its size (the harness allocates them so)',
                   'boolean targets are unsigned long, integer targets int (as documented in libast.h); LP64',
                   'argc < 65536 and fewer than 65535 words in one --list=VALUE (unsigned short counters in handle_arglist)',
                   '"C" locale (isspace, strcasecmp)',
                   'every non-NULL value pointer of the table points to a live variable of the kind the type dispatch selects; '
                   'boolean, string, integer options and options handled on this pass have a non-NULL value pointer unless the '
                   'parser checks it (it checks for value-taking and abstract options only)',
                   'the help handler either returns or leaves the parser for good (longjmp / exit)']

    MANIFEST = dict(
        technique='Rocq theorems about an executable Gallina model of spifopt_parse + extracted-model/implementation correspondence check',
        text='',   # filled below once the theorems are in place
        design_ref='DESIGN.md section 7, C08')

    # ------------------------------------------------------------------------------
    def settings(self, rng, pre, rm):
        allow = rng.choice([0, 1, 3, 3, 9, 255])
        ret = rng.choice([0, 0, 1])
        bad0 = rng.choice([0, 0, 0, 2, 254, 255])
        binit = rng.choice(['0', '0', 'ffffffffffffffff', 'a5a5a5a5f0f0f0f0', '8000000080000000'])
        return '%d %d %d %d %d %s' % (pre, rm, allow, ret, bad0, binit)

    def case(self, rng, tname, toks, pre, rm):
        return 'parse %s %s %s' % (self.settings(rng, pre, rm), ','.join(TABLES[tname]) or '-',
                                   ','.join(hx(a) for a in ['prog'] + list(toks)))

    def gen(self, tier, rng):
        cases = []
        quick = tier == 'quick'
        passes = [(0, 0), (0, 1), (1, 0), (1, 1)]
        # 1. exhaustive: main table, core alphabet, all four settings
        n_core = 3 if quick else 4
        for n in range(0, n_core + 1):
            for toks in itertools.product(CORE, repeat=n):
                for (pre, rm) in passes:
                    if n == n_core and not quick and rng.random() < 0.5:
                        continue
                    cases.append(self.case(rng, 'main', toks, pre, rm))
        # 2. exhaustive length <= 2 over the full alphabet, every table; two-pass sequence included
        full = CORE + MORE
        for tname in TABLES:
            for n in (1, 2):
                for toks in itertools.product(full, repeat=n):
                    if n == 2 and quick and tname != 'main' and rng.random() < 0.75:
                        continue
                    pre, rm = rng.choice(passes + [(2, 0), (2, 1)])
                    cases.append(self.case(rng, tname, toks, pre, rm))
        # 3. exhaustive over the mini alphabet: length 4 (quick) / 5 (thorough), other tables too
        n_mini = 4 if quick else 5
        for toks in itertools.product(MINI, repeat=n_mini):
            if quick and rng.random() < 0.6:
                continue
            pre, rm = rng.choice(passes + [(2, 1)])
            cases.append(self.case(rng, rng.choice(['main', 'main', 'pplist', 'short']), toks, pre, rm))
        # 4. random longer vectors over everything
        for _ in range(3000 if quick else 120000):
            n = rng.choice([3, 4, 5, 6, 8, 12, 20])
            toks = [rng.choice(full) for _ in range(n)]
            pre, rm = rng.choice(passes + [(2, 0), (2, 1)])
            cases.append(self.case(rng, rng.choice(list(TABLES)), toks, pre, rm))
        # 5. the helpers behind handle_arglist / handle_integer, against their sub-models
        walpha = ['a', 'b', ' ', '\t', '"', "'", '\\', '\xa0']
        for n in range(0, 5 if quick else 7):
            for t in itertools.product(walpha, repeat=n):
                if n >= 4 and rng.random() < (0.8 if quick else 0.5):
                    continue
                s = ''.join(t)
                cases.append('numwords %s' % hx(s))
                for k in range(1, 4):
                    cases.append('getword %d %s' % (k, hx(s)))
        for s in ['', '0', '-0', '7', '-7', '+7', ' 7', '\t-12x', '0x1F', '0X1f', '0x', '0xg', '-0x10', '010', '08', '0778',
                  '2147483647', '2147483648', '-2147483648', '-2147483649', '4294967295', '4294967296', '9223372036854775807',
                  '9223372036854775808', '-9223372036854775808', '-9223372036854775809', '99999999999999999999999',
                  '0x7fffffffffffffff', '0xffffffffffffffff', '0x10000000000000000', '01777777777777777777777', 'abc', '-', '+',
                  '--5', '+-5', '1 2', '\x0b\x0c\r\n 5', '\xa05', '0b11', '1e3', '0x-1', '00x1']:
            cases.append('strtol %s' % hx(s))
        for _ in range(300 if quick else 5000):
            s = ''.join(rng.choice('0123456789abcdefxX+- \t9z') for _ in range(rng.choice([1, 2, 3, 5, 12, 22])))
            cases.append('strtol %s' % hx(s))
        return cases

    def search_gen(self, tier, rng):
        return self.gen('quick', rng)

    # level A: everything but the stale argv slots behind the first NULL
    def split(self, case, out):
        m = re.match(r'^(.* argv=)(.*)$', out)
        if not m:
            return out, ''
        parts = m.group(2).split(',')
        if 'N' in parts[1:]:
            k = parts.index('N', 1)
            return m.group(1) + ','.join(parts[:k + 1]), ','.join(parts[k + 1:])
        return out, ''

    def nontrivial(self, case, mout):
        if mout.startswith('FAULT'):
            return False
        t = case.split(' ')
        if t[0] != 'parse' and t[0] != 'spell':
            return True
        args = t[8].split(',')
        idle = 'ok bad=%s helps=0 fl=%d B=%s I=%s S=N,N,N,N L=N,N,N,N A=- argv=%s,N' % (
            t[5], (2 if t[2] != '0' else 0), ','.join([t[6].lstrip('0') or '0'] * 4), ','.join(['23130'] * 4), ','.join(args))
        return mout != idle


CHECK = C08()
MANIFEST = C08.MANIFEST
