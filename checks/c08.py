"""C08: the command line option parser assigns exactly what the command line says (src/options.c)."""
import itertools
import re
import vlib


def hx(s):
    if isinstance(s, str):
        s = s.encode('latin1')
    return s.hex() or '-'


FL = dict(bool=1, cnt=2, int=32, str=64, args=128, abst=1024, pp=2048, dep=4096)


def opt(short, long, kinds, slot, mask=0):
    fl = sum(FL[k] for k in kinds.split('|')) if kinds else 0
    return '%02x:%s:%d:%s:%d' % (ord(short) if short else 0, hx(long), fl, slot, mask)


# ---- option tables: the six kinds with and without short forms, both passes, shared targets ----
# (short, long, kinds, slot, mask)
D_MAIN = [
    ('a', 'alpha', 'bool', 0, 0x01), ('b', 'beta', 'bool|pp', 0, 0x02),
    ('', 'gamma', 'bool', 0, 0x80000000), ('n', 'nu', 'bool', 1, 0x04), ('o', 'omicron', 'bool', 1, 0x0a),
    ('i', 'int', 'int', 0, 0), ('', 'num', 'int|pp', 1, 0),
    ('s', 'str', 'str', 0, 0), ('', 'name', 'str|dep', 1, 0),
    ('l', 'list', 'args', 0, 0),
    ('t', 'theme', 'abst', 0, 0), ('', 'abs', 'abst|pp', 1, 0),
    ('c', 'count', 'cnt', 0, 0), ('', 'tally', 'cnt', 0, 0),
]
# pre-parsed argument list, long-only argument list, no option without a short form before them
D_PPLIST = [
    ('a', 'alpha', 'bool|pp', 2, 0x10), ('l', 'list', 'args|pp', 1, 0), ('s', 'str', 'str|pp', 2, 0),
    ('i', 'int', 'int', 3, 0), ('t', 'theme', 'abst', 2, 0), ('', 'rest', 'args', 2, 0), ('b', 'beta', 'bool', 2, 0x01),
]
# only options with a short form (the lone "-" takes another path in the unrepaired parser)
D_SHORT = [
    ('a', 'alpha', 'bool', 0, 0xffffffff), ('i', 'int', 'int', 0, 0), ('s', 'str', 'str', 0, 0),
    ('l', 'list', 'args', 0, 0), ('t', 'theme', 'abst', 0, 0), ('c', 'count', 'cnt', 0, 0),
]
# odd but legal tables: NULL value pointers, names that are prefixes of each other, names differing in
# case only, an empty long name, '-' and '=' as letters, combined type bits, no type bits
D_ODD = [
    ('a', 'ab', 'bool', 0, 0x01), ('A', 'abc', 'bool', 0, 0x02), ('x', 'AB', 'bool', 0, 0x04),
    ('i', 'int', 'int', '-', 0), ('t', 'theme', 'abst', '-', 0), ('s', 'str', 'str', '-', 0), ('l', 'list', 'args', '-', 0),
    ('=', '', 'bool', 1, 0x08), ('-', 'a=b', 'str', 1, 0), ('m', 'mix', 'bool|int', 2, 0x10),
    ('z', 'zero', '', 0, 0), ('q', 'abq', 'abst|int', 1, 0), ('\xe9', 'caf\xe9', 'bool', 3, 0x20),
]
DESCR = dict(main=D_MAIN, pplist=D_PPLIST, short=D_SHORT, odd=D_ODD, empty=[])
TABLES = dict((k, [opt(*d) for d in v]) for k, v in DESCR.items())

# ---- token alphabets ----
CORE = ['w', '-', '--', '-a', '-ab', '-ax', '-i', '-i5', '-s', '-l', '-t', '-x', 'false',
        '--alpha', '--alpha=no', '--int', '--int=7', '--str=v', '--list', '--list=', '--theme', '--zzz', '-no', '-ai']
MORE = ['', '1', '-7', '-b', '-c', '-n', '-o', '-ano', '-a-b', '-sv', '-lx', '-tv', '-t-a', '-ib', '--gamma', '--gamma=0',
        '--alpha=junk', '--alpha=', '--ALPHA', '--alp', '--alphax', '--beta', '--beta=on', '--num', '--num=-3', '--int=',
        '--int=0x1f', '--int=077', '--int=99999999999', '--str', '--str=', '--name', '--name=x y', '--list=a b',
        '--list="a b" c', "--list=a 'b c", '--list= ', '--list=a\\"b "c', '--theme=v', '--abs', '--abs=', '--count',
        '--count=3', '--tally', '--=', '---', '--a=b', '--rest', '--rest=x', 'true', 'off', 'YES', '-=', '--ab', '--abc=1',
        '--AbQ', '-q', '-m', '-m1', '-z', '--mix=4', '--caf\xe9', '-\xe9', '-\xe9a', '\xff', '--int= 12', '--int=-0x10',
        '--int=+5', '--int=9223372036854775808', '--int=-9223372036854775809', '--int=4294967296', '--int=0x', '--int=08']
MINI = ['w', '-', '-a', '-ab', '-i', '-i5', '-l', '-x', '--alpha=no', '--int', '--list=', '--zzz']


class C08(vlib.PropertyCheck):
    id = 'C08'
    family = 'c08'
    harness = 'c08.c'
    case_timeout = 1500   # whole-file run of the harness; a hanging case is cut by its own alarm(1)
    nontrivial_rule = ('argument vectors enumerated exhaustively over token alphabets (every spelling, unknown options, '
                       'missing values, lone "-", "--", "--x=", quoted words) for five option tables and the four '
                       '{preparse, remove_args} settings plus the two-pass sequence; a case is non-trivial when the model '
                       'does not fault and the parse changed a target, counted a bad option or changed argv; distinct = '
                       'distinct case lines')
    assumptions = ['every argv string, the argv array (argc + 1 slots, last NULL, no NULL before it), the option array, every '
                   'long name and every target variable is a separate block of exactly its size (the harness allocates them so)',
                   'boolean targets are unsigned long, integer targets int (as documented in libast.h); LP64',
                   'argc < 65536 and fewer than 65535 words in one --list=VALUE (unsigned short counters in handle_arglist)',
                   '"C" locale (isspace, strcasecmp)',
                   'every non-NULL value pointer of the table points to a live variable of the kind the type dispatch selects; '
                   'boolean, string, integer options and options handled on this pass have a non-NULL value pointer unless the '
                   'parser checks it (it checks for value-taking and abstract options only)',
                   'the help handler either returns or leaves the parser for good (longjmp / exit)']

    MANIFEST = dict(
        technique='Rocq theorems about an executable Gallina model of spifopt_parse + extracted-model/implementation correspondence check',
        text=('Rocq theorems about a Gallina mirror of spifopt_parse (cursor macros NEXT_ARG/NEXT_LETTER/NEXT_LOOP, lookups, value '
              'discovery, boolean/abstract/no-value filter, typed handlers, CHECK_BAD with its 8 bit counter, argv compaction) in which '
              'every character, argv, table and target access is bounds-checked. Proved in full, closed under the global context: '
              'C08_parse_total_safe (EVERY argv of arbitrary bytes, every table whose value pointers are valid and whose booleans have '
              'one, all settings: with fuel 1 + sum(length arg + 2) the result is Ok - termination, no access outside argv / the '
              'strings incl. terminator / table / targets / own arrays - and bad_opts = (start + number of CHECK_BADs) mod 256, without '
              'wrap when the handler does not return and the limit is < 255); C08_bool_mask_only (whole parse: bits outside the masks '
              'of the boolean options aimed at a target, and targets of other kinds no option is aimed at, are unchanged) and '
              'C08_handle_boolean_exact (one option: old|mask, old&~mask or untouched, nothing else written); C08_parse_round_trip (all '
              'tables, all spelling lists meeting the decidable side conditions sps_ok, all four {preparse, remove_args} settings: '
              'parse(render sps) returns normally with targets = ideal reading, no bad option, argv = prog :: words ++ NULL under '
              'removal and untouched otherwise) for ALL ten spelling kinds (-x, -xyz, -xV, -x V, --l, --l=V, --l V, --l WORD, '
              'arglist-rest, word incl. lone "-"); C08_parse_twice_round_trip for the pre-parse + normal sequence. Not covered by the '
              'round trip: abstract options written without a value (whether the next word is taken depends on is_valid_option), '
              '-lVALUE for argument lists, options with several type bits; parse_total_safe is for one call (the two-call sequence is '
              'tested, not proved safe). Decided by the correspondence check only: that the model mirrors src/options.c (extracted '
              'OCaml model vs ASan/UBSan build on exhaustively enumerated argument vectors over a token alphabet, five tables, all '
              'settings, two-pass sequence; spelling lists rendered and compared with the extracted `ideal`), word splitting of '
              '--list=VALUE (spiftool_num_words/get_word sub-models, owned by C12), strtol, the deprecation warning path. Constants '
              '(flag bits, masks, boolean words, counter width) are regenerated from the headers on every run (C08_source_shape).'),
        design_ref='DESIGN.md section 7, C08')

    # ------------------------------------------------------------------------------
    # A tree that fails the corpus or a small sample fails thousands of generated cases, and every
    # sanitizer abort or hang costs a harness restart.  build_impl() therefore runs the corpus and a
    # sample of the generated cases first; if these already disagree with the model, gen() returns
    # the sample only and the failing inputs found there are reported.
    degraded = False
    sample = None

    def build_impl(self):
        import os, random
        # stack symbolisation makes a sanitizer abort ten times as expensive and is not used by
        # vlib.classify_crash (process-local change: only this check's run is affected)
        if 'symbolize=0' not in vlib.SAN_ENV['ASAN_OPTIONS']:
            vlib.SAN_ENV['ASAN_OPTIONS'] += ':symbolize=0'
        exe, log = vlib.build_impl(self.id.lower(), os.path.join(vlib.VERIF, 'harness', self.harness), **self.impl_kwargs)
        self.degraded = False
        model = os.path.join(vlib.BUILD, '%s_model' % self.family)
        if exe and os.path.exists(model):
            cases = []
            cdir = os.path.join(vlib.VERIF, 'corpus', self.id)
            if os.path.isdir(cdir):
                for fn in sorted(os.listdir(cdir)):
                    with open(os.path.join(cdir, fn)) as f:
                        cases += [l.rstrip('\n') for l in f if l.strip() and not l.startswith('//')]
            allc = self.gen_all('quick', random.Random(4711))
            r = random.Random(4712)
            self.sample = [allc[r.randrange(len(allc))] for _ in range(400)]
            cases += self.sample
            mo, io, det = vlib.run_pair(self, model, exe, cases, 'smoke')
            if vlib.compare(self, cases, mo, io):
                self.degraded = True
        return exe, log

    def gen(self, tier, rng):
        if self.degraded:
            return list(self.sample)
        return self.gen_all(tier, rng)

    def settings(self, rng, pre, rm):
        allow = rng.choice([0, 1, 3, 3, 9, 255])
        ret = rng.choice([0, 0, 1])
        bad0 = rng.choice([0, 0, 0, 2, 254, 255])
        binit = rng.choice(['0', '0', 'ffffffffffffffff', 'a5a5a5a5f0f0f0f0', '8000000080000000'])
        return '%d %d %d %d %d %s' % (pre, rm, allow, ret, bad0, binit)

    def case(self, rng, tname, toks, pre, rm):
        return 'parse %s %s %s' % (self.settings(rng, pre, rm), ','.join(TABLES[tname]) or '-',
                                   ','.join(hx(a) for a in ['prog'] + list(toks)))

    def gen_all(self, tier, rng):
        cases = []
        quick = tier == 'quick'
        passes = [(0, 0), (0, 1), (1, 0), (1, 1)]
        # 1. exhaustive: main table, core alphabet, all four settings
        n_core = 3 if quick else 4
        for n in range(0, n_core + 1):
            for toks in itertools.product(CORE, repeat=n):
                for (pre, rm) in passes:
                    cases.append(self.case(rng, 'main', toks, pre, rm))
        # 2. exhaustive length <= 2 over the full alphabet, every table; two-pass sequence included
        full = CORE + MORE
        for tname in TABLES:
            for n in (1, 2):
                for toks in itertools.product(full, repeat=n):
                    if n == 2 and quick and tname != 'main' and rng.random() < 0.75:
                        continue
                    pre, rm = rng.choice(passes + [(2, 0), (2, 1)])
                    cases.append(self.case(rng, tname, toks, pre, rm))
        if not quick:
            # thorough: every vector of three tokens over the full alphabet, main table
            for toks in itertools.product(full, repeat=3):
                pre, rm = rng.choice(passes + [(2, 1)])
                cases.append(self.case(rng, 'main', toks, pre, rm))
        # 3. exhaustive over the mini alphabet: length 4 (quick) / 5 (thorough), other tables too
        n_mini = 4 if quick else 5
        for toks in itertools.product(MINI, repeat=n_mini):
            if quick and rng.random() < 0.6:
                continue
            pre, rm = rng.choice(passes + [(2, 1)])
            cases.append(self.case(rng, rng.choice(['main', 'main', 'pplist', 'short']), toks, pre, rm))
        # 4. random longer vectors over everything
        for _ in range(3000 if quick else 120000):
            n = rng.choice([3, 4, 5, 6, 8, 12, 20])
            toks = [rng.choice(full) for _ in range(n)]
            pre, rm = rng.choice(passes + [(2, 0), (2, 1)])
            cases.append(self.case(rng, rng.choice(list(TABLES)), toks, pre, rm))
        # 5. spelling lists against the ideal reading
        cases += self.gen_spell_cases(tier, rng)
        # 6. the helpers behind handle_arglist / handle_integer, against their sub-models
        walpha = ['a', 'b', ' ', '\t', '"', "'", '\\', '\xa0']
        for n in range(0, 5 if quick else 7):
            for t in itertools.product(walpha, repeat=n):
                if n >= 4 and rng.random() < (0.8 if quick else 0.5):
                    continue
                s = ''.join(t)
                cases.append('numwords %s' % hx(s))
                for k in range(1, 4):
                    cases.append('getword %d %s' % (k, hx(s)))
        for s in ['', '0', '-0', '7', '-7', '+7', ' 7', '\t-12x', '0x1F', '0X1f', '0x', '0xg', '-0x10', '010', '08', '0778',
                  '2147483647', '2147483648', '-2147483648', '-2147483649', '4294967295', '4294967296', '9223372036854775807',
                  '9223372036854775808', '-9223372036854775808', '-9223372036854775809', '99999999999999999999999',
                  '0x7fffffffffffffff', '0xffffffffffffffff', '0x10000000000000000', '01777777777777777777777', 'abc', '-', '+',
                  '--5', '+-5', '1 2', '\x0b\x0c\r\n 5', '\xa05', '0b11', '1e3', '0x-1', '00x1']:
            cases.append('strtol %s' % hx(s))
        for _ in range(300 if quick else 5000):
            s = ''.join(rng.choice('0123456789abcdefxX+- \t9z') for _ in range(rng.choice([1, 2, 3, 5, 12, 22])))
            cases.append('strtol %s' % hx(s))
        return cases

    # ---- spelling lists: rendered here, read back by the model driver, which answers with the
    # ideal reading (Coq `ideal`) after checking `render` and the side conditions `sps_ok` ----
    BOOLWORDS = ['1', 'on', 'true', 'yes', '0', 'off', 'false', 'no', 'TRUE', 'No', 'oFF']

    def gen_spelling_list(self, rng, tname):
        d = DESCR[tname]
        def kinds(o): return set(o[2].split('|')) if o[2] else set()
        flags = [o for o in d if not (kinds(o) & {'int', 'str', 'args', 'abst'})]
        values = [o for o in d if kinds(o) & {'int', 'str', 'abst'} and o[3] != '-']
        lists = [o for o in d if 'args' in kinds(o) and o[3] != '-']
        bools = [o for o in d if 'bool' in kinds(o)]
        def case_mix(name):
            return ''.join(c.upper() if rng.random() < 0.2 else c for c in name)
        def value_for(o):
            k = kinds(o)
            if 'int' in k:
                return rng.choice(['5', '-7', '0x1f', '', '010', ' 12', '99999999999', 'x'])
            if 'str' in k:
                return rng.choice(['v', '', '-x', '--alpha', 'a=b', 'no', 'two words', '-'])
            return rng.choice(['v', '', 'x-y', 'a b', '=', 'no'])           # abstract: must not start with '-'
        n = rng.choice([1, 1, 2, 3, 4, 6])
        sps = []      # (token, rendered args, is-long-bool-flag)
        for pos in range(n):
            last = pos == n - 1
            c = rng.random()
            if c < 0.18:
                w = rng.choice(['w', 'word', '', '-', 'x y', 'a=b', 'false', '1', 'no', '\xe9'])
                sps.append(('W:' + hx(w), [w], False, w))
            elif c < 0.32 and [o for o in flags if o[0]]:
                o = rng.choice([o for o in flags if o[0]])
                sps.append(('F:%02x' % ord(o[0]), ['-' + o[0]], False, None))
            elif c < 0.42 and [o for o in flags if o[0]]:
                xs = ''.join(rng.choice([o for o in flags if o[0]])[0] for _ in range(rng.choice([1, 2, 3, 5])))
                sps.append(('B:' + hx(xs), ['-' + xs], False, None))
            elif c < 0.52 and [o for o in values if o[0]]:
                o = rng.choice([o for o in values if o[0]])
                v = value_for(o)
                if v == '':
                    v = 'q'
                sps.append(('A:%02x:%s' % (ord(o[0]), hx(v)), ['-' + o[0] + v], False, None))
            elif c < 0.62 and [o for o in values if o[0]]:
                o = rng.choice([o for o in values if o[0]])
                v = value_for(o)
                sps.append(('S:%02x:%s' % (ord(o[0]), hx(v)), ['-' + o[0], v], False, None))
            elif c < 0.72 and flags:
                o = rng.choice(flags)
                l = case_mix(o[1])
                sps.append(('f:' + hx(l), ['--' + l], 'bool' in kinds(o), None))
            elif c < 0.80 and values:
                o = rng.choice(values)
                l, v = case_mix(o[1]), value_for(o)
                if rng.random() < 0.5:
                    sps.append(('e:%s:%s' % (hx(l), hx(v)), ['--' + l + '=' + v], False, None))
                else:
                    sps.append(('s:%s:%s' % (hx(l), hx(v)), ['--' + l, v], False, None))
            elif c < 0.88 and bools:
                o = rng.choice(bools)
                l, w = case_mix(o[1]), rng.choice(self.BOOLWORDS)
                if rng.random() < 0.5:
                    sps.append(('b:%s:%s' % (hx(l), hx(w)), ['--' + l, w], False, None))
                else:
                    sps.append(('e:%s:%s' % (hx(l), hx(w)), ['--' + l + '=' + w], False, None))
            elif c < 0.93 and lists:
                o = rng.choice(lists)
                l, v = case_mix(o[1]), rng.choice(['a b c', '', 'one', '"a b" c', " x  'y z' ", 'a\\"b'])
                sps.append(('e:%s:%s' % (hx(l), hx(v)), ['--' + l + '=' + v], False, None))
            elif last and lists:
                o = rng.choice(lists)
                ws = [rng.choice(['w', '-a', '--alpha', '', 'x y', '-']) for _ in range(rng.choice([1, 2, 4]))]
                if o[0] and rng.random() < 0.5:
                    sps.append(('Rs:%02x:%s' % (ord(o[0]), ';'.join(hx(w) for w in ws)), ['-' + o[0]] + ws, False, None))
                else:
                    l = case_mix(o[1])
                    sps.append(('Rl:%s:%s' % (hx(l), ';'.join(hx(w) for w in ws)), ['--' + l] + ws, False, None))
            else:
                sps.append(('W:' + hx('w'), ['w'], False, 'w'))
        # side condition of LongFlag on a boolean: the next argument must not read as a boolean word
        out = []
        for k, sp in enumerate(sps):
            if sp[2] and k + 1 < len(sps):
                nxt = sps[k + 1][1][0]
                if nxt.lower() in ('1', 'on', 'true', 'yes', '0', 'off', 'false', 'no'):
                    out.append(('W:' + hx('sep'), ['sep'], False, 'sep'))
                    continue
            out.append(sp)
        return out

    def gen_spell_cases(self, tier, rng):
        cases = []
        for _ in range(6000 if tier == 'quick' else 150000):
            tname = rng.choice(['main', 'main', 'pplist', 'short'])
            sps = self.gen_spelling_list(rng, tname)
            args = ['prog'] + [a for sp in sps for a in sp[1]]
            pre, rm = rng.choice([(0, 0), (0, 1), (1, 0), (1, 1), (2, 0), (2, 1)])
            cases.append('spell %s %s %s %s' % (self.settings(rng, pre, rm), ','.join(TABLES[tname]),
                                               ','.join(hx(a) for a in args), ','.join(sp[0] for sp in sps)))
        return cases

    def search_gen(self, tier, rng):
        if self.degraded:
            return [self.sample[rng.randrange(len(self.sample))] for _ in range(200)] + self.gen_all('quick', rng)[:3000]
        return self.gen_all('quick', rng)

    # level A: everything but the stale argv slots behind the first NULL
    def split(self, case, out):
        if case.startswith('spell '):
            # the ideal reading says nothing about the stale slots behind the first NULL
            m = re.match(r'^(.* argv=)(.*)$', out)
            if not m:
                return out, ''
            parts = m.group(2).split(',')
            if 'N' in parts[1:]:
                return m.group(1) + ','.join(parts[:parts.index('N', 1) + 1]), ''
            return out, ''
        m = re.match(r'^(.* argv=)(.*)$', out)
        if not m:
            return out, ''
        parts = m.group(2).split(',')
        if 'N' in parts[1:]:
            k = parts.index('N', 1)
            return m.group(1) + ','.join(parts[:k + 1]), ','.join(parts[k + 1:])
        return out, ''

    def nontrivial(self, case, mout):
        if mout.startswith('FAULT'):
            return False
        t = case.split(' ')
        if t[0] != 'parse' and t[0] != 'spell':
            return True
        args = t[8].split(',')
        idle = 'ok bad=%s helps=0 fl=%d B=%s I=%s S=N,N,N,N L=N,N,N,N A=- argv=%s,N' % (
            t[5], (2 if t[2] != '0' else 0), ','.join([t[6].lstrip('0') or '0'] * 4), ','.join(['23130'] * 4), ','.join(args))
        return mout != idle


CHECK = C08()
MANIFEST = C08.MANIFEST
