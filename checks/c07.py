"""C07: mbuff objects are faithful byte-sequence values under any history (src/mbuff.c)."""
import itertools
import vlib
import bigsize

INC = 4096          # only used to aim sizes at the chunk boundary; the model takes the real value from Gen/Constants.v
SIZES_BIG = [4095, 4096, 4097, 3 * 4096 + 5]
SPACE = [9, 10, 11, 12, 13, 32]
SMALL = [0, 32, 9, 10, 0x61, 0x62, 0xff, 0x80]
KMAX = 14


def pow2_lengths(kmax=KMAX):
    """0 and every 2^k - 1, 2^k, 2^k + 1 for k <= kmax: the sizes at which fixed local buffers, chunked
    growth and doubling strategies change path"""
    s = set()
    for k in range(kmax + 1):
        s.update([2 ** k - 1, 2 ** k, 2 ** k + 1])
    return sorted(s)


def pat_bytes(n, salt=0):
    """n bytes walking through all 256 values (position-dependent, so a shifted or dropped byte shows)"""
    return [(i * 131 + salt * 29 + n) & 255 for i in range(n)]


def pat_text(n, salt=0):
    """n NUL-free bytes (a C string for the %s argument of sprintf), all 255 other values"""
    return [1 + ((i * 131 + salt * 29 + n) % 255) for i in range(n)]


def hx(bs):
    return ''.join('%02x' % b for b in bs) or '-'


# ---------------------------------------------------------------------------------------
# the generator's own bookkeeping of the byte sequence (to aim indices at the current length
# and to keep pointer/length arguments inside the caller's block); not used as an oracle
# ---------------------------------------------------------------------------------------
def norm_splice(ln, idx, cnt):
    if idx < 0:
        idx = ln + idx
    if idx < 0 or idx >= ln:
        return None
    if cnt < 0:
        cnt = idx + ln + cnt
    if cnt < 0 or cnt > ln - idx:
        return None
    return idx, cnt


def isspace(b):
    return b in SPACE


def trim(s):
    i, j = 0, len(s)
    while i < j and isspace(s[i]):
        i += 1
    while j > i and isspace(s[j - 1]):
        j -= 1
    return s[i:j]


class Gen:
    def __init__(self, rng):
        self.rng = rng

    def byte(self):
        r = self.rng
        return r.choice(SMALL) if r.random() < 0.7 else r.randrange(256)

    def bytes_(self, n):
        return [self.byte() for _ in range(n)]

    def small_len(self):
        r = self.rng
        if r.random() < 0.02:
            # a power of two or a neighbour, up to 1025 (the long ones have their own stratum)
            return r.choice([x for x in pow2_lengths(10) if x >= 15])
        return r.choice([0, 0, 1, 1, 2, 3, 4, 5, 7, 8, 16])

    def other(self, bs=None):
        """token for an `other` object and its bytes"""
        r = self.rng
        x = r.random()
        if bs is None and x < 0.08:
            return 'N', None
        if bs is None and x < 0.16:
            return 'E', []
        if bs is None:
            bs = self.bytes_(self.small_len())
        return '%s+%d' % (hx(bs), r.choice([0, 0, 0, 1, 3, 9])), bs

    def ptr(self, bs=None):
        """(token, n, bytes delivered)"""
        r = self.rng
        if bs is None and r.random() < 0.08:
            return 'N', r.choice([0, 1, 3]), None
        if bs is None:
            bs = self.bytes_(self.small_len())
        n = len(bs) if r.random() < 0.8 else r.randrange(len(bs) + 1)
        return hx(bs), n, bs[:n]

    def around(self, ln):
        return self.rng.randrange(-ln - 2, ln + 3)

    def present_needle(self, s):
        r = self.rng
        if not s or r.random() < 0.35:
            return self.bytes_(r.choice([0, 1, 1, 2, 3]))
        i = r.randrange(len(s))
        j = min(len(s), i + r.choice([1, 1, 2, 3, 5]))
        return s[i:j]

    def op(self, s, big=False):
        """one operation token for the current sequence s; returns (token, new s)"""
        r = self.rng
        ln = len(s)
        kinds = ['ap', 'app', 'pp', 'ppp', 'spl', 'splp', 'sub', 'subp', 'trim', 'rev', 'clr', 'spf', 'cmp', 'cmpp',
                 'ncmp', 'ncmpp', 'find', 'findp', 'idx', 'ridx', 'glen', 'gsize', 'slen', 'ssize', 'done', 'dup', 'dupto']
        weights = [8, 8, 6, 6, 8, 8, 5, 4, 4, 4, 2, 2, 5, 4, 4, 3, 5, 4, 6, 6, 1, 1, 1, 0, 1, 2, 2]
        if big:
            # the model's byte loops walk a list from its head on every access (quadratic): keep them rare on long buffers
            weights[kinds.index('rev')] = 0.2
            weights[kinds.index('idx')] = 1
            weights[kinds.index('ridx')] = 1
        k = r.choices(kinds, weights)[0]
        if k == 'ap' or k == 'pp':
            t, o = self.other()
            if o is None:
                return '%s:%s' % (k, t), s
            return '%s:%s' % (k, t), (s + o if k == 'ap' else o + s)
        if k == 'app' or k == 'ppp':
            t, n, o = self.ptr()
            if o is None:
                return '%s:%s:%d' % (k, t, n), s
            return '%s:%s:%d' % (k, t, n), (s + o if k == 'app' else o + s)
        if k == 'spl':
            idx, cnt = self.around(ln), self.around(ln)
            if r.random() < 0.5 and ln:
                idx = r.randrange(ln)
                cnt = r.randrange(ln - idx + 1)
            t, o = self.other()
            ins = o or []
            p = norm_splice(ln, idx, cnt)
            tok = 'spl:%d:%d:%s' % (idx, cnt, t)
            return tok, (s if p is None else s[:p[0]] + ins + s[p[0] + p[1]:])
        if k == 'splp':
            idx, cnt = self.around(ln), self.around(ln)
            if r.random() < 0.5 and ln:
                idx = r.randrange(ln)
                cnt = r.randrange(ln - idx + 1)
            t, n, o = self.ptr()
            ins = o or []
            p = norm_splice(ln, idx, cnt)
            tok = 'splp:%d:%d:%s:%d' % (idx, cnt, t, n)
            return tok, (s if p is None else s[:p[0]] + ins + s[p[0] + p[1]:])
        if k in ('sub', 'subp'):
            return '%s:%d:%d' % (k, self.around(ln), self.around(ln)), s
        if k == 'trim':
            return 'trim', trim(s)
        if k == 'rev':
            return 'rev', s[::-1]
        if k == 'clr':
            c = self.byte()
            return 'clr:%d' % c, [c] * ln
        if k == 'spf':
            x = r.random()
            if x < 0.1:
                return 'spf:N', []
            if x < 0.2:
                return 'spf:E', []
            if x < 0.3:
                return 'spf:S-', []
            if r.random() < 0.15:
                # exact output length on a power-of-two boundary (NUL-free by construction)
                n = r.choice([x for x in pow2_lengths(11) if x >= 1])
                a = pat_text(n, r.randrange(7))
            else:
                a = [b for b in self.bytes_(r.choice([1, 2, 5, 9])) if b != 0]
            if x < 0.5:
                b2 = [b for b in self.bytes_(r.choice([0, 1, 3])) if b != 0]
                return 'spf:Z%s,%s' % (hx(a), hx(b2)), a + [0] + b2
            if not a:
                return 'spf:S-', []
            return 'spf:S%s' % hx(a), a
        if k == 'cmp':
            x = r.random()
            if x < 0.3:
                o = list(s)
            elif x < 0.5:
                o = s[:r.randrange(ln + 1)]
            elif x < 0.7:
                o = s + self.bytes_(r.choice([1, 2]))
            else:
                o = None
            if o is not None and o and r.random() < 0.3:
                j = r.randrange(len(o))
                o[j] = self.byte()
            t, _ = self.other(o)
            return 'cmp:%s' % t, s
        if k == 'ncmp':
            o = s[:r.randrange(ln + 1)] + self.bytes_(r.choice([0, 0, 1, 2]))
            t, ob = self.other(o if r.random() < 0.85 else None)
            return 'ncmp:%s:%d' % (t, self.around(max(ln, len(ob or [])))), s
        if k in ('cmpp', 'ncmpp'):
            # the count must not exceed the buffer's length nor the caller's block (documented contract)
            n = r.randrange(ln + 1)
            if r.random() < 0.5:
                n = ln
            o = s[:n]
            if o and r.random() < 0.4:
                o[r.randrange(len(o))] = self.byte()
            if r.random() < 0.05:
                return '%s:N:%d' % (k, n), s
            o = o + self.bytes_(r.choice([0, 0, 2]))
            return '%s:%s:%d' % (k, hx(o), n), s
        if k == 'find':
            t, _ = self.other(self.present_needle(s) if r.random() < 0.9 else None)
            return 'find:%s' % t, s
        if k == 'findp':
            nd = self.present_needle(s)
            if r.random() < 0.05:
                return 'findp:N:0', s
            extra = self.bytes_(r.choice([0, 0, 1]))
            return 'findp:%s:%d' % (hx(nd + extra), len(nd)), s
        if k in ('idx', 'ridx'):
            if s and r.random() < 0.5:
                c = r.choice(s)
            else:
                absent = [b for b in (SMALL + [1, 2, 0x7f]) if b not in s]
                c = r.choice(absent) if absent else self.byte()
            return '%s:%d' % (k, c), s
        if k == 'slen':
            n = r.randrange(ln + 1)
            return 'slen:%d' % n, s[:n]
        if k == 'done':
            return 'done', []
        return k, s          # glen gsize dup dupto

    def ctor(self, size=None):
        """(name, args, bytes)"""
        r = self.rng
        k = r.choice(['new', 'ptr', 'ptr', 'buff', 'buff', 'fd', 'fd', 'fp', 'fp'])
        n = self.small_len() if size is None else size
        bs = self.bytes_(n)
        if k == 'new':
            return 'new', '-', []
        if k == 'ptr':
            if r.random() < 0.05:
                return 'ptr', 'N:%d' % n, []
            m = n if r.random() < 0.8 else r.randrange(n + 1)
            return 'ptr', '%s:%d' % (hx(bs), m), bs[:m]
        if k == 'buff':
            if r.random() < 0.08:
                return 'buff', 'N:%d:%d' % (n, r.choice([0, 1, n, n + 5])), []
            m = n if r.random() < 0.8 else r.randrange(n + 1)
            return 'buff', '%s:%d:%d' % (hx(bs), m, r.choice([0, m, m, m + 1, m + 7, max(0, m - 1)])), bs[:m]
        return self.desc(k, bs)

    def desc(self, k, bs, natural=None, kind=None, pos=None):
        """a descriptor constructor delivering exactly bs (no error events)"""
        r = self.rng
        if kind is None:
            kind = r.choice(['P', 'R'])
        if natural is None:
            natural = r.random() < 0.4
        if kind == 'R':
            if pos is None:
                pos = r.choice([0, 0, 0, 1, 3])
            kind = 'R%d' % pos
        if natural:
            sched = 'D' + hx(bs) if bs else '-'
            return k, '%s:n:%s' % (kind, sched), bs
        if kind[0] == 'R':
            # one read of the file size: a single chunk keeps the sequence whole
            sched = ('D' + hx(bs) + (',E' if r.random() < 0.5 else '')) if bs else r.choice(['-', 'E'])
            return k, '%s:w:%s' % (kind, sched), bs
        ev = []
        rest = list(bs)
        while rest:
            x = r.random()
            if x < 0.15 and k == 'fd':
                ev.append('I')
                continue
            c = r.choice([1, 2, 3, len(rest), INC, INC - 1, INC + 1, max(1, len(rest) // 2)])
            c = max(1, min(c, len(rest)))
            ev.append(('D' if r.random() < 0.5 else 'S') + hx(rest[:c]))
            rest = rest[c:]
        if r.random() < 0.6:
            ev.append(r.choice(['E', 'E', 'X']))
            if r.random() < 0.3:
                ev.append('D' + hx(self.bytes_(2)))      # never delivered: after end of file / error
        return k, '%s:w:%s' % (kind, ','.join(ev) or '-'), bs


ALL_NULL_OPS = ['done', 'dup', 'ap:6162+0', 'ap:N', 'app:6162:2', 'pp:61+1', 'ppp:61:1', 'spl:0:0:61+0', 'splp:0:0:61:1',
                'sub:0:1', 'subp:0:1', 'trim', 'rev', 'clr:7', 'spf:S61', 'cmp:N', 'cmp:61+0', 'cmpp:N:0', 'cmpp:61:1',
                'ncmp:N:1', 'ncmp:61+0:1', 'ncmpp:61:1', 'find:61+0', 'findp:61:1', 'idx:97', 'ridx:97']


class C07(vlib.PropertyCheck):
    id = 'C07'
    family = 'c07'
    harness = 'c07.c'
    # own sanitizer flags: the shared build puts -fsanitize=... after cflags, which would switch UBSan's
    # nonnull-attribute check back on.  That check is off here on purpose: memcpy/memset/memcmp/memmem with
    # length 0 and a NULL pointer touch no byte (the model's libc treats them as no-ops); NULL arguments are C16.
    SAN = ('-fsanitize=address,undefined', '-fno-sanitize-recover=all', '-fno-sanitize=nonnull-attribute')
    impl_kwargs = dict(sanitize=False, cflags=SAN, ldflags=('-fsanitize=address,undefined', '-Wl,--wrap=read'))
    case_timeout = 300
    nontrivial_rule = ('one case = one history (constructor + 0..40 operations, or one method on a NULL self); non-trivial when the '
                       'model does not fault and at least one operation after the constructor produced a result (success, new object, '
                       'index or comparison value); distinct = distinct case lines.  Index/count arguments are drawn from -len-2..len+2 '
                       '(exhaustively for len <= 3 resp. 5), sizes from {0,1,small,4095,4096,4097,12293}, bytes from all 256 values; every '
                       'length-driven operation (sprintf output, append/prepend/splice text, constructor length and size, stream total '
                       'and chunk length, subbuff count, compare/find/clear/trim length) additionally at 2^k-1, 2^k, 2^k+1 for every k <= 14')
    assumptions = ['(pointer, length) arguments describe a readable caller block of at least that many bytes, length >= 0',
                   'cmp_with_ptr / ncmp_with_ptr: the answer is specified for counts up to the buffer length (any count when size = len); between len and size the code compares spare cells (the unedited suite relies on that), above size it stops at the allocation',
                   'set_len only truncates, set_size is not used to misstate the allocation',
                   'self and other are distinct objects (aliasing and ownership belong to C05/C06)',
                   'object sizes below 2^31 for the model runs ("C" locale; malloc does not fail); lengths of 2^31-1 up to 3*2^31+5 are tied on the '
                   'implementation side only, for the comparison family and index / rindex / find, against the ideal answers computed '
                   'from (length, offset of the one differing byte) - the extracted model is too slow there',
                   'kernel read()/lseek() and stdio fread()/fseek()/ftell() behave as modelled (schedule semantics in MbuffModel.v)']

    MANIFEST = dict(
        technique='Rocq theorems about an executable Gallina model of src/mbuff.c + extracted-model/implementation correspondence check',
        text=('Full theorems (Properties/C07.v, all closed under the global context): C07_mbuff_refines - for every constructor '
              '(new, from_ptr, from_buff, from_fp and from_fd on seekable and non-seekable inputs with an arbitrary read schedule of '
              'Data/Short/EINTR/EOF/Err events) and EVERY finite operation list inside the caller contracts, by induction over the list: '
              'the model never faults (C07_mbuff_no_fault), every output and the final bytes/length equal those of the ideal list-of-bytes '
              'sequence (all 256 values, no terminator) and the invariant NULL/0/0 or 0 <= len <= size = allocation with cells [0,len) '
              'initialised holds; C07_mbuff_step (one lemma per method: done, dup, append*, prepend*, splice*, subbuff*, trim, reverse, '
              'clear, sprintf, cmp, ncmp, cmp_with_ptr/ncmp_with_ptr, find*, index, rindex, get_len, set_len); '
              'C07_mbuff_refused_unchanged / _outside_is_refused (positions outside the sequence leave the object identical); '
              'C07_mbuff_absent_is_len, _present_position, _find_first (index/rindex/find answers); C07_mbuff_cmp_total_order, '
              '_cmp_is_lex, _ncmp_is_lex, _cmp_with_ptr_is_lex (unsigned lexicographic total order, proper prefix strictly less; reused by C05); '
              'C07_mbuff_stream_chunks, _stream_bytes_concat, _ctor (readers deliver the concatenation of the chunks for all lengths, both paths). '
              'C07_mbuff_cmp_with_ptr_exact_size (counts above the length on an object without spare cells).  Nothing is _partial.  Outside the '
              'theorems by stated contract: set_size (raw capacity write), cmp_with_ptr/ncmp_with_ptr with a count between len and size (the code '
              'compares spare cells there; the unedited suite relies on it), set_len used to extend, aliasing self == other, spif_mbuff_show, allocation '
              'failure; sizes >= 2^31 are inside the theorems but the extracted model is not run there - cmp, ncmp, cmp_with_ptr, ncmp_with_ptr, index, '
              'rindex, find and find_from_ptr are run on hand-built objects of 2^31-1 .. 3*2^31+5 bytes over sparse zero mappings and compared with the '
              'ideal sequence\'s answers (harness/bigmap.h), and so are subbuff / subbuff_to_ptr (short pieces at positions beyond 2^31) and reverse '
              '(spif_mbuff_reverse indexed with int and left such buffers unreversed: repaired in src/mbuff.c), and short histories of new_from_ptr, '
              'append*, prepend*, splice*, subbuff, reverse, dup, clear and trim on real heap objects of that size, every byte checked after every '
              'step against an ideal kept as (length, fill, marked positions); sprintf and the stream constructors are not run at those sizes.  Decided by the correspondence check only: that src/mbuff.c is the modelled function (level A: return '
              'values, len, bytes, size >= len, allocation >= size via __sanitizer_get_allocated_size, sanitizer silence; level B: exact size), '
              'vsnprintf (outputs of every length 2^k-1, 2^k, 2^k+1 up to 16385, first and later use), the kernel and stdio behaviour behind the '
              'read schedules (real pipes and regular files under build/work/c07), and the '
              'NULL-self answers.  libc (memcpy/memmove/memset/memcmp/memmem with length 0 touch nothing), malloc/realloc/free are modelled, not verified.'),
        design_ref='DESIGN.md section 7, C07')

    # ---------------------------------------------------------------------------------
    def gen(self, tier, rng):
        g = Gen(rng)
        quick = (tier == 'quick')
        cases = []

        # 1. methods on a NULL self
        for o in ALL_NULL_OPS:
            cases.append('null - %s' % o)

        # 2. every index/count pair around a short sequence, all four position-taking methods
        for ln in range(0, 4 if quick else 6):
            s = [0x61 + i for i in range(ln)]
            base = 'ptr %s:%d' % (hx(s), ln)
            rg = range(-ln - 2, ln + 3)
            for idx in rg:
                for cnt in rg:
                    cases.append('%s sub:%d:%d subp:%d:%d' % (base, idx, cnt, idx, cnt))
                    cases.append('%s spl:%d:%d:5859+1 glen' % (base, idx, cnt))
                    cases.append('%s splp:%d:%d:5859:2 spl:%d:%d:N' % (base, idx, cnt, idx, cnt))
        # 3. comparison family on all pairs of short sequences over {0, 1, 255}
        strs = [list(t) for l in range(0, 3 if quick else 4) for t in itertools.product([0, 1, 255], repeat=l)]
        for a in strs:
            for b in strs:
                ops = ['cmp:%s+%d' % (hx(b), rng.choice([0, 2]))]
                for n in range(-1, max(len(a), len(b)) + 2):
                    ops.append('ncmp:%s+0:%d' % (hx(b), n))
                for n in range(0, min(len(a), len(b)) + 1):
                    ops.append('cmpp:%s:%d' % (hx(b), n))
                    ops.append('ncmpp:%s:%d' % (hx(b), n))
                cases.append('buff %s:%d:%d %s' % (hx(a), len(a), len(a) + rng.choice([0, 1]), ' '.join(ops[:60])))
                # an object without spare cells: counts above its length, up to the caller's block
                if len(b) > len(a):
                    ops = ['%s:%s:%d' % (o, hx(b), n) for n in range(len(a) + 1, len(b) + 1) for o in ('cmpp', 'ncmpp')]
                    cases.append('ptr %s:%d %s' % (hx(a), len(a), ' '.join(ops[:60])))
        # 4. searches: every byte value, present and absent, first/last/only position; trim of every short blank pattern
        for c in range(256):
            s = [c ^ 0x55, c, (c + 1) & 255, c]
            cases.append('ptr %s:4 idx:%d ridx:%d idx:%d ridx:%d findp:%02x:1 findp:%02x%02x:2 clr:%d idx:%d'
                         % (hx(s), c, c, (c + 2) & 255, (c + 2) & 255, c, c, (c + 2) & 255, c, (c + 3) & 255))
            cases.append('ptr %s:1 idx:%d ridx:%d rev trim' % (hx([c]), (c + 1) & 255, (c + 1) & 255))
        for l in range(0, 4 if quick else 6):
            for t in itertools.product([32, 10, 0x61, 0], repeat=l):
                cases.append('buff %s:%d:%d trim glen trim' % (hx(t), l, l + (l % 2)))
        # the high-bit twins of the blanks (0xa0, 0x89..0x8d) are ordinary bytes for trim
        for l in range(1, 4 if quick else 5):
            for t in itertools.product([32, 10, 0x61, 0xa0, 0x8a, 0x89], repeat=l):
                if any(c >= 0x80 for c in t):
                    cases.append('buff %s:%d:%d trim glen trim' % (hx(t), l, l + (l % 2)))
        for c in SPACE:
            tw = c | 0x80
            cases.append('ptr %s:5 trim glen idx:%d ridx:%d findp:%02x:1' % (hx([c, tw, 0x61, tw, c]), c, tw, tw))
            cases.append('ptr %s:3 trim glen' % hx([tw, c, tw]))
        for name, args in (('new', '-'), ('buff', 'N:0:0'), ('buff', 'N:0:5'), ('buff', '-:0:0'), ('buff', '-:0:3'), ('ptr', '-:0'),
                           ('ptr', 'N:3'), ('fd', 'P:n:-'), ('fd', 'R0:n:-'), ('fp', 'P:n:-'), ('fp', 'R0:n:-')):
            for o in ['trim', 'rev', 'idx:0', 'ridx:0', 'clr:1', 'dup', 'dupto', 'done', 'find:E', 'find:-+0', 'findp:-:0',
                      'cmp:E', 'cmp:-+0', 'cmp:00+0', 'ncmp:E:0', 'sub:0:0', 'subp:0:0', 'spl:0:0:61+0', 'splp:0:0:61:1',
                      'ap:E', 'ap:-+4', 'pp:E', 'spf:E', 'spf:N', 'spf:S-', 'spf:S41', 'cmpp:-:0', 'glen', 'gsize']:
                cases.append('%s %s %s ap:6162+1 %s' % (name, args, o, o))

        # 5. descriptor constructors: every short schedule over a small event alphabet, both kinds, both APIs
        evs = ['D' + hx(g.bytes_(3)), 'S' + hx(g.bytes_(1)), 'D' + hx(g.bytes_(INC)), 'D' + hx(g.bytes_(INC + 1)),
               'S' + hx(g.bytes_(INC - 1)), 'I', 'E', 'X', 'D-']
        maxl = 2 if quick else 3
        for l in range(0, maxl + 1):
            for sc in itertools.product(evs, repeat=l):
                if not quick and l == 3 and rng.random() < 0.5:
                    continue
                s = ','.join(sc) or '-'
                for api in ('fd', 'fp'):
                    long_ = len(s) > 2000
                    tail = 'glen' if (long_ and rng.random() < 0.9) else 'glen idx:1 ridx:1'
                    cases.append('%s P:w:%s %s' % (api, s, tail))
                    if l <= 2:
                        cases.append('%s R%d:w:%s glen' % (api, rng.choice([0, 0, 2]), s))
        # natural delivery at the chunk boundaries, files read from offset 0, inside and at the end
        for n in [0, 1, 2, INC - 1, INC, INC + 1, 2 * INC, 2 * INC + 1] + SIZES_BIG:
            bs = g.bytes_(n)
            for api in ('fd', 'fp'):
                for kind, pos in (('P', None), ('R', 0), ('R', 1), ('R', 7)):
                    name, args, _ = g.desc(api, bs, natural=True, kind=kind, pos=pos)
                    rev = ' rev' if (n <= 2 or (n == INC + 1 and kind == 'P') or (not quick and pos == 7)) else ''
                    cases.append('%s %s glen ridx:%d app:7a:1%s' % (name, args, bs[-1] if bs else 0, rev))
                # positioned at end of file: nothing to read
                cases.append('%s R%d:n:- glen ap:61+0' % (api, max(n, 1)))

        # 6. capacity / size boundaries with the other constructors
        for n in [0, 1] + SIZES_BIG:
            bs = g.bytes_(n)
            absent = [b for b in range(256) if b not in bs][:1] or [0]
            tail = 'findp:%s:2 app:%s:%d spl:-1:1:%s+0 trim dupto ap:%s+3 glen' % (
                hx([absent[0], absent[0]]), hx(bs[:5] or [1]), len(bs[:5] or [1]), hx(bs[:3]), hx(bs[-4:]))
            scan = 'idx:%d ridx:%d ' % (absent[0], absent[0])
            rev = 'rev ' if (n <= INC + 1 or not quick) else ''
            cases.append('ptr %s:%d %s%s%s' % (hx(bs), n, scan, rev, tail))
            cases.append('buff %s:%d:%d %s%s' % (hx(bs), n, n + rng.choice([0, 1, INC]), scan, tail))
            cases.append('new - app:%s:%d %s' % (hx(bs), n, tail))
            cases.append('new - ppp:%s:%d pp:%s+1 %s' % (hx(bs), n, hx(bs), tail))


        # 6b. every length-driven operation at every power of two and its neighbours (2^k - 1, 2^k, 2^k + 1, k <= 14):
        #     sprintf output, append/prepend/splice texts, constructor lengths and sizes, stream totals and chunk
        #     lengths, subbuff counts, comparison/search/clear/trim lengths.  Both tiers run every operation at every
        #     length (measured cost: ~10 s); only reverse stops at 1025 (quick) / 4097 (thorough), the model's
        #     reverse being quadratic.
        cases += self.boundary_cases(rng, quick)

        # 7. random histories from every constructor
        nh = 5000 if quick else 250000
        for _ in range(nh):
            big = rng.random() < (0.01 if quick else 0.004)
            name, args, s = g.ctor(rng.choice(SIZES_BIG) if big else None)
            nops = rng.choice([1, 2, 3, 5, 8, 13, 21, 40]) if not big else rng.choice([1, 2, 4])
            toks = []
            for _ in range(nops):
                t, s = g.op(s, big=len(s) > 1500)
                toks.append(t)
                if len(s) > 3 * INC + 600:
                    break
            cases.append('%s %s %s' % (name, args, ' '.join(toks)))
        return cases


    # ---------------------------------------------------------------------------------
    def boundary_cases(self, rng, quick):
        cases = []
        lens = pow2_lengths()
        classes = ['prepend', 'splice', 'ctor', 'stream', 'sub', 'cmpfind', 'edit']
        pick = dict((c, rng.choice([12, 13, 14])) for c in classes)

        def on(cls, L):
            # measured: the whole stratum costs the model ~5 s and the ASan build ~4 s, so both tiers run all of it;
            # the rotation (one seed-chosen k in 12..14 per class) only applies when LV_C07_ROTATE is set
            if not quick or L <= 2049 or not vlib.os.environ.get('LV_C07_ROTATE'):
                return True
            k = pick[cls]
            return 2 ** k - 1 <= L <= 2 ** k + 1

        for L in lens:
            tb, tb2 = pat_bytes(L), pat_bytes(L, 3)
            t, t2 = pat_text(L), pat_text(L, 5)
            H, H2 = hx(tb), hx(tb2)
            scan = ' idx:0 ridx:0 findp:00:1' if L <= 4097 else ''
            # ---- sprintf: first use, later use (same / other length), embedded NUL, output longer by one argument
            if L >= 1:
                cases.append('new - spf:S%s glen%s' % (hx(t), scan))
                cases.append('ptr 616263:3 spf:S%s glen spf:S%s glen spf:S41 spf:S%s' % (hx(t), hx(t2), hx(t)))
                cases.append('buff %s:%d:%d spf:S%s glen app:7a:1' % (H, L, L + 1, hx(t2)))
                cases.append('new - spf:Z%s,%s glen' % (hx(t[:L // 2]), hx(t[L // 2 + 1:])))
                cases.append('new - spf:Z%s,- glen spf:Z-,%s glen' % (hx(t[:L - 1]), hx(t[:L - 1])))
            # ---- append (object and pointer form): onto nothing, onto a short text, onto a text of that length
            #      without spare cells, a text of that length onto itself-sized content, then one byte more
            cases.append('new - ap:%s+0 glen app:7a:1 glen' % H)
            cases.append('new - app:%s:%d glen ap:7a+0 glen' % (H, L))
            cases.append('ptr 6162:2 ap:%s+1 app:7a:1 glen' % H)
            cases.append('ptr 6162:2 app:%s:%d ap:7a7b+3 glen' % (H, L))
            cases.append('buff %s:%d:%d app:7a:1 ap:7b7c+0 glen' % (H, L, L))
            if L <= 8193:
                cases.append('ptr %s:%d app:%s:%d ap:%s+0 glen' % (H, L, H2, L, H))
            # the total (not the added text) lands on the boundary
            if L >= 3:
                cases.append('ptr %s:3 app:%s:%d glen' % (hx(tb[:3]), hx(tb[3:]), L - 3))
                cases.append('ptr %s:%d ap:%s+0 glen' % (hx(tb[:L - 2]), L - 2, hx(tb[L - 2:])))
            # ---- prepend
            if on('prepend', L):
                cases.append('new - pp:%s+0 glen ppp:7a:1 glen' % H)
                cases.append('new - ppp:%s:%d glen pp:7a+0 glen' % (H, L))
                cases.append('ptr 6162:2 ppp:%s:%d pp:%s+0 glen' % (H, L, hx(tb2[:3])))
                cases.append('buff %s:%d:%d ppp:7a:1 pp:%s+2 glen' % (H, L, L, H2))
            # ---- splice: insert L bytes, remove L bytes, replace L by L, result of length L
            if on('splice', L):
                cases.append('ptr 616263:3 spl:1:1:%s+0 glen spl:1:%d:N glen' % (H, L))
                cases.append('ptr 616263:3 splp:-1:0:%s:%d glen splp:2:%d:5a:1 glen' % (H, L, L))
                cases.append('ptr 58%s59:%d spl:1:%d:%s+1 glen spl:1:%d:N glen' % (H if L else '', L + 2, L, H2, L))
                cases.append('ptr 58%s59:%d splp:1:-1:%s:%d glen' % (H if L else '', L + 2, H2, L))
                if L >= 2:
                    cases.append('ptr %s:%d splp:1:1:%s:1 glen spl:0:0:E glen' % (H, L, hx(tb2[:1])))
            # ---- constructors: length and size arguments
            if on('ctor', L):
                cases.append('ptr %s:%d glen dup app:7a:1' % (H, L))
                for sz in sorted(set([0, max(0, L - 1), L, L + 1])):
                    cases.append('buff %s:%d:%d gsize app:7a:1 glen' % (H, L, sz))
                cases.append('buff %s:%d:%d glen app:7a:1' % (hx(tb + [1, 2]), L, L))
                cases.append('buff N:%d:%d gsize app:7a:1 glen' % (L, L))
                cases.append('buff -:0:%d gsize ap:%s+0 glen' % (L, hx(tb[:5])))
            # ---- streams: totals and chunk lengths, both APIs, pipes and files, natural and scheduled delivery
            if on('stream', L):
                for api in ('fd', 'fp'):
                    for kind in ('P', 'R0', 'R3'):
                        cases.append('%s %s:n:%s glen app:7a:1' % (api, kind, ('D' + H) if L else '-'))
                    if L >= 1:
                        cases.append('%s P:w:D%s,E glen' % (api, H))
                        cases.append('%s P:w:S%s,D%s,D%s,E glen' % (api, H, H2, hx(tb[:1])))
                        cases.append('%s P:w:D%s,S%s,S%s,X glen' % (api, hx(tb2[:3]), H, H2))
                        cases.append('%s R0:w:D%s,E glen' % (api, H))
                    if 2 <= L <= 8193:
                        # the total on the boundary, delivered in uneven pieces
                        cut = rng.randrange(1, L)
                        cases.append('%s P:w:S%s,%sD%s glen' % (api, hx(tb[:cut]), 'I,' if api == 'fd' else '', hx(tb[cut:])))
            # ---- subbuff counts
            if on('sub', L) and L >= 1:
                cases.append('ptr 58%s59:%d sub:1:%d subp:1:%d sub:0:%d subp:2:%d sub:-%d:0' % (H, L + 2, L, L, L, L, L))
                cases.append('ptr %s:%d sub:0:0 subp:0:%d sub:0:%d' % (H, L, L, L + 1))
            # ---- comparisons and searches over L bytes
            if on('cmpfind', L):
                d = list(tb)
                if d:
                    d[-1] ^= 0x80
                cases.append('ptr %s:%d cmp:%s+0 cmp:%s+1 ncmp:%s+0:%d ncmp:%s+0:%d cmpp:%s:%d ncmpp:%s:%d'
                             % (H, L, H, hx(d), hx(d), L, hx(d), max(L - 1, 0), H, L, hx(d), L))
                cases.append('ptr 58%s59:%d find:%s+0 findp:%s:%d find:%s+0 findp:%s:%d'
                             % (H if L else '', L + 2, H, H, L, hx(d), hx(tb[-3:] + [0x59]), len(tb[-3:]) + 1))
            # ---- in-place edits at that length
            if on('edit', L):
                core = [0x41] + tb[1:-1] + [0x42] if L >= 2 else [0x41] * L
                cases.append('ptr 200a%s0920:%d trim glen trim' % (hx(core) if L else '', L + 4))
                cases.append('ptr %s:%d clr:0 glen clr:255' % (H, L))
                cases.append('ptr %s7a:%d slen:%d glen app:7b:1' % (H if L else '', L + 1, L))
                if L <= (1025 if quick else 4097):
                    cases.append('ptr %s:%d rev glen idx:%d ridx:%d' % (H, L, tb[0] if tb else 0, tb[-1] if tb else 0))
        return cases

    # ---------------------------------------------------------------------------------
    def split(self, case, out):
        if out.startswith('FAULT') or out.startswith('NULLSELF'):
            return out, ''
        ops = case.split()[2:]
        a, b = [], []
        for k, st in enumerate(out.split(' | ')):
            f = st.split(' ')
            if len(f) < 6:
                a.append(st)
                continue
            ret = f[0]
            # reverse answers FALSE for a NULL buffer and TRUE for an empty non-NULL one: the ideal sequence is the
            # same (empty, unchanged), which of the two pointers an empty object holds is not constrained
            if k >= 1 and k - 1 < len(ops) and ops[k - 1] == 'rev' and f[1] == '0':
                b.append(ret)
                ret = '_'
            a.append(' '.join([ret] + f[1:5] + f[6:]))
            b.append(f[5])
        return ' | '.join(a), ' | '.join(b)

    def nontrivial(self, case, mout):
        if mout.startswith('FAULT') or mout.startswith('DRIVER'):
            return False
        steps = mout.split(' | ')
        if mout.startswith('NULLSELF'):
            return True
        return len(steps) >= 2 and any(s.startswith('T') or s.startswith('O:') or s.startswith('P:') or s[0] in 'ic' for s in steps[1:])

    # ---- lengths of 2^31-1 and more (checks/bigsize.py; the "big" case of harness/c07.c; harness/bigmap.h) ----
    def big_cases(self, tier):
        P31, P32 = 1 << 31, 1 << 32
        small = [0, 1, 2]
        if tier == 'quick':
            big = [P31 - 1, P31, P31 + 2, P32 + 1]
            pairs = [(1, P31 + 2), (1, P32 + 1), (2, P31), (0, P31 - 1), (P31 - 1, P31), (P31, P31 + 2), (P31 + 2, P32 + 1), (P31 - 1, P32 + 1)]
            scan = [P31 + 2]
        else:
            big = [P31 - 1, P31, P31 + 2, P32 - 1, P32, P32 + 1, 3 * P31 + 5]
            pairs = [(a, b) for a in small for b in big] + [(a, b) for i, a in enumerate(big) for b in big[i:]]
            scan = [P31 - 1, P31, P31 + 2, P32 + 1]
        cases = ['big cmp z%d z%d' % ab for ab in pairs]
        # a difference that lies beyond offset 2^31 / 2^32 (a count or an offset cut to 32 bits would not see it)
        for n in big:
            for off in (P31 - 1, P31 + 1, P32 - 1, P32):
                if off < n and (tier != 'quick' or off in (P31 + 1, P32)):
                    cases.append('big cmp z%d p%d@%d' % (n, n, off))
                    cases.append('big cmp p%d@%d z%d' % (n, off, off))          # the poke lies just past the shorter one
                    if tier != 'quick':
                        cases.append('big cmp p%d@%d p%d@%d' % (n, off, n, n - 1))
        # index / rindex / find: absent (the answer is the length), present only beyond 2^31
        for n in scan:
            cases += ['big idx z%d 7' % n, 'big find z%d 0001' % n]
            for off in ([n - 1] if tier == 'quick' else [n - 1, P31, 0]):
                if 0 <= off < n:
                    cases += ['big idx p%d@%d 1' % (n, off), 'big find p%d@%d 0001' % (n, off)]
            if tier != 'quick':
                cases += ['big idx z%d 0' % n, 'big find p%d@%d 000100' % (n, n - 1), 'big find z%d 00000000' % n]
        # subbuff / subbuff_to_ptr: positions beyond 2^31 and 2^32, negative positions counted from such a length, counts that
        # are completed from it; the piece is a few bytes long and holds the one 0x01 byte (or just misses it)
        for (n, off) in [(P31 + 2, P31 + 1), (P32 + 1, P32)] + ([] if tier == 'quick' else [(P31, P31 - 1), (3 * P31 + 5, P32 + 3)]):
            for (idx, cnt) in [(off - 1, 3), (off, 1), (off + 1, 1), (n - 1, 1), (n, 1), (n + 1, 0), (-1, 1), (-2, 0), (-3, -1), (-n, 4), (-n - 1, 4),
                               (n - 2, 0), (n - 4, -2), (n - 1, -2), (off, 1 - (n - off)), (off - 2, 4 - (n - off + 2)), (-(n - off) - 1, 3),
                               (P31 - 2, 5), (-(n - P31 + 2) - 1, 5)]:
                cases.append('big sub p%d@%d %d:%d' % (n, off, idx, cnt))
        # reverse: the one operation of the family here that writes every byte (the mapping is committed for the case:
        # 2 GiB resp. 4 GiB for a few seconds)
        revs = [(P31 + 2, 5)] if tier == 'quick' else [(P31 - 1, 0), (P31, 0), (P31 + 1, 0), (P31 + 2, 5), (P32 + 1, P31 + 1)]
        cases = ['big rev p%d@%d -' % r for r in revs] + cases
        # histories on REAL objects of that size (new_from_ptr copies the sparse buffer into the heap: the case commits
        # one to three times its length for a few seconds; checks/bigsize.py runs at most two such cases at a time)
        def hist(n, off, prog):
            return 'big hist p%d@%d %s' % (n, off, prog)
        n, off = P31 + 2, P31 + 1
        hists = [hist(n, off, 'spl:%d:1:4142' % off)]            # quick: this one and the reverse above fill the two heavy slots
        if tier != 'quick':
            hists.append(hist(n, off, 'pre:71,app:7879,sub:-3:0'))
            for (n, off) in [(P31 - 1, P31 - 2), (P31, 0), (P31 + 2, P31 + 1)]:
                hists += [hist(n, off, 'apo:7879,ppo:71,sub:%d:3' % (off + 1 - 1)), hist(n, off, 'splp:%d:2:41' % max(off - 1, 0)),
                          hist(n, off, 'spl:-3:1:414243,sub:-5:0'), hist(n, off, 'dup'), hist(n, off, 'rev,sub:%d:2' % max(n - 2 - off, 0)),
                          hist(n, off, 'clr:32,trim'), hist(n, off, 'pre:20,app:0a,trim')]
            hists += [hist(P32 + 1, P32, 'app:7879,sub:-3:0'), hist(P32 + 1, P31 + 1, 'rev,sub:%d:3' % (P32 + 1 - 1 - (P31 + 1) - 1))]
        return hists + cases

    @staticmethod
    def big_heavy(case):
        return case.startswith('big hist ') or case.startswith('big rev ')

    def extra_steps(self, ctx):
        big = bigsize.big_pass(self, ctx, self.big_cases(ctx['tier']), lambda c: 'BIG:ok', heavy=self.big_heavy,
                               what=('mbuff objects of length 2^31-1 .. 3*2^31+5 whose buff points into a sparse zero mapping: cmp / ncmp / '
                                     'cmp_with_ptr / ncmp_with_ptr on pairs (equal bytes: the sign of the length difference; one differing '
                                     'byte beyond offset 2^31 or 2^32), index / rindex / find of absent bytes (answer = length) and of '
                                     'bytes present only beyond 2^31, subbuff / subbuff_to_ptr at positions beyond 2^31 and 2^32 and at negative '
                                     'positions, reverse (position of the one marked byte afterwards), against the ideal sequence\'s answers '
                                     'computed from the lengths; histories on real heap objects of 2^31-1 .. 2^32+1 bytes made by new_from_ptr '
                                     '(append, prepend, splice, subbuff, reverse, dup, clear, trim - every byte checked after every step)'))
        return big + self.extra_steps_small(ctx)

    def extra_steps_small(self, ctx):
        # operation / size histograms of this run (the shared histogram only sees the constructor token)
        path = vlib.os.path.join(vlib.BUILD, 'work', 'c07', 'cases-main-%d.txt' % vlib.os.getpid())
        ops, sizes, lens = {}, {}, {}
        try:
            with open(path) as f:
                for line in f:
                    t = line.split()
                    if len(t) < 2:
                        continue
                    n = len(t[1]) // 2
                    b = '0' if n < 2 else '1-64' if n <= 64 else '65-4094' if n < 4095 else '4095-4097' if n <= 4100 else '>4097'
                    sizes[b] = sizes.get(b, 0) + 1
                    k = len(t) - 2
                    hb = '0' if k == 0 else '1-3' if k <= 3 else '4-13' if k <= 13 else '14-40' if k <= 40 else '>40'
                    lens[hb] = lens.get(hb, 0) + 1
                    for o in t[2:]:
                        name = o.split(':', 1)[0]
                        ops[name] = ops.get(name, 0) + 1
        except OSError:
            pass
        ctx['cov']['op_histogram'] = ops
        ctx['cov']['ctor_arg_size_histogram'] = sizes
        ctx['cov']['history_length_histogram'] = lens
        ctx['cov']['exhaustive'] = True
        ctx['cov']['exhaustive_strata'] = ('index/count pairs in -len-2..len+2 for splice, splice_from_ptr, subbuff, subbuff_to_ptr on sequences of '
                                    'length 0..3 (quick) / 0..5 (thorough); cmp/ncmp/cmp_with_ptr on all pairs of sequences over {0,1,255} up to '
                                    'length 2 (quick) / 3 (thorough); read schedules up to 2 (quick) / 3 (thorough) events over '
                                    '{D3, S1, D4096, D4097, S4095, EINTR, EOF, Err, D0}; all 256 byte values for index/rindex/find/clear; '
                                    'lengths 0 and 2^k-1, 2^k, 2^k+1 (k <= 14) for every length-driven operation, both tiers')
        out = []
        if ctx['tier'] == 'thorough':
            # independent re-check of the compiled property file by the stand-alone checker
            rc, o, e = vlib.sh('cd %s && timeout 900 coqchk -silent -o -Q . LV LV.Properties.C07 2>&1' % vlib.COQ)
            ok = (rc == 0 and 'Axioms: <none>' in o)
            ctx['cov']['coqchk'] = dict(cmd='coqchk -silent -o -Q . LV LV.Properties.C07', ok=ok, summary=o[-600:])
            if not ok:
                out.append(('B', 'coqchk LV.Properties.C07', 'coqchk does not accept Properties/C07.vo: ' + o[-300:]))
        return out


CHECK = C07()
