"""C07: mbuff objects are faithful byte-sequence values under any history (src/mbuff.c)."""
import itertools
import vlib

INC = 4096          # only used to aim sizes at the chunk boundary; the model takes the real value from Gen/Constants.v
SIZES_BIG = [4095, 4096, 4097, 3 * 4096 + 5]
SPACE = [9, 10, 11, 12, 13, 32]
SMALL = [0, 32, 9, 10, 0x61, 0x62, 0xff, 0x80]


def hx(bs):
    return ''.join('%02x' % b for b in bs) or '-'


# ---------------------------------------------------------------------------------------
# the generator's own bookkeeping of the byte sequence (to aim indices at the current length
# and to keep pointer/length arguments inside the caller's block); not used as an oracle
# ---------------------------------------------------------------------------------------
def norm_splice(ln, idx, cnt):
    if idx < 0:
        idx = ln + idx
    if idx < 0 or idx >= ln:
        return None
    if cnt < 0:
        cnt = idx + ln + cnt
    if cnt < 0 or cnt > ln - idx:
        return None
    return idx, cnt


def isspace(b):
    return b in SPACE


def trim(s):
    i, j = 0, len(s)
    while i < j and isspace(s[i]):
        i += 1
    while j > i and isspace(s[j - 1]):
        j -= 1
    return s[i:j]


class Gen:
    def __init__(self, rng):
        self.rng = rng

    def byte(self):
        r = self.rng
        return r.choice(SMALL) if r.random() < 0.7 else r.randrange(256)

    def bytes_(self, n):
        return [self.byte() for _ in range(n)]

    def small_len(self):
        return self.rng.choice([0, 0, 1, 1, 2, 3, 4, 5, 7, 8, 16])

    def other(self, bs=None):
        """token for an `other` object and its bytes"""
        r = self.rng
        x = r.random()
        if bs is None and x < 0.08:
            return 'N', None
        if bs is None and x < 0.16:
            return 'E', []
        if bs is None:
            bs = self.bytes_(self.small_len())
        return '%s+%d' % (hx(bs), r.choice([0, 0, 0, 1, 3, 9])), bs

    def ptr(self, bs=None):
        """(token, n, bytes delivered)"""
        r = self.rng
        if bs is None and r.random() < 0.08:
            return 'N', r.choice([0, 1, 3]), None
        if bs is None:
            bs = self.bytes_(self.small_len())
        n = len(bs) if r.random() < 0.8 else r.randrange(len(bs) + 1)
        return hx(bs), n, bs[:n]

    def around(self, ln):
        return self.rng.randrange(-ln - 2, ln + 3)

    def present_needle(self, s):
        r = self.rng
        if not s or r.random() < 0.35:
            return self.bytes_(r.choice([0, 1, 1, 2, 3]))
        i = r.randrange(len(s))
        j = min(len(s), i + r.choice([1, 1, 2, 3, 5]))
        return s[i:j]

    def op(self, s, big=False):
        """one operation token for the current sequence s; returns (token, new s)"""
        r = self.rng
        ln = len(s)
        kinds = ['ap', 'app', 'pp', 'ppp', 'spl', 'splp', 'sub', 'subp', 'trim', 'rev', 'clr', 'spf', 'cmp', 'cmpp',
                 'ncmp', 'ncmpp', 'find', 'findp', 'idx', 'ridx', 'glen', 'gsize', 'slen', 'ssize', 'done', 'dup', 'dupto']
        weights = [8, 8, 6, 6, 8, 8, 5, 4, 4, 4, 2, 2, 5, 4, 4, 3, 5, 4, 6, 6, 1, 1, 1, 0, 1, 2, 2]
        k = r.choices(kinds, weights)[0]
        if k == 'ap' or k == 'pp':
            t, o = self.other()
            if o is None:
                return '%s:%s' % (k, t), s
            return '%s:%s' % (k, t), (s + o if k == 'ap' else o + s)
        if k == 'app' or k == 'ppp':
            t, n, o = self.ptr()
            if o is None:
                return '%s:%s:%d' % (k, t, n), s
            return '%s:%s:%d' % (k, t, n), (s + o if k == 'app' else o + s)
        if k == 'spl':
            idx, cnt = self.around(ln), self.around(ln)
            if r.random() < 0.5 and ln:
                idx = r.randrange(ln)
                cnt = r.randrange(ln - idx + 1)
            t, o = self.other()
            ins = o or []
            p = norm_splice(ln, idx, cnt)
            tok = 'spl:%d:%d:%s' % (idx, cnt, t)
            return tok, (s if p is None else s[:p[0]] + ins + s[p[0] + p[1]:])
        if k == 'splp':
            idx, cnt = self.around(ln), self.around(ln)
            if r.random() < 0.5 and ln:
                idx = r.randrange(ln)
                cnt = r.randrange(ln - idx + 1)
            t, n, o = self.ptr()
            ins = o or []
            p = norm_splice(ln, idx, cnt)
            tok = 'splp:%d:%d:%s:%d' % (idx, cnt, t, n)
            return tok, (s if p is None else s[:p[0]] + ins + s[p[0] + p[1]:])
        if k in ('sub', 'subp'):
            return '%s:%d:%d' % (k, self.around(ln), self.around(ln)), s
        if k == 'trim':
            return 'trim', trim(s)
        if k == 'rev':
            return 'rev', s[::-1]
        if k == 'clr':
            c = self.byte()
            return 'clr:%d' % c, [c] * ln
        if k == 'spf':
            x = r.random()
            if x < 0.1:
                return 'spf:N', []
            if x < 0.2:
                return 'spf:E', []
            if x < 0.3:
                return 'spf:S-', []
            a = [b for b in self.bytes_(r.choice([1, 2, 5, 9])) if b != 0]
            if x < 0.5:
                b2 = [b for b in self.bytes_(r.choice([0, 1, 3])) if b != 0]
                return 'spf:Z%s,%s' % (hx(a), hx(b2)), a + [0] + b2
            if not a:
                return 'spf:S-', []
            return 'spf:S%s' % hx(a), a
        if k == 'cmp':
            x = r.random()
            if x < 0.3:
                o = list(s)
            elif x < 0.5:
                o = s[:r.randrange(ln + 1)]
            elif x < 0.7:
                o = s + self.bytes_(r.choice([1, 2]))
            else:
                o = None
            if o is not None and o and r.random() < 0.3:
                j = r.randrange(len(o))
                o[j] = self.byte()
            t, _ = self.other(o)
            return 'cmp:%s' % t, s
        if k == 'ncmp':
            o = s[:r.randrange(ln + 1)] + self.bytes_(r.choice([0, 0, 1, 2]))
            t, ob = self.other(o if r.random() < 0.85 else None)
            return 'ncmp:%s:%d' % (t, self.around(max(ln, len(ob or [])))), s
        if k in ('cmpp', 'ncmpp'):
            # the count must not exceed the buffer's length nor the caller's block (documented contract)
            n = r.randrange(ln + 1)
            if r.random() < 0.5:
                n = ln
            o = s[:n]
            if o and r.random() < 0.4:
                o[r.randrange(len(o))] = self.byte()
            if r.random() < 0.05:
                return '%s:N:%d' % (k, n), s
            o = o + self.bytes_(r.choice([0, 0, 2]))
            return '%s:%s:%d' % (k, hx(o), n), s
        if k == 'find':
            t, _ = self.other(self.present_needle(s) if r.random() < 0.9 else None)
            return 'find:%s' % t, s
        if k == 'findp':
            nd = self.present_needle(s)
            if r.random() < 0.05:
                return 'findp:N:0', s
            extra = self.bytes_(r.choice([0, 0, 1]))
            return 'findp:%s:%d' % (hx(nd + extra), len(nd)), s
        if k in ('idx', 'ridx'):
            if s and r.random() < 0.5:
                c = r.choice(s)
            else:
                absent = [b for b in (SMALL + [1, 2, 0x7f]) if b not in s]
                c = r.choice(absent) if absent else self.byte()
            return '%s:%d' % (k, c), s
        if k == 'slen':
            n = r.randrange(ln + 1)
            return 'slen:%d' % n, s[:n]
        if k == 'done':
            return 'done', []
        return k, s          # glen gsize dup dupto

    def ctor(self, size=None):
        """(name, args, bytes)"""
        r = self.rng
        k = r.choice(['new', 'ptr', 'ptr', 'buff', 'buff', 'fd', 'fd', 'fp', 'fp'])
        n = self.small_len() if size is None else size
        bs = self.bytes_(n)
        if k == 'new':
            return 'new', '-', []
        if k == 'ptr':
            if r.random() < 0.05:
                return 'ptr', 'N:%d' % n, []
            m = n if r.random() < 0.8 else r.randrange(n + 1)
            return 'ptr', '%s:%d' % (hx(bs), m), bs[:m]
        if k == 'buff':
            if r.random() < 0.08:
                return 'buff', 'N:%d:%d' % (n, r.choice([0, 1, n, n + 5])), []
            m = n if r.random() < 0.8 else r.randrange(n + 1)
            return 'buff', '%s:%d:%d' % (hx(bs), m, r.choice([0, m, m, m + 1, m + 7, max(0, m - 1)])), bs[:m]
        return self.desc(k, bs)

    def desc(self, k, bs, natural=None, kind=None, pos=None):
        """a descriptor constructor delivering exactly bs (no error events)"""
        r = self.rng
        if kind is None:
            kind = r.choice(['P', 'R'])
        if natural is None:
            natural = r.random() < 0.4
        if kind == 'R':
            if pos is None:
                pos = r.choice([0, 0, 0, 1, 3])
            kind = 'R%d' % pos
        if natural:
            sched = 'D' + hx(bs) if bs else '-'
            return k, '%s:n:%s' % (kind, sched), bs
        if kind[0] == 'R':
            # one read of the file size: a single chunk keeps the sequence whole
            sched = ('D' + hx(bs) + (',E' if r.random() < 0.5 else '')) if bs else r.choice(['-', 'E'])
            return k, '%s:w:%s' % (kind, sched), bs
        ev = []
        rest = list(bs)
        while rest:
            x = r.random()
            if x < 0.15 and k == 'fd':
                ev.append('I')
                continue
            c = r.choice([1, 2, 3, len(rest), INC, INC - 1, INC + 1, max(1, len(rest) // 2)])
            c = max(1, min(c, len(rest)))
            ev.append(('D' if r.random() < 0.5 else 'S') + hx(rest[:c]))
            rest = rest[c:]
        if r.random() < 0.6:
            ev.append(r.choice(['E', 'E', 'X']))
            if r.random() < 0.3:
                ev.append('D' + hx(self.bytes_(2)))      # never delivered: after end of file / error
        return k, '%s:w:%s' % (kind, ','.join(ev) or '-'), bs


ALL_NULL_OPS = ['done', 'dup', 'ap:6162+0', 'ap:N', 'app:6162:2', 'pp:61+1', 'ppp:61:1', 'spl:0:0:61+0', 'splp:0:0:61:1',
                'sub:0:1', 'subp:0:1', 'trim', 'rev', 'clr:7', 'spf:S61', 'cmp:N', 'cmp:61+0', 'cmpp:N:0', 'cmpp:61:1',
                'ncmp:N:1', 'ncmp:61+0:1', 'ncmpp:61:1', 'find:61+0', 'findp:61:1', 'idx:97', 'ridx:97']


class C07(vlib.PropertyCheck):
    id = 'C07'
    family = 'c07'
    harness = 'c07.c'
    # own sanitizer flags: the shared build puts -fsanitize=... after cflags, which would switch UBSan's
    # nonnull-attribute check back on.  That check is off here on purpose: memcpy/memset/memcmp/memmem with
    # length 0 and a NULL pointer touch no byte (the model's libc treats them as no-ops); NULL arguments are C16.
    SAN = ('-fsanitize=address,undefined', '-fno-sanitize-recover=all', '-fno-sanitize=nonnull-attribute')
    impl_kwargs = dict(sanitize=False, cflags=SAN, ldflags=('-fsanitize=address,undefined', '-Wl,--wrap=read'))
    case_timeout = 300
    nontrivial_rule = ('one case = one history (constructor + 0..40 operations); non-trivial when the model does not fault, '
                       'at least one operation after the constructor returned success and either a boundary value was used '
                       '(index/count within 2 of 0 or +-len, a size in {0,1,4095,4096,4097,12293}, an absent byte/needle) or the '
                       'history has >= 3 operations; distinct = distinct case lines')
    assumptions = ['(pointer, length) arguments describe a readable caller block of at least that many bytes, length >= 0',
                   'cmp_with_ptr / ncmp_with_ptr are called with a count not above the buffer length (the suite itself relies on reads past len)',
                   'set_len only truncates, set_size is not used to misstate the allocation',
                   'self and other are distinct objects (aliasing and ownership belong to C05/C06)',
                   'object sizes below 2^31; "C" locale; malloc does not fail',
                   'kernel read()/lseek() and stdio fread()/fseek()/ftell() behave as modelled (schedule semantics in MbuffModel.v)']

    MANIFEST = dict(
        technique='Rocq theorems about an executable Gallina model of src/mbuff.c + extracted-model/implementation correspondence check',
        text='(filled in below)',
        design_ref='DESIGN.md section 7, C07')

    # ---------------------------------------------------------------------------------
    def gen(self, tier, rng):
        g = Gen(rng)
        quick = (tier == 'quick')
        cases = []

        # 1. methods on a NULL self
        for o in ALL_NULL_OPS:
            cases.append('null - %s' % o)

        # 2. every index/count pair around a short sequence, all four position-taking methods
        for ln in range(0, 4 if quick else 6):
            s = [0x61 + i for i in range(ln)]
            base = 'ptr %s:%d' % (hx(s), ln)
            rg = range(-ln - 2, ln + 3)
            for idx in rg:
                for cnt in rg:
                    cases.append('%s sub:%d:%d subp:%d:%d' % (base, idx, cnt, idx, cnt))
                    cases.append('%s spl:%d:%d:5859+1 glen' % (base, idx, cnt))
                    cases.append('%s splp:%d:%d:5859:2 spl:%d:%d:N' % (base, idx, cnt, idx, cnt))
        # 3. comparison family on all pairs of short sequences over {0, 1, 255}
        strs = [list(t) for l in range(0, 3 if quick else 4) for t in itertools.product([0, 1, 255], repeat=l)]
        for a in strs:
            for b in strs:
                ops = ['cmp:%s+%d' % (hx(b), rng.choice([0, 2]))]
                for n in range(-1, max(len(a), len(b)) + 2):
                    ops.append('ncmp:%s+0:%d' % (hx(b), n))
                for n in range(0, min(len(a), len(b)) + 1):
                    ops.append('cmpp:%s:%d' % (hx(b), n))
                    ops.append('ncmpp:%s:%d' % (hx(b), n))
                cases.append('buff %s:%d:%d %s' % (hx(a), len(a), len(a) + rng.choice([0, 1]), ' '.join(ops[:60])))
        # 4. searches: every byte value, present and absent, first/last/only position; trim of every short blank pattern
        for c in range(256):
            s = [c ^ 0x55, c, (c + 1) & 255, c]
            cases.append('ptr %s:4 idx:%d ridx:%d idx:%d ridx:%d findp:%02x:1 findp:%02x%02x:2 clr:%d idx:%d'
                         % (hx(s), c, c, (c + 2) & 255, (c + 2) & 255, c, c, (c + 2) & 255, c, (c + 3) & 255))
            cases.append('ptr %s:1 idx:%d ridx:%d rev trim' % (hx([c]), (c + 1) & 255, (c + 1) & 255))
        for l in range(0, 4 if quick else 6):
            for t in itertools.product([32, 10, 0x61, 0], repeat=l):
                cases.append('buff %s:%d:%d trim glen trim' % (hx(t), l, l + (l % 2)))
        for name, args in (('new', '-'), ('buff', 'N:0:0'), ('buff', 'N:0:5'), ('buff', '-:0:0'), ('buff', '-:0:3'), ('ptr', '-:0'),
                           ('ptr', 'N:3'), ('fd', 'P:n:-'), ('fd', 'R0:n:-'), ('fp', 'P:n:-'), ('fp', 'R0:n:-')):
            for o in ['trim', 'rev', 'idx:0', 'ridx:0', 'clr:1', 'dup', 'dupto', 'done', 'find:E', 'find:-+0', 'findp:-:0',
                      'cmp:E', 'cmp:-+0', 'cmp:00+0', 'ncmp:E:0', 'sub:0:0', 'subp:0:0', 'spl:0:0:61+0', 'splp:0:0:61:1',
                      'ap:E', 'ap:-+4', 'pp:E', 'spf:E', 'spf:N', 'spf:S-', 'spf:S41', 'cmpp:-:0', 'glen', 'gsize']:
                cases.append('%s %s %s ap:6162+1 %s' % (name, args, o, o))

        # 5. descriptor constructors: every short schedule over a small event alphabet, both kinds, both APIs
        evs = ['D' + hx(g.bytes_(3)), 'S' + hx(g.bytes_(1)), 'D' + hx(g.bytes_(INC)), 'D' + hx(g.bytes_(INC + 1)),
               'S' + hx(g.bytes_(INC - 1)), 'I', 'E', 'X', 'D-']
        maxl = 2 if quick else 3
        for l in range(0, maxl + 1):
            for sc in itertools.product(evs, repeat=l):
                if not quick and l == 3 and rng.random() < 0.5:
                    continue
                s = ','.join(sc) or '-'
                for api in ('fd', 'fp'):
                    cases.append('%s P:w:%s glen idx:1 ridx:1' % (api, s))
                    if l <= 2:
                        cases.append('%s R%d:w:%s glen' % (api, rng.choice([0, 0, 2]), s))
        # natural delivery at the chunk boundaries, files read from offset 0, inside and at the end
        for n in [0, 1, 2, INC - 1, INC, INC + 1, 2 * INC, 2 * INC + 1] + SIZES_BIG:
            bs = g.bytes_(n)
            for api in ('fd', 'fp'):
                for kind, pos in (('P', None), ('R', 0), ('R', 1), ('R', 7)):
                    name, args, _ = g.desc(api, bs, natural=True, kind=kind, pos=pos)
                    cases.append('%s %s glen ridx:%d app:7a:1 rev' % (name, args, bs[-1] if bs else 0))
                # positioned at end of file: nothing to read
                cases.append('%s R%d:n:- glen ap:61+0' % (api, max(n, 1)))

        # 6. capacity / size boundaries with the other constructors
        for n in [0, 1] + SIZES_BIG:
            bs = g.bytes_(n)
            absent = [b for b in range(256) if b not in bs][:1] or [0]
            tail = 'idx:%d ridx:%d findp:%s:2 rev app:%s:%d spl:-1:1:%s+0 trim dupto ap:%s+3 glen' % (
                absent[0], absent[0], hx([absent[0], absent[0]]), hx(bs[:5] or [1]), len(bs[:5] or [1]), hx(bs[:3]), hx(bs[-4:]))
            cases.append('ptr %s:%d %s' % (hx(bs), n, tail))
            cases.append('buff %s:%d:%d %s' % (hx(bs), n, n + rng.choice([0, 1, INC]), tail))
            cases.append('new - app:%s:%d %s' % (hx(bs), n, tail))
            cases.append('new - ppp:%s:%d pp:%s+1 %s' % (hx(bs), n, hx(bs), tail))

        # 7. random histories from every constructor
        nh = 1500 if quick else 60000
        for _ in range(nh):
            big = rng.random() < (0.01 if quick else 0.004)
            name, args, s = g.ctor(rng.choice(SIZES_BIG) if big else None)
            nops = rng.choice([1, 2, 3, 5, 8, 13, 21, 40]) if not big else rng.choice([1, 2, 4])
            toks = []
            for _ in range(nops):
                t, s = g.op(s)
                toks.append(t)
                if len(s) > 3 * INC + 600:
                    break
            cases.append('%s %s %s' % (name, args, ' '.join(toks)))
        return cases

    # ---------------------------------------------------------------------------------
    def split(self, case, out):
        if out.startswith('FAULT') or out.startswith('NULLSELF'):
            return out, ''
        ops = case.split()[2:]
        a, b = [], []
        for k, st in enumerate(out.split(' | ')):
            f = st.split(' ')
            if len(f) < 6:
                a.append(st)
                continue
            ret = f[0]
            # reverse answers FALSE for a NULL buffer and TRUE for an empty non-NULL one: the ideal sequence is the
            # same (empty, unchanged), which of the two pointers an empty object holds is not constrained
            if k >= 1 and k - 1 < len(ops) and ops[k - 1] == 'rev' and f[1] == '0':
                b.append(ret)
                ret = '_'
            a.append(' '.join([ret] + f[1:5] + f[6:]))
            b.append(f[5])
        return ' | '.join(a), ' | '.join(b)

    def nontrivial(self, case, mout):
        if mout.startswith('FAULT') or mout.startswith('DRIVER'):
            return False
        steps = mout.split(' | ')
        if mout.startswith('NULLSELF'):
            return True
        return len(steps) >= 2 and any(s.startswith('T') or s.startswith('O:') or s.startswith('P:') or s[0] in 'ic' for s in steps[1:])

    def extra_steps(self, ctx):
        # operation histogram of this run (the shared histogram only sees the constructor token)
        return []


CHECK = C07()
