"""C15: the debug memory tracker (src/mem.c) mirrors the live allocation set; the two
expansions of MALLOC/CALLOC/REALLOC/FREE/STRDUP (include/libast.h) agree on the live set."""
import heapq, itertools, os, re, shutil, stat
import vlib

SITE_FILE = 'c15_macro_call_site_file.c'       # harness/c15.c: #line 101 "<this>"
SITE_LINE = dict(M=101, C=102, R=103, F=104, S=105)
ESIZE = 3                                       # sizeof(lv_elem_t) in harness/c15.c
SLOTSZ = 128                                    # LV_SLOTSZ
NSLOT = 2100                                    # LV_NSLOT
DEBUG_MEM = 5


def hx(s):
    if isinstance(s, str):
        s = s.encode()
    return ''.join('%02x' % b for b in s) or '-'


FILES = ['a.c', '', 'x' * 19, 'y' * 20, 'z' * 21, 'src/some/long/path/to/a_file_name.c', 'mem.c', 'N']
LINES = [0, 1, 27, 46, 65535, 4294967295]
BIGLINES = [4294967296, 4294967296 + 77, 2 ** 40 + 3]
SCENARIOS = ['str', 'array', 'llist', 'dlist', 'amap', 'lmap', 'dmap', 'avec', 'lvec', 'dvec', 'mbuff', 'tok',
             'url', 'objpair', 'split', 'regexp', 'conf', 'socket',
             'adup', 'ldup', 'ddup', 'avdup', 'amdup']     # dup of empty and of filled containers
# error paths that allocate before they fail (harness/c15.c, "error-path scenarios"): name -> number of variants
ERR_SCENARIOS = {'e-accept': 5, 'e-sockopen': 10, 'e-sockio': 4, 'e-url': 25, 'e-regexp': 13, 'e-str': 56, 'e-mbuff': 56,
                 'e-tok': 15, 'e-conf': 24, 'e-array': 10, 'e-llist': 10, 'e-dlist': 10, 'e-tool': 20, 'e-module': 2,
                 'e-pair': 4}


class Sim:
    """just enough of an allocator and of the table to emit sane scripts (and to know when a
    dump would walk a record whose block is gone); never used to judge a result"""
    def __init__(self, build, pool):
        self.build, self.pool = build, pool
        self.live = {}          # slot -> size
        self.tab = []           # [slot, size]
        self.lvl = 0
        self.ops = []

    def on(self):
        return self.lvl >= DEBUG_MEM

    def fresh(self, rng):
        c = [a for a in self.pool if a not in self.live]
        return rng.choice(c) if c else None

    def find(self, p):
        for i, r in enumerate(self.tab):
            if r[0] == p:
                return i
        return None

    def t_add(self, a, sz):
        if self.on():
            self.tab.append([a, sz])

    def t_rem(self, p):
        if self.on():
            i = self.find(p)
            if i is not None:
                del self.tab[i]

    def t_chg(self, p, a, sz):
        if self.on():
            i = self.find(p)
            if i is not None:
                self.tab[i] = [a, sz]

    def dump_safe(self):
        return all(r[0] in self.live and self.live[r[0]] >= r[1] for r in self.tab)

    # ---- operations (tracked = goes through the spifmem_* wrappers)
    def level(self, l):
        self.lvl = l
        self.ops.append('L,%d' % l)

    def alloc(self, tok, a, sz, tracked):
        self.live[a] = sz
        if tracked:
            self.t_add(a, sz)
        self.ops.append(tok)

    def free(self, tok, p, tracked):
        if p and p in self.live:
            if tracked:
                self.t_rem(p)
            del self.live[p]
        self.ops.append(tok)

    def realloc(self, tok, p, sz, a, tracked, fixed=True):
        if p == 0:
            if sz != 0 or not fixed:
                self.live[a] = sz
                if tracked:
                    self.t_add(a, sz)
        elif sz == 0:
            if p in self.live:
                if tracked:
                    self.t_rem(p)
                del self.live[p]
        elif p in self.live:
            del self.live[p]
            self.live[a] = sz
            if tracked:
                self.t_chg(p, a, sz)
        self.ops.append(tok)


def rand_history(rng, build, kind, maxlen):
    """kind: 'on' (level >= DEBUG_MEM throughout), 'toggle', 'macro' (macros only), 'mixed'"""
    pool = list(range(1, rng.choice([2, 3, 4, 6, 8, 12]) + 1))
    s = Sim(build, pool)
    trk_macros = build >= DEBUG_MEM
    s.level(rng.choice([5, 5, 5, 6, 9999]) if kind != 'toggle' else rng.choice([0, 4, 5, 5, 6]))
    n = rng.randint(1, maxlen)
    invalid_done = False
    while len(s.ops) < n:
        r = rng.random()
        direct = kind in ('on', 'toggle') or (kind == 'mixed' and rng.random() < 0.5)
        fn = rng.choice(FILES)
        fh = 'N' if fn == 'N' else hx(fn)
        ln = rng.choice(LINES) if rng.random() < 0.95 else rng.choice(BIGLINES)
        if kind == 'toggle' and r < 0.12:
            s.level(rng.choice([0, 1, 4, 5, 5, 6]))
            continue
        if kind != 'toggle' and r < 0.03:
            s.level(rng.choice([5, 6, 7]))
            continue
        if r < 0.08 and s.dump_safe():
            s.ops.append('D')
            continue
        if r < 0.12:
            a = s.fresh(rng)
            if a is None:
                continue
            sz = rng.choice([0, 1, 8, 100])
            s.alloc('x,%d,%d' % (sz, a), a, sz, False)
            continue
        if r < 0.45:                       # allocate
            a = s.fresh(rng)
            if a is None:
                continue
            which = rng.choice('mmmcs')
            if which == 'm':
                sz = rng.choice([0, 1, 2, 7, 8, 16, 33, 127, 128])
                if direct:
                    s.alloc('m,%s,%d,%d,%d' % (fh, ln, sz, a), a, sz, True)
                else:
                    s.alloc('M,%s,%d,%d,%d' % (hx(SITE_FILE), SITE_LINE['M'], sz, a), a, sz, trk_macros)
            elif which == 'c':
                if direct:
                    cnt, esz = rng.choice([(0, 4), (4, 0), (1, 1), (3, 5), (16, 8), (2, 64)])
                    s.alloc('c,%s,%d,%d,%d,%d' % (fh, ln, cnt, esz, a), a, cnt * esz, True)
                else:
                    cnt = rng.choice([0, 1, 2, 10, 42])
                    s.alloc('C,%s,%d,%d,%d,%d' % (hx(SITE_FILE), SITE_LINE['C'], cnt, ESIZE, a), a, cnt * ESIZE, trk_macros)
            else:
                text = bytes(rng.choice(b'abcxyz09_') for _ in range(rng.choice([0, 1, 5, 20, 60])))
                if direct:
                    s.alloc('s,%s,%d,%s,%d' % (fh, ln, hx(text), a), a, len(text) + 1, True)
                else:
                    s.alloc('S,%s,%d,%s,%d' % (hx(SITE_FILE), SITE_LINE['S'], hx(text), a), a, len(text) + 1, trk_macros)
            continue
        # pointer argument: NULL, a live block, rarely a dead one (both sides then fault)
        was_dead = False
        q = rng.random()
        if q < 0.12 or not s.live:
            p = 0
        elif q < 0.14 and not invalid_done and kind != 'macro':
            dead = [a for a in pool if a not in s.live]
            if not dead:
                continue
            p = rng.choice(dead)
            invalid_done = True
            was_dead = True
        else:
            p = rng.choice(sorted(s.live))
        if r < 0.70:                       # free
            if direct:
                s.free('f,%d' % p, p, True)
            else:
                s.free('F,%d' % p, p, trk_macros)
        else:                              # realloc
            sz = rng.choice([0, 0, 1, 8, 9, 64, 128])
            if p and p in s.live and rng.random() < 0.4:
                a = p
            else:
                a = s.fresh(rng)
                if a is None:
                    a = p if (p and p in s.live) else None
                if a is None:
                    continue
            if direct:
                s.realloc('r,%s,%d,%d,%d,%d' % (fh, ln, p, sz, a), p, sz, a, True)
            else:
                s.realloc('R,%s,%d,%d,%d,%d' % (hx(SITE_FILE), SITE_LINE['R'], p, sz, a), p, sz, a, trk_macros)
        if was_dead:
            break              # the history ends with the undefined call
    return s.ops


def small_histories(depth):
    """every history of exactly `depth` calls over two addresses, sizes {0, 8}, one file name,
    with tracking on: malloc / free / realloc with every pointer argument (NULL, live, dead)
    and every sane answer"""
    out = []
    F = hx('f.c')

    def rec(ops, live, k):
        if k == 0:
            out.append(list(ops))
            return
        dead = [a for a in (1, 2) if a not in live]
        for a in dead:
            rec(ops + ['m,%s,7,8,%d' % (F, a)], live | {a}, k - 1)
        for p in (0, 1, 2):
            if p and p not in live:
                out.append(ops + ['f,%d' % p])          # faults on both sides; ends the history
                continue
            rec(ops + ['f,%d' % p], live - {p}, k - 1)
        for p in (0, 1, 2):
            for sz in (0, 8):
                if p == 0:
                    if sz == 0:
                        if dead:     # (the unchanged code consumed an allocator answer here)
                            rec(ops + ['r,%s,9,0,0,%d' % (F, dead[0])], live, k - 1)
                    else:
                        for a in dead:
                            rec(ops + ['r,%s,9,0,%d,%d' % (F, sz, a)], live | {a}, k - 1)
                elif p not in live:
                    if sz:
                        out.append(ops + ['r,%s,9,%d,%d,%d' % (F, p, sz, p)])
                elif sz == 0:
                    rec(ops + ['r,%s,9,%d,0,%d' % (F, p, p)], live - {p}, k - 1)
                else:
                    for a in [p] + dead:
                        rec(ops + ['r,%s,9,%d,%d,%d' % (F, p, sz, a)], (live - {p}) | {a}, k - 1)
    rec(['L,5'], frozenset(), depth)
    return out


# ---- live sets that cross a boundary ------------------------------------------------------
# The table's storage is resized on every edit; any scheme that resizes it differently (chunks,
# doubling, a cached capacity) has its own arithmetic at "count is a multiple of the unit", in
# both directions.  Every power of two up to 1024 (2048 thorough), the multiples of 256 between
# them and a few non-powers are crossed upwards and downwards with every kind of call at the
# crossing itself.
BOUNDS_QUICK = [2, 4, 8, 16, 32, 64, 128, 256, 512, 768, 1024]
BOUNDS_MORE = [3, 10, 100, 384, 640, 896, 1000, 1280, 1536, 1792, 2048]
UPS = 'mcsrMCSR'          # r/R: realloc(NULL, n)
DOWNS = 'fzFZ'            # z/Z: realloc(p, 0)
STAYS = 'kvKV'            # k: realloc that keeps the address, v: realloc that moves
VICTIMS = ['first', 'last', 'mid', 'edge', 'second']
WALK_FILES = ['f.c', 'a_file_name_of_more_than_twenty_characters.c', '', 'N']
WALK_SIZES = [8, 0, 1, 16, 127, 128, 33]


class Walk:
    """writes a history that drives the number of live tracked blocks; keeps the table order
    (append on add, shift down on removal, in place on change) only to pick victims by their
    position in the table.  Never used to judge a result."""
    def __init__(self, build, rot=0, lvl=5):
        self.build, self.k = build, rot
        self.ops = ['L,%d' % lvl]
        self.order = []               # live slots in table order
        self.freed = []               # heap of released slot numbers
        self.top = 0

    def n(self):
        return len(self.order)

    def _tick(self):
        self.k += 1
        return self.k

    def _fresh(self):
        if self.freed:
            return heapq.heappop(self.freed)
        self.top += 1
        return self.top

    def _file(self):
        f = WALK_FILES[self._tick() % len(WALK_FILES)]
        return 'N' if f == 'N' else hx(f)

    def up(self, how):
        a = self._fresh()
        k = self._tick()
        ln = 1 + k % 60000
        sz = WALK_SIZES[k % len(WALK_SIZES)]
        if how == 'm':
            t = 'm,%s,%d,%d,%d' % (self._file(), ln, sz, a)
        elif how == 'c':
            t = 'c,%s,%d,%d,%d,%d' % (self._file(), ln, 1 + k % 4, k % 5, a)
        elif how == 's':
            t = 's,%s,%d,%s,%d' % (self._file(), ln, hx('w' * (k % 7)), a)
        elif how == 'r':
            t = 'r,%s,%d,0,%d,%d' % (self._file(), ln, max(sz, 1), a)
        elif how == 'M':
            t = 'M,%s,%d,%d,%d' % (hx(SITE_FILE), SITE_LINE['M'], sz, a)
        elif how == 'C':
            t = 'C,%s,%d,%d,%d,%d' % (hx(SITE_FILE), SITE_LINE['C'], k % 9, ESIZE, a)
        elif how == 'S':
            t = 'S,%s,%d,%s,%d' % (hx(SITE_FILE), SITE_LINE['S'], hx('w' * (k % 7)), a)
        else:
            t = 'R,%s,%d,0,%d,%d' % (hx(SITE_FILE), SITE_LINE['R'], max(sz, 1), a)
        self.ops.append(t)
        self.order.append(a)

    def _victim(self, where, edge):
        n = len(self.order)
        i = {'first': 0, 'last': n - 1, 'mid': n // 2, 'second': min(1, n - 1),
             'edge': min(max(edge - 1, 0), n - 1)}[where]
        return i

    def down(self, how, where='last', edge=0):
        i = self._victim(where, edge)
        p = self.order.pop(i)
        heapq.heappush(self.freed, p)
        if how == 'f':
            t = 'f,%d' % p
        elif how == 'z':
            t = 'r,%s,%d,%d,0,0' % (self._file(), 1 + self._tick() % 60000, p)
        elif how == 'F':
            t = 'F,%d' % p
        else:
            t = 'R,%s,%d,%d,0,0' % (hx(SITE_FILE), SITE_LINE['R'], p)
        self.ops.append(t)

    def stay(self, how, where='mid', edge=0):
        i = self._victim(where, edge)
        p = self.order[i]
        k = self._tick()
        sz = max(WALK_SIZES[k % len(WALK_SIZES)], 1)
        if how in 'kK':
            a = p
        else:
            a = self._fresh()
            heapq.heappush(self.freed, p)
            self.order[i] = a
        if how in 'kv':
            t = 'r,%s,%d,%d,%d,%d' % (self._file(), 1 + k % 60000, p, sz, a)
        else:
            t = 'R,%s,%d,%d,%d,%d' % (hx(SITE_FILE), SITE_LINE['R'], p, sz, a)
        self.ops.append(t)

    def fill(self, target, flavours='m'):
        while self.n() < target:
            self.up(flavours[self._tick() % len(flavours)])

    def drain(self, target, how='f', where='last'):
        while self.n() > target:
            self.down(how, where)

    def dump(self):
        self.ops.append('D')

    def line(self, init=0):
        return 'h %d %d ' % (self.build, init) + ' '.join(self.ops)


def flav(build, macro_ok):
    """the call flavours that touch the table in this build"""
    if build >= DEBUG_MEM and macro_ok:
        return UPS, DOWNS, STAYS
    return UPS[:4], DOWNS[:2], STAYS[:2]


def crossing_cases(B, combos, build=5):
    """shortest histories around one boundary: B+1 live, one release (every kind, every position),
    one allocation (every kind) - and the mirror image: B-1 live, one allocation, one release"""
    ups, downs, stays = flav(build, True)
    out = []
    dv = [(d, v) for d in downs for v in VICTIMS]
    if combos is None:
        allc = [(d, v, u) for (d, v) in dv for u in ups]
    else:
        # every release kind x position and every allocation kind at least once, pairs by turns
        allc = [dv[i % len(dv)] + (ups[(i + i // len(dv)) % len(ups)],) for i in range(combos)]
    for j, (d, v, u) in enumerate(allc):
        w = Walk(build, rot=j)
        w.fill(B + 1)
        w.down(d, v, B)
        w.up(u)
        if j % 4 == 0:
            w.dump()
        out.append(w.line(j % 2))
        w = Walk(build, rot=j + 1)
        w.fill(B - 1)
        w.up(u)
        w.down(d, v, B)
        w.up(ups[(j + 1) % len(ups)])
        out.append(w.line(0))
    return out


def dance_cases(B, nrot, build=5, tails=('none', 'dump', 'fwd', 'rev', 'regrow')):
    """B-2 .. B+2 and back, every step with a rotating kind of call, in-place and moving reallocs at
    B-1, B and B+1, then (by turns) a dump, a drain from the front / from the back, growth again"""
    out = []
    for rot in range(nrot):
        ups, downs, stays = flav(build, rot % 3 != 2)
        w = Walk(build, rot=rot * 7)
        w.fill(max(B - 2, 0), ups if rot % 2 else 'm')
        plan = [+1, +1, +1, +1, -1, -1, +1, -1, -1, +1, -1, -1, +1, +1, 0, 0, +1, 0, 0, -1, 0, 0, -1, 0, 0, +1, +1, -1]
        for i, d in enumerate(plan):
            k = rot + i
            if d > 0:
                w.up(ups[k % len(ups)])
            elif d < 0:
                if w.n() > 0:
                    w.down(downs[k % len(downs)], VICTIMS[(k // 2) % len(VICTIMS)], B)
            elif w.n() > 0:
                w.stay(stays[k % len(stays)], VICTIMS[k % len(VICTIMS)], B)
        tail = tails[rot % len(tails)]
        if tail == 'dump':
            w.dump()
        elif tail == 'fwd':
            w.drain(0, 'f', 'first')
            w.dump()
        elif tail == 'rev':
            w.drain(0, downs[rot % len(downs)], 'last')
        elif tail == 'regrow':
            w.drain(0, 'f', 'mid')
            w.fill(3, ups)
            w.dump()
        out.append(w.line(rot % 2))
    return out


def staircase_case(bounds, build=5, rot=0):
    """one history: up to max(bounds)+1 with a small dance at every boundary, then down again
    with the same dance at every boundary"""
    ups, downs, stays = flav(build, True)
    w = Walk(build, rot=rot)
    bs = sorted(bounds)
    for B in bs:
        w.fill(B - 1)
        for i, d in enumerate([+1, +1, -1, -1, +1, +1, 0, -1, +1]):
            k = rot + i + B
            if d > 0:
                w.up(ups[k % len(ups)])
            elif d < 0:
                w.down(downs[k % len(downs)], VICTIMS[k % len(VICTIMS)], B)
            else:
                w.stay(stays[k % len(stays)], 'edge', B)
    for B in reversed(bs):
        w.drain(B + 1, 'f', VICTIMS[(rot + B) % len(VICTIMS)])
        for i, d in enumerate([-1, -1, +1, +1, -1, 0, +1, -1, -1]):
            k = rot + i + B
            if d > 0:
                w.up(ups[k % len(ups)])
            elif d < 0 and w.n() > 0:
                w.down(downs[k % len(downs)], VICTIMS[k % len(VICTIMS)], B)
            elif w.n() > 0:
                w.stay(stays[k % len(stays)], 'edge', B)
    w.drain(0)
    w.up('m')
    return w.line(0)


def random_walk_case(rng, B, build, steps):
    ups, downs, stays = flav(build, rng.random() < 0.6)
    w = Walk(build, rot=rng.randrange(1000), lvl=rng.choice([5, 5, 6, 9999]))
    w.fill(max(B + rng.choice([-2, -1, 0, 1, 2]), 0), ups if rng.random() < 0.3 else 'm')
    for _ in range(steps):
        n = w.n()
        r = rng.random()
        # pulled back towards B
        if n == 0 or (r < 0.45 and n <= B + 3) or n < B - 3:
            w.up(rng.choice(ups))
        elif r < 0.88 or n > B + 3:
            w.down(rng.choice(downs), rng.choice(VICTIMS), B)
        elif r < 0.97:
            w.stay(rng.choice(stays), rng.choice(VICTIMS), B)
        else:
            w.dump()
    return w.line(rng.randint(0, 1))


# ---- requested sizes of 2^31 and more -------------------------------------------------------
# The scripted allocator answers a request of ANY size with a slot address and notes the size (harness/c15.c: only
# the first 128 bytes exist; the tracker never touches a block's bytes).  Model sizes are Z.  So the record's size
# member, every parameter the size travels through (spifmem_malloc/_calloc/_realloc -> memrec_add_var/_chg_var) and
# the product count*size of calloc are exercised at the widths where a 32-bit (or signed) intermediate shows:
# 2^31 +-1, 2^32 +-1, 2^32+4096, 2^33+24, 2^40+3, 2^63 +-1, 2^64-1.  No dump while such a block is live (the dump
# prints the block's bytes); no strdup (it writes them).
P31, P32, P63 = 1 << 31, 1 << 32, 1 << 63
BIG_SIZES = [P31 - 1, P31, P31 + 1, P32 - 1, P32, P32 + 1, P32 + 4096, (1 << 33) + 24, (1 << 40) + 3, P63 - 1, P63, (1 << 64) - 1]
BIG_QUICK = [P31 - 1, P31, P32 - 1, P32, P32 + 4096, (1 << 33) + 24, P63, (1 << 64) - 1]
# count x element size with a product of 2^32 and more, each factor below 2^32 (and the two degenerate splits)
BIG_CALLOC = [(65536, 65536), (65537, 65536), (P31, 2), (3, P31), (1, P32 + 4096), (P32 + 4096, 1), (P31 + 1, P31 - 1), (P32 - 1, P32 + 1)]
BIG_MCALLOC = [1431655766, 1431655765 + 2, 2863311531, (1 << 40) // ESIZE + 1]        # x ESIZE = 2^32+2, 2^32+5, 2^33+1, ~2^40


def bigsize_cases(quick, rng):
    out = []
    F, G = hx('f.c'), hx('a_file_name_of_more_than_twenty_characters.c')
    SF = hx(SITE_FILE)
    sizes = BIG_QUICK if quick else BIG_SIZES
    for i, n in enumerate(sizes):
        n2 = sizes[(i + 3) % len(sizes)]
        for b in (5, 4):
            # alone: malloc n; realloc to another big size in place and moving; down to a small one; up again; free
            out.append('h %d %d L,5 m,%s,7,%d,1 r,%s,9,1,%d,1 r,%s,10,1,%d,2 r,%s,11,2,8,2 r,%s,12,2,%d,1 f,1 D' % (b, i % 2, F, n, G, n2, F, n, F, G, n))
            # realloc(NULL, n) allocates; realloc(p, 0) frees
            out.append('h %d 0 L,5 r,%s,3,0,%d,1 r,N,4,1,%d,1 r,%s,5,1,0,0 D m,%s,6,%d,1' % (b, F, n, n2, F, F, n))
            # through the macros (tracking form on build 5, plain form on build 4)
            out.append('h %d 0 L,5 M,%s,%d,%d,1 R,%s,%d,1,%d,2 R,%s,%d,2,%d,2 F,2 R,%s,%d,0,%d,3' % (
                b, SF, SITE_LINE['M'], n, SF, SITE_LINE['R'], n2, SF, SITE_LINE['R'], n, SF, SITE_LINE['R'], n))
        # among small blocks: the big record first, in the middle, last; a neighbour released and re-added around it
        for pos in range(3):
            ops = ['L,%d' % (5 if pos != 1 else 6)]
            for k in range(3):
                ops.append('m,%s,%d,%d,%d' % (F, 20 + k, n if k == pos else 8 + k, k + 1))
            other = 1 + (pos + 1) % 3
            ops += ['f,%d' % other, 'm,%s,30,%d,%d' % (G, n2, other), 'r,%s,31,%d,%d,4' % (F, pos + 1, n + 0 if n + 1 >= 1 << 64 else n + 1),
                    'f,%d' % other, 'f,4', 'D']
            out.append('h 5 %d ' % (pos % 2) + ' '.join(ops))
        # tracking toggled off between the allocation and the resize: the record keeps what it had
        out.append('h 5 0 L,5 m,%s,1,%d,1 L,4 r,%s,2,1,%d,2 L,5 r,%s,3,2,%d,2 f,2' % (F, n, F, n2, F, n))
    for j, (cnt, esz) in enumerate(BIG_CALLOC):
        for b in (5, 4):
            out.append('h %d %d L,5 c,%s,%d,%d,%d,1 m,%s,2,8,2 r,%s,3,1,%d,3 c,N,4,%d,%d,1 f,3 f,1 D' % (b, j % 2, F, 40 + j, cnt, esz, F, F, cnt * esz + 1 if cnt * esz + 1 < 1 << 64 else 8, esz, cnt))
    for cnt in BIG_MCALLOC:
        for b in (5, 4):
            out.append('h %d 0 L,5 C,%s,%d,%d,%d,1 M,%s,%d,8,2 F,1 C,%s,%d,%d,%d,1' % (b, SF, SITE_LINE['C'], cnt, ESIZE, SF, SITE_LINE['M'], SF, SITE_LINE['C'], cnt, ESIZE))
    # random histories whose sizes are drawn from the big set (no dump while one of them is live)
    for _ in range(150 if quick else 4000):
        build = rng.choice([5, 5, 4])
        direct = rng.random() < 0.6 or build == 4 and rng.random() < 0.5
        ops, live, pool = ['L,%d' % rng.choice([5, 5, 6, 9999])], {}, list(range(1, 6))
        for _ in range(rng.choice([3, 6, 12, 20])):
            r = rng.random()
            free_slots = [a for a in pool if a not in live]
            sz = rng.choice(BIG_SIZES) if rng.random() < 0.7 else rng.choice([0, 1, 8, 128])
            fn = rng.choice([F, G, 'N'])
            ln = rng.choice(LINES)
            if r < 0.4 and free_slots:
                a = rng.choice(free_slots)
                if rng.random() < 0.25 and direct:
                    cnt, esz = rng.choice(BIG_CALLOC)
                    ops.append('c,%s,%d,%d,%d,%d' % (fn, ln, cnt, esz, a))
                    sz = cnt * esz
                elif direct:
                    ops.append('m,%s,%d,%d,%d' % (fn, ln, sz, a))
                else:
                    ops.append('M,%s,%d,%d,%d' % (SF, SITE_LINE['M'], sz, a))
                live[a] = sz
            elif r < 0.75 and live:
                p = rng.choice(sorted(live))
                a = p if (rng.random() < 0.4 or not free_slots) else rng.choice(free_slots)
                if direct:
                    ops.append('r,%s,%d,%d,%d,%d' % (fn, ln, p, sz, a))
                else:
                    ops.append('R,%s,%d,%d,%d,%d' % (SF, SITE_LINE['R'], p, sz, a))
                del live[p]
                if sz:
                    live[a] = sz
            elif r < 0.95 and live:
                p = rng.choice(sorted(live))
                ops.append(('f,%d' if direct else 'F,%d') % p)
                del live[p]
            elif all(v <= SLOTSZ for v in live.values()):
                ops.append('D')
        out.append('h %d %d ' % (build, rng.randint(0, 1)) + ' '.join(ops))
    return out


MACRO = set('MCRSF')


class C15(vlib.PropertyCheck):
    id = 'C15'
    env_passes = False     # the runtime debug level is part of this property's cases
    family = 'c15'
    harness = 'c15.c'
    nontrivial_rule = ('a history is non-trivial when the model does not fault, at least one allocation was recorded '
                       'and at least one free or realloc of a non-NULL pointer follows an allocation; scenario cases count '
                       'when run on the tracking build; distinct = distinct case lines')
    assumptions = ['allocator sanity: a returned address is non-NULL and not currently live (realloc: the old address or such an address)',
                   'client sanity: only NULL or live blocks are passed to free/realloc (other calls are undefined for the libc allocator itself)',
                   'line numbers below 2^32 (the record member is a spif_uint32_t), sizes below 2^64',
                   'file names and strings are NUL-terminated byte strings',
                   'the table\'s own storage never fails to grow (realloc of malloc_rec.ptrs succeeds)']

    MANIFEST = dict(
        technique='Rocq theorems about an executable Gallina model of the tracker and of both macro expansions + '
                  'extracted-model/implementation correspondence check on scripted allocator histories (DEBUG=5 and DEBUG=4 builds)',
        text=('Model (coq/MemRec/MemRecModel.v): memrec_add/find/rem/chg_var on a list of records (linear search with the NULL '
              'refusal, removal by shifting, in-place change, append), the five spifmem_* wrappers gated on the run-time level, both '
              'expansions of MALLOC/CALLOC/REALLOC/FREE/STRDUP, the libc allocator as an oracle whose answers are part of the history; '
              'SPIFMEM_FNAME_LEN, sizeof(p->file), the width of the line member, DEBUG_MEM and the NONULL text are generated from the '
              'sources (tools/gen_c15.py).  Spec: association list with unique keys address -> (size, 20-character file name, line) plus '
              'the set of blocks allocated behind the tracker.  Proved in full, for all histories and all sane allocator answers, all '
              'closed under the global context: C15_tracker_mirrors / _as_set (Permutation of the table with the map) / '
              '_is_live_set (with tracking active no call faults and the table has one record per live tracked block and no others, '
              'with current address, last requested size, truncated file name and line of the last (re)allocation), '
              'C15_tracker_unknown_noop and C15_primitives_unknown_noop, C15_realloc_null_allocates, C15_realloc_null_zero, '
              'C15_realloc_zero_frees (+ _effect), C15_macro_equivalence (single calls, any two builds, any levels, any tables) and '
              'C15_macro_equivalence_history, C15_tracker_off_frozen, C15_store_fname_is_strncpy (the file-name abstraction equals the '
              'C13 model of spiftool_safe_strncpy on a 21-byte member).  REALLOC(NULL, 0) allocated in the tracking form and yielded '
              'NULL in the plain form (C15_macro_equivalence_orig_refuted on the unchanged spifmem_realloc); repaired in src/mem.c.  '
              'Decided by the correspondence check only: (1) the clause "a library built with tracking compiled in reports an empty table '
              'once every object has been deleted" - 18 object create/operate/delete scenarios (str, array/linked/dlinked list, map and '
              'vector of each, mbuff, tok, url, objpair, split/join/substr, regexp, conf subsystem, socket) are run on the DEBUG=5 build at run-time level 5 and '
              'the table must be empty afterwards; (2) the agreement of the model with src/mem.c and the macro block of libast.h: the '
              'harness #includes mem.c with the libc allocator calls renamed to a scripted arena allocator (same answers on both sides, '
              'address reuse, realloc that stays or moves, ASan poisoning of dead slots), reads the static table malloc_rec, and is built '
              'twice (DEBUG=5 tracking macros, DEBUG=4 plain macros); exhaustive histories of depth <= 4 (quick) / 5 (thorough) over two '
              'addresses, boundary tables (file-name lengths 0..25, NULL file name, removal at every position), random histories with '
              'level toggles, foreign blocks and undefined frees, the same macro history on both builds compared directly, and a '
              'model-independent oracle (table = allocator live set); live sets that cross every power of two up to 1024 (thorough: 2048), '
              'the multiples of 256 between them and a few other counts, upwards and downwards, with every kind of call (malloc, calloc, strdup, '
              'realloc of NULL; free, realloc to 0; realloc in place and moving; direct and through the macros) at the crossing and every '
              'position of the released record (first, second, middle, at the boundary, last), as shortest histories, as a B-2..B+2 dance, as one '
              'staircase over all boundaries and as random walks pulled towards the boundary - the table\'s own storage is the sanitized real '
              'allocator\'s, so a record written or read past it is a fault; requested sizes of 2^31-1, 2^31, 2^32-1, 2^32, 2^32+4096, 2^33+24, '
              '2^40+3, 2^63 and 2^64-1 (and calloc products of 2^32 and more from factors below 2^32) in malloc / calloc / realloc / macro '
              'histories on model and implementation alike - the scripted allocator notes the requested size without providing the bytes, '
              'the model\'s sizes are unbounded integers; (3) failure exits of the library that allocate before they fail '
              '(accept on an unopened / non-socket / non-listening descriptor, bind, connect and socket failures, send to a closed peer, refused '
              'string / buffer / container operations, URLs and regular expressions that do not parse or compile, tokenizer sources with '
              'unterminated quotes, configuration files that are missing, lack the magic line, include missing files, name unknown contexts, '
              'misuse the %-builtins or hold over-long lines, a module that cannot be loaded) on the DEBUG=5 build with the table required empty '
              'afterwards.  Outside the theorems: histories in which the level drops below '
              'DEBUG_MEM between an allocation and its release (stale records are then possible by design; the model still mirrors the '
              'code and the correspondence check covers them), a NULL answer of the allocator (fatal ASSERT in the wrappers), failure to '
              'grow the table itself.'),
        design_ref='DESIGN.md section 7, C15')

    # ---- two builds behind one dispatcher ------------------------------------------------
    def build_impl(self):
        # one run of a binary over the whole thorough case file takes minutes; a hang is still cut off
        if getattr(self, 'tier', 'quick') == 'thorough':
            self.case_timeout = 1500
            os.environ['LV_C15_TIMEOUT'] = '1400'
        h = os.path.join(vlib.VERIF, 'harness', self.harness)
        log = ''
        exes = {}
        for dbg in (5, 4):
            exe, l = vlib.build_impl('c15-d%d' % dbg, h, debug=dbg, exclude=('mem.c',))
            log += l
            if exe is None:
                return None, 'DEBUG=%d build failed:\n%s' % (dbg, log)
            exes[dbg] = exe
        d = os.path.join(vlib.BUILD, 'impl', 'c15')
        shutil.rmtree(d, ignore_errors=True)
        os.makedirs(d)
        for dbg in (5, 4):
            shutil.copy2(exes[dbg], os.path.join(d, 'harness-d%d' % dbg))
        disp = os.path.join(d, 'harness')
        shutil.copy2(os.path.join(vlib.VERIF, 'harness', 'c15_dispatch.py'), disp)
        os.chmod(disp, os.stat(disp).st_mode | stat.S_IXUSR | stat.S_IXGRP | stat.S_IXOTH)
        return disp, log

    # ---- cases ---------------------------------------------------------------------------
    def gen(self, tier, rng):
        cases = []
        quick = tier == 'quick'
        # exhaustive small stratum (direct calls; identical in both builds, run on the tracking build
        # and, one depth lower, on the plain build)
        for d in range(1, (4 if quick else 5) + 1):
            for ops in small_histories(d):
                cases.append('h 5 0 ' + ' '.join(ops))
        for d in range(1, (3 if quick else 4) + 1):
            for ops in small_histories(d):
                cases.append('h 4 1 ' + ' '.join(ops))
        # REALLOC/realloc corner table on both builds
        F = hx('f.c')
        for b in (5, 4):
            for lvl in (0, 4, 5, 6):
                for sz in (0, 1):
                    cases.append('h %d 0 L,%d r,%s,3,0,%d,1' % (b, lvl, F, sz))
                    cases.append('h %d 0 L,%d R,%s,103,0,%d,1' % (b, lvl, hx(SITE_FILE), sz))
                    cases.append('h %d 0 L,%d m,%s,3,4,1 r,%s,4,1,%d,2' % (b, lvl, F, F, sz))
                    cases.append('h %d 0 L,%d M,%s,101,4,1 R,%s,103,1,%d,2' % (b, lvl, hx(SITE_FILE), hx(SITE_FILE), sz))
                    cases.append('h %d 0 L,%d x,4,1 r,%s,4,1,%d,2 f,2' % (b, lvl, F, sz))
        # file-name lengths around the limit, NULL file name, line truncation
        for n in list(range(0, 25)) + [40, 100]:
            cases.append('h 5 0 L,5 m,%s,12,8,1 D r,%s,13,1,9,2 D' % (hx('n' * n), hx('r' * n)))
        cases.append('h 5 0 L,5 m,N,12,8,1 r,N,13,1,9,1 s,N,14,%s,2 c,N,15,2,3,3 D' % hx('text'))
        for ln in LINES + BIGLINES:
            cases.append('h 5 0 L,5 m,%s,%d,8,1 r,%s,%d,1,9,2' % (F, ln, F, ln))
        # removal from every position of a table of k records, then growth again
        for k in range(1, 7):
            base = ['L,5'] + ['m,%s,%d,%d,%d' % (F, i, i, i) for i in range(1, k + 1)]
            for victim in range(1, k + 1):
                cases.append('h 5 %d ' % (victim % 2) + ' '.join(base + ['f,%d' % victim, 'D', 'm,%s,99,5,%d' % (F, victim), 'D']))
                cases.append('h 5 0 ' + ' '.join(base + ['r,%s,50,%d,0,0' % (F, victim), 'r,%s,51,0,6,%d' % (F, victim)]))
                cases.append('h 5 0 ' + ' '.join(base + ['r,%s,50,%d,77,%d' % (F, victim, k + 1), 'f,%d' % (k + 1)]))
            cases.append('h 5 0 ' + ' '.join(base + ['f,%d' % i for i in range(k, 0, -1)] + ['D', 'm,%s,1,1,1' % F]))
            cases.append('h 5 0 ' + ' '.join(base + ['f,%d' % i for i in range(1, k + 1)] + ['D', 'm,%s,1,1,1' % F]))
        # random histories
        nrand = 3000 if quick else 250000
        for i in range(nrand):
            kind = rng.choice(['on', 'on', 'toggle', 'macro', 'mixed', 'mixed'])
            build = rng.choice([5, 5, 4])
            ops = rand_history(rng, build, kind, rng.choice([4, 8, 16, 30, 55]))
            cases.append('h %d %d ' % (build, rng.randint(0, 1)) + ' '.join(ops))
        # the same macro history under both expansions (compared with each other in extra_steps)
        self.pairs = []
        for i in range(400 if quick else 20000):
            ops = rand_history(rng, 5, 'macro', rng.choice([4, 8, 16, 30]))
            self.pairs.append(len(cases))
            cases.append('h 5 0 ' + ' '.join(ops))
            cases.append('h 4 0 ' + ' '.join(ops))
        # library scenarios on the tracking build (and a few on the plain build)
        for name in SCENARIOS:
            for n in ([0, 1, 2, 5, 9] if quick else list(range(0, 40))):
                cases.append('scn 5 %s %d' % (name, n))
            cases.append('scn 4 %s 3' % name)
        # every failure exit that allocates first: all variants in both tiers
        for name in sorted(ERR_SCENARIOS):
            for n in range(ERR_SCENARIOS[name] if quick else 2 * ERR_SCENARIOS[name]):
                cases.append('scn 5 %s %d' % (name, n))
            cases.append('scn 4 %s 1' % name)
        # live sets that cross a power of two / a multiple of 256, in both directions
        cases += self.boundary_cases(quick, rng)
        # requested sizes of 2^31 .. 2^64-1 (model and implementation alike: nothing is really allocated)
        cases += bigsize_cases(quick, rng)
        self._cases = cases
        return cases

    def boundary_cases(self, quick, rng):
        out = []
        bounds = BOUNDS_QUICK if quick else sorted(BOUNDS_QUICK + BOUNDS_MORE)
        for B in bounds:
            if quick:
                combos = 40 if B <= 256 else (20 if B <= 768 else 12)
                nrot = 10 if B <= 256 else 5
            else:
                combos = None if B <= 256 else (80 if B <= 512 else (40 if B <= 1024 else 24))
                nrot = 20 if B <= 256 else (10 if B <= 1024 else 4)
            out += crossing_cases(B, combos, 5)
            out += dance_cases(B, nrot, 5)
            if B >= 128:
                out += crossing_cases(B, 8 if quick else 16, 4)     # direct calls in the plain-macro build
                out += dance_cases(B, 2 if quick else 3, 4)
            for _ in range((12 if B <= 256 else 4) if quick else (300 if B <= 256 else 30)):
                out.append(random_walk_case(rng, B, rng.choice([5, 5, 5, 4]), rng.choice([10, 25, 60])))
        for rot in range(2 if quick else 6):
            out.append(staircase_case(bounds if rot % 2 == 0 else [b for b in bounds if b % 256 == 0], 5, rot))
        out.append(staircase_case(BOUNDS_QUICK, 4, 1))
        return out

    def search_gen(self, tier, rng):
        cases = []
        for i in range(20000):
            kind = rng.choice(['on', 'toggle', 'macro', 'mixed'])
            build = rng.choice([5, 4])
            cases.append('h %d %d ' % (build, rng.randint(0, 1)) + ' '.join(rand_history(rng, build, kind, rng.choice([3, 6, 12, 30]))))
        return cases

    # ---- comparison ------------------------------------------------------------------------
    def is_fault(self, out):
        # the harness prints the calls before an undefined free/realloc before it notices it
        return out is not None and 'FAULT:' in out

    def split(self, case, out):
        m = re.match(r'^(.*)\| T(.*) \| H(.*)$', out)
        if not m:
            return out, ''
        recs = m.group(2).split()
        return m.group(1) + '| T ' + ' '.join(sorted(recs)) + ' | H' + m.group(3), ' '.join(recs)

    def oracle(self, case, iout):
        """model-independent: with tracking active throughout and every allocation made through
        the tracker, the table (address, size) is exactly the allocator's live set"""
        t = case.split()
        if t[0] == 'scn':
            if t[1] == '5' and iout != 'scn empty':
                return 'table not empty after every object was deleted: ' + iout
            return None
        if t[0] != 'h' or iout.startswith('FAULT') or iout.startswith('HARNESS'):
            return None
        ops = t[3:]
        build = int(t[1])
        if not ops or not ops[0].startswith('L,'):
            return None
        for o in ops:
            if o.startswith('L,') and int(o[2:]) < DEBUG_MEM:
                return None
            if o[0] == 'x' or (o[0] in MACRO and build < DEBUG_MEM):
                return None
        m = re.match(r'^(.*)\| T(.*) \| H(.*)$', iout)
        if not m:
            return 'unparsable output'
        tab = [tuple(r.split(':')[:2]) for r in m.group(2).split()]
        live = [tuple(r.split(':')) for r in m.group(3).split()]
        if len(set(p for p, _ in tab)) != len(tab):
            return 'two records with the same address'
        if sorted(tab) != sorted(live):
            return 'table %s differs from the live set %s' % (sorted(tab), sorted(live))
        return None

    def nontrivial(self, case, mout):
        if mout.startswith('FAULT') or mout.startswith('INVALID'):
            return False
        t = case.split()
        if t[0] == 'scn':
            return t[1] == '5'
        seen_alloc = False
        for o in t[3:]:
            if o[0] in 'mcsMCS':
                seen_alloc = True
            elif o[0] in 'fFrR' and seen_alloc:
                f = o.split(',')
                p = f[1] if o[0] in 'fF' else f[3]
                if p != '0':
                    return True
        return False

    def extra_steps(self, ctx):
        """macro equivalence observed on the two builds directly: same script, tracking vs plain
        expansion, the returned pointers and the allocator's live set must coincide"""
        out = []
        if not getattr(self, 'pairs', None):
            return out
        cases = []
        for k in self.pairs:
            cases += [self._cases[k], self._cases[k + 1]]
        work = os.path.join(vlib.BUILD, 'work', 'c15')
        os.makedirs(work, exist_ok=True)
        path = os.path.join(work, 'cases-pairs.txt')
        with open(path, 'w') as f:
            f.write('\n'.join(cases) + '\n')
        res, _ = vlib.run_cases(ctx['impl_exe'], path, len(cases), timeout_per_run=self.case_timeout)

        def proj(o):
            if o is None or o.startswith('FAULT'):
                return o
            m = re.match(r'^(.*)\| T(.*) \| H(.*)$', o)
            if not m:
                return o
            # the record count and the dump are the tracker's business, not the client's
            rets = re.sub(r'dump=\d+/\d+', 'dump', re.sub(r'#\d+', '', m.group(1)))
            return rets + '| H' + m.group(3)
        bad = 0
        for i in range(0, len(cases), 2):
            a, b = proj(res[i]), proj(res[i + 1])
            if a != b:
                bad += 1
                if bad <= 3:
                    out.append(('A', cases[i], 'tracking and plain expansions of the macros differ on the live set: %s / %s' % (a, b)))
        ctx['cov']['macro_pairs_compared'] = len(cases) // 2
        return out


CHECK = C15()
