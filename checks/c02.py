"""C02: every list implementation is the same abstract sequence (incl. iterators).
Stage 1: spec-vs-implementation correspondence for array / linked_list / dlinked_list."""
import contlib
from contlib import ContCheck, all_classes


class C02(ContCheck):
    id = 'C02'
    nontrivial_rule = ('a history is non-trivial when at least one operation leaves the list non-empty (an insertion '
                       'succeeded); index arguments are drawn from -len-2..len+2 of the current ideal length, keys from a '
                       '4-letter alphabet; distinct = distinct case lines (each history is run on all three classes); further strata: own-object arguments (remove/index/find/contains of get(i)), second use of a copy (`fork` = dup and keep using the COPY while the original is read back too, `swap`), insert_at/get/remove_at at every power of two and its neighbours (up to 257, class array up to 1025; thorough 513 / 2049), lists of 31..33, 63..65, 127..129, 255..257 (thorough ..1025) elements with every operation at the first/second/quarter/middle/last positions'
                       '; depth stratum (implementation-side oracle, ASan and plain -O0 build, 8 MB stack): lists of 10^5 / 4*10^5 (thorough 10^6) elements with every whole-chain scenario, and stack high-water marks at 1000 / 3000 elements')
    assumptions = ['elements are non-empty spif_str objects compared by spif_str_cmp; element arguments of '
                   'append/prepend/insert/insert_at/index are non-NULL (NULL guards are C16)',
                   'ordered `insert` through the list interface is issued only on an ascending placeholder-free sequence '
                   'whose first key differs from the new key (the classes order equal keys differently; the property text '
                   'does not name insert)',
                   'container lengths below 2^31']

    MANIFEST = dict(
        technique='Rocq refinement proofs (pointer-level class models -> ideal object) and theorems about the executable ideal sequence (ContSpec.v) + extracted-spec/implementation correspondence check on all three list classes',
        text=('The ideal sequence with NULL placeholders (list (option elem), identity and key kept apart) and every '
              'list-interface operation are defined in Rocq; theorems proved for ALL histories / all index values: iterator yields '
              'the sequence once in order and is exhausted exactly after count elements, refusal of positions that normalise below '
              'zero (and at/after len for get/remove_at) without change, length arithmetic of insert_at incl. NULL padding, '
              'get-after-insert_at, conservation (stored + handed-back elements are a permutation of the inserted ones, hence no '
              'element is duplicated or lost). The real classes array, linked_list, dlinked_list are tied to this spec by running '
              'the extracted spec and the ASan build on the same histories (return values + full read-back through get(i), '
              'i in -len-1..len, and a fresh iterator after every operation); every divergence is a failing input.'
              " Stage 2 (in Properties/C02_array.v, C02_linked_list.v, C02_dlinked_list.v, C02_interchangeable.v): pointer-level Gallina models of array.c (items block of exactly len slots, REALLOC/memmove bounds-checked), linked_list.c and dlinked_list.c (node store with use-after-free faults, head/tail/prev/next updates as written, traversals on fuel) are proved to REFINE the ideal sequence for every history of all 15 list operations incl. dup and iterators: never a Fault, outputs equal, and the representation predicate holds afterwards (array: items = the sequence; linked: the next chain from head spells it and no other node is live; dlinked: additionally the prev chain from tail spells the reverse), hence no link corruption, no leak of nodes on deletion, and the three classes are interchangeable (corollary C02_classes_interchangeable). Preconditions: lengths <= INT_MAX; ordered `insert` not issued with the head's key (the classes place equal keys differently; ContSpec documents it). Each class model is tied to its .c file by comparing return values, read-back AND the structure dump (items[], next walk, prev walk from tail) with the ASan build on every generated history. Decided only by the correspondence check: that the models mirror the C text, lifetime of the element objects, identity of dup'ed objects."
              ' Strengthened after the round-2 seeds: (a) far index values - insert_at past the end at every power of two and its neighbours, so the NULL padding crosses every allocation-block boundary; (b) second use of a copy - `fork` dups the list through the interface and the history continues on the COPY (and, after `swap`, on the original) while both are read back after every step and both are deleted at the end; the pointer-level models run the same composite with their own dup functions (dl_dup, ll_dup, arr_list_dup) in one store; (c) own-object arguments - the list is handed back the object it stores (remove/index/find/contains of get(i)); (d) sized lists built with quiet steps; (e) an exhausted iterator must stay exhausted. These are harness/driver-level compositions of the existing spec operations: the op datatypes and theorems are unchanged. Containers above 300 elements (class array list mode: 1100) are compared with the ideal object only; the pointer-level models (O(n) per memory access) take the rest.'
              " Strengthened after the round-4 seeds: a DEPTH stratum with an implementation-side oracle (the extracted models cannot run containers this large): lists of 10^5 and 4*10^5 elements (thorough: also 10^6; class array under ASan 10^4 / 2*10^4 because ASan's realloc copies the block on every append) built through the interface the O(1)-per-step way of the class where there is one, then every scenario the C code could answer by recursing along the chain or walking all of it (dup, reverse, to_array, a full iterator sweep, get at first/middle/last, index/find/contains/remove of the last element, remove_at and insert_at at the end, the ordered insert of a key above all others, deletion), each checked in the harness against its own array of the N objects (count, identity at first/middle/last position, full order in sweeps and to_array); run under the ASan build AND a plain -O0 build without sanitizer, both under the default 8 MB stack, with a per-case watchdog: a crash, a timeout or a wrong result is a level-A failure whose replay is `iface class deep:N;scenario`. In addition the stack high-water mark of every scenario is measured at 1000 and 3000 elements (painted stack); growth of 8 bytes per element or more shows a recursion per element, is confirmed by a run at the predicted overflow size where such a container can be built, and is reported as a broken correspondence otherwise. The sizes that were run are recorded in the evidence (coverage.depth_stratum)."),
        design_ref='DESIGN.md section 7, C02')

    def gen(self, tier, rng):
        cases = []
        quick = tier == 'quick'
        nrand = 6000 if quick else 100000
        for _ in range(nrand):
            cases += all_classes('list', contlib.list_history(rng))
        # longer lists: from-the-tail walks of the dlinked class need len >= 5
        for _ in range(nrand // 10):
            cases += all_classes('list', contlib.list_history(rng, maxops=25, keys=['a', 'b']))
        # keys that are prefixes of each other (a, aa, ab, b, ba, aaa)
        for _ in range(nrand // 10):
            cases += all_classes('list', contlib.list_history(rng, keys=contlib.KEYS_PREFIX))
        depth = 4 if quick else 5
        ex = contlib.list_exhaustive(depth)
        ex2 = contlib.list_exhaustive(3 if quick else 4, contlib.LIST_SYMBOLS2)
        su = contlib.list_second_use()
        far = contlib.list_far_index(8 if quick else 9)
        # the class whose storage is one block (allocation arithmetic): further out
        far_array = contlib.list_far_index(10 if quick else 11, 9 if quick else 10)
        sized = contlib.list_sized(contlib.SIZES_QUICK if quick else contlib.SIZES_THOROUGH, rng)
        self.exhaustive_note = ('all %d sequences of %d symbolic list operations (alphabet of %d, indices relative to the '
                                'current length, keys a/b) and all %d sequences of %d operations of the composite alphabet '
                                '(own-object arguments, fork, swap; %d symbols), on three classes; %d second-use histories (every list '
                                'of 0..3 and 5 elements, dup, two further operations on copy / original); %d far-index histories (index values '
                                'up to %d, class array up to %d); %d '
                                'histories on lists of %s elements'
                                % (len(ex), depth, len(contlib.LIST_SYMBOLS), len(ex2), 3 if quick else 4, len(contlib.LIST_SYMBOLS2),
                                   len(su), len(far) + len(far_array), 257 if quick else 513, 1025 if quick else 2049, len(sized),
                                   '31..257' if quick else '31..1025'))
        for ops in ex + ex2 + su + far + sized:
            cases += all_classes('list', ops)
        cases += ['list array ' + ';'.join(ops) for ops in far_array]
        return cases


CHECK = C02()
