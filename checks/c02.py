"""C02: every list implementation is the same abstract sequence (incl. iterators).
Stage 1: spec-vs-implementation correspondence for array / linked_list / dlinked_list."""
import contlib
from contlib import ContCheck, all_classes


class C02(ContCheck):
    id = 'C02'
    nontrivial_rule = ('a history is non-trivial when at least one operation leaves the list non-empty (an insertion '
                       'succeeded); index arguments are drawn from -len-2..len+2 of the current ideal length, keys from a '
                       '4-letter alphabet; distinct = distinct case lines (each history is run on all three classes)')
    assumptions = ['elements are non-empty spif_str objects compared by spif_str_cmp; element arguments of '
                   'append/prepend/insert/insert_at/index are non-NULL (NULL guards are C16)',
                   'ordered `insert` through the list interface is issued only on an ascending placeholder-free sequence '
                   'whose first key differs from the new key (the classes order equal keys differently; the property text '
                   'does not name insert)',
                   'container lengths below 2^31']

    MANIFEST = dict(
        technique='Rocq refinement proofs (pointer-level class models -> ideal object) and theorems about the executable ideal sequence (ContSpec.v) + extracted-spec/implementation correspondence check on all three list classes',
        text=('The ideal sequence with NULL placeholders (list (option elem), identity and key kept apart) and every '
              'list-interface operation are defined in Rocq; theorems proved for ALL histories / all index values: iterator yields '
              'the sequence once in order and is exhausted exactly after count elements, refusal of positions that normalise below '
              'zero (and at/after len for get/remove_at) without change, length arithmetic of insert_at incl. NULL padding, '
              'get-after-insert_at, conservation (stored + handed-back elements are a permutation of the inserted ones, hence no '
              'element is duplicated or lost). The real classes array, linked_list, dlinked_list are tied to this spec by running '
              'the extracted spec and the ASan build on the same histories (return values + full read-back through get(i), '
              'i in -len-1..len, and a fresh iterator after every operation); every divergence is a failing input.'
              " Stage 2 (in Properties/C02_array.v, C02_linked_list.v, C02_dlinked_list.v, C02_interchangeable.v): pointer-level Gallina models of array.c (items block of exactly len slots, REALLOC/memmove bounds-checked), linked_list.c and dlinked_list.c (node store with use-after-free faults, head/tail/prev/next updates as written, traversals on fuel) are proved to REFINE the ideal sequence for every history of all 15 list operations incl. dup and iterators: never a Fault, outputs equal, and the representation predicate holds afterwards (array: items = the sequence; linked: the next chain from head spells it and no other node is live; dlinked: additionally the prev chain from tail spells the reverse), hence no link corruption, no leak of nodes on deletion, and the three classes are interchangeable (corollary C02_classes_interchangeable). Preconditions: lengths <= INT_MAX; ordered `insert` not issued with the head's key (the classes place equal keys differently; ContSpec documents it). Each class model is tied to its .c file by comparing return values, read-back AND the structure dump (items[], next walk, prev walk from tail) with the ASan build on every generated history. Decided only by the correspondence check: that the models mirror the C text, lifetime of the element objects, identity of dup'ed objects."),
        design_ref='DESIGN.md section 7, C02')

    def gen(self, tier, rng):
        cases = []
        nrand = 6000 if tier == 'quick' else 100000
        for _ in range(nrand):
            cases += all_classes('list', contlib.list_history(rng))
        # longer lists: from-the-tail walks of the dlinked class need len >= 5
        for _ in range(nrand // 10):
            cases += all_classes('list', contlib.list_history(rng, maxops=25, keys=['a', 'b']))
        depth = 4 if tier == 'quick' else 5
        ex = contlib.list_exhaustive(depth)
        self.exhaustive_note = ('all %d sequences of %d symbolic list operations (alphabet of %d, indices relative to the '
                                'current length, keys a/b), on three classes' % (len(ex), depth, len(contlib.LIST_SYMBOLS)))
        for ops in ex:
            cases += all_classes('list', ops)
        return cases


CHECK = C02()
