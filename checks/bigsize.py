"""Shared by C05, C07, C15 and C18: the "sizes of 2^31 and more" pass.

The extracted models work on lists of cells, so a 2^31-byte buffer is out of their reach (2^31 cons cells and a
Z operation per cell).  The theorems already quantify over unbounded lengths; what these cases add is the TIE at
those lengths, decided on the implementation side alone against an oracle that lives in the harness (the C
transcription of a reference definition, or order laws computed from the lengths).  The buffers are sparse
mappings (MAP_NORESERVE anonymous zero pages, or one 2 MiB chunk mapped again and again) and commit next to nothing.

Such a case costs seconds, not microseconds, so it is kept out of the ordinary case list (which the
environment passes of lib/vlib.py replay up to six times): a check runs them once, in parallel processes, from
its extra_steps hook.  Their corpus lives in the property's ordinary corpus directory as lines starting with
`//big ` (a comment for lib/vlib.py, read by corpus_lines below) and runs first in this pass every time.
Every model driver still accepts the case line and prints the constant the harness prints when all is well, so
`bin/check Cnn --replay F` works on a reported case like on any other."""
import os, threading, time
from concurrent.futures import ThreadPoolExecutor
import vlib


def corpus_lines(prop_id):
    out = []
    d = os.path.join(vlib.VERIF, 'corpus', prop_id)
    if os.path.isdir(d):
        for fn in sorted(os.listdir(d)):
            with open(os.path.join(d, fn)) as f:
                for line in f:
                    if line.startswith('//big '):
                        out.append(line[2:].strip())
    return out


def run_parallel(chk, impl_exe, cases, workers=None, timeout=600, env=None, heavy=None, heavy_slots=2):
    """one harness process per case, `workers` at a time; returns the list of result strings.
    heavy(case) marks the cases that really commit gigabytes (an operation that writes or copies the whole
    buffer): at most `heavy_slots` of those run at the same time."""
    workers = workers or max(2, min(8, vlib.NCPU // 2))
    work = os.path.join(vlib.BUILD, 'work', chk.id.lower())
    os.makedirs(work, exist_ok=True)
    slots = threading.BoundedSemaphore(heavy_slots)

    def one(k):
        path = os.path.join(work, 'cases-big%d-%d.txt' % (k, os.getpid()))
        with open(path, 'w') as f:
            f.write(cases[k] + '\n')
        hv = bool(heavy and heavy(cases[k]))
        if hv:
            slots.acquire()
        try:
            res, det = vlib.run_cases(impl_exe, path, 1, timeout_per_run=timeout, env=env)
        finally:
            if hv:
                slots.release()
            try:
                os.remove(path)
            except OSError:
                pass
        return res[0], det.get(0)
    with ThreadPoolExecutor(max_workers=workers) as ex:
        return list(ex.map(one, range(len(cases))))


def big_pass(chk, ctx, cases, expect, what, workers=None, timeout=600, heavy=None, heavy_slots=2):
    """Run `cases` on the implementation only; expect(case) is the output that means "as the oracle says".
    Returns extra_steps tuples (level A) and records the pass in the evidence."""
    cases = list(dict.fromkeys(corpus_lines(chk.id) + list(cases)))
    t0 = time.time()
    if heavy:
        # the cases that commit memory first: they are the long ones, and the light ones fill the other workers
        cases = [c for c in cases if heavy(c)] + [c for c in cases if not heavy(c)]
    outs = run_parallel(chk, ctx['impl_exe'], cases, workers=workers, timeout=timeout, heavy=heavy, heavy_slots=heavy_slots)
    bad = []
    for c, (o, det) in zip(cases, outs):
        if o != expect(c):
            bad.append(('A', c, 'size class 2^31 and up, implementation-side oracle: %s' % (o,)))
    ctx['cov']['big_sizes'] = dict(
        what=what, cases=len(cases), failed=len(bad), wall_s=round(time.time() - t0, 1),
        note=('implementation-side oracle only: the extracted model is a function on lists of cells and is not evaluated at these '
              'sizes (the theorems quantify over them); buffers are sparse mappings, nothing is committed'),
        sample=[dict(case=c, impl=o) for c, (o, det) in list(zip(cases, outs))[:3]])
    ctx['cov']['evaluations'] = ctx['cov'].get('evaluations', 0) + len(cases)
    ctx['cov']['traces_validated_against_impl'] = ctx['cov'].get('traces_validated_against_impl', 0) + len(cases) - len(bad)
    return bad
