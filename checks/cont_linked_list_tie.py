"""Stage 2 tie for class linked_list (used by C02 / C03 / C04 through contlib.ContCheck.extra_steps).

The histories of class linked_list are run through the extracted POINTER-LEVEL model
(coq/Cont/LListModel.v, driver/cont_linked_list_main.ml: return values and read-back computed
on the model's own node store, plus the structure dump `L len= next=[..]`) and through the
ASan build of the real class with LV_CONT_B=1 (same dump read through the public struct fields).
Level A = the part before '|' differs (return value / read-back), level B = only the dump does:
the links or len of the real object are not what the proved model has, although every observable
was still right.
"""
import os, time
import vlib
import contlib
from contlib import split_ab

FAMILY = 'cont_linked_list'
CLASS = 'linked_list'


def _first_diff(m, i):
    ms, js = (m or '').split(' ; '), (i or '').split(' ; ')
    for n in range(max(len(ms), len(js))):
        a = ms[n] if n < len(ms) else '<nothing>'
        b = js[n] if n < len(js) else '<nothing>'
        if a != b:
            return 'step %d: model `%s` implementation `%s`' % (n, a[:160], b[:160])
    return 'outputs differ'


def run(chk, ctx, cases):
    cases = [c for c in cases if c.split(' ')[1:2] == [CLASS]]
    ntotal = len(cases)
    cases = [c for c in cases if contlib.tie_affordable(c)]
    if not cases:
        return []
    t0 = time.time()
    exe, log = vlib.build_model(FAMILY)
    if exe is None:
        # the pointer-level model does not build from this tree (e.g. an unrelated generator failed):
        # fall back to the model of the last tree on which it did - it is the function the theorems are about
        exe = vlib.good_model(FAMILY)
        ctx['cov'].setdefault('class_model_notes', []).append('%s: current build failed, %s' % (
            FAMILY, 'last good build used' if exe else 'no earlier build'))
        if exe is None:
            return [('B', cases[0], 'pointer-level model of %s does not build: %s' % (CLASS, log[-400:]))]
    else:
        vlib.save_good_model(FAMILY, exe)
    work = os.path.join(vlib.BUILD, 'work', chk.id.lower())
    os.makedirs(work, exist_ok=True)
    # a file of its own per process: several checks of one property may run at the same time
    path = os.path.join(work, 'cases-%s-%d.txt' % (FAMILY, os.getpid()))
    with open(path, 'w') as f:
        for c in cases:
            f.write(c + '\n')
    try:
        mouts = contlib.run_model_sliced(exe, cases, work, FAMILY)
        iouts, det = vlib.run_cases(ctx['impl_exe'], path, len(cases), env={'LV_CONT_B': '1'},
                                    timeout_per_run=getattr(chk, 'case_timeout', 600))
    finally:
        try:
            os.remove(path)
        except OSError:
            pass
    out = []
    agree = 0
    for c, m, i in zip(cases, mouts, iouts):
        if m is not None and m == i:
            agree += 1
            continue
        if m is None or i is None or m.startswith('DRIVER-ERROR') or m == 'SKIP' or i.startswith('HARNESS-ERROR'):
            out.append(('B', c, '%s model/harness glue: model `%s` implementation `%s`' % (CLASS, str(m)[:80], str(i)[:80])))
            continue
        mf, jf = 'FAULT:' in m, 'FAULT:' in i
        if jf and not mf:
            out.append(('A', c, '%s faults where its pointer-level model does not: %s' % (CLASS, i[-80:])))
        elif mf and not jf:
            out.append(('B', c, 'pointer-level model of %s predicts %s, the sanitizer saw nothing' % (CLASS, m[-60:])))
        elif mf and jf:
            agree += 1
        else:
            ma, ia = split_ab(m)[0], split_ab(i)[0]
            if ma != ia:
                out.append(('A', c, '%s differs from its pointer-level model in a return value or read-back; %s'
                            % (CLASS, _first_diff(ma, ia))))
            else:
                out.append(('B', c, 'structure dump of %s (len / head->next chain) differs from the pointer-level model; %s'
                            % (CLASS, _first_diff(split_ab(m)[1], split_ab(i)[1]))))
    ctx['cov'].setdefault('class_model_runs', {})[CLASS] = dict(
        histories=len(cases), too_large_for_the_pointer_level_model=ntotal - len(cases), agree=agree, disagree=len(out),
        wall_s=round(time.time() - t0, 2),
        model='coq/Cont/LListModel.v via driver/%s_main.ml' % FAMILY)
    out.sort(key=lambda d: (d[0], len(d[1])))
    return out[:200]
