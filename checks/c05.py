"""C05: object protocol - dup is an independent equal copy, comp is a consistent order, type()
names the class.  Model: coq/Own/World.v (value trees), theorems coq/Properties/C05.v."""
import os
import vlib
import ownlib
import bigsize
from ownlib import hx, hxs


def mutations(kindname, y, nh):
    """a history acting on handle y only (new objects get handles nh, nh+1, ...); returns ops.  Every
    history ends with done() followed by RE-USE of the object without init (done leaves the class's
    empty state)."""
    k = kindname.split('-')[0]
    if k in ('str', 'ustr', 'mbuff'):
        # the len / size setters given the getters' answers; a buffer cut short through set_len
        return (['append %d 7a7a' % y, 'setlen %d -1' % y] + (['setlen %d 1' % y, 'dump %d' % y] if k == 'mbuff' else []) +
                ['substr %d 0 1' % y, 'done %d' % y, 'setlen %d -1' % y, 'append %d 71' % y])
    if k == 'obj':
        return ['done %d' % y]
    if k == 'pair':
        return ['str 6e6b', 'setk %d %d' % (y, nh), 'mappend %d 0 7a7a' % y, 'setv %d _' % y, 'done %d' % y, 'str 6b32', 'setk %d %d' % (y, nh + 1),
                'str 7632', 'setv %d %d' % (y, nh + 2), 'mappend %d 1 -' % y, 'mappend %d 1 71' % y]
    if k == 'tok':
        # every setter of the class, each followed by a read-back BEFORE the next eval (the token list is then out
        # of step with the member just changed), the list edited through get_tokens, a list installed and removed
        # with set_tokens, members changed in place through their getters, done and re-use
        ops, n = [], [nh]

        def new(op):
            ops.append(op)
            n[0] += 1
            return n[0] - 1
        ops.append('eval %d' % y)
        ops += ['setsep %d %d' % (y, new('str 2c')), 'dump %d' % y, 'eval %d' % y]
        ops += ['setsrc %d %d' % (y, new('str ' + hx(b"q |r,s| 't u'"))), 'dump %d' % y, 'eval %d' % y]
        ops += ['setq %d q 124' % y, 'dump %d' % y, 'eval %d' % y, 'setq %d d 39' % y, 'setq %d e 113' % y, 'dump %d' % y, 'eval %d' % y]
        new('tlremove_at %d 0' % y)
        ops += ['dump %d' % y, 'tlappend %d %d' % (y, new('str 7a')), 'mappend %d 0 2078' % y, 'mappend %d 1 20' % y, 'dump %d' % y, 'eval %d' % y]
        lst = new('cont L a')
        ops += ['lappend %d %d' % (lst, new('str 65')), 'settoks %d %d' % (y, lst), 'dump %d' % y, 'eval %d' % y, 'settoks %d _' % y, 'dump %d' % y]
        ops += ['done %d' % y, 'eval %d' % y, 'setsrc %d %d' % (y, new('str 6120622063')), 'eval %d' % y]
        return ops
    if k == 'url':
        return ['str 6e6e', 'urlset %d 3 %d' % (y, nh), 'mappend %d 3 2e78' % y, 'str 3939', 'urlset %d 4 %d' % (y, nh + 1), 'urlset %d 5 _' % y,
                'unparse %d' % y, 'done %d' % y, 'str 6868', 'urlset %d 3 %d' % (y, nh + 2), 'unparse %d' % y]
    if k == 're':
        # every flag letter in turn (the read-back says what the object matches), recompile, empty, re-use
        return ['flags %d 69' % y, 'compile %d' % y, 'flags %d %s' % (y, hxs('ms')), 'flags %d %s' % (y, hxs('x')),
                'flags %d %s' % (y, hxs('8')), 'flags %d -' % y, 'flags %d %s' % (y, hxs('imsx')), 'done %d' % y,
                'flags %d 69' % y, 'compile %d' % y]
    if k[0] == 'L':
        return ['str 7a', 'lappend %d %d' % (y, nh), 'str 30', 'lprepend %d %d' % (y, nh + 1), 'lremove_at %d 1' % y,
                'lreverse %d' % y, 'str 6d', 'linsert_at %d %d 1' % (y, nh + 3), 'done %d' % y, 'str 6e', 'lappend %d %d' % (y, nh + 4)]
    if k[0] == 'V':
        return ['str 7a', 'vinsert %d %d' % (y, nh), 'str 30', 'vinsert %d %d' % (y, nh + 1), 'str 61', 'vremove %d %d' % (y, nh + 2),
                'str 62', 'vinsert %d %d' % (y, nh + 4), 'done %d' % y, 'str 63', 'vinsert %d %d' % (y, nh + 5)]
    if k[0] == 'M':
        # both forms of set (key + value, and the pair form with a pair the caller keeps and deletes), the
        # map's own entry handed back, remove, done, re-use through the pair form
        return ['str 6b', 'str 6e6577', 'mset %d %d %d' % (y, nh, nh + 1), 'str 7a', 'mset %d %d %d' % (y, nh + 2, nh + 1),
                'pair %d %d' % (nh + 1, nh + 2), 'msetp %d %d' % (y, nh + 3), 'str 6b', 'setv %d %d' % (nh + 3, nh + 4),
                'msetp %d %d' % (y, nh + 3), 'del %d' % (nh + 3), 'msetown %d %d' % (y, nh), 'msetownp %d %d' % (y, nh + 2),
                'mremove %d %d' % (y, nh), 'mkeys %d _' % y, 'done %d' % y, 'pair %d %d' % (nh + 2, nh + 1),
                'msetp %d %d' % (y, nh + 7), 'del %d' % (nh + 7)]
    return []


class C05(vlib.PropertyCheck):
    id = 'C05'
    family = 'c05'
    harness = 'c05.c'
    generators = ['gen_constants.py', 'gen_c05.py']
    case_timeout = 300
    nontrivial_rule = ('a program is non-trivial when the model runs it without a fault and it contains at least one dup, comp or '
                       'type operation on a non-NULL object; distinct = distinct case lines')
    assumptions = ['programs use only handles they hold and apply operations to objects of the right class (anything else is '
                   'refused identically by model and harness before the library is called)',
                   'texts are NUL-free; object sizes below 2^31 for the model runs - mbuff and str objects of 2^31-1 bytes and more are tied on the '
                   'implementation side only (comp against the lexicographic order computed from the lengths; the value-tree model is too slow there)',
                   'comparisons across different classes (other than objpair against a bare key) are type confusion and outside '
                   'the quantifier',
                   'the value of a regexp is (pattern text, flag word); what pcre compiles from such a value is an oracle table '
                   '(blocks left allocated, and which of 12 probe subjects it matches) calibrated against the running pcre library '
                   'with straight pcre_compile/pcre_exec calls; every read-back of a regexp object includes what the OBJECT matches '
                   '(both matching entry points) and must equal the table entry of its value',
                   'the service database answers "unknown" (interposed), so url parsing never fills a port',
                   'the text of a regexp object is not changed through the str interface after construction (the class has no setter '
                   'for it); stream contents given to the str / ustr / tok constructors are NUL-free']
    tie_text = ('correspondence harness: harness/c05.c built twice from the tree under test (ASan/UBSan build for values and memory '
                'faults; sanitizer-free build with a monotone bump allocator behind -Wl,--wrap=malloc,... for comparisons by '
                'address), driver/c05_main.ml, checks/ownlib.py, lib/vlib.py')

    MANIFEST = dict(
        technique=('Rocq theorems about an executable ownership model (objects as value trees, per-class comp/dup mirrored from '
                   'the C code) + extracted-model/implementation correspondence check on generated programs'),
        text=('Proved in Rocq for every object of every value class (str, ustr, mbuff, objpair, tok, url, regexp and the nine '
              'list/vector/map classes, any nesting, every state including empty strings, empty containers, NULL placeholders, '
              'unevaluated tokenizers): dup yields an object of the same class with the same observable value (C05_dup_equal, '
              'C05_dup_same_class) whose creation allocates exactly its own footprint and leaves every other held object untouched '
              '(C05_dup_fresh), and any later history that does not name one of two handles leaves its value unchanged and held '
              '(C05_independent); comp is a structural recursion (no fuel, so it terminates) that is reflexive, antisymmetric and '
              'transitive wherever it is defined, orders NULL below every object and makes equal-prefix buffers of different '
              'length unequal (C05_comp_*); comp is defined on all objects of one comparison type (C05_comp_defined); a tokenizer\'s '
              'copy carries the original\'s source, separators, quote / dquote / escape characters and its token list AS IT IS - also '
              'when the list is out of step with the other members because a member was changed after eval, a token was removed '
              'from the list spif_tok_get_tokens hands out or a list was installed with spif_tok_set_tokens - and such states are '
              'reachable (C05_dup_tok_copies_members, C05_tok_setter_leaves_list); with the default characters the model\'s scanner '
              'is the quoting grammar of C12 (C05_tok_scanner_default); type() '
              'returns the class name generated from the SPIF_DECL_CLASSNAME entries (C05_type_names_class). Decided by the '
              'correspondence check only: that the C routines are the modelled functions (generated programs over all classes run '
              'through the extracted model and the ASan build; dup followed by a history on the copy including del, then read-back '
              'of the original, and vice versa - every such history ends with done() and re-use without init and applies every '
              'setter of the class (tok: src, sep, quote, dquote, escape, tokens; url: the seven components; objpair: key, value; '
              'regexp: flags; mbuff: len) with a read-back BEFORE the next eval / unparse / compile, edits members in place through '
              'the pointers the getters hand out, and the read-back goes through the getters as well as the struct; class states '
              'include tokenizers whose list is stale in each of these ways, custom / switched-off / high-bit quote characters, '
              'and objects made by the constructors from FILE* / descriptor; maps are also '
              'filled through the pair form of set and handed their own stored entries, and the read-back of a regexp says what '
              'the object matches, with one class state per compile flag whose pattern makes the flag decide a probe; '
              'all pairs of pools of objects per class including NULL with the order laws '
              're-checked on the implementation\'s own answers; address-ordered classes compared exactly in a second build whose '
              'allocator is monotone).  mbuff and str objects of 2^31-1 up to 3*2^31+5 bytes (storage pointed at sparse mappings through the '
              'public struct members) are compared pairwise through the class comp method on the implementation only, against the '
              'lexicographic order computed from the lengths, and duplicated (equal, own storage, independent under a write to the copy and its '
              'deletion); the theorems cover those lengths, the extracted model is not run there.'),
        design_ref='DESIGN.md section 7, C05')

    # ---- builds ----
    def build_impl(self):
        exe, log = ownlib.build_asan('c05-' + getattr(self, 'tier', 'quick'))
        self._asan = exe
        return exe, log

    # ---- generation ----
    def gen(self, tier, rng):
        table = ownlib.calibrate(self._asan)
        oracle = 're=?'                 # replaced at the end by the table entries each program needs
        cases = []
        S = ownlib.class_states()
        # 1. dup / type / independence, every class state
        for name, ops in S:
            n = ownlib.count_handles(ops)
            x = ownlib.subject(ops)
            y = n
            pre = ' ; '.join(ops)
            cases.append('type %s ; %s ; type %d ; dup %d ; type %d ; dumpall ; delall' % (oracle, pre, x, x, y))
            # history on the copy, original read back (and the other way round)
            for (a, b) in ((y, x), (x, y)):
                mut = mutations(name, a, n + 1)
                cases.append('dupi %s ; %s ; dup %d ; dump %d ; %s ; dump %d ; del %d ; dump %d ; dumpall ; delall'
                             % (oracle, pre, x, y, ' ; '.join(mut), b, a, b))
            # delete right after the copy
            cases.append('dupi %s ; %s ; dup %d ; del %d ; dump %d ; dumpall ; delall' % (oracle, pre, x, x, y))
            # comparison of an object with itself, its copy and NULL
            cases.append('ord %s ; %s ; dup %d ; comp %d %d ; comp %d %d ; comp %d %d ; comp %d _ ; comp _ %d ; comp _ _ ; delall'
                         % (oracle, pre, x, x, x, x, y, y, x, x, x))
        # 2. order laws over pools
        cases += self.pools(oracle)
        # 3. generated programs
        nprog = 500 if tier == 'quick' else 24000
        specs = []
        for i in range(nprog):
            theme = ['own', 'dupi', 'ord', 'map'][i % 4]
            specs.append((theme if theme != 'own' else 'mix', theme, [], rng.randint(4, 30)))
        # a share starts from a class state and its copy
        for i in range(nprog // 3):
            name, ops = S[rng.randrange(len(S))]
            specs.append(('dupi', 'dupi', ops + ['dup %d' % ownlib.subject(ops)], len(ops) + rng.randint(3, 14)))
        cases = [ownlib.finalize(c, table) for c in cases]
        cases += ownlib.grow(rng, table, specs, 32, avoid_addr=True)
        self._cases = cases
        return cases

    def pools(self, oracle):
        out = []

        def pool(word, builders, extra=()):
            """builders: list of op lists each creating ONE pool object as its last new handle"""
            ops, hs = [], []
            base = 0
            for b in builders:
                ops += ownlib.renumber(b, base)
                base += ownlib.count_handles(b)
                hs.append(None)
            # the pool object of each builder: recompute
            base = 0
            hs = []
            for b in builders:
                hs.append(base + ownlib.subject(b))
                base += ownlib.count_handles(b)
            names = [str(h) for h in hs] + ['_']
            comps = ['comp %s %s' % (a, b) for a in names for b in names]
            out.append('%s %s ; %s ; %s ; delall' % (word, oracle, ' ; '.join(ops + list(extra)), ' ; '.join(comps)))
        texts = ['N', '-', '61', '6162', '62', '61', 'e9', '6161']
        for k in ('str', 'ustr', 'mbuff'):
            pool('ord', [['%s %s' % (k, t)] for t in texts])
        pool('ord', [['obj'] for _ in range(5)])
        # pairs: ordered by key; a pair also compares against a bare key
        pool('ord', [['pair _ _'], ['str 61', 'pair 0 _'], ['str 62', 'str 78', 'pair 0 1'], ['str 76', 'pair _ 0'],
                     ['str 61', 'str 79', 'pair 0 1'], ['str 6162', 'pair 0 _']])
        out.append('ord %s ; str 61 ; str 62 ; pair 0 1 ; comp 2 0 ; comp 2 1 ; pair _ 0 ; comp 3 0 ; comp 3 _ ; delall' % oracle)
        pool('ord', [['tok N'], ['tok 61'], ['tok 6162'], ['tok 61', 'eval 0'], ['tok 62'], ['tok -'], ['tok 61', 'setq 0 q 124', 'eval 0'],
                     ['tok 6162', 'eval 0', 'setsrc 0 _'], ['fnew tok fp reg 61 0'], ['tok 61', 'cont L a', 'settoks 0 1']])
        pool('ord', [['fnew %s fd reg 6162 0' % k] for k in ('str',)] + [['str 6162'], ['fnew str fp reg 610a62 0'], ['str 61'], ['fnew str fd closed - 0'], ['str -']])
        pool('ord', [['fnew mbuff fp reg 616263 1'], ['mbuff 6263'], ['mbuff 626364', 'setlen 0 2'], ['fnew mbuff fd pipe - 0'], ['mbuff N'], ['mbuff 62']])
        pool('ord', [['url N'], ['url ' + hx(b'a')], ['url ' + hx(b'xq://h')], ['url ' + hx(b'a')], ['url ' + hx(b'b:1')],
                     ['url ' + hx(b'xq://h'), 'unparse 0']])
        pool('ord', [['re N'], ['re 61'], ['re 6162'], ['re 61', 'flags 0 69'], ['re 6128'], ['re -']])
        for iface in 'LVM':
            for c in 'ald':
                def items(ts):
                    ops = ['cont %s %s' % (iface, c)]
                    h = 1
                    for t in ts:
                        if iface == 'M':
                            ops += ['str %s' % t, 'str 76', 'mset 0 %d %d' % (h, h + 1), 'del %d' % h, 'del %d' % (h + 1)]
                            h += 2
                        else:
                            ops += ['str %s' % t, '%s 0 %d' % ('lappend' if iface == 'L' else 'vinsert', h)]
                            h += 1
                    return ops
                builders = [items([]), items(['61']), items(['61', '62']), items(['61', '62', '63']), items(['62']), items(['61', '62']),
                            items(['6162'])]
                if iface == 'L':
                    builders.append(['cont L %s' % c, 'str 61', 'linsert_at 0 1 1'])          # [NULL, a]
                    builders.append(['cont L %s' % c, 'str 61', 'lappend 0 1', 'str 7a', 'linsert_at 0 2 3'])   # [a, NULL, NULL, z]
                pool('ord', builders)
        # arrays of address-ordered elements, mixed interfaces of one class
        pool('ord', [['cont L a', 'cont L l', 'lappend 0 1'], ['cont L a', 'cont L l', 'lappend 0 1', 'cont L l', 'lappend 0 2'],
                     ['cont L a'], ['cont V a'], ['cont M a']])
        pool('ord', [['cont L a', 'obj', 'lappend 0 1'], ['cont L a', 'obj', 'lappend 0 1', 'obj', 'lappend 0 2'], ['cont V a']])
        pool('ord', [['cont L l'], ['cont V l'], ['cont M l'], ['cont L l', 'str 61', 'lappend 0 1']])
        pool('ord', [['cont L d'], ['cont V d'], ['cont M d'], ['cont L d', 'str 61', 'lappend 0 1']])
        return out

    # ---- comparison ----
    def is_fault(self, out):
        return out is not None and 'FAULT' in out

    def split(self, case, out):
        # results decided by addresses print as a bare "@" here; they are compared in the build
        # whose allocator is monotone (extra_steps)
        toks = ownlib.tokens(out)
        return ' '.join(ownlib.res_of(tk) for tk in toks), ' '.join(ownlib.ledger_of(tk) for tk in toks)

    def oracle(self, case, iout):
        return ownlib.order_oracle(case, iout)

    def nontrivial(self, case, mout):
        return 'FAULT' not in mout and any(op.split(' ')[0] in ('dup', 'comp', 'type') for op in ownlib.ops_of(case))

    # ---- objects of 2^31-1 bytes and more (checks/bigsize.py; the "big" case of harness/c05.c; harness/bigmap.h) ----
    def big_cases(self, tier):
        P31, P32 = 1 << 31, 1 << 32
        if tier == 'quick':
            mb = [(1, P31 + 2), (1, P32 + 1), (2, P31), (0, P31 - 1), (P31 - 1, P31), (P31, P31 + 2), (P31 + 2, P32 + 1), (P31 - 1, P32 + 1)]
            st = [(1, P31 + 2), (P31 - 1, P31 + 2)]
            poked = [('mbuff', P31 + 2, P31 + 1), ('mbuff', P32 + 1, P32), ('str', P31 + 2, P31)]
        else:
            lens = [0, 1, 2, P31 - 1, P31, P31 + 2, P32 - 1, P32, P32 + 1, 3 * P31 + 5]
            mb = [(a, b) for i, a in enumerate(lens) for b in lens[i + 1:] if b >= P31 - 1]
            sl = [1, P31 - 1, P31, P31 + 2, P32 + 1]
            st = [(a, b) for i, a in enumerate(sl) for b in sl[i + 1:]]
            poked = [(k, n, off) for k in ('mbuff', 'str') for n in (P31 + 2, P32 + 1) for off in (P31 - 1, P31 + 1, P32) if off < n]
        cases = ['big comp mbuff z%d z%d' % ab for ab in mb] + ['big comp str z%d z%d' % ab for ab in st]
        for (k, n, off) in poked:
            # one differing byte beyond offset 2^31 / 2^32: against the unpoked object of the same length, and against the
            # shorter object that ends just before it
            cases.append('big comp %s z%d p%d@%d' % (k, n, n, off))
            cases.append('big comp %s p%d@%d z%d' % (k, n, off, off))
        # dup of such an object: the copy really exists (the case commits its length; checks/bigsize.py runs at most two at a time)
        dups = [('mbuff', P31 + 2, P31 + 1)]
        if tier != 'quick':
            dups += [('mbuff', P31 - 1, P31 - 2), ('mbuff', P31, 0), ('mbuff', P32 + 1, P32), ('str', P31 - 1, 7), ('str', P31 + 2, P31 + 1)]
        return ['big dup %s p%d@%d -' % d for d in dups] + cases

    def extra_steps(self, ctx):
        big = bigsize.big_pass(self, ctx, self.big_cases(ctx['tier']), lambda c: 'BIG:ok', heavy=lambda c: c.startswith('big dup '),
                               what=('mbuff and str objects of length 0, 1, 2 and 2^31-1 .. 3*2^31+5 whose storage pointer is set to a sparse '
                                     'mapping through the public struct members: the class comp method (SPIF_OBJ_COMP and spif_<class>_comp) on '
                                     'pairs, both ways round and on each object with itself, against the lexicographic order computed from the '
                                     'lengths (equal bytes: the sign of the length difference; one differing byte beyond offset 2^31 / 2^32) - '
                                     'answers equal to that order are reflexive, antisymmetric and transitive; SPIF_OBJ_DUP of such objects (same class, own '
                                     'storage, same length and bytes, a write to the copy leaves the original alone, the copy deleted)'))
        return big + self.extra_steps_addr(ctx)

    def extra_steps_addr(self, ctx):
        """address-ordered comparisons: the same cases in the build whose allocator is monotone"""
        out = []
        cases = [c for c in ownlib.corpus_cases(self.id) + getattr(self, '_cases', []) if ' comp ' in c]
        if not cases or not ctx['model_exe']:
            return out
        exe, log = ownlib.build_bump('c05-%s-bump' % ctx['tier'])
        if exe is None:
            return [('B', None, 'bump build failed: ' + log[-300:])]
        work = os.path.join(vlib.BUILD, 'work', 'c05')
        path = os.path.join(work, 'cases-bump.txt')
        with open(path, 'w') as f:
            for c in cases:
                f.write(c + '\n')
        os.environ['LV_EXACT'] = '1'           # both sides print the results decided by addresses
        try:
            mouts, _ = vlib.run_model(ctx['model_exe'], path, len(cases))
            iouts, det = vlib.run_cases(exe, path, len(cases), timeout_per_run=self.case_timeout)
        finally:
            del os.environ['LV_EXACT']
        n = 0
        for c, m, i in zip(cases, mouts, iouts):
            if m is None or i is None:
                continue
            mf, jf = self.is_fault(m), self.is_fault(i)
            if mf and jf:
                continue
            if jf and not mf:
                out.append(('A', c, 'bump build: implementation faults: ' + i[-80:]))
                continue
            om = ownlib.order_oracle(c, i)
            if om:
                out.append(('A', c, 'bump build: oracle: ' + om))
                continue
            ra = ' '.join(ownlib.res_of(t) for t in ownlib.tokens(m))
            rb = ' '.join(ownlib.res_of(t) for t in ownlib.tokens(i))
            if ra != rb:
                out.append(('A', c, 'bump build: comparison result differs from the model: model %s impl %s' % (ra[:300], rb[:300])))
            n += 1
        ctx['cov']['address_ordered_cases'] = n
        return out


CHECK = C05()
