"""C03: every map implementation is the same finite dictionary.
Stage 1: spec-vs-implementation correspondence for the three map classes."""
import contlib
from contlib import ContCheck, all_classes


class C03(ContCheck):
    id = 'C03'
    nontrivial_rule = ('a history is non-trivial when at least one set succeeded (map non-empty at some point); keys from a '
                       '4-letter alphabet so overwrites and repeated removals are common; removals prefer the smallest / '
                       'largest key present; distinct = distinct case lines (three classes per history); further strata: pair form of set, own-object arguments (set/has_value with the map\'s own value object, set with its own pair, set/get/remove with its own key object), non-NULL list argument of get_keys/get_values/get_pairs, second use of a copy (`fork`, `swap`), maps of 31..257 (thorough ..1025) distinct keys in three build orders with every form of set/get/remove at the boundary positions and for absent keys below/between/above'
                       '; receiving lists of get_keys/get_values/get_pairs (each of the three list classes, already holding 0, 1, 2, 3, 5 objects; ideal: old ++ keys); depth stratum (implementation-side oracle, ASan and plain -O0 build): maps of 4000 (thorough 12000) entries with every whole-chain scenario, and stack high-water marks at 1000 / 3000 entries')
    assumptions = ['keys and values are non-empty spif_str objects, never NULL (the code asserts this)',
                   'map lengths below 2^31']

    MANIFEST = dict(
        technique='Rocq refinement proofs (pointer-level class models -> ideal object) and theorems about the executable ideal dictionary (ContSpec.v) + extracted-spec/implementation correspondence check on all three map classes',
        text=('The ideal dictionary (strictly ascending association list of key/value texts; it holds copies, so '
              'caller-object operations are no-ops) is defined in Rocq; theorems for ALL histories: keys stay strictly ascending '
              '(one pair per key), lookup equals the function-update semantics (a key maps to the value most recently set and not '
              'removed since), set reports replacement iff the key was present, remove hands back the pair exactly once, '
              'get_keys/get_values/get_pairs/iteration are the same ascending sequence. The real classes are tied to the spec by '
              'running the extracted spec and the ASan build on the same histories, including mutation and deletion of the '
              'caller\'s key and value objects after set and continued use after removals of the smallest/largest/only key; '
              'returned objects are also checked not to be the caller\'s own. Pointer-level models and refinement proofs are '
              'stage 2; memory safety is decided by the sanitizer run only.'
              " Stage 2 (Properties/C03_array.v, C03_linked_list.v, C03_dlinked_list.v, C03_interchangeable.v): the pointer-level models of the three classes' map methods (probe + ordered insert of a copied pair, binary search / ordered scan, unlink on remove incl. head, inner, tail and only entry) are proved to refine the ideal dictionary for every history: never a Fault, outputs equal, keys strictly ascending, representation (incl. tail/prev links of the dlinked class) re-established after every removal; the three classes are interchangeable (corollary). 'The map holds its own copies' is decided by the correspondence check (caller objects mutated/deleted after set), the model stores key and value texts."
              " Strengthened after the round-2 seeds: own-object arguments (SPIF_MAP_SET(m, k, SPIF_MAP_GET(m, k)), set of the map's own pair from its iterator, set/get/remove with the map's own key object, has_value of its own value), the pair form set(objpair, NULL), the non-NULL list form of get_keys/get_values/get_pairs, `fork` (dup, then keep using the copy while the original is read back) and sized maps built with quiet steps. All are harness/driver-level compositions of the existing spec operations (the model side looks the key up with MGet and then issues the existing MSet/MGet/MRemove/MHasValue); op datatypes and theorems unchanged. Maps above 300 keys are compared with the ideal dictionary only."
              ' Round 4 also added the receiving lists of get_keys/get_values/get_pairs: a caller-supplied list of each of the three list classes that already holds 0, 1, 2, 3 or 5 objects (`get_*_into:C:N`), on maps of 0..3 and 40 entries and inside random histories; the ideal result is old ++ keys, computed from the existing MGetKeys/MGetValues/MGetPairs. Strengthened after the round-4 seeds: a DEPTH stratum with an implementation-side oracle (the extracted models cannot run containers this large): maps of 4000 (thorough 12000) entries - every set probes the whole map first in all three classes, so a map cannot be built in less than quadratic time and recursion depth is observed through the stack high-water mark instead of a crash - built through the interface the O(1)-per-step way of the class where there is one, then every scenario the C code could answer by recursing along the chain or walking all of it (dup, a full iterator sweep, get_keys/get_values/get_pairs with and without a receiving list, get/has_key/has_value/set/remove at the last key and above it, deletion), each checked in the harness against its own array of the N objects (count, identity at first/middle/last position, full order in sweeps and to_array); run under the ASan build AND a plain -O0 build without sanitizer, both under the default 8 MB stack, with a per-case watchdog: a crash, a timeout or a wrong result is a level-A failure whose replay is `iface class deep:N;scenario`. In addition the stack high-water mark of every scenario is measured at 1000 and 3000 elements (painted stack); growth of 8 bytes per element or more shows a recursion per element, is confirmed by a run at the predicted overflow size where such a container can be built, and is reported as a broken correspondence otherwise. The sizes that were run are recorded in the evidence (coverage.depth_stratum).'),
        design_ref='DESIGN.md section 7, C03')

    def gen(self, tier, rng):
        cases = []
        quick = tier == 'quick'
        nrand = 6000 if quick else 100000
        for _ in range(nrand):
            cases += all_classes('map', contlib.map_history(rng))
        for _ in range(nrand // 10):
            cases += all_classes('map', contlib.map_history(rng, keys=['a', 'b', 'c', 'd', 'e', 'f', 'g', 'h']))
        # keys that are prefixes of each other (a, aa, ab, b, ba, aaa)
        for _ in range(nrand // 10):
            cases += all_classes('map', contlib.map_history(rng, keys=contlib.KEYS_PREFIX))
        depth = 4 if quick else 5
        ex = contlib.map_exhaustive(depth)
        ex2 = contlib.map_exhaustive(3 if quick else 4, contlib.MAP_SYMBOLS2)
        sized = contlib.map_sized(contlib.SIZES_QUICK if quick else contlib.SIZES_THOROUGH, rng, all_positions=not quick)
        recv = contlib.map_receiving()
        pairvals = contlib.map_pair_values(rng, 60 if quick else 3000)
        self.exhaustive_note = ('all %d sequences of %d operations from %s and all %d sequences of %d operations of the composite '
                                'alphabet %s (own-object arguments, pair form, fork = dup and use the copy, swap), on three classes; '
                                '%d histories on maps of %s keys; %d receiving-list histories (get_keys/get_values/get_pairs into a list of '
                                'each of the three classes that already holds 0, 1, 2, 3, 5 objects, maps of 0..3 and 40 entries); %d histories with pair values <A, B> (set_pv: values that compare equal and differ)'
                                % (len(ex), depth, contlib.MAP_SYMBOLS, len(ex2), 3 if quick else 4, contlib.MAP_SYMBOLS2, len(sized),
                                   '31..257' if quick else '31..1025', len(recv), len(pairvals)))
        for ops in recv + pairvals + ex + ex2 + sized:
            cases += all_classes('map', ops)
        return cases


CHECK = C03()
