"""C03: every map implementation is the same finite dictionary.
Stage 1: spec-vs-implementation correspondence for the three map classes."""
import contlib
from contlib import ContCheck, all_classes


class C03(ContCheck):
    id = 'C03'
    nontrivial_rule = ('a history is non-trivial when at least one set succeeded (map non-empty at some point); keys from a '
                       '4-letter alphabet so overwrites and repeated removals are common; removals prefer the smallest / '
                       'largest key present; distinct = distinct case lines (three classes per history)')
    assumptions = ['keys and values are non-empty spif_str objects, never NULL (the code asserts this)',
                   'map lengths below 2^31']

    MANIFEST = dict(
        technique='Rocq refinement proofs (pointer-level class models -> ideal object) and theorems about the executable ideal dictionary (ContSpec.v) + extracted-spec/implementation correspondence check on all three map classes',
        text=('The ideal dictionary (strictly ascending association list of key/value texts; it holds copies, so '
              'caller-object operations are no-ops) is defined in Rocq; theorems for ALL histories: keys stay strictly ascending '
              '(one pair per key), lookup equals the function-update semantics (a key maps to the value most recently set and not '
              'removed since), set reports replacement iff the key was present, remove hands back the pair exactly once, '
              'get_keys/get_values/get_pairs/iteration are the same ascending sequence. The real classes are tied to the spec by '
              'running the extracted spec and the ASan build on the same histories, including mutation and deletion of the '
              'caller\'s key and value objects after set and continued use after removals of the smallest/largest/only key; '
              'returned objects are also checked not to be the caller\'s own. Pointer-level models and refinement proofs are '
              'stage 2; memory safety is decided by the sanitizer run only.'
              " Stage 2 (Properties/C03_array.v, C03_linked_list.v, C03_dlinked_list.v, C03_interchangeable.v): the pointer-level models of the three classes' map methods (probe + ordered insert of a copied pair, binary search / ordered scan, unlink on remove incl. head, inner, tail and only entry) are proved to refine the ideal dictionary for every history: never a Fault, outputs equal, keys strictly ascending, representation (incl. tail/prev links of the dlinked class) re-established after every removal; the three classes are interchangeable (corollary). 'The map holds its own copies' is decided by the correspondence check (caller objects mutated/deleted after set), the model stores key and value texts."),
        design_ref='DESIGN.md section 7, C03')

    def gen(self, tier, rng):
        cases = []
        nrand = 6000 if tier == 'quick' else 100000
        for _ in range(nrand):
            cases += all_classes('map', contlib.map_history(rng))
        for _ in range(nrand // 10):
            cases += all_classes('map', contlib.map_history(rng, keys=['a', 'b', 'c', 'd', 'e', 'f', 'g', 'h']))
        depth = 4 if tier == 'quick' else 5
        ex = contlib.map_exhaustive(depth)
        self.exhaustive_note = 'all %d sequences of %d operations from %s, on three classes' % (len(ex), depth, contlib.MAP_SYMBOLS)
        for ops in ex:
            cases += all_classes('map', ops)
        return cases


CHECK = C03()
