"""C03: every map implementation is the same finite dictionary.
Stage 1: spec-vs-implementation correspondence for the three map classes."""
import contlib
from contlib import ContCheck, all_classes


class C03(ContCheck):
    id = 'C03'
    nontrivial_rule = ('a history is non-trivial when at least one set succeeded (map non-empty at some point); keys from a '
                       '4-letter alphabet so overwrites and repeated removals are common; removals prefer the smallest / '
                       'largest key present; distinct = distinct case lines (three classes per history); further strata: pair form of set, own-object arguments (set/has_value with the map\'s own value object, set with its own pair, set/get/remove with its own key object), non-NULL list argument of get_keys/get_values/get_pairs, second use of a copy (`fork`, `swap`), maps of 31..257 (thorough ..1025) distinct keys in three build orders with every form of set/get/remove at the boundary positions and for absent keys below/between/above')
    assumptions = ['keys and values are non-empty spif_str objects, never NULL (the code asserts this)',
                   'map lengths below 2^31']

    MANIFEST = dict(
        technique='Rocq refinement proofs (pointer-level class models -> ideal object) and theorems about the executable ideal dictionary (ContSpec.v) + extracted-spec/implementation correspondence check on all three map classes',
        text=('The ideal dictionary (strictly ascending association list of key/value texts; it holds copies, so '
              'caller-object operations are no-ops) is defined in Rocq; theorems for ALL histories: keys stay strictly ascending '
              '(one pair per key), lookup equals the function-update semantics (a key maps to the value most recently set and not '
              'removed since), set reports replacement iff the key was present, remove hands back the pair exactly once, '
              'get_keys/get_values/get_pairs/iteration are the same ascending sequence. The real classes are tied to the spec by '
              'running the extracted spec and the ASan build on the same histories, including mutation and deletion of the '
              'caller\'s key and value objects after set and continued use after removals of the smallest/largest/only key; '
              'returned objects are also checked not to be the caller\'s own. Pointer-level models and refinement proofs are '
              'stage 2; memory safety is decided by the sanitizer run only.'
              " Stage 2 (Properties/C03_array.v, C03_linked_list.v, C03_dlinked_list.v, C03_interchangeable.v): the pointer-level models of the three classes' map methods (probe + ordered insert of a copied pair, binary search / ordered scan, unlink on remove incl. head, inner, tail and only entry) are proved to refine the ideal dictionary for every history: never a Fault, outputs equal, keys strictly ascending, representation (incl. tail/prev links of the dlinked class) re-established after every removal; the three classes are interchangeable (corollary). 'The map holds its own copies' is decided by the correspondence check (caller objects mutated/deleted after set), the model stores key and value texts."
              " Strengthened after the round-2 seeds: own-object arguments (SPIF_MAP_SET(m, k, SPIF_MAP_GET(m, k)), set of the map's own pair from its iterator, set/get/remove with the map's own key object, has_value of its own value), the pair form set(objpair, NULL), the non-NULL list form of get_keys/get_values/get_pairs, `fork` (dup, then keep using the copy while the original is read back) and sized maps built with quiet steps. All are harness/driver-level compositions of the existing spec operations (the model side looks the key up with MGet and then issues the existing MSet/MGet/MRemove/MHasValue); op datatypes and theorems unchanged. Maps above 300 keys are compared with the ideal dictionary only."),
        design_ref='DESIGN.md section 7, C03')

    def gen(self, tier, rng):
        cases = []
        quick = tier == 'quick'
        nrand = 6000 if quick else 100000
        for _ in range(nrand):
            cases += all_classes('map', contlib.map_history(rng))
        for _ in range(nrand // 10):
            cases += all_classes('map', contlib.map_history(rng, keys=['a', 'b', 'c', 'd', 'e', 'f', 'g', 'h']))
        # keys that are prefixes of each other (a, aa, ab, b, ba, aaa)
        for _ in range(nrand // 10):
            cases += all_classes('map', contlib.map_history(rng, keys=contlib.KEYS_PREFIX))
        depth = 4 if quick else 5
        ex = contlib.map_exhaustive(depth)
        ex2 = contlib.map_exhaustive(3 if quick else 4, contlib.MAP_SYMBOLS2)
        sized = contlib.map_sized(contlib.SIZES_QUICK if quick else contlib.SIZES_THOROUGH, rng, all_positions=not quick)
        self.exhaustive_note = ('all %d sequences of %d operations from %s and all %d sequences of %d operations of the composite '
                                'alphabet %s (own-object arguments, pair form, fork = dup and use the copy, swap), on three classes; '
                                '%d histories on maps of %s keys'
                                % (len(ex), depth, contlib.MAP_SYMBOLS, len(ex2), 3 if quick else 4, contlib.MAP_SYMBOLS2, len(sized),
                                   '31..257' if quick else '31..1025'))
        for ops in ex + ex2 + sized:
            cases += all_classes('map', ops)
        return cases


CHECK = C03()
