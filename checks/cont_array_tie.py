"""Stage-2 tie of class `array` (src/array.c) for C02 / C03 / C04.

The histories of class `array` are run through the extracted POINTER-LEVEL model
(coq/Cont/ArrayModel.v, driver/cont_array_main.ml, family `cont_array`) and through the already
built implementation harness with the structure dump switched on (LV_CONT_B=1).  Both print, per
operation, `ret readback|A len=<n> items=NULL|[..]`.

  level 'A'  the parts before '|' differ (return value / read-back), or the implementation faults
             where the model does not  -> a failing input of the class
  level 'B'  only the structure dump differs (len, items NULL-ness, slot contents), or the model
             faults where the sanitizer saw nothing -> the model no longer mirrors array.c

Called by contlib.ContCheck.extra_steps with the cases of the run whose class is `array`.
"""
import os
import vlib
import contlib

FAMILY = 'cont_array'
MAX_REPORT = 5


def _short(s, n=300):
    if s is None:
        return 'None'
    return s if len(s) <= n else s[:n] + '...'


def _first_diff(ma, ia):
    """the first step at which two ' ; '-joined step lists differ"""
    x, y = ma.split(' ; '), ia.split(' ; ')
    for k in range(max(len(x), len(y))):
        a = x[k] if k < len(x) else '<missing>'
        b = y[k] if k < len(y) else '<missing>'
        if a != b:
            return 'step %d: model `%s` / implementation `%s`' % (k, _short(a, 160), _short(b, 160))
    return 'no difference'


def run(chk, ctx, cases):
    cases = [c for c in cases if len(c.split(' ')) == 3 and c.split(' ')[1] == 'array']
    cov = ctx['cov'].setdefault('class_model_array', {})
    ntotal = len(cases)
    cases = [c for c in cases if contlib.tie_affordable(c)]
    cov['cases'] = len(cases)
    cov['too_large_for_the_pointer_level_model'] = ntotal - len(cases)
    if not cases:
        return []
    exe, log = vlib.build_model(FAMILY)
    if exe is None:
        exe = vlib.good_model(FAMILY)
        if exe is None:
            return [('B', cases[0], 'pointer-level model of array.c (family cont_array) does not build: ' + log[-400:])]
        cov['model_used'] = 'last good build'
    else:
        vlib.save_good_model(FAMILY, exe)
    work = os.path.join(vlib.BUILD, 'work', chk.id.lower())
    os.makedirs(work, exist_ok=True)
    # a file of its own per process: several checks of the same property may run at the same time
    path = os.path.join(work, 'cases-array-tie-%d.txt' % os.getpid())
    with open(path, 'w') as f:
        for c in cases:
            f.write(c + '\n')
    try:
        mouts = contlib.run_model_sliced(exe, cases, work, 'array-tie')
        iouts, det = vlib.run_cases(ctx['impl_exe'], path, len(cases), env={'LV_CONT_B': '1'},
                                    timeout_per_run=getattr(chk, 'case_timeout', 600))
    finally:
        try:
            os.unlink(path)
        except OSError:
            pass
    cut = det.get('truncated_at')
    n = len(cases) if cut is None else cut
    a_dis, b_dis = [], []
    agree = 0
    for k in range(n):
        c, m, i = cases[k], mouts[k], iouts[k]
        if m is None or i is None or m.startswith('DRIVER-ERROR') or i.startswith('HARNESS-ERROR'):
            b_dis.append((c, 'array model tie: glue error (model `%s`, implementation `%s`)' % (_short(m, 80), _short(i, 80))))
            continue
        mf, jf = m.startswith('FAULT'), 'FAULT:' in i
        if mf and jf:
            agree += 1
            continue
        if jf:
            a_dis.append((c, 'array: implementation faults (%s) where the pointer-level model runs through'
                          % _short(i[i.find('FAULT:'):], 80)))
            continue
        if mf:
            b_dis.append((c, 'array model tie: the model predicts %s, the sanitizer saw nothing' % m))
            continue
        if m == i:
            agree += 1
            continue
        ma, mb = contlib.split_ab(m)
        ia, ib = contlib.split_ab(i)
        if ma != ia:
            a_dis.append((c, 'array: return value / read-back differs from the pointer-level model, ' + _first_diff(ma, ia)))
        else:
            b_dis.append((c, 'array structure dump (len / items) differs from the pointer-level model, ' + _first_diff(mb, ib)))
    cov['agree'] = agree
    cov['disagreements_A'] = len(a_dis)
    cov['disagreements_B'] = len(b_dis)
    out = []
    for lvl, lst in (('A', a_dis), ('B', b_dis)):
        lst.sort(key=lambda d: len(d[0]))
        out += [(lvl, c, msg) for (c, msg) in lst[:MAX_REPORT]]
    return out
