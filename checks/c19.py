"""C19: local sockets carry bytes intact under short I/O and never leak descriptors
(src/socket.c, the descriptor reader loop of src/str.c)."""
import itertools, os, re
import vlib

WRAP = ['-Wl,' + ','.join('--wrap=' + f for f in
                          ('read', 'write', 'accept', 'close', 'dup', 'socket', 'bind', 'listen', 'connect', 'select'))]

BIG = 1 << 20


def seqs(alpha, kmax):
    for k in range(kmax + 1):
        for t in itertools.product(alpha, repeat=k):
            yield list(t)


def j(items):
    return ','.join(items) if items else '-'


def ws_alpha(n, errors=True):
    """write outcomes for a payload of n bytes: complete, three short counts, zero, EINTR, EAGAIN, errors"""
    a = ['w%d' % BIG, 'i', 'a']
    for k in sorted(set([1, n // 2, n - 1])):
        if 0 < k < n:
            a.append('w%d' % k)
    if errors:
        a += ['w0', 'eF', 'eP', 'eV']
    return a


RD_ALPHA = ['d4096:5', 'd1:9', 'd4095:2', 'i']          # complete, two short counts, EINTR
SH_ALPHA = ['t4096', 't1', 't100', 'i']
# descriptor NUMBERS as an input class: the lowest free number when the scenario starts.  0, 1, 2: a process whose
# standard streams (from that number on) are closed, so the library is handed 0/1/2 by socket/accept/dup; 1023, 1024,
# 1025: everything below is taken, so the numbers straddle FD_SETSIZE.  (3 = an ordinary process, the default.)
LOW_BASES = [0, 1, 2]
HIGH_BASES = [1023, 1024, 1025]
BASES = LOW_BASES + HIGH_BASES
# lifecycle alphabet aimed at descriptor reuse (a number released by close/done/del is handed out again by the next
# open/accept/dup) and at failed opens at each stage
REUSE_OPS = ['open 0 1111', 'open 1 1111', 'open 0 0111', 'open 0 1011', 'open 0 1110', 'open 1 1101',
             'accept 0 0 1 1', 'accept 0 0 1 0', 'accept 0 1 0 1', 'close 0 0 1', 'close 1 0 1', 'dup 0 1', 'dup 1 1',
             'dup 2 1', 'dup 0 0', 'done 0 0 1', 'done 1 1 0', 'del 0 0 1', 'del 2 0 1']
SIZES = [1, 2, 62, 1023, 1024, 1025, 3000, 4095, 4096, 4097, 8192, 12289, 16384, 5 * 4096]


class C19(vlib.PropertyCheck):
    id = 'C19'
    env_debug_pass = False   # the harness interposes write(): the library's fatal-error text never reaches stderr, so a by-design ASSERT (fd >= 0) cannot be told from any other
    family = 'c19'
    harness = 'c19.c'
    case_timeout = 300
    impl_kwargs = dict(ldflags=WRAP)          # main build: ASan/UBSan + link-time interposers
    nontrivial_rule = ('four strata: (1) every read schedule over {complete, short 1, short 4095, EINTR} for the first k calls '
                       'followed by each terminal outcome {EAGAIN, EOF, error, schedule exhausted}; (2) every write schedule over '
                       '{complete, short, zero, EINTR, EAGAIN, EFBIG, EPIPE, EINVAL} for the first k calls for several payload sizes; '
                       '(3) every sequence of k lifecycle operations (with failing socket/bind/listen/connect/accept/dup/close '
                       'outcomes) after a listener/client prefix, plus random longer histories; (4) real AF_UNIX pairs opened through '
                       'unix: URLs with shaped first-k read/write calls, payloads 1..5*4096, teardown in every order; (5) descriptor '
                       'numbers: strata 1-4 again (k = 2; lifecycle sequences up to 3 over a reuse-directed alphabet) with the lowest '
                       'free descriptor being 0, 1, 2 (standard streams closed around the scenario) and 1023, 1024, 1025 (everything '
                       'below taken), object descriptor numbers compared with the model\'s lowest-free oracle, census compared as a set.  '
                       'k = 3 quick, 4 thorough.  non-trivial = at least one accept, send or receive returned an object/TRUE/a string; '
                       'distinct = distinct case lines')
    assumptions = ['AF_UNIX stream sockets are FIFO byte channels: bytes accepted by write() are delivered to read() in order, none '
                   'lost or duplicated; EAGAIN / end of file are reported only when the queue is empty (stated, not proved)',
                   'descriptor table: socket/accept/dup return a descriptor that is not open; close releases the descriptor unless it '
                   'reports EINTR; write on a descriptor that is not open fails with EBADF and only then; the correspondence runs use the '
                   'kernel\'s own choice (lowest free number, proved fresh) from the bases 0, 1, 2, 3, 1023, 1024, 1025',
                   'real kernel scheduling, select() timing and signal delivery are not modelled: the schedules are the quantified input',
                   'payload bytes are non-zero (spif_str_t texts); object sizes below 2^31',
                   'the receive loop is modelled in its repaired form (src/str.c belongs to property C01)']

    MANIFEST = dict(
        technique=('Rocq theorems by induction over read/write schedules and lifecycle histories about an executable Gallina model of '
                   'src/socket.c + extracted-model/implementation correspondence check with link-time interposed system calls and a '
                   '/proc/self/fd census (partial: the kernel is an oracle)'),
        text=('recv_concat: for every read schedule (any interleaving of EINTR and short reads, any terminal outcome) the modelled '
              'descriptor reader returns Ok with exactly the concatenation of the chunks delivered before the first terminal outcome, '
              'NUL-terminated, size = len + 1. send_all_or_false: for every write schedule the modelled spif_socket_send (including '
              'the EFBIG chunking branch and the back-off) returns Ok, the bytes the kernel accepted are a prefix of the payload in order, '
              'and TRUE implies the whole payload was accepted. pair_delivers: over the FIFO channel received = accepted, = sent when '
              'send returned TRUE. fds_balanced: for every lifecycle history over new/open/accept/close/dup/done/del/set_nbio/send/recv '
              'with arbitrary failing system calls and every fresh-descriptor choice, the open set is the initial set plus the descriptors '
              'of live objects, no two objects share one, and after deleting every object it equals the initial set; close leaves -1. '
              'Partial: kernel behaviour (scheduling, select timing, signals) is an oracle; FIFO is an assumption. Tied to the tree by '
              'running the extracted model and an ASan build (and a plain build) with interposed read/write/accept/close/dup/socket/'
              'bind/listen/connect/select on the same histories, real AF_UNIX pairs included, and with every stratum repeated on '
              'descriptor numbers 0-2 and 1023-1025 (pick_low_fresh: the lowest-free choice from any base is a fresh pick); the '
              'census compares the set of open descriptors exactly, 0-2 included.'),
        design_ref='DESIGN.md section 7, C19')

    LOPS = ['open 0 1111', 'open 0 0111', 'open 0 1011', 'open 0 1110', 'open 1 1111', 'open 1 1101', 'open 1 0111',
            'accept 0 0 1 1', 'accept 0 2 0 1', 'accept 0 0 1 0', 'close 0 0 1', 'close 1 2 0', 'close 2 0 1',
            'dup 0 1', 'dup 0 0', 'dup 2 1', 'done 0 1 1', 'del 0 0 1', 'del 1 0 0',
            'send 1 P5:1 eP', 'send 1 P5:1 eV', 'send 1 P5:1 w2,eF,i', 'recv 2 d3:1,i,z', 'nbio 0']

    # ------------------------------------------------------------------------------------
    def gen(self, tier, rng):
        K = 3 if tier == 'quick' else 4
        cases = []
        # (1) receive loop: all schedules for the first K calls x terminal
        pre = 'sim new 01 ; open 0 1111 ; '
        for s in seqs(RD_ALPHA, K):
            for term in (['a'], ['z'], ['x'], []):
                cases.append(pre + 'recv 0 ' + j(s + term))
        for big in ('d4097:1', 'd8192:3', 'd12289:4', 'd20480:7', 'd0:0'):
            for s in seqs(['i', 'd1:1'], 2):
                cases.append(pre + 'recv 0 ' + j(s + [big, 'i', 'z']))
                cases.append(pre + 'recv 0 ' + j([big] + s + ['a']))
        # (2) send: all schedules for the first K calls, several payload sizes
        sizes = [1, 3000, 20480] if tier == 'quick' else [1, 2, 1024, 1025, 3000, 4096, 20480]
        for n in sizes:
            al = ws_alpha(n)
            kk = K if (n in (3000,) or tier != 'quick') else K - 1
            if tier != 'quick' and n not in (3000, 1025):
                kk = K - 1
            for s in seqs(al, kk):
                cases.append('sim new 01 ; open 0 1111 ; send 0 P%d:%d %s' % (n, rng.randrange(255), j(s)))
        for _ in range(300 if tier == 'quick' else 5000):
            n = rng.choice(SIZES)
            al = ws_alpha(n) + ['eO', 'eI', 'w1024', 'w1023', 'w1025']
            s = [rng.choice(al) for _ in range(rng.randrange(K + 1, 12))]
            cases.append('sim new 01 ; open 0 1111 ; send 0 P%d:%d %s ; send 0 P5:1 -' % (n, rng.randrange(255), j(s)))
        # (3) lifecycle: all sequences of length <= K (K-1 quick) over an operation alphabet, after a prefix
        lops = self.LOPS
        lk = 3
        for s in seqs(lops, lk):
            cases.append('sim new 10 ; new 01 ; ' + ' ; '.join(s) if s else 'sim new 10 ; new 01')
        for _ in range(1500 if tier == 'quick' else 35000):
            cases.append(self.random_history(rng, rng.randrange(3, 14 if tier == 'quick' else 30)))
        # (4) real AF_UNIX pairs
        cases += self.real_cases(tier, rng, K)
        # (5) descriptor numbers
        cases += self.fd_number_cases(tier, rng, K)
        return cases

    def fd_number_cases(self, tier, rng, K):
        cases = []
        quick = tier == 'quick'
        fds = lambda b: 'fds %d ; ' % b
        # receive and send loops on every base: all schedules for the first 2 (3 thorough) calls
        kk = 2 if quick else 3
        for b in BASES:
            pre = 'sim ' + fds(b) + 'new 01 ; open 0 1111 ; '
            for s in seqs(RD_ALPHA, kk):
                for term in (['a'], ['z'], ['x'], []):
                    cases.append(pre + 'recv 0 ' + j(s + term))
            for n in (1, 3000):
                for s in seqs(ws_alpha(n), kk if n == 3000 else 2):
                    cases.append(pre + 'send 0 P%d:%d %s' % (n, rng.randrange(255), j(s)))
            # the accepted socket and a duplicate send and receive as well (their numbers are base+2, base+3 / a reused one)
            pre2 = 'sim ' + fds(b) + 'new 10 ; new 01 ; open 0 1111 ; open 1 1111 ; accept 0 0 1 1 ; dup 2 1 ; close 0 0 1 ; dup 1 1 ; '
            for i in (1, 2, 3, 4):
                for s in seqs(['a', 'i', 'w2', 'eF', 'eP'], 2):
                    cases.append(pre2 + 'send %d P5:%d %s ; recv %d d3:1,i,a' % (i, rng.randrange(255), j(s), i))
        # lifecycle: every sequence of length <= 2 over the full alphabet on every base ...
        lops = self.LOPS
        for b in BASES:
            for s in seqs(lops, 2 if quick else 3):
                cases.append('sim ' + fds(b) + ' ; '.join(['new 10', 'new 01'] + s))
        # ... and every sequence of length 3 (4 thorough) over the reuse-directed alphabet: quick on one base per sequence
        # (rotating, 0 and 1024 twice as often), thorough length 3 on all six and length 4 rotating
        ROT = [0, 1024, 1, 1023, 0, 1024, 2, 1025]
        for idx, s in enumerate(seqs(REUSE_OPS, 3)):
            if len(s) < 3:
                continue
            bs = [ROT[idx % len(ROT)]] if quick else BASES
            for b in bs:
                cases.append('sim ' + fds(b) + ' ; '.join(['new 10', 'new 01'] + s))
        if not quick:
            reuse4 = [o for o in REUSE_OPS if o not in ('open 0 0111', 'open 0 1110', 'open 1 1101', 'accept 0 1 0 1', 'dup 0 0', 'done 1 1 0')]
            for idx, s in enumerate(itertools.product(reuse4, repeat=4)):
                cases.append('sim ' + fds(ROT[idx % len(ROT)]) + ' ; '.join(['new 10', 'new 01'] + list(s)))
        # random longer histories on a random base (3 = no prefix included)
        for _ in range(600 if quick else 15000):
            h = self.random_history(rng, rng.randrange(3, 14 if quick else 30))
            cases.append('sim ' + fds(rng.choice(BASES + [3, 4, 1022, 1026, 2047, 2048])) + h[4:])
        # real AF_UNIX pairs on every base: listener, client and accepted socket really hold 0/1/2 or 1023..1027
        for b in BASES:
            cases += [c.replace('real ', 'real ' + fds(b), 1) for c in self.real_cases(tier, rng, 1 if quick else 2, numbers=True)]
        return cases

    def random_history(self, rng, n):
        ops = []
        nobj = 0
        bit = lambda p=0.8: '1' if rng.random() < p else '0'
        for _ in range(n):
            kinds = ['new'] if nobj == 0 else ['new', 'open', 'open', 'accept', 'accept', 'close', 'dup', 'done', 'del', 'nbio',
                                               'send', 'recv']
            k = rng.choice(kinds)
            i = rng.randrange(nobj) if nobj else 0
            if k == 'new':
                ops.append('new ' + rng.choice(['10', '01', '01', '10', '11', '00']))
                nobj += 1
            elif k == 'open':
                ops.append('open %d %s%s%s%s' % (i, bit(), bit(), bit(), bit()))
            elif k == 'accept':
                a = bit()
                ops.append('accept %d %d %s %s' % (i, rng.choice([0, 0, 1, 3]), a, bit()))
                nobj += 1 if a == '1' else 0      # only an upper bound: a refused accept adds no object
            elif k in ('close', 'done', 'del'):
                ops.append('%s %d %d %s' % (k, i, rng.choice([0, 0, 1, 2]), bit()))
            elif k == 'dup':
                ops.append('dup %d %s' % (i, bit()))
                nobj += 1
            elif k == 'nbio':
                ops.append('nbio %d' % i)
            elif k == 'send':
                n2 = rng.choice([1, 5, 1025, 3000])
                al = ws_alpha(n2) + ['eO', 'eI']
                ops.append('send %d P%d:%d %s' % (i, n2, rng.randrange(255), j([rng.choice(al) for _ in range(rng.randrange(0, 4))])))
            else:
                al = RD_ALPHA + ['a', 'z', 'x', 'd5000:3']
                ops.append('recv %d %s' % (i, j([rng.choice(al) for _ in range(rng.randrange(0, 4))])))
        return 'sim ' + ' ; '.join(ops)

    def real_cases(self, tier, rng, K, numbers=False):
        """numbers=True: the reduced set that fd_number_cases repeats on every descriptor base"""
        cases = []

        def xfer(n, seed, ws, shape, variant, teardown='', prefix=None):
            # variant 0: listener non-blocking before accept (inherited); 1: peer closes -> EOF; 2: set_nbio on the accepted socket
            p = prefix or ['new 10', 'new 01', 'open 0 1111'] + (['nbio 0'] if variant == 0 else []) + ['open 1 1111', 'accept 0 0 1 1']
            ops = list(p)
            ops.append('send 1 P%d:%d %s' % (n, seed, j(ws)))
            if variant == 1:
                ops.append('close 1 0 1')
            elif variant == 2:
                ops.append('nbio 2')
            ops.append('rrecv 2 %s %s' % ('z' if variant == 1 else 'a', j(shape)))
            if teardown:
                ops.append(teardown)
            return 'real ' + ' ; '.join(ops)

        few_ws = [[], ['w1'], ['i', 'w100', 'a']]
        few_sh = [[], ['t1', 'i'], ['i', 't100', 't4096']]
        tds = ['', 'del 0 0 1 ; del 1 0 1 ; del 2 0 1', 'del 2 0 1 ; del 1 0 1 ; del 0 0 1', 'del 1 1 1 ; del 0 0 0 ; del 2 2 1',
               'close 2 0 1 ; close 0 1 1 ; close 1 0 1', 'done 0 0 1 ; done 2 0 1 ; del 0 0 1',
               'dup 2 1 ; dup 0 1 ; dup 1 1 ; del 2 0 1 ; del 0 0 1']
        quick = tier == 'quick'
        sizes = [1, 62, 4096, 4097, 20480] if quick else SIZES
        if numbers:
            sizes = [1, 4097] if quick else [1, 62, 4097, 20480]
        # all write schedules for the first K calls x a few read shapes
        for n in ([4097] if quick or numbers else [1, 4097, 20480]):
            for ws in seqs(ws_alpha(n, errors=False), K):
                sh = rng.choice(few_sh)
                cases.append(xfer(n, rng.randrange(255), ws, sh, rng.randrange(3), rng.choice(tds)))
        # all read shapes for the first K calls x a few write schedules
        for n in ([8192] if quick or numbers else [1, 4096, 8192, 20480]):
            for sh in seqs(SH_ALPHA, K):
                for v in (0, 1):
                    cases.append(xfer(n, rng.randrange(255), rng.choice(few_ws), sh, v, rng.choice(tds)))
        # every size x every variant x every teardown, plain and shaped
        for n in sizes:
            for v in (0, 1, 2):
                for td in tds:
                    cases.append(xfer(n, rng.randrange(255), [], [], v, td))
                    cases.append(xfer(n, rng.randrange(255), rng.choice(few_ws[1:]), rng.choice(few_sh[1:]), v, td))
        # write errors on a real connection: the library closes the client, the peer sees the accepted prefix then EOF
        for n in sizes:
            for e in ('eP', 'eV', 'eO', 'eI', 'eF'):
                for prew in ([], ['w1'], ['i', 'w%d' % max(1, n // 2)]):
                    cases.append(xfer(n, rng.randrange(255), prew + [e], rng.choice(few_sh), rng.randrange(3), rng.choice(tds)))
        # failed opens and accepts that the real kernel state still agrees with
        prefixes = [
            ['new 10', 'new 01', 'open 0 0111', 'open 0 1111', 'open 1 1111', 'accept 0 0 1 1'],
            ['new 10', 'new 01', 'open 0 1011', 'close 0 0 1', 'open 0 1111', 'open 1 1111', 'accept 0 0 1 1'],
            ['new 10', 'new 01', 'open 0 1110', 'open 0 1111', 'open 1 1101', 'open 1 1111', 'accept 0 0 1 1'],
            ['new 10', 'new 01', 'open 0 1111', 'open 1 0111', 'open 1 1111', 'accept 0 3 0 1', 'accept 0 1 1 1'],
            ['new 10', 'new 01', 'open 0 1111', 'open 1 1111', 'accept 0 0 1 0'],
            ['new 10', 'new 01', 'open 0 1111', 'nbio 0', 'close 0 2 0', 'open 0 1111', 'open 1 1111', 'accept 0 0 1 1'],
        ]
        for pf in prefixes:
            for n in ((4097,) if numbers else (62, 4097)) if quick else sizes:
                for v in (1, 2):
                    for td in tds[:4]:
                        cases.append(xfer(n, rng.randrange(255), rng.choice(few_ws), rng.choice(few_sh), v, td, prefix=pf))
        # random shaped transfers
        for _ in range((30 if numbers else 300) if quick else (300 if numbers else 5000)):
            n = rng.choice(SIZES)
            ws = [rng.choice(ws_alpha(n, errors=False) + ['w1024', 'w4096']) for _ in range(rng.randrange(0, 9))]
            sh = [rng.choice(SH_ALPHA + ['t4095', 't2', 't1000']) for _ in range(rng.randrange(0, 9))]
            cases.append(xfer(n, rng.randrange(255), ws, sh, rng.randrange(3), rng.choice(tds)))
        return cases

    # ------------------------------------------------------------------------------------
    def split(self, case, out):
        a = re.sub(r'~[^ ]*', '', out)
        b = ' '.join(re.findall(r'~[^ ]*', out))
        return a, b

    def oracle(self, case, iout):
        m = re.search(r'leak=(-?\d+)', iout)
        if m and m.group(1) != '0':
            m2 = re.search(r'leak=-?\d+(\[[\d,]*\])', iout)
            return ('descriptor census after deleting every object differs from the one before the scenario (leak=%s%s)'
                    % (m.group(1), (', still open: ' + m2.group(1)) if m2 else ''))
        m = re.search(r'stolen=\d+(\[[\d,]*\])?', iout) or re.search(r'\^\d+ ', iout)
        if m:
            return 'a descriptor that was open before the scenario and is not the library\'s was closed (%s)' % m.group(0).strip()
        m = re.search(r'!([1-9]\d*)[ ^]', iout)
        if m:
            return 'a live socket object refers to a descriptor that is not open'
        if '!real:' in iout:
            return 'a real system call failed where the history expects success: ' + iout[iout.index('!real:'):]
        if '!noterm' in iout:
            return 'received string is not NUL-terminated at len'
        return None

    def nontrivial(self, case, mout):
        return (not mout.startswith('FAULT')) and bool(re.search(r'(^| )(O|ST:|R\d)', mout))

    def extra_steps(self, ctx):
        """second build without sanitizers (glibc realloc/malloc behaviour instead of ASan's always-moving allocator):
        same interposers, same cases as the main run"""
        path = os.path.join(vlib.BUILD, 'work', 'c19', 'cases-main-%d.txt' % vlib.os.getpid())
        if not os.path.exists(path) or not ctx.get('model_exe'):
            return []
        with open(path) as f:
            cases = [l.rstrip('\n') for l in f]
        exe, log = vlib.build_impl('c19-plain', os.path.join(vlib.VERIF, 'harness', self.harness), sanitize=False, ldflags=WRAP)
        if exe is None:
            return [('B', 'plain build', 'plain (no sanitizer) build of the harness failed: ' + log[-300:])]
        # the model and the plain build run side by side (two processes, nothing shared but the case file)
        from concurrent.futures import ThreadPoolExecutor
        with ThreadPoolExecutor(max_workers=2) as pool:
            fm = pool.submit(vlib.run_model, ctx['model_exe'], path, len(cases))
            fi = pool.submit(vlib.run_cases, exe, path, len(cases), timeout_per_run=self.case_timeout)
            mouts, _ = fm.result()
            iouts, _ = fi.result()
        dis = vlib.compare(self, cases, mouts, iouts)
        ctx['cov']['plain_build_cases'] = len(cases)
        ctx['cov']['plain_build_disagreements'] = len(dis)
        return [(d['level'], d['case'], 'plain build: %s (model %s / impl %s)' % (d['msg'], d['model'], d['impl'])) for d in dis[:50]]


CHECK = C19()
