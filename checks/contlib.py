"""Shared part of the container checks C02 (list), C03 (map), C04 (vector) - family `cont`.

Case-line and output grammars are documented at the top of harness/cont.c.  The generators
below steer themselves with a tiny ideal simulation (length, sortedness) ONLY to choose index
values around the current length and to respect the documented preconditions; the verdict
always comes from the extracted Coq spec (driver/cont_main.ml) and, for vectors, additionally
from the model-independent multiset oracle `vector_oracle`.

Strata (all boundary-directed, see the `*_sized`, `*_far`, `*_second_use` functions below):
  random histories            short histories over a 4-letter alphabet, now also with own-object arguments
                              (`*_own*`, `set_pair`), far index values and a `fork` (dup, then keep using the COPY
                              while the original is read back too) / `swap`
  bounded-exhaustive          all sequences of a small symbolic alphabet (per interface), a second alphabet holds the
                              composites (own-object arguments, fork, swap)
  sized                       containers of 31..33, 63..65, 127..129, 255..257 (thorough: ..1025) elements built with
                              quiet (`~`) steps, then every operation at the positions first / second / quarter /
                              middle +-1 / last-1 / last and with absent keys below, between and above
  far index                   insert_at / get / remove_at at every power of two and its neighbours (up to 1025, thorough
                              2049) on lists of 0, 1, 3, idx/2 and idx-2 elements
  receiving lists             get_keys / get_values / get_pairs handed a list of each of the three classes that already holds
                              0, 1, 2, 3, 5 objects: ideal result  old ++ keys  (`map_receiving`, also inside random histories)
  depth                       (`run_depth`, implementation-side oracle, no model) containers of 10^5 and 4*10^5 (thorough 10^6)
                              elements built the O(1)-per-step way of the class, then every scenario the C code could answer by
                              recursing along the chain; ASan build and a plain -O0 build under the default 8 MB stack; plus the
                              stack high-water mark of every scenario at 1000 and 3000 elements, which must not grow
"""
import itertools, os, re, time
import vlib

CLASSES = ['array', 'linked_list', 'dlinked_list']
KEYS4 = ['a', 'b', 'c', 'd']
# keys that are prefixes of each other: the order depends on the length too
KEYS_PREFIX = ['a', 'aa', 'ab', 'b', 'ba', 'aaa']


# ---------------------------------------------------------------------------------------------
# output handling
# ---------------------------------------------------------------------------------------------
def steps_of(out):
    """split a result line into its steps (without the trailing 'end')"""
    parts = out.split(' ; ')
    return parts


def split_ab(out):
    """(A part, B part): per step, A = text before '|', B = after"""
    a, b = [], []
    for st in steps_of(out):
        if '|' in st:
            x, y = st.split('|', 1)
            a.append(x)
            b.append(y)
        else:
            a.append(st)
    return ' ; '.join(a), ' ; '.join(b)


def op_histogram(cases):
    h = {}
    for c in cases:
        t = c.split(' ')
        if len(t) != 3:
            continue
        for op in t[2].split(';'):
            k = t[0] + '.' + op.lstrip('~').split(':', 1)[0]
            h[k] = h.get(k, 0) + 1
    return h


class ContCheck(vlib.PropertyCheck):
    family = 'cont'
    harness = 'cont.c'
    case_timeout = 1500        # one harness run covers the whole case file (faults are handled inside the harness)
    # automatic variables that are read before being written get a non-zero, non-pointer pattern
    # instead of whatever the stack held: "stores an uninitialised pointer" becomes a deterministic fault
    impl_kwargs = dict(cflags=['-ftrivial-auto-var-init=pattern'])

    def split(self, case, out):
        # level B (structure dump after '|') is not compared in stage 1
        a, b = split_ab(out)
        return a, ''

    def nontrivial(self, case, mout):
        # at least one operation left the container non-empty (an insertion succeeded)
        if is_deep(case):
            return not case.split(' ')[2].startswith('deep:0')
        return re.search(r'\bn=[1-9]', mout) is not None

    def oracle(self, case, iout):
        # depth stratum: the harness checks the results itself, a correct class prints `ok` for every scenario
        if is_deep(case):
            bad = deep_failure(case, iout)
            return ('depth stratum: scenario `%s`: %s' % bad) if bad else None
        return None

    def extra_steps(self, ctx):
        # operation histogram by interface.operation instead of by first token
        p = getattr(self, 'last_main_cases_path', None) or os.path.join(vlib.BUILD, 'work', self.id.lower(), 'cases-main-%d.txt' % os.getpid())
        try:
            with open(p) as f:
                cases = [l.rstrip('\n') for l in f]
            ctx['cov']['operation_histogram'] = op_histogram(cases)
            ctx['cov']['histories'] = len(cases)
            ctx['cov']['operations'] = sum(ctx['cov']['operation_histogram'].values())
            # the case set is random histories PLUS a bounded-exhaustive stratum, so it is not exhaustive as a whole
            ctx['cov']['exhaustive'] = False
            ctx['cov']['exhaustive_stratum'] = getattr(self, 'exhaustive_note', None)
        except OSError:
            cases = []
        # stage 2: pointer-level class models (checks/cont_<class>_tie.py, one per class, optional).
        # Each runs the histories of its class through its own extracted model with the structure
        # dump enabled (LV_CONT_B=1) and returns [(level, case, message)] for every disagreement.
        extra = []
        import importlib, threading
        # the depth stratum (plain build + big containers) runs beside the class ties
        depth_out = []
        dt = threading.Thread(target=lambda: depth_out.extend(run_depth(self, ctx, [c for c in cases if is_deep(c)])))
        dt.start()
        try:
            for cls in ('array', 'linked_list', 'dlinked_list'):
                try:
                    tie = importlib.import_module('cont_%s_tie' % cls)
                except ImportError:
                    continue
                extra += tie.run(self, ctx, [c for c in cases if c.split(' ')[1] == cls])
                ctx['cov'].setdefault('class_models', []).append(cls)
        finally:
            dt.join()
        return depth_out + extra


# ---------------------------------------------------------------------------------------------
# stage-2 ties: cost control
# ---------------------------------------------------------------------------------------------
# The pointer-level class models keep their node store / item block as a Coq list, so one memory access
# costs O(n) and a full read-back of an n-element container O(n^2)..O(n^3).  Containers above these sizes
# are therefore checked against the ideal object only (stage 1, level A); the class ties take the rest.
TIE_LIMIT = {('list', 'array'): 1100}
TIE_LIMIT_DEFAULT = 300
_FAR_RE = re.compile(r'insert_at:(-?\d+):')


def tie_affordable(case):
    t = case.split(' ')
    if len(t) != 3:
        return True
    if t[2].startswith('deep:'):
        return False            # depth stratum: implementation-side oracle only
    lim = TIE_LIMIT.get((t[0], t[1]), TIE_LIMIT_DEFAULT)
    if t[2].count(';') + 1 > lim + 40:
        return False
    if t[0] == 'list' and 'insert_at' in t[2]:
        size = t[2].count(';') + 1
        for m in _FAR_RE.finditer(t[2]):
            size = max(size, abs(int(m.group(1))))
        return size <= lim
    return True


def run_model_sliced(exe, cases, work, tag, nslices=8, timeout=1500):
    """vlib.run_model over `nslices` round-robin slices of the case list in parallel processes (the slow
    histories sit together at the end of the list); returns the outputs in case order"""
    import subprocess
    n = len(cases)
    nslices = max(1, min(nslices, n // 200 + 1))
    paths, procs = [], []
    env = dict(os.environ, OCAMLRUNPARAM='l=512M')
    for k in range(nslices):
        path = os.path.join(work, 'cases-%s-%d-slice%d.txt' % (tag, os.getpid(), k))
        with open(path, 'w') as f:
            for c in cases[k::nslices]:
                f.write(c + '\n')
        paths.append(path)
        # output to a file each: with pipes the slices would wait for their reader one after the other
        of = open(path + '.out', 'wb')
        procs.append((subprocess.Popen([exe, path], stdout=of, stderr=subprocess.DEVNULL, env=env), of))
    outs = [None] * n
    try:
        t_end = time.time() + timeout
        for k, (pr, of) in enumerate(procs):
            try:
                pr.wait(timeout=max(1, t_end - time.time()))
            except subprocess.TimeoutExpired:
                pr.kill()
                pr.wait()
            of.close()
            with open(paths[k] + '.out', 'rb') as f:
                for line in f.read().decode(errors='replace').split('\n'):
                    if line.startswith('#'):
                        sp = line.find(' ')
                        j = int(line[1:sp]) * nslices + k
                        if j < n:
                            outs[j] = line[sp + 1:]
    finally:
        for path in paths:
            for q in (path, path + '.out'):
                try:
                    os.remove(q)
                except OSError:
                    pass
    return outs


# ---------------------------------------------------------------------------------------------
# DEPTH stratum: containers of 10^4 .. 10^6 elements, implementation-side oracle (harness/cont.c, `deep:N`)
# ---------------------------------------------------------------------------------------------
# Every scenario the C code could answer by recursing along the chain or by walking all of it: dup (list,
# vector, map forms), reverse, to_array, a full iterator sweep, find / index / remove / insert that land at the
# very end, get_keys / values / pairs, deletion.  Run under the ASan build AND a plain -O0 build (no sanitizer),
# both with the default 8 MB stack; a crash, a timeout or a wrong result is a level-A failure whose replay is
# `iface class deep:N;scenario`.
DEEP_SCEN = {
    'list': ['get', 'iterate', 'to_array', 'dup', 'reverse', 'find_last', 'remove_last', 'remove_at_last', 'insert_last'],
    'vector': ['iterate', 'to_array', 'dup', 'find_last', 'insert_last', 'remove_last'],
    'map': ['iterate', 'get_keys', 'get_values', 'get_pairs', 'get_keys_into', 'get_values_into', 'get_pairs_into', 'dup',
            'get_last', 'set_last', 'remove_last'],
}
STK_SIZES = (1000, 3000)        # stack high-water marks are compared between these two sizes
STK_MIN_SLOPE = 8               # bytes per element that count as growth (the smallest frame is 16 bytes)
STACK_BYTES = 8 << 20


def is_deep(case):
    t = case.split(' ')
    return len(t) == 3 and t[2].startswith('deep:')


def deep_sizes(tier, iface, cls, build):
    """sizes by interface, class and build.  O(1) per build step exists for: list (array append - but ASan's realloc
    copies, so the block grows quadratically there -, linked_list prepend, dlinked_list append) and vector of the two
    linked classes (descending / ascending inserts); the array vector pays one memmove per insert, every map set
    probes the whole map first (all three classes)."""
    quick = tier == 'quick'
    big = [100000, 400000] if quick else [100000, 400000, 1000000]
    if iface == 'map':
        return [4000] if quick else [12000]
    if cls == 'array':
        if build == 'asan':
            return [10000] if quick else [20000]
        return big if iface == 'list' else ([100000] if quick else [200000])
    return big


def deep_case(iface, cls, n, scen=None):
    return '%s %s deep:%d%s' % (iface, cls, n, ''.join(';' + x for x in (DEEP_SCEN[iface] if scen is None else scen)))


def deep_verdicts(case, out):
    """[(name, verdict, stk)] of a depth result line, or None if it is malformed; the ideal is `ok` everywhere"""
    if out is None:
        return None
    res = []
    for st in out.split(' ; '):
        if st == 'end':
            continue
        name, eq, rest = st.partition('=')
        if not eq:
            return None
        v, _, b = rest.partition('|')
        stk = int(b[4:]) if b.startswith('stk=') and b[4:].isdigit() else None
        res.append((name, v, stk))
    return res


def deep_failure(case, out):
    """None if the line is what a correct class prints, else (scenario, what)"""
    names = ['build'] + case.split(' ')[2].split(';')[1:] + ['del']
    vs = deep_verdicts(case, out)
    if vs is None:
        return (names[0], 'no output')
    for k, name in enumerate(names):
        if k >= len(vs):
            return (name, 'missing (the run ended in `%s`)' % (out[-60:],))
        if vs[k][0] != name:
            return (name, 'malformed output `%s`' % out[:80])
        if vs[k][1] != 'ok':
            return (name, vs[k][1])
    if not out.endswith('end'):
        return ('del', 'no end marker: `%s`' % out[-60:])
    return None


def _run_harness(exe, cases, work, tag, env=None):
    path = os.path.join(work, 'cases-%s-%d.txt' % (tag, os.getpid()))
    with open(path, 'w') as f:
        for c in cases:
            f.write(c + '\n')
    try:
        e = {'LV_CONT_STK': '1'}
        if env:
            e.update(env)
        outs, det = vlib.run_cases(exe, path, len(cases), env=e, timeout_per_run=1500)
    finally:
        try:
            os.remove(path)
        except OSError:
            pass
    return outs


def run_depth(chk, ctx, corpus_deep):
    """the depth stratum of one interface on all three classes; returns [(level, case, msg)]"""
    import shutil, subprocess, threading
    t0 = time.time()
    iface = {'C02': 'list', 'C03': 'map', 'C04': 'vector'}[chk.id]
    tier = ctx['tier']
    work = os.path.join(vlib.BUILD, 'work', chk.id.lower())
    os.makedirs(work, exist_ok=True)
    key = '%s-plain' % getattr(chk, 'runkey', chk.id.lower())
    out = []
    cov = dict(stack_limit_kb=subprocess.run('ulimit -s', shell=True, stdout=subprocess.PIPE).stdout.decode().strip(),
               stack_limit_note='the harness lowers the soft limit to 8192 kB when the environment allows more',
               builds=dict(asan='gcc -O1 -fsanitize=address,undefined (the build of the correspondence check)',
                           plain='gcc -O0, no sanitizer'),
               scenarios=DEEP_SCEN[iface], sizes={}, per_case_timeout_s='60 (120 above 500 000 elements)')
    ctx['cov']['depth_stratum'] = cov
    try:
        plain, log = vlib.build_impl(key, os.path.join(vlib.VERIF, 'harness', chk.harness), sanitize=False, opt='-O0')
        if plain is None:
            return [('B', deep_case(iface, 'array', 0, []), 'plain (-O0, no sanitizer) build of the harness failed: %s' % log[-300:])]
        exes = dict(asan=ctx['impl_exe'], plain=plain)
        plan = {}
        for build in ('asan', 'plain'):
            cs = []
            for cls in CLASSES:
                sizes = deep_sizes(tier, iface, cls, build)
                cov['sizes']['%s/%s' % (cls, build)] = sizes
                cs += [deep_case(iface, cls, n) for n in sizes]
                # stack use must not grow with the size
                cs += [deep_case(iface, cls, n) for n in STK_SIZES]
            # corpus cases of the stratum ran under ASan in the main pass already
            plan[build] = cs + (list(corpus_deep) if build == 'plain' else [])
        res = {}

        def job(build):
            res[build] = _run_harness(exes[build], plan[build], work, 'depth-' + build)
        th = [threading.Thread(target=job, args=(b,)) for b in plan]
        for t in th:
            t.start()
        for t in th:
            t.join()
        cov['cases'] = sum(len(v) for v in plan.values())
        fails = 0
        for build in ('asan', 'plain'):
            for c, o in zip(plan[build], res[build]):
                bad = deep_failure(c, o)
                if not bad:
                    continue
                fails += 1
                t = c.split(' ')
                n = int(t[2].split(';')[0][5:])
                # minimise: the build and the one scenario
                small = deep_case(t[0], t[1], n, [] if bad[0] in ('build', 'del') else [bad[0]])
                if small != c:
                    o2 = _run_harness(exes[build], [small], work, 'depth-min-' + build)[0]
                    bad2 = deep_failure(small, o2)
                    if bad2:
                        c, bad = small, bad2
                out.append(('A', c, 'depth stratum, %s build: %s of class %s with %d elements, scenario `%s`: %s (every scenario of a correct class '
                            'prints ok: count, first/middle/last element, order and identity are checked against the harness\'s own array)'
                            % (build, t[0], t[1], n, bad[0], bad[1])))
        # stack growth between the two small sizes
        grow = []
        max_delta = 0
        for build in ('asan', 'plain'):
            by = {}
            for c, o in zip(plan[build], res[build]):
                t = c.split(' ')
                n = int(t[2].split(';')[0][5:])
                if n in STK_SIZES and not deep_failure(c, o):
                    by[(t[1], n)] = dict((name, stk) for (name, v, stk) in deep_verdicts(c, o))
            for cls in CLASSES:
                a, b = by.get((cls, STK_SIZES[0])), by.get((cls, STK_SIZES[1]))
                if not a or not b:
                    continue
                for name in DEEP_SCEN[iface] + ['del']:
                    if a.get(name) is None or b.get(name) is None:
                        continue
                    d = b[name] - a[name]
                    max_delta = max(max_delta, d)
                    slope = d / float(STK_SIZES[1] - STK_SIZES[0])
                    if slope >= STK_MIN_SLOPE or b[name] >= 512 * 1024:
                        grow.append((build, cls, name, a[name], b[name], slope))
        cov['stack_growth'] = dict(sizes=list(STK_SIZES), largest_difference_bytes=max_delta, threshold_bytes_per_element=STK_MIN_SLOPE,
                                   scenarios_that_grow=['%s/%s/%s' % g[:3] for g in grow])
        seen = set()
        for (build, cls, name, s0, s1, slope) in sorted(grow, key=lambda g: -g[5]):
            if (cls, name) in seen:
                continue
            seen.add((cls, name))
            if any(lv == 'A' and cc.split(' ')[1] == cls and name in cc for (lv, cc, _) in out):
                continue        # already a concrete crash
            scen = [] if name == 'del' else [name]
            msg = ('stack use of scenario `%s` on a %s of class %s grows with the container: %d bytes with %d elements, %d with %d (%s build), '
                   'about %.0f bytes per element - a recursion per element' % (name, iface, cls, s0, STK_SIZES[0], s1, STK_SIZES[1], build, slope))
            # the size at which the default stack overflows; confirmed by a run where the build of such a container is affordable
            need = int(1.3 * STACK_BYTES / max(slope, 1.0) / 1000 + 1) * 1000 if slope >= STK_MIN_SLOPE else None
            cap = 20000 if iface == 'map' else (4000000 if (cls != 'array' or (iface == 'list' and build == 'plain')) else 20000)
            if need and need <= cap:
                c = deep_case(iface, cls, need, scen)
                o = _run_harness(exes[build], [c], work, 'depth-confirm-' + build)[0]
                bad = deep_failure(c, o)
                if bad:
                    out.append(('A', c, 'depth stratum, %s build: %s; with %d elements scenario `%s` ends in %s' % (build, msg, need, bad[0], bad[1])))
                    continue
            out.append(('B', deep_case(iface, cls, STK_SIZES[1], scen),
                        msg + ('; overflow of the default 8 MB stack predicted near %d elements, not confirmed by a run (%s)'
                               % (need, 'a container of that size cannot be built through this interface in reasonable time'
                                  if need and need > cap else 'the run at that size passed') if need else '')))
        cov['failures'] = fails
    finally:
        shutil.rmtree(os.path.join(vlib.BUILD, 'impl', key), ignore_errors=True)
        cov['wall_s'] = round(time.time() - t0, 2)
    return out


def all_classes(iface, ops):
    s = ';'.join(ops)
    return ['%s %s %s' % (iface, c, s) for c in CLASSES]


# ---------------------------------------------------------------------------------------------
# list histories
# ---------------------------------------------------------------------------------------------
class ListSim:
    """ideal sequence of keys / None, only to steer the generator (`other` = the second container after fork)"""
    def __init__(self):
        self.xs = []
        self.other = None

    def sorted_plain(self):
        return all(x is not None for x in self.xs) and all(self.xs[i] <= self.xs[i + 1] for i in range(len(self.xs) - 1))

    def insert_allowed(self, k):
        return self.sorted_plain() and (not self.xs or self.xs[0] != k)

    def norm(self, i):
        return i + len(self.xs) if i < 0 else i

    def apply(self, op):
        a = op.lstrip('~').split(':')
        xs = self.xs
        if a[0] == 'append':
            xs.append(a[1])
        elif a[0] == 'prepend':
            xs.insert(0, a[1])
        elif a[0] == 'insert':
            i = 0
            while i < len(xs) and xs[i] < a[1]:
                i += 1
            xs.insert(i, a[1])
        elif a[0] == 'insert_at':
            i = self.norm(int(a[1]))
            if i >= 0:
                while len(xs) < i:
                    xs.append(None)
                xs.insert(i, a[2])
        elif a[0] == 'remove':
            if a[1] in xs:
                xs.remove(a[1])
        elif a[0] == 'remove_own':
            i = self.norm(int(a[1]))
            if 0 <= i < len(xs) and xs[i] is not None:
                xs.remove(xs[i])
        elif a[0] == 'remove_at':
            i = self.norm(int(a[1]))
            if 0 <= i < len(xs):
                del xs[i]
        elif a[0] == 'reverse':
            xs.reverse()
        elif a[0] == 'fork':
            if self.other is None:
                self.other = list(xs)
        elif a[0] == 'swap':
            if self.other is not None:
                self.xs, self.other = self.other, self.xs


# index / length / count boundary values: every power of two and its neighbours
def pow2_neighbours(maxexp, minexp=1):
    out = []
    for e in range(minexp, maxexp + 1):
        for d in (-1, 0, 1):
            v = (1 << e) + d
            if v > 0 and v not in out:
                out.append(v)
    return out


SIZES_QUICK = [31, 32, 33, 63, 64, 65, 127, 128, 129, 255, 256, 257]
SIZES_THOROUGH = SIZES_QUICK + [511, 512, 513, 1023, 1024, 1025]


def kn(i):
    """fixed-width three-letter key whose order is the order of i (0 <= i < 17576)"""
    return chr(97 + (i // 676) % 26) + chr(97 + (i // 26) % 26) + chr(97 + i % 26)


def positions(n):
    """first, second, quarter, middle -1/0/+1, three quarters, last but one, last"""
    out = []
    for p in (0, 1, n // 4, n // 2 - 1, n // 2, n // 2 + 1, (3 * n) // 4, n - 2, n - 1):
        if 0 <= p < n and p not in out:
            out.append(p)
    return out


FAR = pow2_neighbours(7, 5)          # 31..33, 63..65, 127..129: far index values inside random histories


def list_random_op(sim, rng, keys, allow_dup=True, composites=True):
    n = len(sim.xs)
    k = rng.choice(keys)
    idx = rng.randint(-n - 2, n + 2)
    if rng.random() < 0.03:
        # far beyond either end (insert_at pads with NULL placeholders; get / remove_at refuse)
        idx = rng.choice(FAR) * rng.choice((1, 1, -1))
    r = rng.random()
    if composites and r < 0.06:
        # the list is handed back an object it stores itself
        return '%s:%d' % (rng.choice(('remove_own', 'remove_own', 'index_own', 'find_own', 'contains_own')), rng.randint(-n - 1, n))
    if r < 0.14:
        return 'append:' + k
    if r < 0.22:
        return 'prepend:' + k
    if r < 0.42:
        return 'insert_at:%d:%s' % (idx, k)
    if r < 0.47:
        return ('insert:' + k) if sim.insert_allowed(k) else ('append:' + k)
    if r < 0.57:
        return 'remove:' + (k if rng.random() < 0.95 else '_')
    if r < 0.69:
        return 'remove_at:%d' % idx
    if r < 0.74:
        return 'get:%d' % idx
    if r < 0.78:
        return 'index:' + k
    if r < 0.82:
        return 'find:' + (k if rng.random() < 0.95 else '_')
    if r < 0.85:
        return 'contains:' + (k if rng.random() < 0.95 else '_')
    if r < 0.87:
        return 'count'
    if r < 0.93:
        return 'reverse'
    if r < 0.95:
        return 'to_array'
    if r < 0.97:
        return 'iterate'
    return 'dup' if allow_dup else 'count'


def with_second_use(ops, rng, p_fork=0.3):
    """put one `fork` (dup; the COPY is used from then on, the original is still read back) at a random
    place of a history and a few `swap`s behind it"""
    if len(ops) < 2 or rng.random() >= p_fork:
        return ops
    at = rng.randint(0, len(ops) - 1)
    out = ops[:at] + ['fork']
    for o in ops[at:]:
        if rng.random() < 0.15:
            out.append('swap')
        out.append(o)
    return out


def list_history(rng, maxops=25, keys=KEYS4):
    sim = ListSim()
    ops = []
    nops = rng.randint(1, maxops)
    forked = rng.random() < 0.3
    # some histories start with a run of appends so that longer lists are reached
    if rng.random() < 0.4:
        for _ in range(rng.randint(1, 6)):
            ops.append('append:' + rng.choice(keys))
            sim.apply(ops[-1])
    fork_at = rng.randint(0, nops) if forked else -1
    done_fork = False
    while len(ops) < nops:
        if forked and not done_fork and len(ops) >= fork_at:
            op = 'fork'
            done_fork = True
        elif done_fork and rng.random() < 0.12:
            op = 'swap'
        else:
            op = list_random_op(sim, rng, keys)
        ops.append(op)
        sim.apply(op)
    return ops[:max(1, nops)]


# symbolic alphabet of the exhaustive stratum: index values relative to the current length
LIST_SYMBOLS = [
    lambda s: 'append:a', lambda s: 'append:b', lambda s: 'prepend:b',
    lambda s: 'insert_at:%d:a' % (-len(s.xs) - 1), lambda s: 'insert_at:%d:b' % (-len(s.xs)),
    lambda s: 'insert_at:%d:a' % (len(s.xs) - 1), lambda s: 'insert_at:%d:b' % len(s.xs),
    lambda s: 'insert_at:%d:a' % (len(s.xs) + 2), lambda s: 'insert_at:1:b',
    lambda s: 'remove:a', lambda s: 'remove_at:-1', lambda s: 'remove_at:%d' % (len(s.xs) // 2),
    lambda s: 'reverse', lambda s: 'dup',
]


# second alphabet: the composites (own-object arguments, second use of a copy)
LIST_SYMBOLS2 = [
    lambda s: 'append:a', lambda s: 'prepend:b', lambda s: 'insert_at:%d:a' % (len(s.xs) + 1),
    lambda s: 'insert_at:%d:b' % (len(s.xs) // 2), lambda s: 'remove_at:0', lambda s: 'remove_at:-1', lambda s: 'remove:a',
    lambda s: 'reverse', lambda s: 'remove_own:0', lambda s: 'remove_own:-1', lambda s: 'index_own:-1',
    lambda s: 'find_own:%d' % (len(s.xs) // 2), lambda s: 'contains_own:0',
    lambda s: 'fork', lambda s: 'swap',
]


def list_exhaustive(depth, symbols=LIST_SYMBOLS):
    """all sequences of exactly `depth` symbols (their prefixes are checked step by step)"""
    out = []
    for seq in itertools.product(range(len(symbols)), repeat=depth):
        sim = ListSim()
        ops = []
        nfork = 0
        for j in seq:
            op = symbols[j](sim)
            if op == 'fork':
                nfork += 1
            ops.append(op)
            sim.apply(op)
        if nfork <= 1:
            out.append(ops)
    return out


def list_second_use():
    """dup, then keep using the COPY (and, after `swap`, the original) while both are read back: every
    list of 0..3 elements (and one with a placeholder), every pair of following operations"""
    prefixes = [[], ['append:a'], ['append:a', 'append:b'], ['append:b', 'append:a', 'append:b'], ['insert_at:1:a'],
                ['append:a', 'append:b', 'append:c', 'append:d', 'append:e']]
    syms = [lambda s: 'append:c', lambda s: 'prepend:c', lambda s: 'insert_at:%d:c' % len(s.xs), lambda s: 'insert_at:%d:c' % (len(s.xs) + 1),
            lambda s: 'insert_at:%d:c' % max(len(s.xs) - 1, 0), lambda s: 'insert_at:1:c', lambda s: 'remove_at:0', lambda s: 'remove_at:-1',
            lambda s: 'remove:a', lambda s: 'remove:b', lambda s: 'remove_own:0', lambda s: 'remove_own:-1', lambda s: 'reverse', lambda s: 'dup',
            lambda s: 'swap']
    out = []
    for pre in prefixes:
        for i in range(len(syms)):
            for j in range(len(syms)):
                sim = ListSim()
                ops = []
                for o in pre + ['fork']:
                    ops.append(o)
                    sim.apply(o)
                for f in (syms[i], syms[j]):
                    o = f(sim)
                    ops.append(o)
                    sim.apply(o)
                out.append(ops)
    return out


def list_far_index(maxexp, minexp=1):
    """insert_at / get / remove_at at every power of two and its neighbours, on lists of 0, 1, 3, idx/2 and idx-2
    elements: the sequence grows by NULL placeholders across every allocation-block boundary"""
    out = []
    for t in pow2_neighbours(maxexp, minexp):
        for b in sorted(set([0, 1, 3, t // 2, t - 2])):
            if b < 0 or b >= t:
                continue
            build = ['~append:' + KEYS4[i % 4] for i in range(b)]
            out.append(build + ['insert_at:%d:z' % t, '~append:y', '~remove_at:%d' % (t // 2), 'remove_at:-1'])
    for t in pow2_neighbours(maxexp, max(5, minexp)):
        out.append(['~append:a', '~append:b', 'insert_at:%d:z' % -t, 'get:%d' % t, 'get:%d' % -t, 'remove_at:%d' % t, 'remove_at:%d' % -t])
    return out


def list_sized(sizes, rng):
    """lists of n real elements (built with quiet steps in three ways), then one operation at each boundary
    position, read back in full"""
    out = []
    for n in sizes:
        builds = [['~append:' + KEYS4[(i * 7) % 4] for i in range(n)],
                  ['~prepend:' + KEYS4[(i * 5) % 4] for i in range(n)],
                  ['~insert_at:%d:%s' % (i // 2, KEYS4[i % 4]) for i in range(n)]]
        pos = positions(n)
        probes = ['append:z', 'prepend:z', 'insert_at:%d:z' % n, 'insert_at:%d:z' % (n + 1), 'insert_at:-1:z', 'insert_at:%d:z' % -n,
                  'reverse', 'dup', 'fork;append:z', 'fork;remove_at:-1;swap;remove_at:0', 'remove:a', 'remove:d', 'index:c', 'get:%d' % n,
                  'remove_at:%d' % n, 'remove_at:%d' % -n, 'remove_at:%d' % (-n - 1), 'to_array', 'iterate']
        for q in pos:
            probes += ['insert_at:%d:z' % q, 'remove_at:%d' % q, 'remove_own:%d' % q, 'index_own:%d' % q]
        for k, pr in enumerate(probes):
            out.append(builds[k % 3] + pr.split(';'))
        # the sorted insert on a long ascending list (head key differs from the new key)
        asc = ['~append:' + kn(2 * i + 2) for i in range(n)]
        for q in pos[1:] + [n]:
            out.append(asc + ['insert:' + kn(2 * q + 1)])
    return out


# ---------------------------------------------------------------------------------------------
# vector histories
# ---------------------------------------------------------------------------------------------
def vector_history(rng, maxops=25, keys=KEYS4):
    nops = rng.randint(1, maxops)
    ops = []
    bias = rng.random()         # some histories mostly insert, some churn
    for _ in range(nops):
        k = rng.choice(keys)
        r = rng.random()
        if r < 0.35 + 0.3 * bias:
            ops.append('insert:' + k)
        elif r < 0.65 + 0.1 * bias:
            ops.append(('remove:' if rng.random() < 0.8 else 'remove_own:') + k)
        elif r < 0.85:
            ops.append(('find:' if rng.random() < 0.85 else 'find_own:') + k)
        elif r < 0.93:
            ops.append(('contains:' if rng.random() < 0.85 else 'contains_own:') + k)
        else:
            ops.append(rng.choice(['count', 'iterate', 'to_array']))
    return with_second_use(ops, rng, 0.25)


def vector_exhaustive(depth, keys=('a', 'b')):
    syms = [o + ':' + k for o in ('insert', 'remove', 'find') for k in keys]
    return [list(s) for s in itertools.product(syms, repeat=depth)]


VECTOR_SYMBOLS2 = ['insert:a', 'insert:b', 'insert:c', 'remove:a', 'remove:b', 'find:b', 'remove_own:a', 'remove_own:b', 'find_own:a',
                   'contains_own:b', 'fork', 'swap']


def vector_exhaustive2(depth, symbols=VECTOR_SYMBOLS2):
    return [list(s) for s in itertools.product(symbols, repeat=depth) if s.count('fork') <= 1]


def vector_sized(sizes, rng):
    """vectors of n elements with distinct keys (even codes; odd codes lie between) built with quiet steps in
    ascending, descending and shuffled order, then one operation per boundary position: a duplicate of the key
    there, a new key just below it, probes for it and for absent keys - read back in full (order, multiset)"""
    out = []
    for n in sizes:
        codes = [2 * i + 2 for i in range(n)]
        orders = [list(codes), list(reversed(codes)), list(codes)]
        rng.shuffle(orders[2])
        builds = [['~insert:' + kn(c) for c in o] for o in orders]
        pos = positions(n)
        probes = []
        for q in pos:
            here, below = kn(2 * q + 2), kn(2 * q + 1)
            probes += ['insert:' + here, 'insert:%s;insert:%s;remove:%s' % (here, here, here), 'insert:' + below, 'remove:' + here, 'find:' + here,
                       'contains:' + here, 'remove_own:' + here, 'find_own:' + here, 'remove:' + below, 'find:' + below]
        top = kn(2 * n + 3)
        probes += ['insert:' + top, 'remove:' + top, 'find:' + top, 'contains:' + top, 'insert:' + kn(0), 'find:' + kn(0),
                   'fork;insert:%s;swap;remove:%s' % (kn(2), kn(2 * n)), 'iterate', 'to_array', 'count']
        for k, pr in enumerate(probes):
            out.append(builds[k % 3] + pr.split(';'))
        # many equal keys: n inserts over n/4 keys, then a short random tail that is read back
        few = [kn(2 * i + 2) for i in range(max(2, n // 4))]
        for _ in range(3):
            tail = []
            for _ in range(12):
                k = rng.choice(few)
                tail.append(rng.choice(['insert:', 'insert:', 'remove:', 'remove:', 'find:', 'contains:', 'remove_own:']) + k)
            out.append(['~insert:' + rng.choice(few) for _ in range(n)] + tail)
    return out


def _elist(s):
    s = s.strip()
    if not (s.startswith('[') and s.endswith(']')):
        return None
    s = s[1:-1]
    return [] if s == '' else s.split(',')


def _vec_rb_check(n, f, live, what):
    if len(f) != 4:
        return 'step %d: malformed read-back of %s: %s' % (n, what, ' '.join(f))
    if f[0] != 'n=%d' % len(live):
        return 'step %d: %s %s, %d stored' % (n, what, f[0], len(live))
    for fld in (f[1], f[2]):
        if _elist(fld[2:]) != sorted(live):
            return 'step %d: %s %s, stored (ascending) %s' % (n, what, fld[:200], sorted(live)[:60])
    if f[3] != 'm=ok':
        return 'step %d: %s %s (a stored object is missing from or repeated in the sweep)' % (n, what, f[3])
    return None


def vector_oracle(case, iout):
    """The multiset discipline, evaluated on the implementation's own output without the model
    (vector elements are printed by key text, '?' = not an object the vector stores, m=ok = every
    stored object shown exactly once): iteration and to_array are ascending and hold exactly the
    inserted-and-not-removed keys; find/contains answer iff present; remove takes exactly one.
    After `fork` the same holds for the copy and for the original, each with its own multiset."""
    t = case.split(' ')
    if len(t) != 3 or t[0] != 'vector' or iout is None or iout.startswith('FAULT'):
        return None
    ops = t[2].split(';')
    steps = split_ab(iout)[0].split(' ; ')
    live = []          # multiset of key texts of the current container
    other = None       # ... of the other one after fork
    for n, op in enumerate(ops):
        if n >= len(steps) or steps[n] == 'end':
            return 'step %d missing' % n
        quiet = op.startswith('~')
        if quiet:
            op = op[1:]
        f = steps[n].split(' ')
        ret = f[0]
        a = op.split(':')
        K = a[1] if len(a) == 2 else None
        present = K in live
        if a[0] == 'insert':
            if ret != 'T':
                return 'step %d: insert returned %s' % (n, ret)
            live.append(K)
        elif a[0] in ('remove', 'find'):
            if ret != (K if present else '_'):
                return 'step %d: %s(%s) returned %s, stored %s' % (n, a[0], K, ret, sorted(live)[:60])
            if a[0] == 'remove' and present:
                live.remove(K)
        elif a[0] == 'contains':
            if ret != ('T' if present else 'F'):
                return 'step %d: contains(%s) = %s' % (n, K, ret)
        elif a[0] in ('remove_own', 'find_own', 'contains_own'):
            want = '_/-' if not present else (K + '/' + ('T' if a[0] == 'contains_own' else K))
            if ret != want:
                return 'step %d: %s(%s) returned %s, stored %s' % (n, a[0], K, ret, sorted(live)[:60])
            if a[0] == 'remove_own' and present:
                live.remove(K)
        elif a[0] == 'count':
            if ret != str(len(live)):
                return 'step %d: count = %s, %d stored' % (n, ret, len(live))
        elif a[0] in ('iterate', 'to_array'):
            if _elist(ret) != sorted(live):
                return 'step %d: %s = %s, stored %s' % (n, a[0], ret[:200], sorted(live)[:60])
        elif a[0] == 'fork':
            if other is not None or ret != 'T':
                return None if other is not None else 'step %d: dup returned %s' % (n, ret)
            other = list(live)
        elif a[0] == 'swap':
            if other is not None:
                live, other = other, live
        if quiet:
            if len(f) != 1:
                return 'step %d malformed: %s' % (n, steps[n][:200])
            continue
        if len(f) != (5 if other is None else 10):
            return 'step %d malformed: %s' % (n, steps[n][:200])
        msg = _vec_rb_check(n, f[1:5], live, 'vector:')
        if msg is None and other is not None:
            msg = ('step %d malformed: %s' % (n, steps[n][:200])) if f[5] != 'O' else _vec_rb_check(n, f[6:10], other, 'other vector:')
        if msg:
            return msg
    return None


# ---------------------------------------------------------------------------------------------
# map histories
# ---------------------------------------------------------------------------------------------
VALS = ['x', 'y', 'z', 'w']


OWN_MAP_OPS = ['set_own', 'set_own', 'set_ownpair', 'has_value_own', 'get_ownkey', 'remove_ownkey']


def map_history(rng, maxops=25, keys=KEYS4):
    nops = rng.randint(1, maxops)
    ops = []
    have = set()
    for _ in range(nops):
        k = rng.choice(keys)
        r = rng.random()
        if r < 0.30:
            ops.append('set:%s:%s' % (k, rng.choice(VALS)))
            have.add(k)
            # caller changes / deletes its own objects right after the set
            q = rng.random()
            if q < 0.25:
                ops.append('mutk:' + rng.choice(keys + ['zz']))
            if 0.15 < q < 0.4:
                ops.append('mutv:' + rng.choice(VALS + ['q']))
            if 0.35 < q < 0.5:
                ops.append('delk')
            if 0.45 < q < 0.6:
                ops.append('delv')
        elif r < 0.34:
            # pair form of set with a pair of the caller's
            ops.append('set_pair:%s:%s' % (k, rng.choice(VALS)))
            have.add(k)
        elif r < 0.44:
            # the map is handed back an object it stores itself (value, key or whole pair), mostly for a present key
            if have and rng.random() < 0.8:
                k = rng.choice(sorted(have))
            o = rng.choice(OWN_MAP_OPS + ['set_ownkey'])
            ops.append('set_ownkey:%s:%s' % (k, rng.choice(VALS)) if o == 'set_ownkey' else '%s:%s' % (o, k))
            if o == 'remove_ownkey':
                have.discard(k)
        elif r < 0.60:
            # removal, often of the smallest / largest key present
            if have and rng.random() < 0.6:
                k = rng.choice([min(have), max(have)])
            ops.append('remove:' + k)
            have.discard(k)
        elif r < 0.74:
            ops.append('get:' + k)
        elif r < 0.81:
            ops.append('has_key:' + k)
        elif r < 0.88:
            ops.append('has_value:' + rng.choice(VALS))
        else:
            ops.append(rng.choice(['count', 'get_keys', 'get_values', 'get_pairs', 'iterate', 'newpair',
                                   rng.choice(['get_keys_into:', 'get_values_into:', 'get_pairs_into:']) + rng.choice('ALD'),
                                   into_op(rng)]))
    return with_second_use(ops[:max(nops, 1)], rng, 0.25)


RECEIVING = (0, 1, 2, 3, 5)      # number of objects the caller's list already holds when it is handed to get_keys / values / pairs


def into_op(rng):
    return '%s:%s:%d' % (rng.choice(['get_keys_into', 'get_values_into', 'get_pairs_into']), rng.choice('ALD'), rng.choice(RECEIVING))


def map_receiving():
    """get_keys / get_values / get_pairs with a caller-supplied receiving list of each of the three list classes that
    already holds 0, 1, 2, 3 or 5 objects, on maps of 0..3 and 40 entries: the ideal result is  old ++ keys  (what the list
    held stays in front, in its order), and a second call keeps appending"""
    out = []
    prefixes = [[], ['set:a:x'], ['set:b:y', 'set:a:x'], ['set:b:y', 'set:c:z', 'set:a:x'],
                ['~set:%s:%s' % (kn(3 * i + 1), kn(5000 + i)) for i in range(40)]]
    for pre in prefixes:
        for what in ('get_keys_into', 'get_values_into', 'get_pairs_into'):
            for c in 'ALD':
                out.append(pre + ['%s:%s:%d' % (what, c, n) for n in RECEIVING])
    return out


def map_pair_values(rng, n):
    """histories whose values are pairs <A, B> (set_pv): pairs compare by A alone, so a key is set again and again to values
    that compare EQUAL to the stored one and differ in content - the latest one must be what get, get_values, get_pairs and the
    iterator show, in the original and in a copy.  No has_value here (it asks by comparison, the ideal dictionary by content)."""
    out = [['set_pv:k:a:one', 'set_pv:k:a:two', 'get:k', 'get_values', 'get_pairs', 'iterate', 'count'],
           ['set_pv:a:t:x', 'set_pv:b:t:y', 'set_pv:a:t:w', 'get:a', 'get:b', 'fork', 'set_pv:b:t:v', 'get:b', 'get_values', 'swap', 'get_values'],
           ['set:a:x', 'set_pv:a:x:q', 'get:a', 'set_pv:a:x:r', 'get:a', 'set:a:x', 'get:a', 'remove:a', 'get:a', 'count'],
           ['set_pv:c:m:p', 'set_pv:a:m:p', 'set_pv:b:m:p', 'set_pv:a:m:s', 'mutv:u', 'get:a', 'set_pv:c:m:t', 'delv', 'get:c', 'iterate']]
    # keys of class objpair with an explicit value (set_pk): the pair is the key and compares as its first member
    out += [['set_pk:a:v', 'get:a', 'set_pk:a:w', 'get:a', 'get_pairs', 'has_value:w', 'has_value:kk', 'count'],
            ['set_pk:b:x', 'set_pk:b:y', 'get:b', 'set_pk:a:u', 'set_pk:a:t', 'get:a', 'get_keys', 'get_values', 'remove:a', 'remove:b', 'count'],
            ['set_pk:c:p', 'set_pk:a:q', 'set_pk:b:r', 'fork', 'set_pk:b:s', 'iterate', 'swap', 'iterate', 'remove:c', 'get_pairs']]
    keys = ['a', 'b', 'c', 'd', 'k']
    for _ in range(n // 3):
        ops = []
        for _ in range(rng.randint(3, 12)):
            r = rng.random()
            k = rng.choice(keys)
            if r < 0.4:
                ops.append('set_pk:%s:%s' % (k, rng.choice(['p', 'q', 'r', 'w'])))
            elif r < 0.75:      # all keys of such a map are pairs: str and objpair keys do not order consistently among each other
                ops.append('get:' + k)
            elif r < 0.85:
                ops.append('remove:' + k)
            else:
                ops.append(rng.choice(['get_values', 'get_keys', 'get_pairs', 'iterate', 'count', 'has_value:p', 'has_key:' + k]))
        out.append(ops + ['get_pairs', 'count'])
    for _ in range(n):
        ops = []
        for _ in range(rng.randint(3, 14)):
            r = rng.random()
            k = rng.choice(keys)
            if r < 0.5:
                ops.append('set_pv:%s:%s:%s' % (k, rng.choice(['t', 't', 'u']), rng.choice(['p', 'q', 'r', 's', 'pp', 'w'])))
            elif r < 0.6:
                ops.append('set:%s:%s' % (k, rng.choice(['t', 'x'])))
            elif r < 0.8:
                ops.append('get:' + k)
            elif r < 0.86:
                ops.append('remove:' + k)
            else:
                o = rng.choice(['get_values', 'get_pairs', 'iterate', 'count', 'fork', 'swap'])
                if o == 'fork' and 'fork' in ops:
                    o = 'swap'
                ops.append(o)
        ops += ['get_pairs', 'count']
        out.append(ops)
    return out


MAP_SYMBOLS = ['set:a:x', 'set:a:y', 'set:b:x', 'set:c:z', 'remove:a', 'remove:b', 'remove:c', 'get:a', 'has_value:x',
               'mutk:c', 'delv']
# second alphabet: the composites
MAP_SYMBOLS2 = ['set:a:x', 'set:b:y', 'set_pair:a:w', 'set_pair:c:x', 'set_own:a', 'set_own:b', 'set_ownpair:a', 'set_ownkey:a:z',
                'get_ownkey:b', 'remove_ownkey:a', 'has_value_own:b', 'remove:b', 'get_keys_into:A:2', 'get_pairs_into:L:3', 'fork', 'swap']


def map_exhaustive(depth, symbols=MAP_SYMBOLS):
    return [list(s) for s in itertools.product(symbols, repeat=depth) if s.count('fork') <= 1]


def map_sized(sizes, rng, all_positions=True):
    """maps of n distinct keys (even codes; odd codes lie between) built with quiet steps in ascending, descending
    and shuffled order, then one operation per boundary position - plain, pair-form and own-object forms of set,
    get, remove - and for absent keys below, between and above; read back in full"""
    out = []
    for n in sizes:
        codes = [2 * i + 2 for i in range(n)]
        orders = [list(codes), list(reversed(codes)), list(codes)]
        rng.shuffle(orders[2])
        builds = [['~set:%s:%s' % (kn(c), kn(c + 7000)) for c in o] for o in orders]
        probes = []
        pos = positions(n) if all_positions else sorted(set([0, 1, n // 2, n - 2, n - 1]))
        for q in pos:
            here, below = kn(2 * q + 2), kn(2 * q + 1)
            probes += ['set:%s:new' % here, 'set_pair:%s:new' % here, 'set_own:' + here, 'set_ownpair:' + here, 'set_ownkey:%s:new' % here,
                       'get:' + here, 'get_ownkey:' + here, 'remove:' + here, 'remove_ownkey:' + here, 'has_key:' + here,
                       'has_value_own:' + here, 'set:%s:new' % below, 'set_pair:%s:new' % below, 'get:' + below, 'remove:' + below,
                       'set_own:' + below]
        top = kn(2 * n + 3)
        probes += ['set:%s:new' % top, 'get:' + top, 'remove:' + top, 'set:%s:new' % kn(0), 'remove:' + kn(0), 'has_value:new',
                   'has_value:' + kn(2 * n + 7000), 'fork;set:%s:new;swap;remove:%s' % (kn(2), kn(2 * n)), 'get_pairs', 'iterate',
                   'get_keys_into:D', 'get_values_into:A', 'get_pairs_into:L', 'get_keys_into:L:2', 'get_values_into:D:3', 'get_pairs_into:A:5',
                   'get_pairs_into:L:2;get_values_into:L:5;get_keys_into:D:0']
        for k, pr in enumerate(probes):
            out.append(builds[k % 3] + pr.split(';'))
    return out
