"""Shared part of the container checks C02 (list), C03 (map), C04 (vector) - family `cont`.

Case-line and output grammars are documented at the top of harness/cont.c.  The generators
below steer themselves with a tiny ideal simulation (length, sortedness) ONLY to choose index
values around the current length and to respect the documented preconditions; the verdict
always comes from the extracted Coq spec (driver/cont_main.ml) and, for vectors, additionally
from the model-independent multiset oracle `vector_oracle`.
"""
import itertools, os, re
import vlib

CLASSES = ['array', 'linked_list', 'dlinked_list']
KEYS4 = ['a', 'b', 'c', 'd']


# ---------------------------------------------------------------------------------------------
# output handling
# ---------------------------------------------------------------------------------------------
def steps_of(out):
    """split a result line into its steps (without the trailing 'end')"""
    parts = out.split(' ; ')
    return parts


def split_ab(out):
    """(A part, B part): per step, A = text before '|', B = after"""
    a, b = [], []
    for st in steps_of(out):
        if '|' in st:
            x, y = st.split('|', 1)
            a.append(x)
            b.append(y)
        else:
            a.append(st)
    return ' ; '.join(a), ' ; '.join(b)


def op_histogram(cases):
    h = {}
    for c in cases:
        t = c.split(' ')
        if len(t) != 3:
            continue
        for op in t[2].split(';'):
            k = t[0] + '.' + op.split(':', 1)[0]
            h[k] = h.get(k, 0) + 1
    return h


class ContCheck(vlib.PropertyCheck):
    family = 'cont'
    harness = 'cont.c'
    case_timeout = 1500        # one harness run covers the whole case file (faults are handled inside the harness)
    # automatic variables that are read before being written get a non-zero, non-pointer pattern
    # instead of whatever the stack held: "stores an uninitialised pointer" becomes a deterministic fault
    impl_kwargs = dict(cflags=['-ftrivial-auto-var-init=pattern'])

    def split(self, case, out):
        # level B (structure dump after '|') is not compared in stage 1
        a, b = split_ab(out)
        return a, ''

    def nontrivial(self, case, mout):
        # at least one operation left the container non-empty (an insertion succeeded)
        return re.search(r'\bn=[1-9]', mout) is not None

    def extra_steps(self, ctx):
        # operation histogram by interface.operation instead of by first token
        p = getattr(self, 'last_main_cases_path', None) or os.path.join(vlib.BUILD, 'work', self.id.lower(), 'cases-main-%d.txt' % os.getpid())
        try:
            with open(p) as f:
                cases = [l.rstrip('\n') for l in f]
            ctx['cov']['operation_histogram'] = op_histogram(cases)
            ctx['cov']['histories'] = len(cases)
            ctx['cov']['operations'] = sum(ctx['cov']['operation_histogram'].values())
            # the case set is random histories PLUS a bounded-exhaustive stratum, so it is not exhaustive as a whole
            ctx['cov']['exhaustive'] = False
            ctx['cov']['exhaustive_stratum'] = getattr(self, 'exhaustive_note', None)
        except OSError:
            cases = []
        # stage 2: pointer-level class models (checks/cont_<class>_tie.py, one per class, optional).
        # Each runs the histories of its class through its own extracted model with the structure
        # dump enabled (LV_CONT_B=1) and returns [(level, case, message)] for every disagreement.
        extra = []
        import importlib
        for cls in ('array', 'linked_list', 'dlinked_list'):
            try:
                tie = importlib.import_module('cont_%s_tie' % cls)
            except ImportError:
                continue
            extra += tie.run(self, ctx, [c for c in cases if c.split(' ')[1] == cls])
            ctx['cov'].setdefault('class_models', []).append(cls)
        return extra


def all_classes(iface, ops):
    s = ';'.join(ops)
    return ['%s %s %s' % (iface, c, s) for c in CLASSES]


# ---------------------------------------------------------------------------------------------
# list histories
# ---------------------------------------------------------------------------------------------
class ListSim:
    """ideal sequence of keys / None, only to steer the generator"""
    def __init__(self):
        self.xs = []

    def sorted_plain(self):
        return all(x is not None for x in self.xs) and all(self.xs[i] <= self.xs[i + 1] for i in range(len(self.xs) - 1))

    def insert_allowed(self, k):
        return self.sorted_plain() and (not self.xs or self.xs[0] != k)

    def norm(self, i):
        return i + len(self.xs) if i < 0 else i

    def apply(self, op):
        a = op.split(':')
        xs = self.xs
        if a[0] == 'append':
            xs.append(a[1])
        elif a[0] == 'prepend':
            xs.insert(0, a[1])
        elif a[0] == 'insert':
            i = 0
            while i < len(xs) and xs[i] < a[1]:
                i += 1
            xs.insert(i, a[1])
        elif a[0] == 'insert_at':
            i = self.norm(int(a[1]))
            if i >= 0:
                while len(xs) < i:
                    xs.append(None)
                xs.insert(i, a[2])
        elif a[0] == 'remove':
            if a[1] in xs:
                xs.remove(a[1])
        elif a[0] == 'remove_at':
            i = self.norm(int(a[1]))
            if 0 <= i < len(xs):
                del xs[i]
        elif a[0] == 'reverse':
            xs.reverse()


def list_random_op(sim, rng, keys, allow_dup=True):
    n = len(sim.xs)
    k = rng.choice(keys)
    idx = rng.randint(-n - 2, n + 2)
    r = rng.random()
    if r < 0.14:
        return 'append:' + k
    if r < 0.22:
        return 'prepend:' + k
    if r < 0.42:
        return 'insert_at:%d:%s' % (idx, k)
    if r < 0.47:
        return ('insert:' + k) if sim.insert_allowed(k) else ('append:' + k)
    if r < 0.57:
        return 'remove:' + (k if rng.random() < 0.95 else '_')
    if r < 0.69:
        return 'remove_at:%d' % idx
    if r < 0.74:
        return 'get:%d' % idx
    if r < 0.78:
        return 'index:' + k
    if r < 0.82:
        return 'find:' + (k if rng.random() < 0.95 else '_')
    if r < 0.85:
        return 'contains:' + (k if rng.random() < 0.95 else '_')
    if r < 0.87:
        return 'count'
    if r < 0.93:
        return 'reverse'
    if r < 0.95:
        return 'to_array'
    if r < 0.97:
        return 'iterate'
    return 'dup' if allow_dup else 'count'


def list_history(rng, maxops=25, keys=KEYS4):
    sim = ListSim()
    ops = []
    nops = rng.randint(1, maxops)
    # some histories start with a run of appends so that longer lists are reached
    if rng.random() < 0.4:
        for _ in range(rng.randint(1, 6)):
            ops.append('append:' + rng.choice(keys))
            sim.apply(ops[-1])
    while len(ops) < nops:
        op = list_random_op(sim, rng, keys)
        ops.append(op)
        sim.apply(op)
    return ops[:max(1, nops)]


# symbolic alphabet of the exhaustive stratum: index values relative to the current length
LIST_SYMBOLS = [
    lambda s: 'append:a', lambda s: 'append:b', lambda s: 'prepend:b',
    lambda s: 'insert_at:%d:a' % (-len(s.xs) - 1), lambda s: 'insert_at:%d:b' % (-len(s.xs)),
    lambda s: 'insert_at:%d:a' % (len(s.xs) - 1), lambda s: 'insert_at:%d:b' % len(s.xs),
    lambda s: 'insert_at:%d:a' % (len(s.xs) + 2), lambda s: 'insert_at:1:b',
    lambda s: 'remove:a', lambda s: 'remove_at:-1', lambda s: 'remove_at:%d' % (len(s.xs) // 2),
    lambda s: 'reverse', lambda s: 'dup',
]


def list_exhaustive(depth, symbols=LIST_SYMBOLS):
    """all sequences of exactly `depth` symbols (their prefixes are checked step by step)"""
    out = []
    for seq in itertools.product(range(len(symbols)), repeat=depth):
        sim = ListSim()
        ops = []
        for j in seq:
            op = symbols[j](sim)
            ops.append(op)
            sim.apply(op)
        out.append(ops)
    return out


# ---------------------------------------------------------------------------------------------
# vector histories
# ---------------------------------------------------------------------------------------------
def vector_history(rng, maxops=25, keys=KEYS4):
    nops = rng.randint(1, maxops)
    ops = []
    bias = rng.random()         # some histories mostly insert, some churn
    for _ in range(nops):
        k = rng.choice(keys)
        r = rng.random()
        if r < 0.35 + 0.3 * bias:
            ops.append('insert:' + k)
        elif r < 0.65 + 0.1 * bias:
            ops.append('remove:' + k)
        elif r < 0.85:
            ops.append('find:' + k)
        elif r < 0.93:
            ops.append('contains:' + k)
        else:
            ops.append(rng.choice(['count', 'iterate', 'to_array']))
    return ops


def vector_exhaustive(depth, keys=('a', 'b')):
    syms = [o + ':' + k for o in ('insert', 'remove', 'find') for k in keys]
    return [list(s) for s in itertools.product(syms, repeat=depth)]


def _elist(s):
    s = s.strip()
    if not (s.startswith('[') and s.endswith(']')):
        return None
    s = s[1:-1]
    return [] if s == '' else s.split(',')


def vector_oracle(case, iout):
    """The multiset discipline, evaluated on the implementation's own output without the model
    (vector elements are printed by key text, '?' = not an object the vector stores, m=ok = every
    stored object shown exactly once): iteration and to_array are ascending and hold exactly the
    inserted-and-not-removed keys; find/contains answer iff present; remove takes exactly one."""
    t = case.split(' ')
    if len(t) != 3 or t[0] != 'vector' or iout is None or iout.startswith('FAULT'):
        return None
    ops = t[2].split(';')
    steps = split_ab(iout)[0].split(' ; ')
    live = []          # multiset of key texts
    for n, op in enumerate(ops):
        if n >= len(steps) or steps[n] == 'end':
            return 'step %d missing' % n
        f = steps[n].split(' ')
        if len(f) != 5:
            return 'step %d malformed: %s' % (n, steps[n])
        ret = f[0]
        a = op.split(':')
        K = a[1] if len(a) == 2 else None
        present = K in live
        if a[0] == 'insert':
            if ret != 'T':
                return 'step %d: insert returned %s' % (n, ret)
            live.append(K)
        elif a[0] in ('remove', 'find'):
            if ret != (K if present else '_'):
                return 'step %d: %s(%s) returned %s, stored %s' % (n, a[0], K, ret, sorted(live))
            if a[0] == 'remove' and present:
                live.remove(K)
        elif a[0] == 'contains':
            if ret != ('T' if present else 'F'):
                return 'step %d: contains(%s) = %s' % (n, K, ret)
        elif a[0] == 'count':
            if ret != str(len(live)):
                return 'step %d: count = %s, %d stored' % (n, ret, len(live))
        elif a[0] in ('iterate', 'to_array'):
            if _elist(ret) != sorted(live):
                return 'step %d: %s = %s, stored %s' % (n, a[0], ret, sorted(live))
        if f[1] != 'n=%d' % len(live):
            return 'step %d: %s, %d stored' % (n, f[1], len(live))
        for fld in (f[2], f[3]):
            if _elist(fld[2:]) != sorted(live):
                return 'step %d: %s, stored (ascending) %s' % (n, fld, sorted(live))
        if f[4] != 'm=ok':
            return 'step %d: %s (a stored object is missing from or repeated in the sweep)' % (n, f[4])
    return None


# ---------------------------------------------------------------------------------------------
# map histories
# ---------------------------------------------------------------------------------------------
VALS = ['x', 'y', 'z', 'w']


def map_history(rng, maxops=25, keys=KEYS4):
    nops = rng.randint(1, maxops)
    ops = []
    have = set()
    for _ in range(nops):
        k = rng.choice(keys)
        r = rng.random()
        if r < 0.34:
            ops.append('set:%s:%s' % (k, rng.choice(VALS)))
            have.add(k)
            # caller changes / deletes its own objects right after the set
            q = rng.random()
            if q < 0.25:
                ops.append('mutk:' + rng.choice(keys + ['zz']))
            if 0.15 < q < 0.4:
                ops.append('mutv:' + rng.choice(VALS + ['q']))
            if 0.35 < q < 0.5:
                ops.append('delk')
            if 0.45 < q < 0.6:
                ops.append('delv')
        elif r < 0.56:
            # removal, often of the smallest / largest key present
            if have and rng.random() < 0.6:
                k = rng.choice([min(have), max(have)])
            ops.append('remove:' + k)
            have.discard(k)
        elif r < 0.72:
            ops.append('get:' + k)
        elif r < 0.80:
            ops.append('has_key:' + k)
        elif r < 0.88:
            ops.append('has_value:' + rng.choice(VALS))
        else:
            ops.append(rng.choice(['count', 'get_keys', 'get_values', 'get_pairs', 'iterate', 'newpair']))
    return ops[:max(nops, 1)]


MAP_SYMBOLS = ['set:a:x', 'set:a:y', 'set:b:x', 'set:c:z', 'remove:a', 'remove:b', 'remove:c', 'get:a', 'has_value:x',
               'mutk:c', 'delv']


def map_exhaustive(depth, symbols=MAP_SYMBOLS):
    return [list(s) for s in itertools.product(symbols, repeat=depth)]
