"""C04: every vector implementation is the same sorted multiset.
Stage 1: spec-vs-implementation correspondence for the three vector classes."""
import contlib
from contlib import ContCheck, all_classes


class C04(ContCheck):
    id = 'C04'
    nontrivial_rule = ('a history is non-trivial when at least one insert succeeded; keys from a 4-letter alphabet so '
                       'duplicates, minimum, maximum and absent probes are common; distinct = distinct case lines; further strata: own-object arguments (remove/find/contains of find(k)), second use of a copy (`fork`, `swap`), vectors of 31..257 (thorough ..1025) elements: distinct keys in ascending/descending/shuffled build order with a duplicate, a new neighbour key and probes at the first/second/quarter/middle/last positions and absent keys below/above, and vectors of n elements over n/4 keys'
                       '; depth stratum (implementation-side oracle, ASan and plain -O0 build, 8 MB stack): vectors of 10^5 / 4*10^5 (thorough 10^6) elements with every whole-chain scenario, and stack high-water marks at 1000 / 3000 elements')
    assumptions = ['elements are non-empty spif_str objects compared by spif_str_cmp, never NULL',
                   'results are compared by key; WHICH of several equal-key elements find/remove returns is left to the class '
                   '(identity is checked for membership by the multiset oracle)',
                   'vector lengths below 2^31']

    MANIFEST = dict(
        technique='Rocq refinement proofs (pointer-level class models -> ideal object) and theorems about the executable ideal sorted multiset (ContSpec.v) + extracted-spec/implementation correspondence check and a multiset oracle on all three vector classes',
        text=('The ideal ascending multiset is defined in Rocq; theorems for ALL histories: the state is Sorted after '
              'every prefix, state plus handed-back elements is a permutation of the inserted elements, find returns a stored '
              'element with the probe\'s key iff one is present, remove takes out exactly one such element, and all results depend '
              'only on keys (two runs that differ in the choice among equal elements agree on every key-level observable). The '
              'real classes are tied to the spec by running the extracted spec and the ASan build on the same histories; results '
              'are compared by key, and a model-independent oracle checks on the implementation\'s own output that iteration and '
              'to_array are ascending and hold exactly the inserted-and-not-removed objects and that find/remove hand back live '
              'objects with the probe\'s key. Pointer-level models (binary search, ordered scans) and refinement proofs are '
              'stage 2; memory safety is decided by the sanitizer run only.'
              " Stage 2 (Properties/C04_array.v, C04_linked_list.v, C04_dlinked_list.v): the pointer-level models of the three classes' vector methods refine the sorted multiset for every history: never a Fault, chain/array stays ascending, contents = inserted minus removed with identities, binary search (array) correct and in bounds, find/remove return stored elements; outputs agree with the ideal multiset up to the class's documented choice among equal keys (compared by key)."
              " Strengthened after the round-2 seeds: sized vectors (31..33, 63..65, 127..129, 255..257; thorough ..1025) built with quiet steps, then duplicates / neighbours / probes at every boundary position (a search strategy that changes with the length is exercised on both sides of every power of two), many-equal-keys vectors, own-object arguments (remove/find/contains of the vector's own element) and `fork` (dup, then keep using the copy while the original is read back; the oracle keeps one multiset per container). Harness/driver-level compositions of the existing spec operations; op datatypes and theorems unchanged. Vectors above 300 elements are compared with the ideal multiset (and the oracle) only."
              ' Strengthened after the round-4 seeds: a DEPTH stratum with an implementation-side oracle (the extracted models cannot run containers this large): vectors of 10^5 and 4*10^5 elements (thorough: also 10^6) for the two linked classes (descending resp. ascending inserts), 10^5 (thorough 2*10^5; under ASan 10^4 / 2*10^4) for class array, whose insert pays one memmove per step, built through the interface the O(1)-per-step way of the class where there is one, then every scenario the C code could answer by recursing along the chain or walking all of it (dup, to_array, a full iterator sweep, find/contains of the last, middle, first element and of absent keys above and between, an insert that lands at the very end, removal of the last element and its re-insertion, deletion), each checked in the harness against its own array of the N objects (count, identity at first/middle/last position, full order in sweeps and to_array); run under the ASan build AND a plain -O0 build without sanitizer, both under the default 8 MB stack, with a per-case watchdog: a crash, a timeout or a wrong result is a level-A failure whose replay is `iface class deep:N;scenario`. In addition the stack high-water mark of every scenario is measured at 1000 and 3000 elements (painted stack); growth of 8 bytes per element or more shows a recursion per element, is confirmed by a run at the predicted overflow size where such a container can be built, and is reported as a broken correspondence otherwise. The sizes that were run are recorded in the evidence (coverage.depth_stratum).'),
        design_ref='DESIGN.md section 7, C04')

    def oracle(self, case, iout):
        if contlib.is_deep(case):
            return ContCheck.oracle(self, case, iout)
        return contlib.vector_oracle(case, iout)

    def gen(self, tier, rng):
        cases = []
        quick = tier == 'quick'
        nrand = 6000 if quick else 100000
        for _ in range(nrand):
            cases += all_classes('vector', contlib.vector_history(rng))
        for _ in range(nrand // 10):
            cases += all_classes('vector', contlib.vector_history(rng, maxops=40, keys=['a', 'b', 'c', 'd', 'e', 'f', 'g']))
        # keys that are prefixes of each other (a, aa, ab, b, ba, aaa)
        for _ in range(nrand // 10):
            cases += all_classes('vector', contlib.vector_history(rng, keys=contlib.KEYS_PREFIX))
        depth = 5 if quick else 7
        ex = contlib.vector_exhaustive(depth)
        ex3 = contlib.vector_exhaustive(4 if quick else 5, keys=('a', 'b', 'c'))
        ex2 = contlib.vector_exhaustive2(3 if quick else 4)
        sized = contlib.vector_sized(contlib.SIZES_QUICK if quick else contlib.SIZES_THOROUGH, rng)
        self.exhaustive_note = ('all %d sequences of %d operations insert/remove/find over keys a,b, all %d over a,b,c and all %d sequences '
                                'of %d operations of the composite alphabet %s (own-object arguments, fork = dup and use the copy, swap), on '
                                'three classes; %d histories on vectors of %s elements (distinct keys in three build orders with duplicates, '
                                'neighbours and absent keys at every boundary position; many equal keys)'
                                % (len(ex), depth, len(ex3), len(ex2), 3 if quick else 4, contlib.VECTOR_SYMBOLS2, len(sized),
                                   '31..257' if quick else '31..1025'))
        for ops in ex + ex3 + ex2 + sized:
            cases += all_classes('vector', ops)
        return cases


CHECK = C04()
