"""C11: the config subsystem is memory-safe and spawns nothing on arbitrary files and paths (src/conf.c, src/file.c)."""
import re
import vlib
import conflib as L


class C11(vlib.PropertyCheck):
    id = 'C11'
    family = 'c09'          # one model driver and one harness serve C09 and C11
    harness = 'c09.c'
    case_timeout = 300
    impl_kwargs = L.IMPL_KW
    nontrivial_rule = ('byte files (structured-random without expansion characters: whole trace compared; fully random: faults, '
                       'termination, spawning and the ledger compared), lines at and over the 20480-byte limit, NUL bytes, missing '
                       'final newline, up to 600 unmatched begin lines, tables across every doubling, contexts and application functions registered 0-5, 9-11, '
                       '19-21, 39-41 (thorough: up to 240) strong before texts with a % that starts no call, unknown calls, calls to the registered functions and '
                       'unknown context names are expanded and parsed, in three init/register/use/free cycles with different numbers (heap dirtied before every '
                       'init, every realloc\'ed byte painted), init..free cycles 1-5 deep '
                       'with the heap ledger read after every free, spifconf_find_file on lengths up to 3*PATH_MAX and beyond 65536, '
                       'spifconf_shell_expand on texts whose $NAME / ~ / %get(k) name environment values, HOME and stored values of 0, 1, '
                       '127..129, 255..257, 4095..4097 and CONFIG_BUFF-3..CONFIG_BUFF+1 bytes (thorough: every power of two and its neighbours, '
                       '65535..65537) outside calls, inside the argument of every built-in, in nested calls, in quotes, in backquote commands, '
                       'doubled and at the end of an almost full line, directly and as lines of a parsed file; %dirscan on directories the '
                       'harness creates (0 to 2100 regular files, names of 1-255 characters whose names and blanks add up to less than, exactly '
                       'and more than CONFIG_BUFF, sub-directories, dangling links, FIFOs) with the listing read back; %exec and backquotes with '
                       'the intercepted command printing 0 to CONFIG_BUFF+1 (65537) bytes, commands around the length at which %exec refuses, '
                       'spiftool_temp_file 1000 times with the real mkstemp, and single calls (tmpf) with mkstemp and fchmod under the case\'s control: names that fit the 256-byte buffer exactly, by one and lose 1-7 characters (also with a template that supplies the lost X itself), TMPDIR / TMP / both / neither / a missing directory, candidates that exist already, fchmod failing, eleven umask values, len 0, 1, 2, around the name\'s length, the caller\'s block exactly len bytes long; a case is non-trivial when the model does not fault and the case is not a '
                       'repetition; distinct = distinct case lines')
    assumptions = ['value expansion and the variable store are parameters of the model (property C10); for texts with expansion '
                   'characters only faults, termination, spawning and the ledger are compared',
                   'the environment, directory contents and the output of commands are the outside world: the harness sets them up '
                   '(tokens E, D, O) and decides the operations x (expansion of a text: sanitizers, in place, terminated inside the '
                   'CONFIG_BUFF block) and s (%dirscan: every word a regular file of the directory, in readdir order, none twice, none '
                   'missing when all fit) on the implementation side; the directory is not changed while it is scanned',
                   'handlers do not touch the parser\'s own state',
                   'spiftool_get_word / spiftool_get_pword are the models of property C12; their theorems (LV.Split.SplitProofs, '
                   'SplitFrame: totality, frame, exactness) are used, not assumed',
                   'string lengths below 2^31 (spifconf_find_file keeps them in 32-bit variables); PATH_MAX as configured',
                   'spiftool_temp_file: the file system, umask, mkstemp (glibc\'s algorithm: EINVAL unless the name ends in XXXXXX, O_CREAT|O_EXCL with mode 0600 under the umask, EEXIST tries the next candidate) and fchmod are an explicit world driven by an oracle in Temp/TempModel.v; that the real mkstemp behaves so is trusted, and exercised by the `temp 1000` case and the N cases',
                   'termination of cyclic %include chains rests on descriptor exhaustion and is not modelled']

    MANIFEST = dict(
        technique='Rocq theorems about the Gallina model of the config subsystem (tables, parser loop, spifconf_find_file over lengths, lifecycle) and about spiftool_temp_file translated from the source on every run + extracted-model/implementation correspondence check under ASan/UBSan with process creation intercepted',
        text=('Rocq 8.16.1 theorems, all closed under the global context, about the Gallina model of the config subsystem '
              '(Conf/ConfModel.v; every load and store of the model is checked, so "never reads or writes outside its buffers and '
              'tables" is "never returns Fault"). C11_conf_no_fault: parsing arbitrary byte files (lines at and over the 20480-byte '
              'limit, NUL bytes, missing final newline, any number of unmatched begin lines - the 8-bit indices wrap inside the '
              'tables -, any %include structure including more than 255 nested files) never faults and keeps the table invariant; '
              'the only Fault is Out_of_fuel. C11_terminates_plain: a file without a % directive is parsed with fuel 2 + its length '
              '(termination in general is not proved: a file that includes itself ends by descriptor exhaustion, which is not '
              'modelled; for %include trees it follows from C09_conf_trace when the specification\'s walk ends). C11_tables_never_wrap / C11_widths: index below capacity and capacity at most 2^9 for all '
              'four tables after any number of pushes, with the widths and initial capacities of the source tree. '
              'C11_find_file_in_bounds: in the model of spifconf_find_file over lengths (int32 len/maxpathlen and the short n '
              'explicit, PATH_MAX from the configured headers) every write into name[] and full_path[] is in bounds for all lengths. '
              'C11_no_spawn: if no file contains a backquote, "%exec" or "preproc" in any case (decidable: C11_clean_decidable) and '
              'the expansion runs a command only for text with a backquote or "%exec" (hypothesis, property C10), the trace contains '
              'no Spawn - the parser itself spawns on a %preproc line only and hands the expansion pieces of the files only. '
              'C11_lifecycle: every sequence of init .. (register context | register built-in | parse | open)* .. free cycles from '
              'any state runs without fault and ends with all four table pointers NULL and the variable list reset; '
              'C11_init_independent: init yields the same tables from every state; C11_builtins_terminated: the built-in table '
              'keeps its NULL-name terminator. Not proved: the heap ledger (decided by the harness: live blocks after every free, '
              'per case) and termination beyond the two cases above (harness watchdog) - these two clauses are partial. '
              'The temporary-file clause (Properties/C11_temp.v): spiftool_temp_file is translated from src/file.c on every run by tools/gen_temp.py '
              '(buffer size, the getenv chain with formats and arguments, the statements with the umask and fchmod constants) and interpreted by '
              'Temp/TempModel.v over an explicit world (umask, files with modes, descriptors) and an oracle (directory exists, the candidates mkstemp '
              'tries, descriptor number, fchmod outcome). C11_temp_unique_0600: a file obtained (result >= 0) had a name not in use, has mode exactly 0600 '
              'whatever the caller\'s umask, the descriptor is open on it, every other file is unchanged; C11_temp_history: over any history of calls the '
              'names stay pairwise distinct, the umask ends as it began, no file disappears; C11_temp_umask_restored: on every path; C11_temp_no_fault / '
              'C11_temp_name_fits: for every environment, template, prior buffer content and len up to the buffer no access is out of bounds; '
              'C11_temp_failure_keeps_template; exactness: C11_temp_exact_ok (TMPDIR = dir, a name that fits: the file <dir>/<template><first free candidate> is created with mode 0600 and nothing else changes, the caller\'s buffer holds the longest prefix that fits len, terminated, the rest untouched), C11_temp_name_branches (TMPDIR over TMP over /tmp, cut at 255 bytes), C11_temp_refused (a name that lost part of its XXXXXX, or a missing directory: -1 and nothing at all has changed). Trusted there: that glibc\'s mkstemp and the kernel behave like the model\'s world. Expansion and the variable store are '
              'parameters (property C10): for texts with expansion characters only faults, termination (watchdog), spawning and the '
              'absence of state after free are compared. The tie: extracted model vs ASan/UBSan build with system, popen, fork, '
              'vfork, exec*, posix_spawn* intercepted at link time, on structured-random and fully random byte files, 600 unmatched '
              'begins, %include chains up to 600 deep, table sweeps, 1-5 init..free cycles, path lengths up to 3*PATH_MAX and beyond '
              '65536; and on the expansion\'s outside world - environment values, HOME, stored values, directory listings and command '
              'outputs of every buffer-size class inside and outside (nested) %calls, with the ledger read after the free: these cases '
              'are decided on the implementation side only (sanitizers, result terminated inside its CONFIG_BUFF block, %dirscan '
              'listing read back from the directory, no block left after spifconf_free_subsystem).'),
        design_ref='DESIGN.md section 7, C11')

    def gen(self, tier, rng):
        quick = tier == 'quick'
        # the budget is per harness process, not per case: the thorough tier creates and removes some 300 000 files for its
        # directory listings (five minutes of system time on a busy machine), and a run cut off at 300 s blames the case it was in
        self.case_timeout = 300 if quick else 900
        cases = []
        cases += L.gen_world(rng, tier)
        cases += L.gen_open(rng)
        cases += L.gen_unmatched(rng, [159, 160, 161, 255, 256, 257, 300, 600] if quick else [1, 19, 20, 21, 159, 160, 161, 254, 255, 256, 257, 258, 300, 511, 512, 513, 600])
        cases += L.gen_chain([159, 160, 161, 255, 256, 257, 300] if quick else [9, 10, 11, 19, 20, 21, 79, 80, 81, 159, 160, 161, 254, 255, 256, 257, 258, 300, 511, 512, 513, 600])
        cases += L.gen_tables(rng, [19, 20, 21, 159, 160, 161, 255] if quick else [0, 1, 19, 20, 21, 39, 40, 41, 79, 80, 81, 159, 160, 161, 247, 248, 254, 255])
        cases += L.gen_registered(rng, L.REG_COUNTS_QUICK if quick else sorted(set(L.REG_COUNTS_QUICK + L.REG_COUNTS_MORE)))
        cases += L.gen_lifecycle(rng, 150 if quick else 3000)
        cases += L.gen_random_files(rng, 150 if quick else 4000, quiet=False)
        cases += L.gen_random_files(rng, 150 if quick else 4000, quiet=True)
        cases += L.gen_structured(rng, 60 if quick else 1000, long_lines=True, long_hdr=True)
        cases += L.gen_find(rng, 100 if quick else 5000)
        cases += ['find 10 40001 3', 'find 40001 -1 40001,40002', 'find 5 5 %s' % ','.join(['40003'] * 3)]
        cases += ['temp 1000'] if not quick else ['temp 1000']
        cases += L.gen_tmpf(rng, 150 if quick else 6000)
        return cases

    def build_impl(self):
        return L.build_impl_consistent(self)

    def extra_steps(self, ctx):
        rng = ctx['rng']
        cases = (L.gen_unmatched(rng, [160, 256, 300]) + L.gen_chain([160, 256, 300]) + L.gen_tables(rng, [20, 160, 255]) +
                 L.gen_open(rng) + ['find 4095 -1 1,2', 'find 2047 2047 1,2', 'find 10 5 4077,4078,4079,69613,69614'] +
                 L.gen_world_dirs(rng, 'quick')[:60:3] + L.gen_world_values(rng, [300, L.CB - 1])[::7] +
                 L.gen_registered(rng, [3, 4, 13, 20, 40], cycles=2)[:5])
        return L.impl_faults(self, ctx, cases)

    def search_gen(self, tier, rng):
        return (L.gen_unmatched(rng, [159, 160, 161, 255]) + L.gen_tables(rng, [19, 20, 159, 160, 161, 255]) +
                L.gen_lifecycle(rng, 100) + L.gen_random_files(rng, 100, quiet=False) + L.gen_open(rng) + L.gen_world(rng, 'quick') +
                ['temp 1000'] + L.gen_tmpf(rng, 600))

    # level A: everything but the raw counters (a quiet parse prints q:ok unless a process was created for text
    # that contains no backquote, %exec or %preproc - the harness decides that, the expansion is not modelled there)
    def split(self, case, out):
        toks = out.split(' ')
        a = [t for t in toks if not t.startswith('d=')]
        b = [t for t in toks if t.startswith('d=')]
        return ' '.join(a), ' '.join(b)

    def oracle(self, case, iout):
        if iout.startswith('temp '):
            return None if iout == 'temp fail=0 badmode=0 dup=0 outside=0' else 'temporary files: ' + iout
        if case.startswith('tmpf '):
            return self.tmpf_oracle(case, iout)
        if not case.startswith('hist '):
            return None
        spawned = sum(int(x) for x in re.findall(r'\bsp=(\d+)', iout))
        if spawned and not L.may_spawn(case):
            return 'a process was spawned for text without backquote, %exec or %preproc'
        m = re.findall(r'\bl=(-?\d+)', iout)
        if m and any(int(x) != 0 for x in m):
            return 'heap blocks left behind after spifconf_free_subsystem: l=' + ','.join(m)
        if 'vars=1' in iout or 'tabs=1' in iout:
            return 'spifconf_free_subsystem left state behind: ' + ' '.join(re.findall(r'f:\S+', iout))
        return None

    @staticmethod
    def tmpf_oracle(case, iout):
        """what the property (theorems C11_temp_*) says about one call, read off the implementation's output alone: the
        model is regenerated from the source, so a changed source changes the model with it - these clauses do not move"""
        t = case.split(' ')
        f = dict(x.split('=', 1) for x in iout.split(' ') if '=' in x)
        if not {'ret', 'tpl', 'um', 'mode', 'files'} <= set(f):
            return None
        envk, tplhex, um, picks, nexist = t[1], t[3], int(t[6], 8), t[7], int(t[8])
        if int(f['um'], 8) != um:
            return 'spiftool_temp_file left the process umask at %s (it was %o before the call)' % (f['um'], um)
        if f['ret'] == 'ok' and f['mode'] != '600':
            return 'the file obtained has mode %s, not 0600 (caller\'s umask %o)' % (f['mode'], um)
        if f['ret'] == '-1' and f['tpl'] != (tplhex if tplhex != '-' else '-'):
            return 'the call failed but changed the caller\'s buffer'
        if f['files'] != '-' or (envk in 'DMB' and nexist):
            listing = [] if f['files'] == '-' else [x.rsplit(':', 1) for x in f['files'].split(',')]
            tpl = '' if tplhex == '-' else tplhex
            old = [tpl + p.encode().hex() for p in (picks.split(',')[:nexist] if picks != '-' else [])]
            for nm in old:
                if [nm, '644'] not in listing:
                    return 'a file that existed before the call is gone or has another mode: %s' % nm
            new = [x for x in listing if x[0] not in old]
            if f['ret'] == 'ok' and (len(new) != 1 or new[0][1] != '600'):
                return 'after a successful call the directory holds %s besides the files that existed' % (new,)
        return None

    def nontrivial(self, case, mout):
        return not mout.startswith('FAULT')


CHECK = C11()
MANIFEST = C11.MANIFEST
