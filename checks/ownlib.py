"""Shared machinery of the C05 (object protocol) and C06 (ownership) checks: the program
generator, the read-back parser, the oracles on the implementation's own answers and the two
harness builds of harness/c05.c.

A case line is one PROGRAM over handles (grammar: driver/c05_main.ml).  Programs are grown one
operation at a time; after every round the extracted model (build/c05_model) is run on all
programs-so-far with a trailing `dumpall`, and the next operation of each program is proposed from
the state the model reports (which handles are held, their classes and values).  A candidate that
makes the model fault (use of a handle the program no longer holds, wrong class) is dropped,
except for a small share kept on purpose as the final operation of a program, where model and
harness must both refuse.  The generator therefore needs no second implementation of the
semantics in Python; if no model executable exists a fixed list of programs is used.

The pcre library is an oracle (class ReTable): for every (pattern, flag word) of the generators the
harness's `calib` operation reports, from straight pcre_compile / pcre_exec calls, how many blocks
the compiled pattern occupies and which of the harness's probe subjects it matches; each case line
carries the entries its program can reach.  The read-back of a regexp OBJECT includes what the object
matches, so a copy (or a re-flagged object) whose compiled program does not belong to its value shows."""
import os, re, subprocess
import vlib

WRAP = ['-Wl,--wrap=malloc,--wrap=calloc,--wrap=realloc,--wrap=free,--wrap=strdup,'
        '--wrap=getservbyname,--wrap=getprotobyname']

# ---------------------------------------------------------------------------------------------
# builds
def build_asan(key):
    return vlib.build_impl(key, os.path.join(vlib.VERIF, 'harness', 'c05.c'), ldflags=WRAP,
                           cflags=['-fno-sanitize=nonnull-attribute'])


def build_bump(key):
    return vlib.build_impl(key, os.path.join(vlib.VERIF, 'harness', 'c05.c'), ldflags=WRAP, sanitize=False,
                           cflags=['-DLV_BUMP'])


def model_path():
    for p in (os.path.join(vlib.BUILD, 'c05_model'), os.path.join(vlib.BUILD, 'good', 'c05_model')):
        if os.path.exists(p):
            return p
    return None


def corpus_cases(prop):
    """the minimised cases under corpus/<prop>/ (vlib runs them in the main build; the checks' second
    builds run them too)"""
    out = []
    d = os.path.join(vlib.VERIF, 'corpus', prop)
    if os.path.isdir(d):
        for fn in sorted(os.listdir(d)):
            with open(os.path.join(d, fn)) as f:
                for line in f:
                    line = line.rstrip('\n')
                    if line and not line.startswith('//'):
                        out.append(line)
    return out


def hx(bs):
    return ''.join('%02x' % b for b in bs) or '-'


def hxs(s):
    return hx(s.encode('latin-1'))


# ---------------------------------------------------------------------------------------------
# the pcre oracle: blocks pcre_compile leaves allocated for (pattern, flag bits)
# patterns: besides the plain ones, one per compile flag that DECIDES a probe subject of the harness
# ('^b' multiline, 'a.b' dotall, 'a b' extended, '^.$' utf8; caseless decides most of them)
RE_PATTERNS = ['a', 'ab', 'a|b', '[a-z]+x', 'a(b', 'a(', '-', '^b', 'a.b', 'a b', '^.$']   # '-' is the empty pattern in hex notation
RE_FLAGSTR = ['', 'i', 'm', 's', 'x', 'ms', 'iu', 'imsx', '8', '^', 'q']      # q: unknown letter (warning, no bit)
FLAG_BITS = {'i': 1, 'm': 2, 's': 4, 'x': 8, 'u': 512, '8': 2048, '^': 128, '$': 256, 'E': 1024}
NPROBE = 12


def flag_bits(fs):
    v = 0
    for ch in fs:
        v |= FLAG_BITS.get(ch, 0)
    return v


class ReTable:
    """the pcre oracle: (pattern hex, flag bits) -> (blocks pcre_compile leaves allocated, what the compiled
    pattern matches among the harness's probe subjects).  A case line carries only the entries its own
    operations can reach: its patterns x (its flag words and 0)."""

    def __init__(self, d):
        self.d = d

    @staticmethod
    def scan(op, pats, flags):
        t = op.split(' ')
        if t[0] == 're' and len(t) == 2 and t[1] != 'N':
            pats.add(t[1])
        elif t[0] == 'flags' and len(t) == 3:
            flags.add(flag_bits(bytes.fromhex(t[2]).decode('latin-1') if t[2] != '-' else ''))

    def entries(self, pats, flags):
        if not pats:
            return 're=-'
        out = []
        for p in sorted(pats):
            for f in sorted(flags | {0}):
                n, sig = self.d[(p, f)]
                out.append('%s:%d:%d:%s' % (p, f, n, sig))
        return 're=' + ','.join(out)

    def oracle(self, ops):
        pats, flags = set(), set()
        for op in ops:
            self.scan(op, pats, flags)
        return self.entries(pats, flags)


def finalize(case, table):
    """replace the oracle word of a case line by the table entries the program needs"""
    kind, _, rest = case.split(' ', 2)
    return '%s %s %s' % (kind, table.oracle(ops_of(case)), rest)


def calibrate(exe):
    """run the harness's `calib` operation (straight pcre_compile / pcre_exec) for every (pattern, flags)
    the generators use"""
    combos = []
    pats = [hxs(p) if p != '-' else '-' for p in RE_PATTERNS]
    for p in pats:
        for fs in RE_FLAGSTR:
            combos.append((p, flag_bits(fs)))
    combos = sorted(set(combos))
    work = os.path.join(vlib.BUILD, 'work', 'c05')
    os.makedirs(work, exist_ok=True)
    path = os.path.join(work, 'calib-%d.txt' % os.getpid())
    with open(path, 'w') as f:
        for (p, fl) in combos:
            f.write('calib re=- ; calib %s %d\n' % (p, fl))
    res, det = vlib.run_cases(exe, path, len(combos))
    os.remove(path)
    table = {}
    for (p, fl), r in zip(combos, res):
        m = re.match(r'^(-?\d+):([01]{%d})/' % NPROBE, r or '')
        if not m:
            raise RuntimeError('pcre calibration failed on %s/%d: %r' % (p, fl, r))
        table[(p, fl)] = (int(m.group(1)), m.group(2))
    return ReTable(table)


# ---------------------------------------------------------------------------------------------
# read-back parser (format of driver/c05_main.ml show_obj)
class P:
    def __init__(self, s):
        self.s, self.i = s, 0

    def peek(self):
        return self.s[self.i] if self.i < len(self.s) else ''

    def eat(self, c):
        if not self.s.startswith(c, self.i):
            raise ValueError('expected %r at %d in %r' % (c, self.i, self.s))
        self.i += len(c)

    def text(self):
        j = self.i
        while j < len(self.s) and self.s[j] in '0123456789abcdefN-':
            j += 1
        t = self.s[self.i:j]
        self.i = j
        if t == 'N':
            return None
        return b'' if t == '-' else bytes.fromhex(t)

    def obj(self):
        c = self.peek()
        if c == '_':
            self.i += 1
            return None
        if c == 'o':
            self.i += 1
            return ('o',)
        if c in 'sum' and self.s[self.i + 1] == ':':
            self.i += 2
            return (c, self.text())
        if c == 'p':
            self.eat('p(')
            k = self.obj(); self.eat(','); v = self.obj(); self.eat(')')
            return ('p', k, v)
        if c == 't':
            self.eat('t(')
            a = self.obj(); self.eat(','); b = self.obj(); self.eat(','); d = self.obj(); self.eat(';')
            j = self.i
            while j < len(self.s) and self.s[j] in '0123456789.':
                j += 1
            ch = tuple(int(x) for x in self.s[self.i:j].split('.'))
            self.i = j
            self.eat(')')
            return ('t', a, b, d, ch)
        if c == 'U':
            self.eat('U(')
            t = self.text(); self.eat(';')
            cs = [self.obj()]
            while self.peek() == ',':
                self.i += 1
                cs.append(self.obj())
            self.eat(')')
            return ('U', t, cs)
        if c == 'r' and self.s.startswith('r:', self.i):
            self.i += 2
            t = self.text(); self.eat(':')
            j = self.i
            while j < len(self.s) and self.s[j].isdigit():
                j += 1
            f = int(self.s[self.i:j]); self.i = j
            self.eat(':')
            j = self.i
            while j < len(self.s) and self.s[j] in '01X':
                j += 1
            sig = self.s[self.i:j]; self.i = j
            return ('r', t, f, sig)
        if c == 'r' and self.s.startswith('raw', self.i):
            self.i += 3
            return ('raw',)
        if c == 'i':
            k = self.s[self.i + 1]
            self.i += 2
            return ('i', k)
        if c in 'LVM':
            iface, k = c, self.s[self.i + 1]
            self.i += 2
            self.eat('[')
            items = []
            if self.peek() != ']':
                items.append(self.obj())
                while self.peek() == ',':
                    self.i += 1
                    items.append(self.obj())
            self.eat(']')
            return ('C', iface, k, items)
        raise ValueError('cannot parse %r at %d' % (self.s, self.i))


def parse_dumpall(tok):
    """'{h0=...,h3=...}/12' -> {0: obj, 3: obj}"""
    body = tok[:tok.rindex('/')]
    p = P(body)
    p.eat('{')
    out = {}
    while p.peek() != '}':
        p.eat('h')
        j = p.i
        while p.s[j].isdigit():
            j += 1
        h = int(p.s[p.i:j]); p.i = j
        p.eat('=')
        out[h] = p.obj()
        if p.peek() == ',':
            p.i += 1
    return out


def kind(o):
    return o[0] if o is not None else None


# ---------------------------------------------------------------------------------------------
# proposal of the next operation from the state the model reports
TEXTS = [b'a', b'b', b'ab', b'abc', b'b ', b' x y', b'zz', b'A', b'\xe9t\xe9', b'q' * 9, b'a,b;c', b"'a b' c", b'k1', b'k2', b'k3']
URLS = [b'xq://u:pw@host:81/p/a?q=1', b'host', b'xq:host/path', b'//h?x', b'u@h', b':', b'xq://h:1', b'/only/path', b'?q',
        # every component present but empty (a component object is created, or not, for the empty text: both sides must agree, and whoever creates it owns it)
        b'xq://u:@h/p', b'xq://:pw@h', b'xq://@h', b'xq://h:/p', b'xq://h/p?', b'xq://u:pw@:81', b':@', b'xq://:@:/?']
# tokenizer sources in which a non-default quote / dquote / escape member decides the tokens
TOKTEXTS = [b"x |y z| w", b'a#  b', b'a\\ b "c d"', b'\xe9a b\xe9 c', b"a,b c", b"|a 'b| c'", b'a##b # c', b'"a b" \'c d\'']
# values for the three character members: off (0), the defaults, characters of TOKTEXTS / TEXTS, blank, high-bit bytes
QCHARS = [0, 39, 34, 92, 124, 35, 32, 44, 97, 233, 255]
# stream contents for the constructors from FILE* / descriptor (NUL-free: str, ustr and tok read them too)
FTEXTS = [b'', b'abc', b'ab\ncd', b'\nx', b'a b  c\nz', b'k1', b'\xe9\n']


def addr_dep(o):
    """does the object's comparison depend on addresses (model: addr_dep)?"""
    k = kind(o)
    if k == 'o':
        return True
    if k == 'p':
        return addr_dep(o[1])
    if k == 'C':
        return o[2] != 'a' or any(addr_dep(x) for x in o[3])
    return False


class Proposer:
    def __init__(self, rng, theme, avoid_addr=False):
        # avoid_addr: never let an address-ordered object decide a position or a match (sorted
        # insert, remove by probe, map key): under ASan the allocator's order is not the model's
        self.rng, self.theme, self.avoid_addr = rng, theme, avoid_addr

    def pick(self, seq):
        return seq[self.rng.randrange(len(seq))]

    def handles(self, st, pred):
        return [h for h, o in st.items() if pred(o)]

    def new_leaf(self):
        r = self.rng
        k = self.pick(['str', 'str', 'str', 'ustr', 'mbuff', 'obj', 'tok', 'tok', 'url', 're', 'pairnew', 'fnew', 'fnew'])
        if k == 'fnew':
            return self.new_stream()
        if k in ('str', 'ustr', 'mbuff'):
            t = self.pick(['N', '-', None, None, None])
            return '%s %s' % (k, t if t else hx(self.pick(TEXTS)))
        if k == 'obj':
            return 'obj'
        if k == 'tok':
            return 'tok %s' % self.pick(['N', hx(self.pick(TEXTS)), hx(b'a b  c'), hx(b"x 'y z' w"), hx(self.pick(TOKTEXTS)), hx(self.pick(TOKTEXTS))])
        if k == 'url':
            return 'url %s' % self.pick(['N', hx(self.pick(URLS)), hx(self.pick(URLS))])
        if k == 're':
            p = self.pick(RE_PATTERNS + ['N'])
            return 're %s' % (p if p in ('N', '-') else hxs(p))
        return 'pair _ _'

    def new_stream(self):
        """a constructor from FILE* / descriptor: regular file at offset 0 / in the middle / at its end, pipe,
        closed descriptor, no stream"""
        cls = self.pick(['str', 'ustr', 'mbuff', 'mbuff', 'tok'])
        via = self.pick(['fp', 'fd'])
        kind = self.pick(['reg', 'reg', 'reg', 'pipe', 'closed' if via == 'fd' else 'reg', 'bad'])
        data = self.pick(FTEXTS)
        pos = self.pick([0, 0, len(data), len(data) // 2, max(0, len(data) - 1)]) if kind == 'reg' else 0
        return 'fnew %s %s %s %s %d' % (cls, via, kind, hx(data), pos)

    def propose(self, st):
        r = self.rng
        th = self.theme
        strs = self.handles(st, lambda o: kind(o) == 's')
        txt = self.handles(st, lambda o: kind(o) in ('s', 'u', 'm'))
        objs = self.handles(st, lambda o: kind(o) not in ('raw',))
        keys = [h for h in objs if not (self.avoid_addr and addr_dep(st[h]))]
        pairs = self.handles(st, lambda o: kind(o) == 'p')
        # complete pairs (key and value present) are what the pair form of map set accepts
        fullpairs = [h for h in pairs if st[h][1] is not None and st[h][2] is not None
                     and not (self.avoid_addr and addr_dep(st[h][1]))]
        toks = self.handles(st, lambda o: kind(o) == 't')
        urls = self.handles(st, lambda o: kind(o) == 'U')
        res = self.handles(st, lambda o: kind(o) == 'r')
        lists = self.handles(st, lambda o: kind(o) == 'C' and o[1] == 'L')
        vecs = self.handles(st, lambda o: kind(o) == 'C' and o[1] == 'V')
        maps = self.handles(st, lambda o: kind(o) == 'C' and o[1] == 'M')
        conts = lists + vecs + maps
        allh = list(st.keys())
        w = []          # (weight, thunk)

        def add(wt, f):
            w.append((wt, f))
        nlive = len(allh)
        add(6 if nlive < 6 else 1, self.new_leaf)
        add(3 if nlive < 6 else 0.5, lambda: 'cont %s %s' % (self.pick('LLVM' if th != 'map' else 'MMML'), self.pick('ald')))
        if strs or objs:
            add(1.5, lambda: 'pair %s %s' % (self.pick(objs + ['_']), self.pick(objs + ['_'])))
        if objs:
            add(3 if th in ('dupi', 'own') else 1.5, lambda: 'dup %d' % self.pick(objs))
            add(1.2, lambda: 'done %d' % self.pick(objs))
            add(0.6, lambda: 'init %d' % self.pick(objs))
            add(0.8, lambda: 'type %d' % self.pick(objs))
            add(1.0, lambda: 'dump %d' % self.pick(allh))
            add(2.0 if nlive > 4 else 0.8, lambda: 'del %d' % self.pick(allh))
            add(1.5 if th != 'ord' else 6, lambda: 'comp %s %s' % (self.pick(objs + ['_']), self.pick(objs + ['_'])))
        if txt:
            add(2, lambda: 'append %d %s' % (self.pick(txt), hx(self.pick(TEXTS + [b'']))))
            add(1, lambda: 'substr %d %d %d' % (self.pick(txt), r.randint(-4, 4), r.randint(-3, 5)))
        if pairs:
            add(1.5, lambda: '%s %d %s' % (self.pick(['setk', 'setv']), self.pick(pairs), self.pick(objs + ['_'])))
        if toks:
            add(2, lambda: 'eval %d' % self.pick(toks))
            add(1, lambda: '%s %d %s' % (self.pick(['setsrc', 'setsep']), self.pick(toks), self.pick(strs + ['_'])))
            # the three character members; a list installed by the caller; members changed through their getters
            add(1.5, lambda: 'setq %d %s %d' % (self.pick(toks), self.pick('qde'), self.pick(QCHARS)))
            add(0.7, lambda: 'settoks %d %s' % (self.pick(toks), self.pick(lists + ['_'])))
            tsel = [(h, i) for h in toks for i in (0, 1) if kind(st[h][1 + i]) == 's']
            if tsel:
                add(1, lambda: 'mappend %d %d %s' % (self.pick(tsel) + (hx(self.pick(TEXTS + [b'', b' z'])),)))
            tl = [h for h in toks if kind(st[h][3]) == 'C']
            if tl:
                add(1.5, lambda: 'tlremove_at %d %d' % (self.pick(tl), r.randint(-3, 4)))
                if objs:
                    add(1, lambda: 'tlappend %d %d' % (self.pick(tl), self.pick(objs)))
        psel = [(h, i) for h in pairs for i in (0, 1) if kind(st[h][1 + i]) in ('s', 'u', 'm')]
        if psel:
            add(1, lambda: 'mappend %d %d %s' % (self.pick(psel) + (hx(self.pick(TEXTS + [b''])),)))
        usel = [(h, i) for h in urls for i in range(7) if i < len(st[h][2]) and kind(st[h][2][i]) == 's']
        if usel:
            add(1, lambda: 'mappend %d %d %s' % (self.pick(usel) + (hx(self.pick(TEXTS + [b''])),)))
        if txt:
            add(0.5, lambda: 'setlen %d -1' % self.pick(txt))
        mbs = self.handles(st, lambda o: kind(o) == 'm')
        if mbs:
            def trunc():
                h = self.pick(mbs)
                n = len(st[h][1] or b'')
                return 'setlen %d %d' % (h, self.pick([0, n, n // 2, max(0, n - 1)]))
            add(0.8, trunc)
        if urls:
            add(1, lambda: 'urlset %d %d %s' % (self.pick(urls), r.randrange(7), self.pick(strs + ['_'])))
            add(1, lambda: 'unparse %d' % self.pick(urls))
        if res:
            add(1.5, lambda: 'flags %d %s' % (self.pick(res), hxs(self.pick(RE_FLAGSTR))))
            add(0.7, lambda: 'compile %d' % self.pick(res))
        if lists and objs:
            add(4, lambda: '%s %d %d' % (self.pick(['lappend', 'lappend', 'lprepend']), self.pick(lists), self.pick(objs)))
            add(1.5, lambda: 'linsert_at %d %d %d' % (self.pick(lists), self.pick(objs), r.randint(-3, 5)))
        if lists and keys:
            add(1, lambda: 'linsert %d %d' % (self.pick(lists), self.pick(keys)))
            add(2, lambda: 'lremove %d %d' % (self.pick(lists), self.pick(keys)))
        if lists:
            add(2, lambda: 'lremove_at %d %d' % (self.pick(lists), r.randint(-3, 4)))
            add(0.7, lambda: 'lreverse %d' % self.pick(lists))
        if vecs and keys:
            add(5, lambda: 'vinsert %d %d' % (self.pick(vecs), self.pick(keys)))
            add(2, lambda: 'vremove %d %d' % (self.pick(vecs), self.pick(keys)))
        if maps and keys:
            add(6 if th == 'map' else 4, lambda: 'mset %d %d %d' % (self.pick(maps), self.pick(keys), self.pick(objs)))
            add(2, lambda: 'mremove %d %d' % (self.pick(maps), self.pick(keys)))
            # the map's own stored value / entry handed back to set
            add(1.2, lambda: '%s %d %d' % (self.pick(['msetown', 'msetownp']), self.pick(maps), self.pick(keys)))
        if maps and fullpairs:
            # pair form SPIF_MAP_SET(map, pair, NULL)
            add(5 if th == 'map' else 3, lambda: 'msetp %d %d' % (self.pick(maps), self.pick(fullpairs)))
        elif maps and pairs:
            add(0.3, lambda: 'msetp %d %d' % (self.pick(maps), self.pick(pairs)))     # incomplete pair: refused
        if maps and txt and th in ('map', 'own'):
            # make a complete pair for the pair form
            add(2, lambda: 'pair %d %d' % (self.pick(txt), self.pick(objs)))
            add(2, lambda: '%s %d %s' % (self.pick(['mkeys', 'mvalues', 'mpairs']), self.pick(maps), self.pick(lists + ['_', '_'])))
        if conts and keys:
            add(1.5, lambda: 'query %d %d' % (self.pick(conts), self.pick(keys)))
        if conts:
            add(0.8, lambda: 'toarray %d' % self.pick(lists + vecs) if (lists + vecs) else 'iter %d' % self.pick(conts))
            add(0.8, lambda: 'iter %d' % self.pick(conts))
        tot = sum(x for x, _ in w)
        x = r.random() * tot
        for wt, f in w:
            x -= wt
            if x <= 0:
                return f()
        return w[-1][1]()


FALLBACK = [
    'own re=- ; str 6162 ; dup 0 ; append 1 63 ; dumpall ; delall',
    'own re=- ; cont L l ; str 61 ; lappend 0 1 ; dup 0 ; dumpall ; delall',
]


def run_model_lines(exe, lines, tag):
    work = os.path.join(vlib.BUILD, 'work', 'c05')
    os.makedirs(work, exist_ok=True)
    path = os.path.join(work, 'gen-%s-%d.txt' % (tag, os.getpid()))
    with open(path, 'w') as f:
        for ln in lines:
            f.write(ln + '\n')
    res, info = vlib.run_model(exe, path, len(lines))
    os.remove(path)
    return res


def grow(rng, table, specs, rounds, misuse_share=0.03, avoid_addr=False):
    """specs: list of (kind word, theme, prefix ops list, target length); table: the ReTable.  Returns
    case lines (each ending with `dumpall ; delall`)."""
    exe = model_path()
    if exe is None:
        return list(FALLBACK)
    progs = []
    for (word, theme, prefix, target) in specs:
        pr = dict(word=word, prop=Proposer(rng, theme, avoid_addr), ops=list(prefix), target=target, done=False, final=None,
                  pats=set(), flags=set())
        for op in pr['ops']:
            table.scan(op, pr['pats'], pr['flags'])
        progs.append(pr)

    def oracle_of(p, extra=None):
        pats, flags = p['pats'], p['flags']
        if extra and extra.split(' ')[0] in ('re', 'flags'):
            pats, flags = set(pats), set(flags)
            table.scan(extra, pats, flags)
        return table.entries(pats, flags)

    def line(p, extra=None, tail=True):
        ops = p['ops'] + ([extra] if extra else [])
        return '%s %s ; %s' % (p['word'], oracle_of(p, extra), ' ; '.join(ops + (['dumpall'] if tail else [])))
    # initial states
    outs = run_model_lines(exe, [line(p) for p in progs], 'g0')
    states = []
    for p, o in zip(progs, outs):
        if o is None or 'FAULT' in o or o.startswith('DRIVER-ERROR'):
            p['ops'] = []
            p['pats'], p['flags'] = set(), set()
            states.append({})
        else:
            states.append(parse_dumpall(o.split(' ')[-1]))
    for rnd in range(rounds):
        todo = [i for i, p in enumerate(progs) if not p['done'] and len(p['ops']) < p['target']]
        if not todo:
            break
        cands = {}
        lines = []
        for i in todo:
            c = progs[i]['prop'].propose(states[i])
            cands[i] = c
            lines.append(line(progs[i], c))
        outs = run_model_lines(exe, lines, 'g%d' % (rnd + 1))
        for i, o in zip(todo, outs):
            p = progs[i]
            if o is None or o.startswith('DRIVER-ERROR'):
                continue
            if 'FAULT' in o:
                # a program error: keep a few as the last operation (both sides must refuse).  Only
                # the errors the harness can see before calling the library: a handle that is not
                # held, or a wrong class at top level (not a class mismatch met deep inside a
                # comparison, which in C is silent type confusion)
                name = cands[i].split(' ')[0]
                shallow = 'Use_after_free' in o or name not in ('linsert', 'lremove', 'vinsert', 'vremove', 'mset', 'msetp', 'msetown', 'msetownp', 'mremove', 'comp', 'query')
                if shallow and rng.random() < misuse_share:
                    p['final'] = cands[i]
                    p['done'] = True
                continue
            p['ops'].append(cands[i])
            table.scan(cands[i], p['pats'], p['flags'])
            states[i] = parse_dumpall(o.split(' ')[-1])
    cases = []
    for p in progs:
        if p['final']:
            cases.append('%s %s ; %s' % (p['word'], oracle_of(p, p['final']), ' ; '.join(p['ops'] + [p['final']])))
        elif p['ops']:
            cases.append('%s %s ; %s' % (p['word'], oracle_of(p), ' ; '.join(p['ops'] + ['dumpall', 'delall'])))
    return cases


# ---------------------------------------------------------------------------------------------
# hand-written strata: every class in every constructible state, then the protocol operations
def class_states():
    """(name, ops that leave the object under test as the LAST created handle; count of handles used)"""
    S = []
    for k in ('str', 'ustr', 'mbuff'):
        S += [(k + '-null', ['%s N' % k]), (k + '-empty', ['%s -' % k]), (k + '-text', ['%s 616263' % k])]
    S += [('obj', ['obj']),
          ('pair-empty', ['pair _ _']),
          ('pair-key', ['str 6b', 'pair 0 _']),
          ('pair-value', ['str 76', 'pair _ 0']),
          ('pair-both', ['str 6b', 'str 76', 'pair 0 1']),
          ('tok-null', ['tok N']),
          ('tok-uneval', ['tok 61206220']),
          ('tok-eval', ['tok 6120622063', 'eval 0']),
          ('tok-sep', ['tok 612c622c', 'str 2c', 'setsep 0 1', 'eval 0']),
          ('tok-evalempty', ['tok 2020', 'eval 0']),
          # the token list OUT OF STEP with the other members: a member changed after eval (setter, or in place
          # through the getter) and not evaluated again; the list edited through get_tokens; a list installed
          # with set_tokens (with and without a source, every list class, NULL)
          ('tok-stale-sep', ['tok 612c622063', 'eval 0', 'str 2c', 'setsep 0 1']),
          ('tok-stale-sep-null', ['tok 612c622063', 'str 2c', 'setsep 0 1', 'eval 0', 'setsep 0 _']),
          ('tok-stale-src', ['tok 6120622063', 'eval 0', 'str 78207920', 'setsrc 0 1']),
          ('tok-stale-src-null', ['tok 6120622063', 'eval 0', 'setsrc 0 _']),
          ('tok-stale-quote', ['tok ' + hx(b"x 'y z' w"), 'eval 0', 'setq 0 q 0']),
          ('tok-stale-dquote', ['tok ' + hx(b'x "y z" w'), 'eval 0', 'setq 0 d 124']),
          ('tok-stale-escape', ['tok ' + hx(b'a\\ b c'), 'eval 0', 'setq 0 e 35']),
          ('tok-stale-src-inplace', ['tok 6120', 'eval 0', 'mappend 0 0 2062']),
          ('tok-stale-sep-inplace', ['tok 612c623b63', 'str 2c', 'setsep 0 1', 'eval 0', 'mappend 0 1 3b']),
          ('tok-list-edited', ['tok 6120622063', 'eval 0', 'tlremove_at 0 0', 'del 1']),
          ('tok-list-emptied', ['tok 61', 'eval 0', 'tlremove_at 0 0', 'del 1']),
          ('tok-list-appended', ['tok 61', 'eval 0', 'str 7a', 'tlappend 0 1']),
          ('tok-list-foreign', ['tok 6120', 'eval 0', 'cont L a', 'tlappend 0 1', 'str 71', 'pair 2 2', 'tlappend 0 3', 'del 2']),
          ('tok-settoks-nosrc', ['tok N', 'cont L d', 'str 61', 'lappend 1 2', 'settoks 0 1']),
          ('tok-settoks-array', ['tok 61206220', 'cont L a', 'str 7a', 'lappend 1 2', 'settoks 0 1']),
          ('tok-settoks-linked', ['tok 61206220', 'eval 0', 'cont L l', 'str 7a', 'lappend 1 2', 'str 79', 'linsert_at 1 3 3', 'settoks 0 1']),
          ('tok-settoks-empty', ['tok 6120', 'eval 0', 'cont L a', 'settoks 0 1']),
          ('tok-settoks-null', ['tok 612062', 'eval 0', 'settoks 0 _']),
          # the character members in use: set before eval (custom quote, dquote, escape; switched off; equal to a
          # separator; high-bit byte)
          ('tok-quote-bar', ['tok ' + hx(b"x |y z| 'w v'"), 'setq 0 q 124', 'eval 0']),
          ('tok-dquote-bar', ['tok ' + hx(b'x |y z| "w v"'), 'setq 0 d 124', 'eval 0']),
          ('tok-escape-hash', ['tok ' + hx(b'a# b c#'), 'setq 0 e 35', 'eval 0']),
          ('tok-quotes-off', ['tok ' + hx(b"x 'y z' \"w v\""), 'setq 0 q 0', 'setq 0 d 0', 'setq 0 e 0', 'eval 0']),
          ('tok-quote-is-sep', ['tok ' + hx(b"a,b 'c,d'"), 'str 2c', 'setsep 0 1', 'setq 0 q 44', 'eval 0']),
          ('tok-quote-highbit', ['tok ' + hx(b'\xe9a b\xe9 c'), 'setq 0 q 233', 'eval 0']),
          ('tok-quote-same', ['tok ' + hx(b'x |y z| w'), 'setq 0 q 124', 'setq 0 d 124', 'setq 0 e 124', 'eval 0']),
          # made from a stream
          ('tok-fp', ['fnew tok fp reg ' + hx(b'a b\nc') + ' 0', 'eval 0']),
          ('tok-fd-mid', ['fnew tok fd reg ' + hx(b'a b c') + ' 2', 'eval 0']),
          ('str-fp-line', ['fnew str fp reg ' + hx(b'ab\ncd') + ' 0']),
          ('str-fp-eof', ['fnew str fp reg 616263 3']),
          ('str-fd-mid', ['fnew str fd reg 6162636465 2']),
          ('str-fd-closed', ['fnew str fd closed - 0']),
          ('ustr-fp-pipe', ['fnew ustr fp pipe ' + hx(b'uv\nw') + ' 0']),
          ('ustr-fd-pipe', ['fnew ustr fd pipe ' + hx(b'uv\nw') + ' 0']),
          ('mbuff-fp-start', ['fnew mbuff fp reg 0061ff0a62 0']),
          ('mbuff-fp-mid', ['fnew mbuff fp reg 6162636465 2']),
          ('mbuff-fd-mid', ['fnew mbuff fd reg 6162636465 4']),
          ('mbuff-fp-pipe', ['fnew mbuff fp pipe 616200 0']),
          ('mbuff-fd-pipe-empty', ['fnew mbuff fd pipe - 0']),
          ('mbuff-fd-closed', ['fnew mbuff fd closed - 0']),
          # len / size members
          ('mbuff-truncated', ['mbuff 61626364', 'setlen 0 2']),
          ('mbuff-truncated-0', ['mbuff 61626364', 'setlen 0 0']),
          ('mbuff-fd-mid-truncated', ['fnew mbuff fd reg 6162636465 1', 'setlen 0 3', 'setlen 0 -1']),
          ('str-len-roundtrip', ['str 616263', 'setlen 0 -1']),
          ('ustr-len-roundtrip', ['ustr -', 'setlen 0 -1']),
          # members changed in place through their getters
          ('pair-key-inplace', ['str 6b', 'str 76', 'pair 0 1', 'mappend 2 0 7a']),
          ('pair-value-inplace', ['str 6b', 'mbuff N', 'pair 0 1', 'mappend 2 1 7a00']),
          ('url-host-inplace', ['url ' + hx(b'xq://h/p'), 'mappend 0 3 7878']),
          ('url-all-set', ['url ' + hx(b'xq://u:pw@h:1/p?q'), 'str 61', 'urlset 0 0 1', 'str 62', 'urlset 0 1 2', 'str 63', 'urlset 0 2 3',
                           'str 64', 'urlset 0 3 4', 'str 65', 'urlset 0 4 5', 'str 66', 'urlset 0 5 6', 'str 67', 'urlset 0 6 7']),
          ('url-all-inplace', ['url ' + hx(b'xq://u:pw@h:1/p?q')] + ['mappend 0 %d 7a' % f for f in range(7)]),
          ('url-null', ['url N']),
          ('url-full', ['url ' + hx(URLS[0])]),
          ('url-host', ['url ' + hx(b'host')]),
          ('url-edited', ['url ' + hx(b'xq://h/p'), 'str 7878', 'urlset 0 3 1']),
          ('url-unparsed', ['url ' + hx(b'xq://h:1/p'), 'unparse 0']),
          ('url-empty-passwd', ['url ' + hx(b'xq://u:@h/p')]),
          ('url-empty-user', ['url ' + hx(b'xq://:pw@h')]),
          ('url-empty-userinfo', ['url ' + hx(b'xq://@h')]),
          ('url-empty-port', ['url ' + hx(b'xq://h:/p')]),
          ('url-empty-query', ['url ' + hx(b'xq://h/p?'), 'unparse 0']),
          ('url-all-empty', ['url ' + hx(b'xq://:@:/?'), 'unparse 0', 'dup 0']),
          ('re-null', ['re N']),
          ('re-a', ['re 61']),
          ('re-flags', ['re 61', 'flags 0 69']),
          ('re-bad', ['re 6128']),
          # one per compile flag, with a pattern for which the flag decides what the object matches
          ('re-caseless', ['re ' + hxs('[a-z]+x'), 'flags 0 ' + hxs('i')]),
          ('re-multiline', ['re ' + hxs('^b'), 'flags 0 ' + hxs('m')]),
          ('re-dotall', ['re ' + hxs('a.b'), 'flags 0 ' + hxs('s')]),
          ('re-extended', ['re ' + hxs('a b'), 'flags 0 ' + hxs('x')]),
          ('re-utf8', ['re ' + hxs('^.$'), 'flags 0 ' + hxs('8')]),
          ('re-all', ['re ' + hxs('a.b'), 'flags 0 ' + hxs('imsx')]),
          ('re-flags-then-none', ['re ' + hxs('a b'), 'flags 0 ' + hxs('x'), 'flags 0 -']),
          ('re-badflag', ['re 61', 'flags 0 ' + hxs('^')]),
          ]
    for c in 'ald':
        S += [('L%s-empty' % c, ['cont L %s' % c]),
              ('L%s-one' % c, ['cont L %s' % c, 'str 61', 'lappend 0 1']),
              ('L%s-three' % c, ['cont L %s' % c, 'str 61', 'lappend 0 1', 'str N', 'lappend 0 2', 'str 63', 'lappend 0 3']),
              ('L%s-holes' % c, ['cont L %s' % c, 'str 61', 'linsert_at 0 1 2', 'str 62', 'linsert_at 0 2 4']),
              ('L%s-hole-end' % c, ['cont L %s' % c, 'str 61', 'linsert_at 0 1 1', 'lremove_at 0 1', 'del 2']),
              ('L%s-emptied' % c, ['cont L %s' % c, 'str 61', 'lappend 0 1', 'lremove_at 0 0', 'del 2']),
              ('L%s-nested' % c, ['cont L %s' % c, 'cont L a', 'str 61', 'lappend 1 2', 'lappend 0 1', 'str 62', 'pair 3 3', 'lappend 0 4', 'del 3']),
              ('V%s-empty' % c, ['cont V %s' % c]),
              ('V%s-one' % c, ['cont V %s' % c, 'str 61', 'vinsert 0 1']),
              ('V%s-three' % c, ['cont V %s' % c, 'str 62', 'vinsert 0 1', 'str 61', 'vinsert 0 2', 'str 63', 'vinsert 0 3']),
              ('M%s-empty' % c, ['cont M %s' % c]),
              ('M%s-one' % c, ['cont M %s' % c, 'str 6b', 'str 76', 'mset 0 1 2', 'del 1', 'del 2']),
              ('M%s-pairform' % c, ['cont M %s' % c, 'str 6b', 'str 76', 'pair 1 2', 'msetp 0 3', 'del 1', 'del 2', 'del 3',
                                    'str 6a', 'str 77', 'pair 4 5', 'msetp 0 6', 'del 4', 'del 5', 'del 6']),
              ('M%s-three' % c, ['cont M %s' % c, 'str 6b32', 'str 76', 'mset 0 1 2', 'str 6b31', 'mset 0 3 2', 'str 6b33', 'mset 0 4 1',
                                 'del 1', 'del 2', 'del 3', 'del 4']),
              ]
    return S


def renumber(ops, base):
    """shift every handle number in hand-written ops by base (handles created before them)"""
    out = []
    for op in ops:
        t = op.split(' ')
        name = t[0]
        hpos = {'pair': [1, 2], 'dup': [1], 'done': [1], 'init': [1], 'del': [1], 'comp': [1, 2], 'type': [1], 'dump': [1],
                'append': [1], 'substr': [1], 'setk': [1, 2], 'setv': [1, 2], 'eval': [1], 'setsrc': [1, 2], 'setsep': [1, 2],
                'urlset': [1, 3], 'unparse': [1], 'flags': [1], 'compile': [1], 'lappend': [1, 2], 'lprepend': [1, 2],
                'linsert': [1, 2], 'linsert_at': [1, 2], 'lremove': [1, 2], 'lremove_at': [1], 'lreverse': [1], 'vinsert': [1, 2],
                'vremove': [1, 2], 'mset': [1, 2, 3], 'msetp': [1, 2], 'msetown': [1, 2], 'msetownp': [1, 2], 'mremove': [1, 2], 'mkeys': [1, 2], 'mvalues': [1, 2], 'mpairs': [1, 2],
                'toarray': [1], 'iter': [1], 'query': [1, 2], 'setq': [1], 'settoks': [1, 2], 'tlremove_at': [1], 'tlappend': [1, 2],
                'mappend': [1], 'setlen': [1]}.get(name, [])
        for i in hpos:
            if t[i] != '_':
                t[i] = str(int(t[i]) + base)
        out.append(' '.join(t))
    return out


def count_handles(ops):
    """number of handle numbers a hand-written op list consumes"""
    n = 0
    for op in ops:
        name = op.split(' ')[0]
        if name in ('obj', 'str', 'ustr', 'mbuff', 'pair', 'tok', 'url', 're', 'cont', 'dup', 'substr', 'lremove', 'lremove_at',
                    'vremove', 'mremove', 'toarray', 'iter', 'fnew', 'tlremove_at'):
            n += 1
        elif name in ('mkeys', 'mvalues', 'mpairs') and op.split(' ')[2] == '_':
            n += 1
    return n


def subject(ops):
    """handle number of the object a class_states() entry builds: its first handle (containers,
    toks, urls, regexps are created first) or, for pairs, the last"""
    first = ops[0].split(' ')[0]
    if first in ('cont', 'tok', 'url', 're', 'obj', 'fnew') or count_handles(ops) == 1:
        return 0
    return count_handles(ops) - 1


# ---------------------------------------------------------------------------------------------
# output handling
def tokens(out):
    return out.split(' ') if out else []


def res_of(tok):
    return tok[:tok.rindex('/')] if '/' in tok else tok


def ledger_of(tok):
    return tok[tok.rindex('/') + 1:] if '/' in tok else ''


def ops_of(case):
    body = case.split(' ', 2)[2] if case.count(' ') >= 2 else ''
    return [o.strip() for o in body.split(';') if o.strip()]


CMP = {'L': -1, 'E': 0, 'G': 1}


def order_oracle(case, iout):
    """model-independent check of the comparison laws on the implementation's own answers:
    every `comp a b` of the program is collected; reflexivity, antisymmetry and transitivity are
    checked over the handles compared while none of the operands changed (ord programs issue all
    comparisons after the objects are built), and NULL is below every object."""
    ops = ops_of(case)
    toks = tokens(iout)
    if len(toks) != len(ops):
        return None
    # only the trailing block of comp operations (nothing mutates in between)
    rel = {}
    for op, tk in zip(ops, toks):
        t = op.split(' ')
        if t[0] != 'comp':
            if t[0] not in ('dumpall', 'delall', 'dump', 'type'):
                rel = {}
            continue
        r = res_of(tk).lstrip('@')
        if r == '' and res_of(tk) == '@':
            continue                    # decided by addresses, not printed in this build
        if r not in CMP:
            return 'comp printed %r' % r
        rel[(t[1], t[2])] = CMP[r]
    for (a, b), v in rel.items():
        if a == b and v != 0:
            return 'comp %s %s = %d: not reflexive' % (a, b, v)
        if a == '_' and b != '_' and v != -1:
            return 'comp NULL %s = %d: NULL must be below every object' % (b, v)
        if b == '_' and a != '_' and v != 1:
            return 'comp %s NULL = %d: NULL must be below every object' % (a, v)
        if (b, a) in rel and rel[(b, a)] != -v:
            return 'comp %s %s = %d but comp %s %s = %d: not antisymmetric' % (a, b, v, b, a, rel[(b, a)])
    hs = sorted(set(x for k in rel for x in k))
    for a in hs:
        for b in hs:
            if (a, b) not in rel or rel[(a, b)] > 0:
                continue
            for c in hs:
                if (b, c) in rel and rel[(b, c)] <= 0 and (a, c) in rel:
                    if rel[(a, c)] > 0:
                        return 'comp %s<=%s, %s<=%s but %s>%s: not transitive' % (a, b, b, c, a, c)
                    if rel[(a, b)] == 0 and rel[(b, c)] == 0 and rel[(a, c)] != 0:
                        return 'equality not transitive on %s %s %s' % (a, b, c)
    return None


def balance_oracle(case, iout):
    """after `delall` the program holds nothing: the live-block count must be back at its start"""
    ops = ops_of(case)
    toks = tokens(iout)
    if len(toks) != len(ops):
        return None
    for op, tk in zip(ops, toks):
        if op == 'delall' and ledger_of(tk) != '0':
            return 'after deleting everything the program held, %s block(s) are still allocated' % ledger_of(tk)
    return None
