"""Case generators shared by checks/c09.py and checks/c11.py (config-file subsystem, src/conf.c).

A case is one line `hist TOKEN...` (see harness/c09.c for the token language), `find ...` or
`temp N`.  All random choices come from the rng argument."""
import re

CONFIG_BUFF = 20480          # cross-checked against Gen/Constants.v by the proofs, used here only to aim lengths
PATH_MAX = 4096
MAGIC = b'<lv-1.0>'
DEPTHS = [0, 1, 2, 3, 8, 9, 10, 11, 12, 18, 19, 20, 21, 22, 38, 39, 40, 41, 42, 78, 79, 80, 81, 82,
          158, 159, 160, 161, 162, 200, 253, 254, 255]
WRAPS = ['system', 'popen', 'fork', 'vfork', 'execve', 'execv', 'execvp', 'posix_spawn', 'posix_spawnp']
IMPL_KW = dict(exclude=('conf.c',), ldflags=['-Wl,' + ','.join('--wrap=' + w for w in WRAPS)])



def build_impl_consistent(chk):
    """Other checks may run concurrently against other source trees and regenerate coq/Gen/ConfGen.v from them
    (every tools/gen_*.py runs before every check).  Re-derive it from this check's tree and refresh the extracted
    model under the same lock, so that the model binary always corresponds to the tree the harness is built from."""
    import os
    import vlib
    with vlib.Lock('coq'):
        vlib.sh(['python3', os.path.join(vlib.VERIF, 'tools', 'gen_c11.py'), vlib.REPO])
        vlib.sh(['make', '-s', '-C', vlib.VERIF, 'build/%s_model' % chk.family], timeout=1800)
    return vlib.build_impl(chk.id.lower(), os.path.join(vlib.VERIF, 'harness', chk.harness), **chk.impl_kwargs)


def impl_faults(chk, ctx, cases, tag='oracle'):
    """The property's own oracle, evaluated on the implementation alone: none of these cases may end in a sanitizer
    report, a signal or a timeout, whatever the model says (the model takes the table widths from the source tree,
    so for a source whose capacities wrap it predicts the overflow too - that must still be a failing input)."""
    import os
    import vlib
    work = os.path.join(vlib.BUILD, 'work', chk.id.lower())
    os.makedirs(work, exist_ok=True)
    path = os.path.join(work, 'cases-%s.txt' % tag)
    with open(path, 'w') as f:
        for c in cases:
            f.write(c + '\n')
    outs, details = vlib.run_cases(ctx['impl_exe'], path, len(cases), timeout_per_run=chk.case_timeout)
    bad = []
    for c, o in zip(cases, outs):
        if o is None or o.startswith('FAULT') or o.startswith('HARNESS-ERROR'):
            bad.append(('A', c, 'the implementation alone fails the property: %s' % o))
    ctx['cov']['oracle_cases_impl_only'] = len(cases)
    return sorted(bad, key=lambda x: len(x[1]))[:5]


NAMES = [b'foo', b'bar', b'Baz', b'q', b'main', b'x1']
TEXTCH = b'abcdefghijklmnopqrstuvwxyzABCDEFGHIJKLMNOPQRSTUVWXYZ0123456789=:,.-_/+@!*()[]{}|;^&?#<>'
WS = [b'', b'', b' ', b'  ', b'\t', b' \t ', b'\x0b', b'\r']


def hx(b):
    if isinstance(b, str):
        b = b.encode('latin1')
    return b.hex() or '-'


def ftok(name, content):
    return 'F%s=%s' % (name, hx(content))


def render(lines, final_nl=True, hdr=MAGIC):
    """a config file: header line, then the lines, each followed by a newline (the last one optionally not)"""
    body = b'\n'.join([hdr] + list(lines))
    return body + (b'\n' if final_nl else b'')


def rword(rng, lo=1, hi=8, alpha=TEXTCH):
    return bytes(rng.choice(alpha) for _ in range(rng.randint(lo, hi)))


def text_line(rng):
    """an ordinary line: does not start with # < % b e (after the blanks), no expansion characters"""
    first = rng.choice(b'acdfghijklmnopqrstuvwxyzACDFGHIJKLMNOPQRSTUVWXYZ0123456789=:,.-_/+@!*()[]{}|;^&?')
    words = [bytes([first]) + rword(rng, 0, 6)] + [rword(rng) for _ in range(rng.choice([0, 0, 1, 2, 4]))]
    return rng.choice(WS) + rng.choice([b' ', b'  ', b'\t']).join(words) + rng.choice(WS)


def odd_line(rng, includes):
    """lines aimed at the classifier's case splits"""
    n = rng.choice(NAMES + [b'null', b'NULL', b'nosuch'])
    pool = [
        b'', b' ', b'\t \t', b'#', b'# comment', b'   # indented comment', b'<tag>', b'  <x y', b'#begin foo',
        b'begin', b'begin ', b'begin\t' + n, b'beginx ' + n, b'Begin ' + n, b'BEGIN ' + n, b'bEGIN ' + n, b'begin  ' + n + b' extra words',
        b'  begin ' + n + b'  ', b'begin ' + n.upper(), b'begin ' + n.lower(), b'b', b'be', b'bx y',
        b'end', b'  end  ', b'end ', b'end of it', b'END', b'End', b'eND', b'eNd x', b'endx', b'en', b'e', b'ending soon',
        b'%', b'  %  ', b'%"', b"%'", b'%zz', b'%zz top', b'% zz', b'%put(k v)', b'%put(kk w)', b'%put(a 1)',
        b'%prefix x', b'%prepro x', b'%preprocess x', b'%preproc', b'%include', b'%include ', b'%includex f', b'%include nosuchfile', b'%INCLUDE nosuchfile', b'%include  nomagic',
        b'x', b'a=b', b'text with # inside', b'text <with> brackets', b'  spaced   out  ',
    ]
    for inc in includes:
        pool += [b'%include ' + inc, b'%include   ' + inc + b'  ', b'%InClUdE ' + inc, b'% include ' + inc,
                 b'  %include ' + inc + b' trailing words']
    return rng.choice(pool)


def nested_block(rng, depth, names, body_lines):
    """depth begins, the body, depth ends"""
    out = []
    for _ in range(depth):
        out.append(rng.choice(WS[:4]) + rng.choice([b'begin ', b'begin  ', b'bEgIn ']) + rng.choice(names))
    out += body_lines
    for _ in range(depth):
        out.append(rng.choice([b'end', b'end', b' end ', b'end ' + rng.choice(names), b'eNd']))
    return out


def reg_tokens(rng, names, with_null=True):
    toks = []
    for nm in names:
        toks.append('r' + hx(nm))
    if with_null and rng.random() < 0.35:
        toks.insert(rng.randint(0, len(toks)), 'r' + hx(rng.choice([b'null', b'NULL', b'Null'])))
    if rng.random() < 0.2 and names:
        toks.append('r' + hx(rng.choice(names)))          # the same name twice: the first registration wins
    return toks


def gen_structured(rng, n, depths=DEPTHS, long_lines=False, long_hdr=False):
    """hist cases over the line grammar: nesting, includes, odd lines, state persistence"""
    cases = []
    for k in range(n):
        names = rng.sample(NAMES, rng.randint(0, 4))
        use = names + [b'nosuch', b'null'] if names else [b'nosuch', b'null', b'foo']
        nfiles = rng.choice([1, 1, 1, 2, 3, 4])
        fnames = ['a', 'b', 'c', 'd'][:nfiles]
        files = {}
        # acyclic: file i may include only files j > i
        for i in reversed(range(nfiles)):
            later = [f.encode() for f in fnames[i + 1:]]
            lines = []
            depth = rng.choice(depths) if i == 0 or rng.random() < 0.3 else rng.choice([0, 1, 2, 3])
            if nfiles > 1:
                depth = min(depth, 255 - 8 * nfiles)      # leave room for the nesting the included files add
            body = []
            for _ in range(rng.choice([0, 1, 2, 3, 5, 8])):
                r = rng.random()
                if r < 0.55:
                    body.append(text_line(rng))
                elif r < 0.85:
                    body.append(odd_line(rng, later))
                else:
                    d2 = rng.choice([1, 1, 2, 3])
                    body += nested_block(rng, d2, use, [text_line(rng) for _ in range(rng.choice([0, 1, 2]))])
            if later and rng.random() < 0.8:
                body.insert(rng.randint(0, len(body)), b'%include ' + rng.choice(later))
            lines += [text_line(rng)] if rng.random() < 0.5 else []
            blk = nested_block(rng, depth, use, body)
            # unbalanced variants: surplus ends, missing ends
            u = rng.random()
            if u < 0.12:
                blk += [b'end'] * rng.choice([1, 2, 5])
            elif u < 0.24 and depth > 0:
                blk = blk[:len(blk) - rng.randint(1, depth)]
            lines += blk
            if rng.random() < 0.3:
                lines.append(text_line(rng))
            if long_lines and rng.random() < 0.3:
                L = rng.choice([CONFIG_BUFF - 3, CONFIG_BUFF - 2, CONFIG_BUFF - 1, CONFIG_BUFF, CONFIG_BUFF + 1, 2 * CONFIG_BUFF + 5])
                lines.insert(rng.randint(0, len(lines)), b'L' + b'x' * (L - 1))
            hdr = rng.choice([MAGIC, MAGIC, b'<LV-2>', b'<lv-', b'<lv-1.0> trailing'] + ([b'<lv-' + b'9' * 300 + b'>'] if long_hdr else []))
            files[fnames[i]] = render(lines, final_nl=(rng.random() < 0.75), hdr=hdr)
        toks = [ftok(nm, files[nm]) for nm in fnames]
        if rng.random() < 0.15:
            toks.append(ftok('nomagic', b'begin foo\nx\nend\n'))
        toks += ['i'] + reg_tokens(rng, names) + ['d', 'pa', 'd']
        if rng.random() < 0.3:
            toks += ['p' + rng.choice(fnames), 'd']        # a second parse continues with the stacks as they are
        if rng.random() < 0.1:
            toks += ['pnosuchfile']
        toks += ['f']
        cases.append('hist ' + ' '.join(toks))
    return cases


def gen_depth_sweep(rng, depths):
    """one case per depth: d begins (several registered contexts), a text line at the bottom, d ends"""
    cases = []
    for d in depths:
        lines = []
        for j in range(d):
            lines.append(b'begin ' + [b'foo', b'bar', b'nosuch'][j % 3])
            if j % 37 == 5:
                lines.append(b'in level %d' % j)
        lines.append(b'bottom')
        for j in range(d):
            lines.append(b'end')
            if j % 41 == 7:
                lines.append(b'after end %d' % j)
        for tail in (True, False):
            toks = [ftok('a', render(lines, final_nl=tail)), 'i', 'r' + hx(b'foo'), 'r' + hx(b'bar'), 'pa', 'd', 'f']
            cases.append('hist ' + ' '.join(toks))
    return cases


def gen_include_depth(rng, depths):
    """a chain of files each including the next is limited by descriptors, so depth of the file stack is
    exercised by one file included from many nesting levels: a includes b ... up to 4 files; the file-state
    capacity doublings (10, 20, 40 ...) need a chain, built from files f0..fk"""
    cases = []
    for d in depths:
        toks = []
        for j in range(d):
            body = [b'begin foo', b't%d' % j]
            if j + 1 < d:
                body.append(b'%include f' + str(j + 1).encode())
            body += [b'u%d' % j, b'end']
            toks.append(ftok('f%d' % j, render(body)))
        if len(toks) > 55:
            continue
        toks += ['i', 'r' + hx(b'foo'), 'pf0', 'd', 'f']
        cases.append('hist ' + ' '.join(toks))
    return cases


def gen_chain(depths):
    """%include nested d deep through a chain of d generated files (token C<d>), each opening a block"""
    return ['hist C%d i r%s pc0 d f' % (d, hx(b'foo')) for d in depths]


def gen_tables(rng, counts):
    """context and built-in tables across every capacity doubling"""
    cases = []
    for n in counts:
        cases.append('hist %s i R%d d pa d f' % (ftok('a', render([b'begin g%d' % max(0, n - 1), b'x', b'end', b'%zz'])), n))
    for n in counts:
        if n <= 255 - 7:
            cases.append('hist %s i b%d d pa d f' % (ftok('a', render([b'%zz', b'y'])), n))
    return cases


def gen_lifecycle(rng, n):
    """init .. free cycles 1-5 deep; the ledger is read after every free.  Within one cycle no variable is
    stored twice (replacing a variable is property C10's business)"""
    cases = []
    for _ in range(n):
        cycles = rng.randint(1, 5)
        files = [ftok('a', render([b'%put(k v)', b'begin foo', b'x', b'%include b', b'end', b'%put(j w)'])),
                 ftok('b', render([b'y', b'%put(k2 v2)', b'%include nosuch'])),
                 ftok('c', render([b'begin foo', b'unbalanced'])),
                 ftok('e', b''), ftok('p', render([b'%preproc cat', b'never read'])),
                 ftok('g', render([b'%include c', b'%include c', b'end', b'%include e', b'%include g2'])),
                 ftok('g2', render([b'begin nosuch', b'%zz', b'%include c'], final_nl=False))]
        toks = list(files)
        if rng.random() < 0.25:
            toks.append('T')
        for _c in range(cycles):
            toks.append('i')
            for _k in range(rng.randint(0, 3)):
                toks.append(rng.choice(['r' + hx(b'foo'), 'r' + hx(b'null'), 'R%d' % rng.choice([1, 18, 19, 20, 21]),
                                        'b%d' % rng.choice([1, 2, 3, 4, 13]), 'r' + hx(rword(rng, 1, 5, b'abcxyz'))]))
            stored = False
            for _k in range(rng.randint(0, 4)):
                f = rng.choice(['a', 'b', 'c', 'c', 'e', 'p', 'g', 'nosuch'])
                if f in ('a', 'b'):
                    if stored:
                        continue
                    stored = True
                toks.append('p' + f)
            if rng.random() < 0.3:
                toks.append('d')
            toks += ['f', 'l']
            if len(toks) > 55:
                break
        cases.append('hist ' + ' '.join(toks[:60]))
    return cases


def gen_open(rng, long_version=True):
    """spifconf_open_file on first lines around the 256-byte buffer, empty files, NUL bytes; long_version: version
    strings of 128 characters and more (they go through spiftool_version_compare, property C17)"""
    cases = []
    firsts = [b'', b'\n', b'<', b'<lv', b'<lv-', b'<lv-\n', b'<LV-1>\n', b'<lv-1.0>', b'<lv-1.0>\nx\n', b'<lw-1.0>\n', b' <lv-1>\n',
              b'<lv-\x00>\n', b'\x00<lv-1>\n', b'x' * 255, b'x' * 256, b'<lv->\n', b'<lv-1.0\n', b'<lv-9.9>\n',
              b'<lv-1.2.3.4.5.6.7.8.9.' + b'10.' * 70 + b'>\nbegin foo\n', b'<lv-1>' + b'y' * 246 + b'\nx\n', b'<lv-1>' + b'y' * 247 + b'\nx\n',
              b'<lv-1>' + b'y' * 248 + b'\nx\n', b'<lv-1>' + b'y' * 249 + b'\nx\n', b'<lv-1>' + b'y' * 600 + b'\nx\n']
    if long_version:
        firsts += [b'<lv-' + b'1' * 249 + b'>\n', b'<lv-' + b'1' * 250 + b'>\n', b'<lv-' + b'1' * 251 + b'>\n',
                   b'<lv-' + b'1' * 600 + b'>\nx\n', b'<lv-1' + b' ' * 300, b'<lv-' + b'a' * 127 + b'>\n', b'<lv-' + b'a' * 128 + b'>\n']
    for f in firsts:
        cases.append('hist %s i oa pa d f' % ftok('a', f))
    return cases


NOMETA = bytes(b for b in range(256) if b not in b'$\\~`%')


def gen_random_files(rng, n, quiet):
    """byte files: `quiet` = every byte value (only faults, termination and spawning are compared),
    otherwise no expansion characters (the whole trace is compared)"""
    cases = []
    for _ in range(n):
        nfiles = rng.choice([1, 1, 2])
        toks = []
        for i in range(nfiles):
            size = rng.choice([0, 1, 5, 40, 200, 1000, 5000])
            style = rng.random()
            if quiet:
                alpha = bytes(range(256)) if style < 0.5 else b'\n\n\n \tbegin end%include"\'\\$~`(){}#<a\x00\xff' + b'foo'
            else:
                alpha = NOMETA if style < 0.5 else b'\n\n\n \tbegin endfoo"\'#<a\x00\xff\r\x0b'
            data = bytes(rng.choice(alpha) for _ in range(size))
            if rng.random() < 0.85:
                data = MAGIC + b'\n' + data
            if rng.random() < 0.3:
                # sprinkle structure
                parts = data.split(b'\n')
                for _k in range(rng.randint(1, 6)):
                    parts.insert(rng.randint(0, len(parts)), rng.choice([b'begin foo', b'end', b'begin "x y"', b'begin \'', b'%include b',
                                                                         b'begin  bar baz', b' end ', b'begin \\"', b'%', b'%"x']))
                data = b'\n'.join(parts)
            if rng.random() < 0.15:
                L = rng.choice([CONFIG_BUFF - 2, CONFIG_BUFF - 1, CONFIG_BUFF, 2 * CONFIG_BUFF - 2, 2 * CONFIG_BUFF - 1, 3 * CONFIG_BUFF])
                fill = bytes(rng.choice(b'xy \x00' if rng.random() < 0.3 else b'xyz ') for _ in range(L))
                data += fill + rng.choice([b'', b'\n', b'\nend\n', b'\nafter'])
            toks.append(ftok('ab'[i], data))
        toks += ['i', 'r' + hx(b'foo'), 'r' + hx(b'bar')] + (['q', 'f'] if quiet else ['pa', 'f', 'l'])
        cases.append('hist ' + ' '.join(toks))
    return cases


def gen_unmatched(rng, counts):
    """hundreds of unmatched begin lines"""
    cases = []
    for n in counts:
        lines = [b'begin ' + rng.choice([b'foo', b'nosuch']) for _ in range(n)]
        cases.append('hist %s i r%s pa d pa d f l' % (ftok('a', render(lines)), hx(b'foo')))
    return cases


def gen_find(rng, n):
    cases = []
    edge = [0, 1, 2, 100, PATH_MAX - 3, PATH_MAX - 2, PATH_MAX - 1, PATH_MAX, PATH_MAX + 1, 2 * PATH_MAX, 3 * PATH_MAX]
    comp_edge = [0, 1, 2, 3, 50, 51, PATH_MAX - 4, PATH_MAX - 3, PATH_MAX - 2, PATH_MAX - 1, PATH_MAX, PATH_MAX + 1,
                 3 * PATH_MAX, 32767, 32768, 32769, 40001, 65535, 65536, 65537, 65536 + 50, 65536 + PATH_MAX]
    for fl in edge:
        for dl in [-1] + edge:
            comps = [rng.choice(comp_edge) for _ in range(rng.choice([0, 1, 2, 4]))]
            cases.append('find %d %d %s' % (fl, dl, ','.join(map(str, comps)) or '-'))
    # name just fits: every component length around the remaining room
    for fl in (1, 10, 100, 1000, 4000, 4090):
        for dl in (-1, 0, 1, 50):
            used = fl + (dl + 1 if dl >= 0 else 0)
            room = PATH_MAX - used - 2
            comps = [room - 2, room - 1, room, room + 1, room + 2, room + 65536, room - 1 + 65536]
            comps = [c for c in comps if c >= 0]
            cases.append('find %d %d %s' % (fl, dl, ','.join(map(str, comps)) or '-'))
    for _ in range(n):
        fl = rng.choice(edge + [rng.randint(0, 3 * PATH_MAX)])
        dl = rng.choice([-1] + edge + [rng.randint(0, 3 * PATH_MAX)])
        comps = [rng.choice(comp_edge + [rng.randint(0, 70000)]) for _ in range(rng.randint(0, 6))]
        cases.append('find %d %d %s' % (fl, dl, ','.join(map(str, comps)) or '-'))
    return cases


def text_of_case(case):
    """all file contents of a hist case (for the spawn oracle)"""
    out = b''
    for t in case.split(' '):
        if t.startswith('F') and '=' in t:
            h = t.split('=', 1)[1]
            out += (b'' if h == '-' else bytes.fromhex(h)) + b'\n'
    return out


SPAWN_OK = re.compile(rb'`|%[\s"\']*(exec|preproc)', re.I)


def may_spawn(case):
    return bool(SPAWN_OK.search(text_of_case(case)))
