"""Case generators shared by checks/c09.py and checks/c11.py (config-file subsystem, src/conf.c).

A case is one line `hist TOKEN...` (see harness/c09.c for the token language), `find ...` or
`temp N`.  All random choices come from the rng argument."""
import re

CONFIG_BUFF = 20480          # cross-checked against Gen/Constants.v by the proofs, used here only to aim lengths
PATH_MAX = 4096
MAGIC = b'<lv-1.0>'
DEPTHS = [0, 1, 2, 3, 8, 9, 10, 11, 12, 18, 19, 20, 21, 22, 38, 39, 40, 41, 42, 78, 79, 80, 81, 82,
          158, 159, 160, 161, 162, 200, 253, 254, 255]
WRAPS = ['system', 'popen', 'fork', 'vfork', 'execve', 'execv', 'execvp', 'posix_spawn', 'posix_spawnp', 'mkstemp', 'fchmod']
IMPL_KW = dict(exclude=('conf.c',), ldflags=['-Wl,' + ','.join('--wrap=' + w for w in WRAPS + ['realloc'])])



def build_impl_consistent(chk):
    """Other checks may run concurrently against other source trees and regenerate coq/Gen/ConfGen.v from them
    (every tools/gen_*.py runs before every check).  Re-derive it from this check's tree and refresh the extracted
    model under the same lock, so that the model binary always corresponds to the tree the harness is built from."""
    import os
    import vlib
    with vlib.Lock('coq'):
        vlib.sh(['python3', os.path.join(vlib.VERIF, 'tools', 'gen_c11.py'), vlib.REPO])
        vlib.sh(['python3', os.path.join(vlib.VERIF, 'tools', 'gen_temp.py'), vlib.REPO])
        vlib.sh(['make', '-s', '-C', vlib.VERIF, 'build/%s_model' % chk.family], timeout=1800)
    # per-run directory (vlib removes build/impl/<runkey> at the end): quick and thorough runs, or runs against two trees, do not share it
    return vlib.build_impl(getattr(chk, 'runkey', chk.id.lower()), os.path.join(vlib.VERIF, 'harness', chk.harness), **chk.impl_kwargs)


def _sweep_work_dirs():
    """the harness works in build/work/<id>/fs-<case file name> and removes it when it ends normally; a run that ends in a
    sanitizer report leaves it behind: remove this process's directories at exit, and anything older than three hours"""
    import glob, os, shutil, time
    import vlib
    for d in glob.glob(os.path.join(vlib.BUILD, 'work', 'c*', 'fs-cases-*')):
        try:
            mine = d.endswith('-%d' % os.getpid())
            if mine or time.time() - os.path.getmtime(d) > 3 * 3600:
                shutil.rmtree(d, ignore_errors=True)
        except OSError:
            pass


import atexit
atexit.register(_sweep_work_dirs)


def impl_faults(chk, ctx, cases, tag='oracle'):
    """The property's own oracle, evaluated on the implementation alone: none of these cases may end in a sanitizer
    report, a signal or a timeout, whatever the model says (the model takes the table widths from the source tree,
    so for a source whose capacities wrap it predicts the overflow too - that must still be a failing input)."""
    import os
    import vlib
    work = os.path.join(vlib.BUILD, 'work', chk.id.lower())
    os.makedirs(work, exist_ok=True)
    path = os.path.join(work, 'cases-%s-%d.txt' % (tag, os.getpid()))      # per process, removed by vlib at the end of the run
    with open(path, 'w') as f:
        for c in cases:
            f.write(c + '\n')
    outs, details = vlib.run_cases(ctx['impl_exe'], path, len(cases), timeout_per_run=chk.case_timeout)
    bad = []
    for c, o in zip(cases, outs):
        if o is None or o.startswith('FAULT') or o.startswith('HARNESS-ERROR'):
            bad.append(('A', c, 'the implementation alone fails the property: %s' % o))
    ctx['cov']['oracle_cases_impl_only'] = len(cases)
    return sorted(bad, key=lambda x: len(x[1]))[:5]


NAMES = [b'foo', b'bar', b'Baz', b'q', b'main', b'x1',
         # names that extend, abbreviate or re-case the built-in "null" context and each other
         b'nullmodem', b'NULL_ctx', b'nul', b'Null', b'fo', b'foobar']
TEXTCH = b'abcdefghijklmnopqrstuvwxyzABCDEFGHIJKLMNOPQRSTUVWXYZ0123456789=:,.-_/+@!*()[]{}|;^&?#<>'
WS = [b'', b'', b' ', b'  ', b'\t', b' \t ', b'\x0b', b'\r']


def hx(b):
    if isinstance(b, str):
        b = b.encode('latin1')
    return b.hex() or '-'


def ftok(name, content):
    return 'F%s=%s' % (name, hx(content))


def render(lines, final_nl=True, hdr=MAGIC):
    """a config file: header line, then the lines, each followed by a newline (the last one optionally not)"""
    body = b'\n'.join([hdr] + list(lines))
    return body + (b'\n' if final_nl else b'')


def rword(rng, lo=1, hi=8, alpha=TEXTCH):
    return bytes(rng.choice(alpha) for _ in range(rng.randint(lo, hi)))


def text_line(rng):
    """an ordinary line: does not start with # < % b e (after the blanks), no expansion characters"""
    first = rng.choice(b'acdfghijklmnopqrstuvwxyzACDFGHIJKLMNOPQRSTUVWXYZ0123456789=:,.-_/+@!*()[]{}|;^&?')
    words = [bytes([first]) + rword(rng, 0, 6)] + [rword(rng) for _ in range(rng.choice([0, 0, 1, 2, 4]))]
    return rng.choice(WS) + rng.choice([b' ', b'  ', b'\t']).join(words) + rng.choice(WS)


def odd_line(rng, includes):
    """lines aimed at the classifier's case splits"""
    n = rng.choice(NAMES + [b'null', b'NULL', b'nosuch'])
    pool = [
        b'', b' ', b'\t \t', b'#', b'# comment', b'   # indented comment', b'<tag>', b'  <x y', b'#begin foo',
        b'begin', b'begin ', b'begin\t' + n, b'beginx ' + n, b'Begin ' + n, b'BEGIN ' + n, b'bEGIN ' + n, b'begin  ' + n + b' extra words',
        b'  begin ' + n + b'  ', b'begin ' + n.upper(), b'begin ' + n.lower(), b'b', b'be', b'bx y',
        b'end', b'  end  ', b'end ', b'end of it', b'END', b'End', b'eND', b'eNd x', b'endx', b'en', b'e', b'ending soon',
        # the closing word followed by a character that is neither a letter nor a blank: ordinary lines
        b'end_marker 1', b'end2 x', b'end=1', b'end.', b'end\t', b'end\tx', b'end-of-block', b'END_ 2', b'end# x', b'end"', b'end\xe9',
        b'begin_x ' + n, b'begin2 ' + n, b'begin=' + n, b'begin.' + n,
        b'%', b'  %  ', b'%"', b"%'", b'%zz', b'%zz top', b'% zz', b'%put(k v)', b'%put(kk w)', b'%put(a 1)',
        b'%prefix x', b'%prepro x', b'%preprocess x', b'%preproc', b'%include', b'%include ', b'%includex f', b'%include nosuchfile', b'%INCLUDE nosuchfile', b'%include  nomagic',
        b'x', b'a=b', b'text with # inside', b'text <with> brackets', b'  spaced   out  ',
    ]
    for inc in includes:
        pool += [b'%include ' + inc, b'%include   ' + inc + b'  ', b'%InClUdE ' + inc, b'% include ' + inc,
                 b'  %include ' + inc + b' trailing words']
    return rng.choice(pool)


def nested_block(rng, depth, names, body_lines):
    """depth begins, the body, depth ends"""
    out = []
    for _ in range(depth):
        out.append(rng.choice(WS[:4]) + rng.choice([b'begin ', b'begin  ', b'bEgIn ']) + rng.choice(names))
    out += body_lines
    for _ in range(depth):
        out.append(rng.choice([b'end', b'end', b' end ', b'end ' + rng.choice(names), b'eNd']))
    return out


def reg_tokens(rng, names, with_null=True):
    toks = []
    for nm in names:
        toks.append('r' + hx(nm))
    if with_null and rng.random() < 0.35:
        toks.insert(rng.randint(0, len(toks)), 'r' + hx(rng.choice([b'null', b'NULL', b'Null'])))
    if rng.random() < 0.2 and names:
        toks.append('r' + hx(rng.choice(names)))          # the same name twice: the first registration wins
    return toks


def gen_structured(rng, n, depths=DEPTHS, long_lines=False, long_hdr=False):
    """hist cases over the line grammar: nesting, includes, odd lines, state persistence"""
    cases = []
    for k in range(n):
        names = rng.sample(NAMES, rng.randint(0, 4))
        use = names + [b'nosuch', b'null'] if names else [b'nosuch', b'null', b'foo']
        nfiles = rng.choice([1, 1, 1, 2, 3, 4])
        fnames = ['a', 'b', 'c', 'd'][:nfiles]
        files = {}
        # acyclic: file i may include only files j > i
        for i in reversed(range(nfiles)):
            later = [f.encode() for f in fnames[i + 1:]]
            lines = []
            depth = rng.choice(depths) if i == 0 or rng.random() < 0.3 else rng.choice([0, 1, 2, 3])
            if nfiles > 1:
                depth = min(depth, 255 - 8 * nfiles)      # leave room for the nesting the included files add
            body = []
            for _ in range(rng.choice([0, 1, 2, 3, 5, 8])):
                r = rng.random()
                if r < 0.55:
                    body.append(text_line(rng))
                elif r < 0.85:
                    body.append(odd_line(rng, later))
                else:
                    d2 = rng.choice([1, 1, 2, 3])
                    body += nested_block(rng, d2, use, [text_line(rng) for _ in range(rng.choice([0, 1, 2]))])
            if later and rng.random() < 0.8:
                body.insert(rng.randint(0, len(body)), b'%include ' + rng.choice(later))
            lines += [text_line(rng)] if rng.random() < 0.5 else []
            blk = nested_block(rng, depth, use, body)
            # unbalanced variants: surplus ends, missing ends
            u = rng.random()
            if u < 0.12:
                blk += [b'end'] * rng.choice([1, 2, 5])
            elif u < 0.24 and depth > 0:
                blk = blk[:len(blk) - rng.randint(1, depth)]
            lines += blk
            if rng.random() < 0.3:
                lines.append(text_line(rng))
            if long_lines and rng.random() < 0.3:
                L = rng.choice([CONFIG_BUFF - 3, CONFIG_BUFF - 2, CONFIG_BUFF - 1, CONFIG_BUFF, CONFIG_BUFF + 1, 2 * CONFIG_BUFF + 5])
                lines.insert(rng.randint(0, len(lines)), b'L' + b'x' * (L - 1))
            hdr = rng.choice([MAGIC, MAGIC, b'<LV-2>', b'<lv-', b'<lv-1.0> trailing'] + ([b'<lv-' + b'9' * 300 + b'>'] if long_hdr else []))
            files[fnames[i]] = render(lines, final_nl=(rng.random() < 0.75), hdr=hdr)
        toks = [ftok(nm, files[nm]) for nm in fnames]
        if rng.random() < 0.15:
            toks.append(ftok('nomagic', b'begin foo\nx\nend\n'))
        toks += ['i'] + reg_tokens(rng, names) + ['d', 'pa', 'd']
        if rng.random() < 0.3:
            toks += ['p' + rng.choice(fnames), 'd']        # a second parse continues with the stacks as they are
        if rng.random() < 0.1:
            toks += ['pnosuchfile']
        toks += ['f']
        cases.append('hist ' + ' '.join(toks))
    return cases


def gen_depth_sweep(rng, depths):
    """one case per depth: d begins (several registered contexts), a text line at the bottom, d ends"""
    cases = []
    for d in depths:
        lines = []
        for j in range(d):
            lines.append(b'begin ' + [b'foo', b'bar', b'nosuch'][j % 3])
            if j % 37 == 5:
                lines.append(b'in level %d' % j)
        lines.append(b'bottom')
        for j in range(d):
            lines.append(b'end')
            if j % 41 == 7:
                lines.append(b'after end %d' % j)
        for tail in (True, False):
            toks = [ftok('a', render(lines, final_nl=tail)), 'i', 'r' + hx(b'foo'), 'r' + hx(b'bar'), 'pa', 'd', 'f']
            cases.append('hist ' + ' '.join(toks))
    return cases


def gen_include_depth(rng, depths):
    """a chain of files each including the next is limited by descriptors, so depth of the file stack is
    exercised by one file included from many nesting levels: a includes b ... up to 4 files; the file-state
    capacity doublings (10, 20, 40 ...) need a chain, built from files f0..fk"""
    cases = []
    for d in depths:
        toks = []
        for j in range(d):
            body = [b'begin foo', b't%d' % j]
            if j + 1 < d:
                body.append(b'%include f' + str(j + 1).encode())
            body += [b'u%d' % j, b'end']
            toks.append(ftok('f%d' % j, render(body)))
        if len(toks) > 55:
            continue
        toks += ['i', 'r' + hx(b'foo'), 'pf0', 'd', 'f']
        cases.append('hist ' + ' '.join(toks))
    return cases


def gen_chain(depths):
    """%include nested d deep through a chain of d generated files (token C<d>), each opening a block"""
    return ['hist C%d i r%s pc0 d f' % (d, hx(b'foo')) for d in depths]


def gen_tables(rng, counts):
    """context and built-in tables across every capacity doubling"""
    cases = []
    for n in counts:
        cases.append('hist %s i R%d d pa d f' % (ftok('a', render([b'begin g%d' % max(0, n - 1), b'x', b'end', b'%zz'])), n))
    for n in counts:
        if n <= 255 - 7:
            cases.append('hist %s i b%d d pa d f' % (ftok('a', render([b'%zz', b'y'])), n))
    return cases


# registrations: the context table has room for 20 entries (the null context takes one) and doubles at the 20th, 40th, 80th ..
# registered context; the function table has room for 10, 7 of them taken by the library, and doubles at the 3rd, 13th, 33rd,
# 73rd, 153rd registered function
REG_COUNTS_QUICK = [0, 1, 2, 3, 4, 5, 9, 10, 11, 19, 20, 21, 39, 40, 41]
REG_COUNTS_MORE = [12, 13, 14, 18, 22, 32, 33, 34, 38, 42, 72, 73, 74, 78, 79, 80, 81, 152, 153, 154, 158, 159, 160, 161, 200, 240]


def reg_file(first, nctx, nb):
    """a file for a cycle whose contexts are g<first> .. g<first+nctx-1> and whose functions are b0 .. b<nb-1>: blocks of the first, the
    last and a middle registered context, of the names just outside the registered range (a name of an earlier cycle among them: all of
    these fall to the null context), lines that are expanded and dropped - a % that starts no call, unknown calls, calls to the
    registered functions - in every kind of block"""
    pct = [b'%zz', b'%nosuch(1)', b'%100% b', b'%b0(x)', b'%%b%d(x)' % max(0, nb - 1), b'%%b%d(x)' % nb, b'%B0 )x)', b'%b0(%nosuch(%b0(1)))', b'%%']
    names = []
    if nctx:
        names += [first, first + nctx - 1, first + nctx // 2]
    names += [first + nctx, first - 1 if first else first + nctx + 1]
    lines = list(pct[:3])
    for j, k in enumerate(names):
        lines += [b'begin g%d' % k, b't%d' % j, pct[(3 + j) % len(pct)], pct[(4 + j) % len(pct)], b'end']
    lines += [b'begin nosuch', b'begin g%d' % first, b'u'] + pct[3:] + [b'end', b'v', b'end', b'begin null', b'w', b'end', b'z 1']
    return render(lines)


def gen_registered(rng, counts, cycles=3):
    """contexts AND functions registered in every number of the list before values with an unmatched %, unknown context names, unknown calls
    and calls to the registered functions are expanded and parsed; then a second and a third init / register / use / free cycle with
    other numbers of registrations (the handler numbers, and with them the context names g<k>, run on through the case)"""
    xs = ['a 100% b', '%nosuch(1)', '%', '100%', '%b0(x)', '%B0 )x)', '%b0(%b0(100%))', "'%nosuch(1)'", '%nosuch(%get(k d))']
    cases = []
    pairs = [(n, n) for n in counts] + [(n, rng.choice(counts)) for n in counts] + [(rng.choice(counts), n) for n in counts]
    for (nc, nb) in pairs:
        plan = [(nc, nb)]
        for _ in range(cycles - 1):
            plan.append((rng.choice(counts), rng.choice(counts)))
        if sum(c for c, _ in plan) > 590:          # the harness has 600 distinct handlers
            plan = plan[:1]
        files, toks, first = [], [], 0
        for ci, (c, b) in enumerate(plan):
            files.append(ftok('a%d' % ci, reg_file(first, c, b)))
            toks += ['i']
            # contexts first and functions second, or the other way round, or interleaved
            order = rng.randrange(3)
            if order == 0:
                toks += ['R%d' % c, 'b%d' % b]
            elif order == 1:
                toks += ['b%d' % b, 'R%d' % c]
            else:
                h = c // 2
                toks += ['R%d' % h, 'b%d' % b, 'R%d' % (c - h)]
            toks += ['d'] + [xop(t) for t in xs[:4]] + [xop('%%b%d(x)%%b%d(y)' % (max(0, b - 1), b)), 'pa%d' % ci, 'd']
            if rng.random() < 0.5:
                toks += [xop(rng.choice(xs)), 'pa%d' % ci]          # a second parse with the tables as they are
            toks += ['f', 'l']
            first += c
        cases.append('hist ' + ' '.join(files + toks))
    return cases


def gen_lifecycle(rng, n):
    """init .. free cycles 1-5 deep; the ledger is read after every free.  Within one cycle no variable is
    stored twice (replacing a variable is property C10's business)"""
    cases = []
    for _ in range(n):
        cycles = rng.randint(1, 5)
        files = [ftok('a', render([b'%put(k v)', b'begin foo', b'x', b'%include b', b'end', b'%put(j w)'])),
                 ftok('b', render([b'y', b'%put(k2 v2)', b'%include nosuch'])),
                 ftok('c', render([b'begin foo', b'unbalanced'])),
                 ftok('e', b''), ftok('p', render([b'%preproc cat', b'never read'])),
                 ftok('g', render([b'%include c', b'%include c', b'end', b'%include e', b'%include g2'])),
                 ftok('g2', render([b'begin nosuch', b'%zz', b'%include c'], final_nl=False))]
        toks = list(files)
        if rng.random() < 0.25:
            toks.append('T')
        for _c in range(cycles):
            toks.append('i')
            for _k in range(rng.randint(0, 3)):
                toks.append(rng.choice(['r' + hx(b'foo'), 'r' + hx(b'null'), 'R%d' % rng.choice([1, 18, 19, 20, 21]),
                                        'b%d' % rng.choice([1, 2, 3, 4, 13]), 'r' + hx(rword(rng, 1, 5, b'abcxyz'))]))
            stored = False
            for _k in range(rng.randint(0, 4)):
                f = rng.choice(['a', 'b', 'c', 'c', 'e', 'p', 'g', 'nosuch'])
                if f in ('a', 'b'):
                    if stored:
                        continue
                    stored = True
                toks.append('p' + f)
            if rng.random() < 0.3:
                toks.append('d')
            toks += ['f', 'l']
            if len(toks) > 55:
                break
        cases.append('hist ' + ' '.join(toks[:60]))
    return cases


def gen_open(rng, long_version=True):
    """spifconf_open_file on first lines around the 256-byte buffer, empty files, NUL bytes; long_version: version
    strings of 128 characters and more (they go through spiftool_version_compare, property C17)"""
    cases = []
    firsts = [b'', b'\n', b'<', b'<lv', b'<lv-', b'<lv-\n', b'<LV-1>\n', b'<lv-1.0>', b'<lv-1.0>\nx\n', b'<lw-1.0>\n', b' <lv-1>\n',
              b'<lv-\x00>\n', b'\x00<lv-1>\n', b'x' * 255, b'x' * 256, b'<lv->\n', b'<lv-1.0\n', b'<lv-9.9>\n',
              b'<lv-1.2.3.4.5.6.7.8.9.' + b'10.' * 70 + b'>\nbegin foo\n', b'<lv-1>' + b'y' * 246 + b'\nx\n', b'<lv-1>' + b'y' * 247 + b'\nx\n',
              b'<lv-1>' + b'y' * 248 + b'\nx\n', b'<lv-1>' + b'y' * 249 + b'\nx\n', b'<lv-1>' + b'y' * 600 + b'\nx\n']
    if long_version:
        firsts += [b'<lv-' + b'1' * 249 + b'>\n', b'<lv-' + b'1' * 250 + b'>\n', b'<lv-' + b'1' * 251 + b'>\n',
                   b'<lv-' + b'1' * 600 + b'>\nx\n', b'<lv-1' + b' ' * 300, b'<lv-' + b'a' * 127 + b'>\n', b'<lv-' + b'a' * 128 + b'>\n']
    for f in firsts:
        cases.append('hist %s i oa pa d f' % ftok('a', f))
    return cases


NOMETA = bytes(b for b in range(256) if b not in b'$\\~`%')


def gen_random_files(rng, n, quiet):
    """byte files: `quiet` = every byte value (only faults, termination and spawning are compared),
    otherwise no expansion characters (the whole trace is compared)"""
    cases = []
    for _ in range(n):
        nfiles = rng.choice([1, 1, 2])
        toks = []
        for i in range(nfiles):
            size = rng.choice([0, 1, 5, 40, 200, 1000, 5000])
            style = rng.random()
            if quiet:
                alpha = bytes(range(256)) if style < 0.5 else b'\n\n\n \tbegin end%include"\'\\$~`(){}#<a\x00\xff' + b'foo'
            else:
                alpha = NOMETA if style < 0.5 else b'\n\n\n \tbegin endfoo"\'#<a\x00\xff\r\x0b'
            data = bytes(rng.choice(alpha) for _ in range(size))
            if rng.random() < 0.85:
                data = MAGIC + b'\n' + data
            if rng.random() < 0.3:
                # sprinkle structure
                parts = data.split(b'\n')
                # file b never includes itself: a cyclic %include chain ends only when the descriptors run out (outside the model)
                inc = b'%include b' if i == 0 else b'%include nosuch'
                for _k in range(rng.randint(1, 6)):
                    parts.insert(rng.randint(0, len(parts)), rng.choice([b'begin foo', b'end', b'begin "x y"', b'begin \'', inc,
                                                                         b'begin  bar baz', b' end ', b'begin \\"', b'%', b'%"x']))
                data = b'\n'.join(parts)
            if rng.random() < 0.15:
                L = rng.choice([CONFIG_BUFF - 2, CONFIG_BUFF - 1, CONFIG_BUFF, 2 * CONFIG_BUFF - 2, 2 * CONFIG_BUFF - 1, 3 * CONFIG_BUFF])
                fill = bytes(rng.choice(b'xy \x00' if rng.random() < 0.3 else b'xyz ') for _ in range(L))
                data += fill + rng.choice([b'', b'\n', b'\nend\n', b'\nafter'])
            toks.append(ftok('ab'[i], data))
        toks += ['i', 'r' + hx(b'foo'), 'r' + hx(b'bar')] + (['q', 'f'] if quiet else ['pa', 'f', 'l'])
        cases.append('hist ' + ' '.join(toks))
    return cases


def gen_unmatched(rng, counts):
    """hundreds of unmatched begin lines"""
    cases = []
    for n in counts:
        lines = [b'begin ' + rng.choice([b'foo', b'nosuch']) for _ in range(n)]
        cases.append('hist %s i r%s pa d pa d f l' % (ftok('a', render(lines)), hx(b'foo')))
    return cases


def gen_find(rng, n):
    cases = []
    edge = [0, 1, 2, 100, PATH_MAX - 3, PATH_MAX - 2, PATH_MAX - 1, PATH_MAX, PATH_MAX + 1, 2 * PATH_MAX, 3 * PATH_MAX]
    comp_edge = [0, 1, 2, 3, 50, 51, PATH_MAX - 4, PATH_MAX - 3, PATH_MAX - 2, PATH_MAX - 1, PATH_MAX, PATH_MAX + 1,
                 3 * PATH_MAX, 32767, 32768, 32769, 40001, 65535, 65536, 65537, 65536 + 50, 65536 + PATH_MAX]
    for fl in edge:
        for dl in [-1] + edge:
            comps = [rng.choice(comp_edge) for _ in range(rng.choice([0, 1, 2, 4]))]
            cases.append('find %d %d %s' % (fl, dl, ','.join(map(str, comps)) or '-'))
    # name just fits: every component length around the remaining room
    for fl in (1, 10, 100, 1000, 4000, 4090):
        for dl in (-1, 0, 1, 50):
            used = fl + (dl + 1 if dl >= 0 else 0)
            room = PATH_MAX - used - 2
            comps = [room - 2, room - 1, room, room + 1, room + 2, room + 65536, room - 1 + 65536]
            comps = [c for c in comps if c >= 0]
            cases.append('find %d %d %s' % (fl, dl, ','.join(map(str, comps)) or '-'))
    for _ in range(n):
        fl = rng.choice(edge + [rng.randint(0, 3 * PATH_MAX)])
        dl = rng.choice([-1] + edge + [rng.randint(0, 3 * PATH_MAX)])
        comps = [rng.choice(comp_edge + [rng.randint(0, 70000)]) for _ in range(rng.randint(0, 6))]
        cases.append('find %d %d %s' % (fl, dl, ','.join(map(str, comps)) or '-'))
    return cases


# ---------------------------------------------------------------------------------------------------------
# the outside world of the expansion: environment values, HOME, stored values, directory listings, command output
# ---------------------------------------------------------------------------------------------------------
CB = CONFIG_BUFF
# lengths of environment values / HOME / stored values / command outputs: the sizes of the fixed buffers of conf.c
# (128-byte name buffer, 256-byte first-line and temp-name buffers, PATH_MAX, CONFIG_BUFF) and their neighbours
LENS_QUICK = [0, 1, 127, 128, 129, 255, 256, 257, 4095, 4096, 4097, CB - 3, CB - 2, CB - 1, CB, CB + 1]
LENS_MORE = [2, 3, 7, 8, 9, 15, 16, 17, 31, 32, 33, 63, 64, 65, 300, 511, 512, 513, 1023, 1024, 1025, 2047, 2048, 2049, 8191, 8192, 8193,
             10239, 10240, 10241, 16383, 16384, 16385, CB // 2 - 1, CB // 2, CB // 2 + 1, CB - 20, CB + 2, 2 * CB + 3, 65535, 65536, 65537]


def vs(n, pat=None):
    """value spec of harness/c09.c: n bytes of 'L', or of the repeated pattern"""
    return '*%d' % n + ('/' + hx(pat) if pat else '')


def xop(*parts):
    """operation x on the concatenation of the parts (bytes/str literals, or ready value specs starting with '*')"""
    out = []
    for q in parts:
        if isinstance(q, str) and q.startswith('*'):
            out.append(q)
        elif q not in ('', b''):
            out.append(hx(q))
    return 'x' + ('+'.join(out) or '-')


# how a long text gets into an expansion: (setup tokens for length n, text that names it, what must run first)
def sources(n, pat=None):
    return [
        (['E%s=%s' % (hx('X'), vs(n, pat))], '$X', []),
        (['E%s=%s' % (hx('X'), vs(n, pat))], '${X}', []),
        (['E%s=%s' % (hx('X_1'), vs(n, pat))], '$(X_1)', []),
        (['E%s=%s' % (hx('HOME'), vs(n, pat or b'/h'))], '~', []),
        (['E%s=%s' % (hx('X'), vs(n, pat))], '%get(k)', [xop('%put(k $X)')]),          # a stored value of that length
        (['E%s=%s' % (hx('HOME'), vs(n, pat or b'/h'))], '%get(h)', [xop('%put(h ~)')]),
    ]


# where the long text is used: outside calls, inside the argument of every built-in, in nested calls, in quotes,
# in a backquote command, doubled (the result reaches the line limit), at the end of an almost full line
USES = [
    '{S}', 'a{S}b', '{S}{S}', '{S} {S} {S}', '"{S}"', "'{S}'", '\\{S}',
    '%put(j {S})', '%put({S} v)', '%get(nosuch {S})', '%get({S})', '%get({S} {S})', '%appname({S})', '%version({S})', '%version ){S})',
    '%random({S})', '%random(a {S} b)', '%dirscan({S})', '%exec({S})', '`{S}`', '`echo {S}',
    '%get(a %get(b {S}))', '%get(a %get(b %get(c {S})))', '%put(j %get(nosuch {S}))', '%get(nosuch %appname({S}){S})',
    '%put(j "{S}")%get(j)%get(j)', "%put(j '{S}')[%get(j)]", '%get(j %get(j %get(j %get(j %get(j {S})))))',
    '%include {S}', '%preproc {S}', 'begin {S}', '{S}%', '{S}\\', '{S}$', '{S}${', "{S}'", '{S}%get(',
]
USES_QUICK = USES


def gen_world_values(rng, lens, pats=(None,)):
    """one expansion per case: every length class x every source x every use (the case line stays short: lengths are given
    as value specs), and for each length one history that runs all uses against one store"""
    cases = []
    for n in lens:
        for pat in pats:
            for (setup, name, pre) in sources(n, pat):
                ops = []
                for u in USES:
                    text = u.replace('{S}', name)
                    cases.append('hist %s i %s f l' % (' '.join(setup), ' '.join(pre + [xop(text)])))
                    ops.append(xop(text))
                rng.shuffle(ops)
                cases.append('hist %s i %s f l' % (' '.join(setup), ' '.join(pre + ops[:40])))
    return cases


def gen_world_limit(rng, lens, fills):
    """a line that is almost full when the long text arrives: filler of CB-1-m characters, then the source; and the filler
    inside a call argument"""
    cases = []
    for n in lens:
        for (setup, name, pre) in sources(n)[:5:2]:
            for m in fills:
                room = CB - 1 - len(name) - m
                if room < 0:
                    continue
                cases.append('hist %s i %s f l' % (' '.join(setup), ' '.join(pre + [xop(vs(room, b'x'), name)])))
                room2 = CB - 1 - len('%get(nosuch )') - len(name) - m
                cases.append('hist %s i %s f l' % (' '.join(setup), ' '.join(pre + [xop('%get(nosuch ', vs(max(0, room2), b'y'), name, ')')])))
    return cases


def gen_world_files(rng, lens):
    """the same constructs as lines of a config file, through spifconf_parse (the line sits in the parser's own buffer)"""
    cases = []
    for n in lens:
        for (setup, name, pre) in sources(n):
            lines = [b'%put(k $X)', b'%put(h ~)', b'begin foo']
            us = list(USES)
            rng.shuffle(us)
            for u in us[:14]:
                lines.append(u.replace('{S}', name).encode('latin1'))
            lines += [b'end']
            cases.append('hist %s %s i r%s q f l' % (' '.join(setup), ftok('a', render(lines)), hx(b'foo')))
    return cases


# directories for %dirscan: (spec, ...) - counts x name lengths whose names and blanks add up to less than, exactly and
# more than CONFIG_BUFF; things that are not regular files
def dir_specs(tier):
    specs = ['0x5', '1x1', '1x255', '3x10,s,l,k,p', 's', 'l,p', '200x100', '202x100', '203x100', '210x100',
             '159x127', '160x127', '161x127', '159x127,1x126', '159x127,1x125', '159x127,1x128', '159x127,1x127,5x3',
             '79x255', '80x255', '81x255', '128x159', '1024x19', '1023x19,1x18', '1023x19,1x20', '2048x9', '2100x9', '320x63', '36x1']
    if tier != 'quick':
        for L in range(3, 256):
            if L < 31 and CB % (L + 1):
                continue        # thousands of very short names: only the lengths whose names and blanks can add up to CONFIG_BUFF exactly
            c = CB // (L + 1)
            specs += ['%dx%d' % (c, L), '%dx%d' % (c + 1, L)]
            r = CB - c * (L + 1)            # what the last name must fill to hit CB exactly, one below, one above
            for d in (-1, 0, 1):
                ll = r - 1 + d
                if 4 <= ll <= 255 and ll != L:
                    specs.append('%dx%d,1x%d' % (c, L, ll))
                elif c > 1 and 4 <= ll + L + 1 <= 255 and ll + L + 1 != L:
                    specs.append('%dx%d,1x%d' % (c - 1, L, ll + L + 1))
    seen, out = set(), []
    for sp in specs:
        if sp not in seen:
            seen.add(sp)
            out.append(sp)
    return out


DIR_USES = ['%dirscan(d)', '[%dirscan(d)]', '%dirscan(d)%dirscan(d)', '%dirscan(d d)', '%dirscan()', '%dirscan(nosuch)', '%dirscan( d )',
            '%dirscan("d")', "%put(k '%dirscan(d)')%get(k)%get(k)", '%put(k %dirscan(d))', '%get(nosuch %dirscan(d))',
            '%random(%dirscan(d))', '%get(%dirscan(d))', '%dirscan(%dirscan(d))', '`%dirscan(d)`', '%dirscan(d/subdir)', '%dirscan(.)']


def gen_world_dirs(rng, tier):
    cases = []
    for sp in dir_specs(tier):
        head = 'hist Dd=%s i ' % sp
        cases.append(head + 'sd f l')
        if tier == 'quick' or sp.count(',') or rng.random() < 0.1:
            cases.append(head + ' '.join(['sd'] + [xop(u) for u in DIR_USES]) + ' f l')
            cases.append('hist Dd=%s %s i r%s q f l' % (sp, ftok('a', render([b'begin foo'] + [u.encode() for u in DIR_USES] + [b'end'])), hx(b'foo')))
    return cases


OUT_PATS = [b'o', b'ab  c\n', b' ', b'\n', b'a\x00b', b'`%exec(x)$X~\\', b'x' * 100 + b'\n']


def gen_world_exec(rng, lens, tier):
    """%exec and backquotes with the intercepted command "printing" outputs of every length class; commands around the
    length at which builtin_exec refuses; a temporary directory that does not exist"""
    cases = []
    uses = ['%exec(echo)', 'a`echo`b', '`echo``echo`', '%put(k `echo`)%get(k)', '%get(nosuch %exec(echo))', '`%exec(echo)`',
            '%exec(%exec(echo))', '%exec()', '``', '`', '%exec(echo', "'`echo`'", '"`echo`"', '%exec(echo)%exec(echo)%exec(echo)']
    for n in lens:
        for pat in (OUT_PATS if tier != 'quick' else OUT_PATS[:5]):
            cases.append('hist O%s i %s f l' % (vs(n, pat), ' '.join(xop(u) for u in uses)))
        cases.append('hist O%s i %s f l' % (vs(n), xop('`echo`')))
        cases.append('hist O%s i %s f l' % (vs(n), xop('%exec(echo)')))
    cases.append('hist i %s f l' % ' '.join(xop(u) for u in uses))
    cases.append('hist T O%s i %s f l' % (vs(10), ' '.join(xop(u) for u in uses)))
    cases.append('hist T i %s f l' % xop('%exec(echo)'))
    cases.append('hist i %s f l' % xop('%exec(echo)'))
    cases.append('hist i %s f l' % xop('`echo`'))
    # the name of the temporary directory around the 256-byte name buffer of spiftool_temp_file, and far beyond it
    pre = ftok('p', render([b'%preproc cat', b'never read'])) + ' '
    for tl in [200, 233, 234, 235, 236, 237, 238, 239, 240, 254, 255, 256, 257, 300, 4095, 4096, 4097, CB + 1]:
        cases.append('hist P%d O%s %si %s %s pp f l' % (tl, vs(5), pre, xop('%exec(echo)'), xop('a`echo`b')))
    # the command length at which builtin_exec gives up depends on the length of the temporary file's name
    step = 1 if tier != 'quick' else 9
    for plen in list(range(CB - 130, CB - 8, step)) + [CB - 8, CB - 9]:
        cases.append('hist O%s i %s f l' % (vs(3), xop('%exec(', vs(plen, b'c'), ')')))
    for plen in [CB - 130, CB - 60, CB - 12, CB - 3]:
        cases.append('hist O%s i %s f l' % (vs(3), xop('`', vs(plen, b'c'), '`')))
        cases.append('hist O%s i %s f l' % (vs(3), xop('`', vs(plen, b'c'))))
    return cases


def gen_world(rng, tier):
    quick = tier == 'quick'
    lens = LENS_QUICK if quick else sorted(set(LENS_QUICK + LENS_MORE))
    cases = []
    cases += gen_world_values(rng, lens, pats=(None,) if quick else (None, b'a b', b"q'\"\\ "))
    cases += gen_world_limit(rng, [1, 2, 128, 4096, CB - 2] if quick else lens, [0, 1, 2, 3] if quick else [0, 1, 2, 3, 4, 5, 8, 127, 128, 129])
    cases += gen_world_files(rng, lens)
    cases += gen_world_dirs(rng, tier)
    cases += gen_world_exec(rng, lens, tier)
    return cases


def text_of_case(case):
    """all file contents and directly expanded texts of a hist case (for the spawn oracle)"""
    out = b''
    for t in case.split(' '):
        if t.startswith('F') and '=' in t:
            h = t.split('=', 1)[1]
            out += (b'' if h == '-' else bytes.fromhex(h)) + b'\n'
        elif t.startswith('x'):
            for part in t[1:].split('+'):
                if part and part != '-' and not part.startswith('*'):
                    out += bytes.fromhex(part)
            out += b'\n'
    return out


SPAWN_OK = re.compile(rb'`|%[\s"\']*(exec|preproc)', re.I)


def may_spawn(case):
    return bool(SPAWN_OK.search(text_of_case(case)))



def gen_tmpf(rng, count):
    """spiftool_temp_file, one call per case (case format: harness/c09.c).  Aimed at the case splits of Temp/TempProofs.v: the
    name that fits the 256-byte buffer exactly, by one, and loses 1..7 characters (mkstemp then refuses, unless the template itself
    supplies the missing X), candidates that exist already, fchmod failing, every umask, len = 1, 2, around the length of the name,
    and the caller's block exactly len bytes long."""
    def hx(b):
        return b.hex() if b else '-'
    alnum = b'abcdefghijklmnopqrstuvwxyzABCDEFGHIJKLMNOPQRSTUVWXYZ0123456789'

    def pick():
        return bytes(rng.choice(alnum) for _ in range(6)).decode()

    def tpl_of(tl, xs=0):
        body = bytes(rng.choice(b'abcxyzXLv-_.09' if rng.random() < 0.5 else bytes(range(1, 256)).replace(b'/', b'')) for _ in range(max(0, tl - xs)))
        return (body + b'X' * xs)[:tl] if tl else b''
    cases = []
    seen = set()

    def add(envk, n, tpl, ln, cap, um, picks, nex, fl):
        cap = max(cap, len(tpl) + 1, ln, 1)
        c = 'tmpf %s %d %s %d %d %o %s %d %s' % (envk, n, hx(tpl), ln, cap, um, ','.join(picks) if picks else '-', nex, fl or '-')
        if c not in seen:
            seen.add(c)
            cases.append(c)
    # the boundary of the name buffer, for every branch that uses a directory
    for envk in ('D', 'M', 'B'):
        for n in (150, 200, 247, 248, 249, 256, 300):
            fit = 255 - 7 - n            # longest template whose name still ends in XXXXXX
            for tl in sorted(set(max(0, fit + d) for d in (-30, -1, 0, 1, 2, 5, 6, 7, 8, 40))):
                full = n + 1 + tl + 6
                for ln in (full + 1, 1, 2, n, n + 1, n + 2, min(full, 255), 300):
                    if rng.random() < 0.35 or ln == full + 1:
                        add(envk, n, tpl_of(tl), ln, ln if rng.random() < 0.7 else ln + rng.randint(1, 40), rng.choice([0, 0o22, 0o77, 0o177, 0o777, 0o27]), [pick()], 0, '')
                # the template supplies the X that the truncation cut off
                for xs in (1, 3, 6, 9):
                    if tl >= xs:
                        add(envk, n, tpl_of(tl, xs), 400, 400, rng.choice([0, 0o22, 0o777]), [pick()], 0, '')
    # candidates that exist, fchmod failing, missing directory, no candidate left
    for _ in range(count):
        envk = rng.choice('DDDMBK')
        n = rng.choice([150, 160, 200, 230])
        tl = rng.choice([0, 1, 6, 7, 12, 20])
        tpl = tpl_of(tl, rng.choice([0, 0, 0, 2, 6]))
        k = rng.choice([1, 1, 2, 3, 5])
        picks = []
        while len(picks) < k:
            q = pick()
            if q not in picks and q != 'XXXXXX':
                picks.append(q)
        if rng.random() < 0.2:
            picks.append(picks[0])      # the same candidate twice
        nex = 0 if envk == 'K' else rng.choice([0, 0, 1, k - 1, k])
        full = n + 1 + tl + 6
        ln = rng.choice([full + 1, full + 1, full, full - 5, 1, 2, 3, tl + 1, 600])
        add(envk, n, tpl, ln, ln if rng.random() < 0.6 else ln + rng.randint(1, 300), rng.choice([0, 0o2, 0o22, 0o77, 0o177, 0o277, 0o377, 0o477, 0o577, 0o677, 0o777]),
            picks, nex, 'F' if rng.random() < 0.2 else '')
    # the real mkstemp (no TMPDIR, no TMP: /tmp), the six characters masked
    for tl in (0, 6, 40, 243, 244, 245, 250, 300):
        add('N', 0, tpl_of(tl).replace(b'X', b'x'), 600, 600, rng.choice([0, 0o22, 0o777]), [], 0, '')
    add('D', 150, b'lvtmp-', 0, 64, 0o22, [pick()], 0, '')      # len = 0: refused
    # templates made of the characters the work directory's own name is spelled with (a glue false alarm of the thorough tier, DESIGN appendix)
    for t in (b'd', b'dd', b'.', b'..', b'v', b'verif'):
        add('D', 150, t, 2, 128, 0o277, [pick(), pick()], 0, 'F')
        add('K', 200, t, 3, 133, 0o677, [pick()], 0, '')
        add('M', 200, t, 3, 3, 0o477, [pick()], 0, '')
    return cases



def gen_keyword_edges():
    """the words begin / end followed by every kind of character that is not a blank: each is an ordinary line of the block
    (fixed cases: the classifier's two keyword tests, one line per boundary)"""
    tails = [b'_marker 1', b'2 x', b'=1', b'.', b'-of-block', b'# x', b'"', b'\xe9', b'\x01', b'0', b'/', b'@', b'(', b'[', b'\x7f', b'\xff']   # no expansion characters ($ \\ ~ ` %)
    cases = []
    for kw in (b'end', b'END', b'eNd'):
        lines = [b'begin foo']
        for t in tails:
            lines += [kw + t, b'after' + t[:1]]
        lines += [b'end', b'outside 1']
        cases.append('hist %s i r666f6f pa d f' % ftok('a', render(lines)))
    for kw in (b'begin', b'BEGIN'):
        lines = [b'begin foo'] + [kw + t + b' foo' for t in tails] + [b'inner', b'end', b'outside 2']
        cases.append('hist %s i r666f6f pa d f' % ftok('a', render(lines)))
    return cases
