"""C13: bounded and in-place string helpers (src/strings.c)."""
import itertools
import vlib

def hx(bs):
    return ''.join('%02x' % b for b in bs) or '-'

ALPHA = [0x61, 0x20, 0x0a, 0x80, 0x01, 0x41]   # a, space, \n, high bit, control, A
# the high-bit twin (c | 0x80) of every character the helpers treat specially: a table indexed with c & 0x7f, an
# isascii() shortcut or a signed-char comparison confuses exactly these with their ASCII partners
TWINS = [0xe1, 0xa0, 0x8a, 0xc1]               # twins of a, space, \n, A
ALPHA_T = ALPHA + TWINS
WS = [0x20, 0x09, 0x0a, 0x0b, 0x0c, 0x0d]
KMAX = 14


def pow2_lengths(kmax=KMAX, kmin=0):
    """every 2^k - 1, 2^k, 2^k + 1 for kmin <= k <= kmax"""
    s = set()
    for k in range(kmin, kmax + 1):
        s.update([2 ** k - 1, 2 ** k, 2 ** k + 1])
    return sorted(s)


def pat(n, salt=0):
    """n NUL-free bytes walking through the other values (position-dependent).  0xa5 is left out: it is the harness's
    paint byte, and lv_putcells shows a destination cell that was uninitialised and now holds 0xa5 as "??"."""
    return [(b if b != 0xa5 else 0x5a) for b in (1 + ((i * 131 + salt * 29 + n) % 255) for i in range(n))]


def cells(bs):
    return ''.join('??' if c is None else '%02x' % c for c in bs) or '-'

def strings_upto(n, alpha):
    for l in range(n + 1):
        for t in itertools.product(alpha, repeat=l):
            yield list(t)

class C13(vlib.PropertyCheck):
    id = 'C13'
    family = 'c13'
    harness = 'c13.c'
    nontrivial_rule = ('exhaustive enumeration of (size, source, destination) triples and of strings over '
                       '{a, space, newline, 0x80, 0x01, A} plus the high-bit twins {0xe1, 0xa0, 0x8a, 0xc1}; every byte value '
                       '0..255 through every in-place helper; sizes, counts and string lengths 2^k-1, 2^k, 2^k+1 for k <= 14 '
                       '(quick: every k <= 11 and one seed-chosen length with k in 12..14 for the helpers whose list model is '
                       'quadratic, every k for the others); a case is non-trivial when the model result is not a '
                       'refusal/fault and the string argument is non-empty or a boundary (size 1, empty string); '
                       'exact-fit stratum: destinations with no NUL inside `size` bytes whose block ends there, sources with no '
                       'terminator of exactly the bytes the helper may read (strncpyr/strncatr), safe_str on exactly len cells, size '
                       'arguments equal to / one less / one more than the block, every such case both as an exactly sized heap block '
                       'and (case word pg) at the end of a page followed by a PROT_NONE page; '
                       'distinct = distinct case lines')
    assumptions = ['inputs are valid C strings in exactly sized blocks, or (strncpyr/strncatr, safe_strncat destinations, safe_str) '
                   'unterminated blocks of exactly the bytes the contract lets the helper read; the harness allocates them so, '
                   'on the heap and at the end of a page in front of a PROT_NONE page',
                   'object sizes below 2^31', '"C" locale character classes']

    MANIFEST = dict(
        technique='Rocq theorems about an executable Gallina model of the helpers + extracted-model/implementation correspondence check',
        text=('Exactness and frame theorems (all sizes, sources, prior destination contents, index/count values of either sign, all '
              'byte strings) proved in Rocq about Gallina mirrors of spiftool_safe_strncpy/strncat/substr/downcase/upcase/safe_str; '
              'chomp (= trim of both ends, frame incl. junk length), condense_whitespace (= collapse + strip, never longer) and strrev (= rev) are proved exact as well (Strings/HelpersProofs2.v), and the original `pbuff >= s` guard of condense_whitespace is proved to fault on the empty string (repaired in /repo). The model is tied to the '
              'current tree by running its extracted OCaml form and the ASan build of src/strings.c on the same exhaustively enumerated '
              'small cases (strings over {a, space, newline, 0x80, 0x01, A} and the high-bit twins 0xe1, 0xa0, 0x8a, 0xc1), every byte '
              'value through every helper, sizes/counts/lengths 2^k-1, 2^k, 2^k+1 up to 16385 and random long strings over all byte '
              'values; a mismatch on an observable the property constrains is a failing input. Exact-fit part (C13_exactfit.v: '
              'C13_safe_strncat_full_exact_block, C13_safe_strncpy_unterminated_source, C13_safe_strncat_unterminated_source, '
              'C13_safe_str_exact_block): a destination with no NUL within `size` bytes is refused after exactly `size` bytes were '
              'looked at, a source without a terminator is read for at most `size` bytes, safe_str needs exactly len cells - in the '
              'model a buffer ends where its block ends and any access beyond is a Fault, so these hold with NOTHING behind the '
              'permitted range.  The check runs those shapes (all sizes 1..5 (7 thorough) x block = size-1, size, size+1 x every '
              'terminator position x source lengths 0..size+1; then every length 1..9 and 2^k-1, 2^k, 2^k+1 up to 16385) twice: in '
              'exactly sized malloc blocks under ASan and, with the case word pg, with destination AND source at the end of a '
              'page that is followed by a PROT_NONE page, where an over-read inside an uninstrumented libc routine is a SIGSEGV; '
              'a few sizes per helper are one MORE than the block and must fault on both sides.'),
        design_ref='DESIGN.md section 7, C13')

    def gen(self, tier, rng):
        cases = []
        maxlen = 4 if tier == 'quick' else 6
        # strncpy / strncat: all sizes 1..maxlen+3 (and two refused sizes), sources over {a,b}, prior
        # destination contents with and without a terminator, uninitialised tail cells
        srcs = list(strings_upto(maxlen, [0x61, 0x62]))
        if tier == 'quick':
            srcs = [s for s in srcs if len(s) in (0, 1, 2, maxlen) or rng.random() < 0.3]
        for s in srcs:
            for size in [-1, 0] + list(range(1, maxlen + 4)):
                alloc = max(size, 1) + rng.choice([0, 0, 1, 3])
                dest = [rng.choice([0x7a, 0x79, 0x00, None]) for _ in range(alloc)]
                dh = ''.join('??' if c is None else '%02x' % c for c in dest)
                cases.append('strncpy %d %s %s' % (size, hx(s), dh))
                # strncat: existing text of length dl followed by NUL, then filler
                for dl in sorted(set([0, 1, max(0, size - 2), max(0, size - 1), size if size > 0 else 0])):
                    alloc2 = max(size, dl + 1, 1) + rng.choice([0, 1])
                    d = [0x64] * dl + [0] + [rng.choice([0x7a, None]) for _ in range(alloc2 - dl - 1)]
                    d = d[:max(alloc2, dl + 1)]
                    # destination full (no NUL within size): dl >= size
                    dh2 = ''.join('??' if c is None else '%02x' % c for c in d)
                    cases.append('strncat %d %s %s' % (size, hx(s), dh2))
        # substr: all idx/cnt in -len-2..len+2 for strings up to length 4, plus extremes
        for l in range(0, 5):
            s = [0x61 + i for i in range(l)]
            rngv = list(range(-l - 2, l + 3)) + [2147483647, -2147483648, -2147483647]
            for idx in rngv:
                for cnt in rngv:
                    cases.append('substr %d %d %s' % (idx, cnt, hx(s)))
        # in-place helpers: all strings up to length L over the alphabet and the high-bit twins of its special characters
        L = 4 if tier == 'quick' else 6
        LT = 4 if tier == 'quick' else 5
        words = list(strings_upto(L, ALPHA)) + [w for w in strings_upto(LT, ALPHA_T) if any(c in TWINS for c in w)]
        for s in words:
            h = hx(s + [0]) if True else ''
            tail = rng.choice(['', '7a', '??', '007a'])
            full = (h if h != '-' else '') + tail
            for op in ('down', 'up', 'chomp', 'strrev'):
                cases.append('%s %s' % (op, full))
            cases.append('condense %s' % h)
            for ln in sorted(set([0, len(s) // 2, len(s), len(s) + 1])):
                cases.append('safestr %d %s' % (ln, full if len(full) // 2 >= ln else h))
        # every byte value through every in-place helper: alone, between letters, next to its high-bit twin and to blanks
        for c in range(1, 256):
            tw = (c ^ 0x80) or 0x41
            for s in ([c], [0x61, c, 0x5a], [c, tw, c], [0x20, c, 0x20, tw, 0x0a], [c, 0x0a], [c, c]):
                h = hx(s + [0])
                for op in ('down', 'up', 'chomp', 'strrev', 'condense'):
                    cases.append('%s %s' % (op, h))
                cases.append('safestr %d %s' % (len(s), h))
            cases.append('strncpy 4 %s 7a7a7a7a' % hx([c, tw, c, 0x61]))
            cases.append('strncat 5 %s %s' % (hx([tw, c]), hx([c, tw, 0, 0x7a, 0x7a])))
            cases.append('substr 1 2 %s' % hx([0x61, c, tw, 0x62]))
        # long random strings over all byte values, blanks and twins of blanks over-represented
        for _ in range(400 if tier == 'quick' else 8000):
            n = rng.choice([7, 8, 9, 31, 64, 200])
            m = rng.random()
            if m < 0.4:
                alpha = ALPHA + [0x62, 0x09, 0x7f, 0xff]
            elif m < 0.7:
                alpha = ALPHA_T + WS + [c | 0x80 for c in WS] + [0x40, 0x5b, 0x60, 0x7b, 0xc0, 0xdb, 0xe0, 0xfb, 0xda, 0xfa]
            else:
                alpha = WS + [rng.randrange(1, 256) for _ in range(12)]
            s = [rng.choice(alpha) for _ in range(n)]
            op = rng.choice(['down', 'up', 'chomp', 'strrev', 'condense', 'safestr'])
            if op == 'safestr':
                cases.append('safestr %d %s' % (rng.choice([n, n, n - 1, n // 2]), hx(s + [0])))
            else:
                cases.append('%s %s' % (op, hx(s + [0])))
        cases += self.boundary_cases(tier, rng)
        cases += self.exactfit_cases(tier, rng)
        return cases

    # lengths at which a case that MUST fault on both sides (size one more than the block, source one short) is
    # generated: each one costs a sanitizer report and a restart of the harness, and vlib stops after 150 of them
    FAULT_LENGTHS = (1, 2, 3, 8, 64, 4096)

    def exactfit_cases(self, tier, rng):
        """Blocks that end EXACTLY where the contract lets the helper stop looking: no terminator inside the permitted
        range and nothing behind it.  Every helper, destination and source, size argument equal to / one less than /
        one more than the block, as an exactly sized heap block (redzone behind it) and, with the case word `pg`, at the
        end of a page followed by a PROT_NONE page.  The model already treats any access beyond the block as a fault,
        so the expected results need nothing new: an implementation that measures a destination with strlen instead of
        strnlen, reads the source before testing the room, or looks at str[len] gives the right answer and faults."""
        cases = []
        quick = (tier == 'quick')
        small = list(range(1, 10))
        p11 = [x for x in pow2_lengths(11) if x >= 1]
        big = [x for x in pow2_lengths(KMAX, 12) if x not in p11]
        lin = sorted(set(small + p11 + big))                       # linear model cost: every length in both tiers
        quad = sorted(set(small + p11 + ([rng.choice(big)] if quick else big)))

        def both(c, pg=True):
            cases.append(c)
            if pg:
                cases.append('pg ' + c)

        def ctl(n, salt=0):
            """n NUL-free bytes, every fourth one a control character or DEL (what safe_str rewrites)"""
            b = pat(n, salt)
            for j in range(0, n, 4):
                b[j] = (0x01, 0x1f, 0x7f, 0x0a, 0x09)[(j // 4) % 5]
            return b

        # --- exhaustive small stratum: size 1..6, destination = k text bytes then either nothing (k = block size: no
        #     terminator anywhere) or a NUL and filler up to the block size; block = size - 1, size, size + 1;
        #     source lengths 0..size + 1 in both forms
        top = 5 if quick else 7
        for size in range(1, top + 1):
            for blk in (size - 1, size, size + 1):
                if blk < 1:
                    continue
                dests = [[0x64] * blk]                                                  # no NUL in the whole block
                dests += [[0x64] * k + [0] + [None] * (blk - k - 1) for k in range(blk)]  # NUL at k, tail never written
                dests += [[0x64] * k + [0] + [0x7a] * (blk - k - 1) for k in range(blk - 1)]
                for d in dests:
                    text = d.index(0) if 0 in d else blk
                    for sl in range(0, size + 2):
                        # skip what must fault on both sides (kept to FAULT_LENGTHS below): the write of the
                        # terminator or the scan for it leaves the block
                        end_cat = min(text + sl, size - 1) if text < size else None
                        cat_ok = (text >= size and blk >= size) or (text < size and end_cat < blk)
                        cpy_ok = min(sl, size - 1) < blk
                        if cat_ok:
                            both('strncat %d %s %s' % (size, hx(pat(sl, 7)), cells(d)))
                        if cpy_ok and d is dests[0]:
                            both('strncpy %d %s %s' % (size, hx(pat(sl, 8)), cells([None] * blk)))
                    # raw sources: a block of exactly the bytes the helper may read, one more, (one less: faults)
                    room = size - text if text < size else 0
                    if room >= 1 and size - 1 < blk:
                        for extra in (0, 1):
                            both('strncatr %d %s %s' % (size, hx(pat(room + extra, 9)), cells(d)))
                if blk >= size:
                    for extra in (0, 1):
                        both('strncpyr %d %s %s' % (size, hx(pat(size + extra, 10)), cells([None] * blk)))
        # --- safe_strncat on a destination with no terminator within `size` bytes (and none behind: block = size),
        #     every length; size one less (the last byte is text too) and, at a few lengths, one more (must fault)
        for B in lin:
            d = hx(pat(B, 11))
            for src in ('-', '61', hx(pat(5, 12))) if B <= 65 else ('61',):
                both('strncat %d %s %s' % (B, src, d), pg=(B <= 65 or B in p11 or not quick or src == '61'))
                if B >= 2:
                    both('strncat %d %s %s' % (B - 1, src, d), pg=(B <= 65))
            if B in self.FAULT_LENGTHS:
                both('strncat %d 61 %s' % (B + 1, d))
            # terminator in the very last cell of the range: empty source fits (also with size one more than the
            # block: the only cell written is the last one), one byte does not
            dz = hx(pat(B - 1, 13) + [0])
            both('strncat %d - %s' % (B, dz), pg=(B <= 65 or B in p11))
            both('strncat %d - %s' % (B + 1, dz), pg=(B <= 65 or B in p11))
            both('strncat %d 61 %s' % (B, dz), pg=(B <= 65))
            if B in self.FAULT_LENGTHS:
                both('strncat %d 61 %s' % (B + 1, dz))
        # --- safe_strncpy / safe_strncat with a source block that ends where the helper stops reading (quadratic model)
        for B in quad:
            dn = cells([None] * B)
            heavy = B > 2049
            both('strncpyr %d %s %s' % (B, hx(pat(B, 14)), dn), pg=not heavy)
            if not heavy:
                both('strncpyr %d %s %s' % (B, hx(pat(B + 1, 15)), dn), pg=(B <= 65))
                for dl in sorted(set([0, 1, B // 2, B - 1])):
                    if dl < B:
                        dd = cells(pat(dl, 16) + [0] + [None] * (B - dl - 1))
                        both('strncatr %d %s %s' % (B, hx(pat(B - dl, 17)), dd), pg=(B <= 65 or dl == B // 2))
                # size against block: one less (last cell untouched), equal, and one more with a source that still fits
                for size, sl in ((B - 1, B), (B, B), (B + 1, B - 1), (B + 1, max(B - 2, 0))):
                    if size >= 1:
                        both('strncpy %d %s %s' % (size, hx(pat(sl, 18)), dn), pg=(B <= 65))
            if B in self.FAULT_LENGTHS:
                if B >= 2:
                    both('strncpyr %d %s %s' % (B, hx(pat(B - 1, 19)), dn))        # source one byte short: read fault
                both('strncpy %d %s %s' % (B + 1, hx(pat(B, 20)), dn))             # terminator lands behind the block
        # --- safe_str: exactly `len` cells, no terminator, control characters and DEL among them
        for B in lin:
            if B > 65535:
                continue
            both('safestr %d %s' % (B, hx(ctl(B, 21))), pg=(B <= 65 or B in p11 or not quick))
            if B >= 2:
                both('safestr %d %s' % (B - 1, hx(ctl(B, 22))), pg=(B <= 65))
            if B in self.FAULT_LENGTHS:
                both('safestr %d %s' % (B + 1, hx(ctl(B, 23))))
        if not quick:
            both('safestr 65535 %s' % hx(ctl(65535, 24)))
        # --- the terminator-bounded helpers with the terminator in the last cell of the block, at the end of a page
        #     (the heap placement of the same shapes is in boundary_cases and in the exhaustive strata)
        for B in lin:
            base = pat(B, 25)
            for j, c in zip((0, B // 2, B - 1), (0x41, 0xe1, 0x7a)):
                if 0 <= j < B:
                    base[j] = c
            h = hx(base + [0])
            for op in ('down', 'up', 'chomp'):
                cases.append('pg %s %s' % (op, h))
            cases.append('pg chomp %s' % hx([0x20, 0x09] + base + [0x0a, 0x20, 0]))
            cases.append('pg substr 0 %d %s' % (B, hx(base)))
            cases.append('pg substr -1 5 %s' % hx(base))
            cases.append('pg substr 1 2147483647 %s' % hx(base))
        for B in quad:
            if B <= 2049 or not quick:
                cases.append('pg strrev %s' % hx(pat(B, 26) + [0]))
        # the empty string and one-character strings: terminator is the only / second cell before the guard page
        for op in ('down', 'up', 'chomp', 'strrev'):
            cases.append('pg %s 00' % op)
            for c in (0x20, 0x0a, 0x61, 0x41, 0xa0, 0xe1):
                cases.append('pg %s %s' % (op, hx([c, 0])))
                cases.append('pg %s %s' % (op, hx([c, c, 0])))
        for idx in (-2, -1, 0, 1, 2):
            for cnt in (-2, -1, 0, 1, 2):
                cases.append('pg substr %d %d -' % (idx, cnt))
                cases.append('pg substr %d %d 61' % (idx, cnt))
                cases.append('pg substr %d %d 6162' % (idx, cnt))
        # all strings up to length 3 over the alphabet through the in-place helpers at the end of a page
        for s in strings_upto(3, ALPHA_T):
            h = hx(s + [0])
            for op in ('down', 'up', 'chomp', 'strrev'):
                cases.append('pg %s %s' % (op, h))
            cases.append('pg safestr %d %s' % (len(s) + 1, h))
        return cases

    def boundary_cases(self, tier, rng):
        """sizes, counts and string lengths on every power of two and its neighbours.  The list model of strncpy,
        strncat, substr, strrev and condense_whitespace is quadratic (8-15 s at 16 KB, 0.1-0.2 s at 2 KB): quick runs them at
        every k <= 11 and at ONE seed-chosen length with k in 12..14 each, thorough at every length; the linear
        helpers run at every length in both tiers."""
        cases = []
        quick = (tier == 'quick')
        small = pow2_lengths(11)
        big = [x for x in pow2_lengths(KMAX, 12) if x not in small]
        lin = small + big

        def quad(op):
            if not quick:
                return lin
            return small + [rng.choice(big)]

        # safe_strncpy: size L with a source shorter by one / exactly fitting / longer; uninitialised destination
        for L in quad('strncpy'):
            if L < 1:
                continue
            dest = cells([None] * L)
            for sl in sorted(set([max(L - 2, 0), L - 1, L, L + 3])) if L <= 2049 else [rng.choice([L - 1, L])]:
                cases.append('strncpy %d %s %s' % (L, hx(pat(sl)), dest))
            if L <= 2049:
                # source length on the boundary, destination larger
                cases.append('strncpy %d %s %s' % (L + 5, hx(pat(L, 1)), cells([0x7a] * (L + 5))))
        # safe_strncat: size L, existing text + source filling it exactly / one short / overflowing
        for L in quad('strncat'):
            if L < 2:
                continue
            for dl in sorted(set([0, 1, L // 2, L - 2, L - 1])) if L <= 257 else ([L // 2, L - 1] if L <= 2049 else [L // 2]):
                for sl in sorted(set([max(L - dl - 2, 0), L - dl - 1, L - dl])) if L <= 2049 else [rng.choice([L - dl - 1, L - dl])]:
                    d = pat(dl, 2) + [0] + [None] * (L - dl - 1)
                    cases.append('strncat %d %s %s' % (L, hx(pat(sl, 3)), cells(d)))
        # substr: count / index / string length on the boundary
        for L in quad('substr'):
            if L < 1:
                continue
            s = hx(pat(L + 2))
            cases.append('substr 1 %d %s' % (L, s))
            if L <= 2049 or not quick:
                cases.append('substr 0 %d %s' % (L, hx(pat(L))))
                cases.append('substr -%d %d %s' % (L, L + 1, s))
                cases.append('substr %d 5 %s' % (L, s))
                cases.append('substr 0 -1 %s' % hx(pat(L + 1)))
        # in-place helpers on strings of length L (terminator in the last cell of an exactly sized block)
        for L in lin:
            base = pat(L, 4)
            # letters of both cases and their twins in front, at the end and around the middle
            for j, c in zip((0, L // 2, L - 1), (0x41, 0xe1, 0x7a)):
                if 0 <= j < L:
                    base[j] = c
            h = hx(base + [0])
            for op in ('down', 'up'):
                cases.append('%s %s' % (op, h))
            cases.append('chomp %s' % hx(base + [0x0a, 0]))
            cases.append('chomp %s' % hx([0x20] + base[1:-1] + [0x0a, 0x20, 0]) if L >= 2 else 'chomp 200a00')
            cases.append('safestr %d %s' % (min(L, 65535), h))
            if L >= 1:
                cases.append('safestr %d %s' % (min(L - 1, 65535), h))
        for L in quad('strrev'):
            cases.append('strrev %s' % hx(pat(L, 5) + [0]))
        for L in quad('condense'):
            # blanks in runs: the condensed result and the original both cross the boundary
            body = pat(L, 6)
            for j in range(3, L, 7):
                body[j] = 0x20
                if j + 1 < L:
                    body[j + 1] = 0x09
            cases.append('condense %s' % hx(body + [0]))
            if L <= 2049 and L >= 2:
                cases.append('condense %s' % hx([0x20] * (L - 1) + [0x61, 0]))
                cases.append('condense %s' % hx([0x61 if i % 2 else 0x20 for i in range(L)] + [0]))
        return cases

    def nontrivial(self, case, mout):
        return not mout.startswith('FAULT') and mout not in ('NULL',)


# The extracted model is a single-threaded list program; the few multi-kilobyte cases cost seconds each.  Run it on
# stripes of the case file in parallel (each case is independent, the results are those of one sequential run).
_seq_run_model = vlib.run_model

def _par_run_model(exe, cases_path, ncases, timeout=900):
    import os, subprocess
    jobs = min(max(1, (os.cpu_count() or 2) - 2), 12)
    if ncases < 2000 or jobs < 2 or not os.path.basename(exe).startswith('c13_'):
        return _seq_run_model(exe, cases_path, ncases, timeout=timeout)
    with open(cases_path) as f:
        lines = f.readlines()
    procs = []
    for j in range(jobs):
        part = lines[j::jobs]
        if not part:
            break
        pp = '%s.part%d' % (cases_path, j)
        with open(pp, 'w') as f:
            f.writelines(part)
        of = open(pp + '.out', 'wb')
        procs.append((j, pp, subprocess.Popen([exe, pp], stdout=of, stderr=subprocess.PIPE,
                                               env=dict(os.environ, OCAMLRUNPARAM='l=512M'))))
        of.close()
    results = [None] * ncases
    rc_all, err_all = 0, ''
    for off, pp, pr in procs:
        try:
            _, e = pr.communicate(timeout=timeout)
        except subprocess.TimeoutExpired:
            pr.kill()
            _, e = pr.communicate()
            rc_all, err_all = -9, err_all + '[timeout]'
        rc_all = rc_all or pr.returncode
        err_all += e.decode(errors='replace')[-500:]
        with open(pp + '.out', 'rb') as f:
            o = f.read()
        os.unlink(pp + '.out')
        for line in o.decode(errors='replace').split('\n'):
            if line.startswith('#'):
                sp = line.find(' ')
                k = off + int(line[1:sp]) * jobs
                if k < ncases:
                    results[k] = line[sp + 1:]
        os.unlink(pp)
    return results, (rc_all, err_all)

vlib.run_model = _par_run_model

CHECK = C13()
