"""C13: bounded and in-place string helpers (src/strings.c)."""
import itertools
import vlib

def hx(bs):
    return ''.join('%02x' % b for b in bs) or '-'

ALPHA = [0x61, 0x20, 0x0a, 0x80, 0x01, 0x41]   # a, space, \n, high bit, control, A

def strings_upto(n, alpha):
    for l in range(n + 1):
        for t in itertools.product(alpha, repeat=l):
            yield list(t)

class C13(vlib.PropertyCheck):
    id = 'C13'
    family = 'c13'
    harness = 'c13.c'
    nontrivial_rule = ('exhaustive enumeration of (size, source, destination) triples and of strings over '
                       '{a, space, newline, 0x80, 0x01, A}; a case is non-trivial when the model result is not a '
                       'refusal/fault and the string argument is non-empty or a boundary (size 1, empty string); '
                       'distinct = distinct case lines')
    assumptions = ['inputs are valid C strings in exactly sized heap blocks (the harness allocates them so)',
                   'object sizes below 2^31', '"C" locale character classes']

    MANIFEST = dict(
        technique='Rocq theorems about an executable Gallina model of the helpers + extracted-model/implementation correspondence check',
        text=('Exactness and frame theorems (all sizes, sources, prior destination contents, index/count values of either sign, all '
              'byte strings) proved in Rocq about Gallina mirrors of spiftool_safe_strncpy/strncat/substr/downcase/upcase/safe_str; '
              'chomp, condense_whitespace and strrev are modelled and tied by the correspondence check. The model is tied to the '
              'current tree by running its extracted OCaml form and the ASan build of src/strings.c on the same exhaustively enumerated '
              'small cases plus random long strings; a mismatch on an observable the property constrains is a failing input.'),
        design_ref='DESIGN.md section 7, C13')

    def gen(self, tier, rng):
        cases = []
        maxlen = 4 if tier == 'quick' else 6
        # strncpy / strncat: all sizes 1..maxlen+3 (and two refused sizes), sources over {a,b}, prior
        # destination contents with and without a terminator, uninitialised tail cells
        srcs = list(strings_upto(maxlen, [0x61, 0x62]))
        if tier == 'quick':
            srcs = [s for s in srcs if len(s) in (0, 1, 2, maxlen) or rng.random() < 0.3]
        for s in srcs:
            for size in [-1, 0] + list(range(1, maxlen + 4)):
                alloc = max(size, 1) + rng.choice([0, 0, 1, 3])
                dest = [rng.choice([0x7a, 0x79, 0x00, None]) for _ in range(alloc)]
                dh = ''.join('??' if c is None else '%02x' % c for c in dest)
                cases.append('strncpy %d %s %s' % (size, hx(s), dh))
                # strncat: existing text of length dl followed by NUL, then filler
                for dl in sorted(set([0, 1, max(0, size - 2), max(0, size - 1), size if size > 0 else 0])):
                    alloc2 = max(size, dl + 1, 1) + rng.choice([0, 1])
                    d = [0x64] * dl + [0] + [rng.choice([0x7a, None]) for _ in range(alloc2 - dl - 1)]
                    d = d[:max(alloc2, dl + 1)]
                    # destination full (no NUL within size): dl >= size
                    dh2 = ''.join('??' if c is None else '%02x' % c for c in d)
                    cases.append('strncat %d %s %s' % (size, hx(s), dh2))
        # substr: all idx/cnt in -len-2..len+2 for strings up to length 4, plus extremes
        for l in range(0, 5):
            s = [0x61 + i for i in range(l)]
            rngv = list(range(-l - 2, l + 3)) + [2147483647, -2147483648, -2147483647]
            for idx in rngv:
                for cnt in rngv:
                    cases.append('substr %d %d %s' % (idx, cnt, hx(s)))
        # in-place helpers: all strings up to length L over the alphabet
        L = 4 if tier == 'quick' else 6
        for s in strings_upto(L, ALPHA):
            h = hx(s + [0]) if True else ''
            tail = rng.choice(['', '7a', '??', '007a'])
            full = (h if h != '-' else '') + tail
            for op in ('down', 'up', 'chomp', 'strrev'):
                cases.append('%s %s' % (op, full))
            cases.append('condense %s' % h)
            for ln in sorted(set([0, len(s) // 2, len(s), len(s) + 1])):
                cases.append('safestr %d %s' % (ln, full if len(full) // 2 >= ln else h))
        # long random strings
        for _ in range(200 if tier == 'quick' else 5000):
            n = rng.choice([7, 8, 9, 31, 64, 200])
            s = [rng.choice(ALPHA + [0x62, 0x09, 0x7f, 0xff]) for _ in range(n)]
            op = rng.choice(['down', 'up', 'chomp', 'strrev', 'condense'])
            cases.append('%s %s' % (op, hx(s + [0])))
        return cases

    def nontrivial(self, case, mout):
        return not mout.startswith('FAULT') and mout not in ('NULL',)

CHECK = C13()
