"""C13: bounded and in-place string helpers (src/strings.c)."""
import itertools
import vlib

def hx(bs):
    return ''.join('%02x' % b for b in bs) or '-'

ALPHA = [0x61, 0x20, 0x0a, 0x80, 0x01, 0x41]   # a, space, \n, high bit, control, A
# the high-bit twin (c | 0x80) of every character the helpers treat specially: a table indexed with c & 0x7f, an
# isascii() shortcut or a signed-char comparison confuses exactly these with their ASCII partners
TWINS = [0xe1, 0xa0, 0x8a, 0xc1]               # twins of a, space, \n, A
ALPHA_T = ALPHA + TWINS
WS = [0x20, 0x09, 0x0a, 0x0b, 0x0c, 0x0d]
KMAX = 14


def pow2_lengths(kmax=KMAX, kmin=0):
    """every 2^k - 1, 2^k, 2^k + 1 for kmin <= k <= kmax"""
    s = set()
    for k in range(kmin, kmax + 1):
        s.update([2 ** k - 1, 2 ** k, 2 ** k + 1])
    return sorted(s)


def pat(n, salt=0):
    """n NUL-free bytes walking through the other values (position-dependent).  0xa5 is left out: it is the harness's
    paint byte, and lv_putcells shows a destination cell that was uninitialised and now holds 0xa5 as "??"."""
    return [(b if b != 0xa5 else 0x5a) for b in (1 + ((i * 131 + salt * 29 + n) % 255) for i in range(n))]


def cells(bs):
    return ''.join('??' if c is None else '%02x' % c for c in bs) or '-'

def strings_upto(n, alpha):
    for l in range(n + 1):
        for t in itertools.product(alpha, repeat=l):
            yield list(t)

class C13(vlib.PropertyCheck):
    id = 'C13'
    family = 'c13'
    harness = 'c13.c'
    nontrivial_rule = ('exhaustive enumeration of (size, source, destination) triples and of strings over '
                       '{a, space, newline, 0x80, 0x01, A} plus the high-bit twins {0xe1, 0xa0, 0x8a, 0xc1}; every byte value '
                       '0..255 through every in-place helper; sizes, counts and string lengths 2^k-1, 2^k, 2^k+1 for k <= 14 '
                       '(quick: every k <= 11 and one seed-chosen length with k in 12..14 for the helpers whose list model is '
                       'quadratic, every k for the others); a case is non-trivial when the model result is not a '
                       'refusal/fault and the string argument is non-empty or a boundary (size 1, empty string); '
                       'distinct = distinct case lines')
    assumptions = ['inputs are valid C strings in exactly sized heap blocks (the harness allocates them so)',
                   'object sizes below 2^31', '"C" locale character classes']

    MANIFEST = dict(
        technique='Rocq theorems about an executable Gallina model of the helpers + extracted-model/implementation correspondence check',
        text=('Exactness and frame theorems (all sizes, sources, prior destination contents, index/count values of either sign, all '
              'byte strings) proved in Rocq about Gallina mirrors of spiftool_safe_strncpy/strncat/substr/downcase/upcase/safe_str; '
              'chomp, condense_whitespace and strrev are modelled and tied by the correspondence check. The model is tied to the '
              'current tree by running its extracted OCaml form and the ASan build of src/strings.c on the same exhaustively enumerated '
              'small cases (strings over {a, space, newline, 0x80, 0x01, A} and the high-bit twins 0xe1, 0xa0, 0x8a, 0xc1), every byte '
              'value through every helper, sizes/counts/lengths 2^k-1, 2^k, 2^k+1 up to 16385 and random long strings over all byte '
              'values; a mismatch on an observable the property constrains is a failing input.'),
        design_ref='DESIGN.md section 7, C13')

    def gen(self, tier, rng):
        cases = []
        maxlen = 4 if tier == 'quick' else 6
        # strncpy / strncat: all sizes 1..maxlen+3 (and two refused sizes), sources over {a,b}, prior
        # destination contents with and without a terminator, uninitialised tail cells
        srcs = list(strings_upto(maxlen, [0x61, 0x62]))
        if tier == 'quick':
            srcs = [s for s in srcs if len(s) in (0, 1, 2, maxlen) or rng.random() < 0.3]
        for s in srcs:
            for size in [-1, 0] + list(range(1, maxlen + 4)):
                alloc = max(size, 1) + rng.choice([0, 0, 1, 3])
                dest = [rng.choice([0x7a, 0x79, 0x00, None]) for _ in range(alloc)]
                dh = ''.join('??' if c is None else '%02x' % c for c in dest)
                cases.append('strncpy %d %s %s' % (size, hx(s), dh))
                # strncat: existing text of length dl followed by NUL, then filler
                for dl in sorted(set([0, 1, max(0, size - 2), max(0, size - 1), size if size > 0 else 0])):
                    alloc2 = max(size, dl + 1, 1) + rng.choice([0, 1])
                    d = [0x64] * dl + [0] + [rng.choice([0x7a, None]) for _ in range(alloc2 - dl - 1)]
                    d = d[:max(alloc2, dl + 1)]
                    # destination full (no NUL within size): dl >= size
                    dh2 = ''.join('??' if c is None else '%02x' % c for c in d)
                    cases.append('strncat %d %s %s' % (size, hx(s), dh2))
        # substr: all idx/cnt in -len-2..len+2 for strings up to length 4, plus extremes
        for l in range(0, 5):
            s = [0x61 + i for i in range(l)]
            rngv = list(range(-l - 2, l + 3)) + [2147483647, -2147483648, -2147483647]
            for idx in rngv:
                for cnt in rngv:
                    cases.append('substr %d %d %s' % (idx, cnt, hx(s)))
        # in-place helpers: all strings up to length L over the alphabet and the high-bit twins of its special characters
        L = 4 if tier == 'quick' else 6
        LT = 4 if tier == 'quick' else 5
        words = list(strings_upto(L, ALPHA)) + [w for w in strings_upto(LT, ALPHA_T) if any(c in TWINS for c in w)]
        for s in words:
            h = hx(s + [0]) if True else ''
            tail = rng.choice(['', '7a', '??', '007a'])
            full = (h if h != '-' else '') + tail
            for op in ('down', 'up', 'chomp', 'strrev'):
                cases.append('%s %s' % (op, full))
            cases.append('condense %s' % h)
            for ln in sorted(set([0, len(s) // 2, len(s), len(s) + 1])):
                cases.append('safestr %d %s' % (ln, full if len(full) // 2 >= ln else h))
        # every byte value through every in-place helper: alone, between letters, next to its high-bit twin and to blanks
        for c in range(1, 256):
            tw = (c ^ 0x80) or 0x41
            for s in ([c], [0x61, c, 0x5a], [c, tw, c], [0x20, c, 0x20, tw, 0x0a], [c, 0x0a], [c, c]):
                h = hx(s + [0])
                for op in ('down', 'up', 'chomp', 'strrev', 'condense'):
                    cases.append('%s %s' % (op, h))
                cases.append('safestr %d %s' % (len(s), h))
            cases.append('strncpy 4 %s 7a7a7a7a' % hx([c, tw, c, 0x61]))
            cases.append('strncat 5 %s %s' % (hx([tw, c]), hx([c, tw, 0, 0x7a, 0x7a])))
            cases.append('substr 1 2 %s' % hx([0x61, c, tw, 0x62]))
        # long random strings over all byte values, blanks and twins of blanks over-represented
        for _ in range(400 if tier == 'quick' else 8000):
            n = rng.choice([7, 8, 9, 31, 64, 200])
            m = rng.random()
            if m < 0.4:
                alpha = ALPHA + [0x62, 0x09, 0x7f, 0xff]
            elif m < 0.7:
                alpha = ALPHA_T + WS + [c | 0x80 for c in WS] + [0x40, 0x5b, 0x60, 0x7b, 0xc0, 0xdb, 0xe0, 0xfb, 0xda, 0xfa]
            else:
                alpha = WS + [rng.randrange(1, 256) for _ in range(12)]
            s = [rng.choice(alpha) for _ in range(n)]
            op = rng.choice(['down', 'up', 'chomp', 'strrev', 'condense', 'safestr'])
            if op == 'safestr':
                cases.append('safestr %d %s' % (rng.choice([n, n, n - 1, n // 2]), hx(s + [0])))
            else:
                cases.append('%s %s' % (op, hx(s + [0])))
        cases += self.boundary_cases(tier, rng)
        return cases

    def boundary_cases(self, tier, rng):
        """sizes, counts and string lengths on every power of two and its neighbours.  The list model of strncpy,
        strncat, substr, strrev and condense_whitespace is quadratic (8-15 s at 16 KB, 0.1-0.2 s at 2 KB): quick runs them at
        every k <= 11 and at ONE seed-chosen length with k in 12..14 each, thorough at every length; the linear
        helpers run at every length in both tiers."""
        cases = []
        quick = (tier == 'quick')
        small = pow2_lengths(11)
        big = [x for x in pow2_lengths(KMAX, 12) if x not in small]
        lin = small + big

        def quad(op):
            if not quick:
                return lin
            return small + [rng.choice(big)]

        # safe_strncpy: size L with a source shorter by one / exactly fitting / longer; uninitialised destination
        for L in quad('strncpy'):
            if L < 1:
                continue
            dest = cells([None] * L)
            for sl in sorted(set([max(L - 2, 0), L - 1, L, L + 3])) if L <= 2049 else [rng.choice([L - 1, L])]:
                cases.append('strncpy %d %s %s' % (L, hx(pat(sl)), dest))
            if L <= 2049:
                # source length on the boundary, destination larger
                cases.append('strncpy %d %s %s' % (L + 5, hx(pat(L, 1)), cells([0x7a] * (L + 5))))
        # safe_strncat: size L, existing text + source filling it exactly / one short / overflowing
        for L in quad('strncat'):
            if L < 2:
                continue
            for dl in sorted(set([0, 1, L // 2, L - 2, L - 1])) if L <= 257 else ([L // 2, L - 1] if L <= 2049 else [L // 2]):
                for sl in sorted(set([max(L - dl - 2, 0), L - dl - 1, L - dl])) if L <= 2049 else [rng.choice([L - dl - 1, L - dl])]:
                    d = pat(dl, 2) + [0] + [None] * (L - dl - 1)
                    cases.append('strncat %d %s %s' % (L, hx(pat(sl, 3)), cells(d)))
        # substr: count / index / string length on the boundary
        for L in quad('substr'):
            if L < 1:
                continue
            s = hx(pat(L + 2))
            cases.append('substr 1 %d %s' % (L, s))
            if L <= 2049 or not quick:
                cases.append('substr 0 %d %s' % (L, hx(pat(L))))
                cases.append('substr -%d %d %s' % (L, L + 1, s))
                cases.append('substr %d 5 %s' % (L, s))
                cases.append('substr 0 -1 %s' % hx(pat(L + 1)))
        # in-place helpers on strings of length L (terminator in the last cell of an exactly sized block)
        for L in lin:
            base = pat(L, 4)
            # letters of both cases and their twins in front, at the end and around the middle
            for j, c in zip((0, L // 2, L - 1), (0x41, 0xe1, 0x7a)):
                if 0 <= j < L:
                    base[j] = c
            h = hx(base + [0])
            for op in ('down', 'up'):
                cases.append('%s %s' % (op, h))
            cases.append('chomp %s' % hx(base + [0x0a, 0]))
            cases.append('chomp %s' % hx([0x20] + base[1:-1] + [0x0a, 0x20, 0]) if L >= 2 else 'chomp 200a00')
            cases.append('safestr %d %s' % (min(L, 65535), h))
            if L >= 1:
                cases.append('safestr %d %s' % (min(L - 1, 65535), h))
        for L in quad('strrev'):
            cases.append('strrev %s' % hx(pat(L, 5) + [0]))
        for L in quad('condense'):
            # blanks in runs: the condensed result and the original both cross the boundary
            body = pat(L, 6)
            for j in range(3, L, 7):
                body[j] = 0x20
                if j + 1 < L:
                    body[j + 1] = 0x09
            cases.append('condense %s' % hx(body + [0]))
            if L <= 2049 and L >= 2:
                cases.append('condense %s' % hx([0x20] * (L - 1) + [0x61, 0]))
                cases.append('condense %s' % hx([0x61 if i % 2 else 0x20 for i in range(L)] + [0]))
        return cases

    def nontrivial(self, case, mout):
        return not mout.startswith('FAULT') and mout not in ('NULL',)


# The extracted model is a single-threaded list program; the few multi-kilobyte cases cost seconds each.  Run it on
# stripes of the case file in parallel (each case is independent, the results are those of one sequential run).
_seq_run_model = vlib.run_model

def _par_run_model(exe, cases_path, ncases, timeout=900):
    import os, subprocess
    jobs = min(max(1, (os.cpu_count() or 2) - 2), 12)
    if ncases < 2000 or jobs < 2 or not os.path.basename(exe).startswith('c13_'):
        return _seq_run_model(exe, cases_path, ncases, timeout=timeout)
    with open(cases_path) as f:
        lines = f.readlines()
    procs = []
    for j in range(jobs):
        part = lines[j::jobs]
        if not part:
            break
        pp = '%s.part%d' % (cases_path, j)
        with open(pp, 'w') as f:
            f.writelines(part)
        of = open(pp + '.out', 'wb')
        procs.append((j, pp, subprocess.Popen([exe, pp], stdout=of, stderr=subprocess.PIPE,
                                               env=dict(os.environ, OCAMLRUNPARAM='l=512M'))))
        of.close()
    results = [None] * ncases
    rc_all, err_all = 0, ''
    for off, pp, pr in procs:
        try:
            _, e = pr.communicate(timeout=timeout)
        except subprocess.TimeoutExpired:
            pr.kill()
            _, e = pr.communicate()
            rc_all, err_all = -9, err_all + '[timeout]'
        rc_all = rc_all or pr.returncode
        err_all += e.decode(errors='replace')[-500:]
        with open(pp + '.out', 'rb') as f:
            o = f.read()
        os.unlink(pp + '.out')
        for line in o.decode(errors='replace').split('\n'):
            if line.startswith('#'):
                sp = line.find(' ')
                k = off + int(line[1:sp]) * jobs
                if k < ncases:
                    results[k] = line[sp + 1:]
        os.unlink(pp)
    return results, (rc_all, err_all)

vlib.run_model = _par_run_model

CHECK = C13()
