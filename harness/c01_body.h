/* Body of the C01 harness, included twice by c01.c: once with the spif_str_* names and once
 * with the spif_ustr_* names (T = object type, F(x) = method name,
 * RUN = name of the generated function). */

static void PFX(obs)(const char *pre, T o)
{
    long len, size;
    if (!o) { printf("%sl=N", pre); return; }
    len = (long) F(get_len)(o);
    size = (long) F(get_size)(o);
    if (!o->s) {
        printf("%sl=%ld %st=- %sf=N %sz=%ld", pre, len, pre, pre, pre, size);
    } else {
        long alloc = (long) __sanitizer_get_allocated_size(o->s);
        int nul = (len >= 0 && len < alloc) ? (o->s[len] == 0) : 0;
        printf("%sl=%ld %st=", pre, len, pre);
        c01_text_obs((unsigned char *) o->s, (len < alloc) ? len : alloc);
        printf(" %sf=%d%d%d %sz=%ld", pre, nul, (size > len) ? 1 : 0, (alloc >= size) ? 1 : 0, pre, size);
    }
}

static void PFX(state)(T self, T other)
{
    PFX(obs)("", self);
    putchar(' ');
    PFX(obs)("o", other);
}

/* run a constructor on `self` (already allocated) or make a new object when self == NULL */
static T PFX(ctor)(T self, int n, char **a)
{
    int isnew = (self == NULL);
    if (isnew) self = (T) malloc(sizeof(*self));
    if (n == 1 && !strcmp(a[0], "init")) {
        F(init)(self);
    } else if (n == 2 && !strcmp(a[0], "ptr")) {
        char *t = c01_text(a[1], NULL);
        F(init_from_ptr)(self, (spif_charptr_t) t);
        free(t);
    } else if (n == 3 && !strcmp(a[0], "buff")) {
        size_t cn;
        unsigned char *b = c01_cells(a[1], &cn);
        F(init_from_buff)(self, (spif_charptr_t) b, (spif_stridx_t) atol(a[2]));
        free(b);
    } else if (n == 2 && (!strcmp(a[0], "fp") || !strcmp(a[0], "fpp"))) {
        size_t tl;
        char *t = c01_text(a[1], &tl);
        FILE *fp = (a[0][2] == 'p') ? c01_pipe_stream(t, tl) : c01_file_stream(t, tl);
        F(init_from_fp)(self, fp);
        fclose(fp);
        free(t);
    } else if (n == 2 && !strcmp(a[0], "fd")) {
        int fd = c01_sched_open(a[1]);
        errno = EINTR;                       /* whatever an earlier call left behind */
        F(init_from_fd)(self, fd);
        c01_sched_close(fd);
    } else if (n == 2 && !strcmp(a[0], "fdp")) {
        size_t tl;
        char *t = c01_text(a[1], &tl);
        int fd = c01_pipe_fd(t, tl);
        errno = EINTR;
        F(init_from_fd)(self, fd);
        close(fd);
        free(t);
    } else if (n == 2 && !strcmp(a[0], "num")) {
        F(init_from_num)(self, atol(a[1]));
    } else {
        printf("HARNESS-ERROR:ctor");
    }
    return self;
}

static void RUN(int ntok, char **tok)
{
    T self = NULL, other = NULL;
    char *a[8];
    int k, n;

    n = c01_comma(tok[1], a, 8);
    self = PFX(ctor)(NULL, n, a);
    printf("r=b1 ");
    PFX(state)(self, other);
    for (k = 2; k < ntok; k++) {
        const char *op;
        n = c01_comma(tok[k], a, 8);
        op = a[0];
        printf(" | r=");
        fflush(stdout);
        if (!strcmp(op, "re")) {
            PFX(ctor)(self, n - 1, a + 1);
            printf("b1");
        } else if (!strcmp(op, "done")) {
            printf("b%d", F(done)(self) ? 1 : 0);
        } else if (!strcmp(op, "onull")) {
            if (other) F(del)(other);
            other = NULL;
            printf("u");
        } else if (!strcmp(op, "on")) {
            if (other) F(del)(other);
            other = PFX(ctor)(NULL, n - 1, a + 1);
            printf("u");
        } else if (!strcmp(op, "odup")) {
            T d = F(dup)(self);
            if (other) F(del)(other);
            other = d;
            printf("u");
        } else if (!strcmp(op, "osub")) {
            T d = F(substr)(self, atol(a[1]), atol(a[2]));
            if (other) F(del)(other);
            other = d;
            printf("b%d", d ? 1 : 0);
        } else if (!strcmp(op, "swap")) {
            if (other) { T x = self; self = other; other = x; }
            printf("u");
        } else if (!strcmp(op, "app")) {
            printf("b%d", F(append)(self, other) ? 1 : 0);
        } else if (!strcmp(op, "appp") || !strcmp(op, "prep")) {
            char *t = c01_text(a[1], NULL);
            printf("b%d", ((op[0] == 'a') ? F(append_from_ptr)(self, (spif_charptr_t) t)
                                          : F(prepend_from_ptr)(self, (spif_charptr_t) t)) ? 1 : 0);
            free(t);
        } else if (!strcmp(op, "appc")) {
            printf("b%d", F(append_char)(self, (spif_char_t) atoi(a[1])) ? 1 : 0);
        } else if (!strcmp(op, "pre")) {
            printf("b%d", F(prepend)(self, other) ? 1 : 0);
        } else if (!strcmp(op, "prec")) {
            printf("b%d", F(prepend_char)(self, (spif_char_t) atoi(a[1])) ? 1 : 0);
        } else if (!strcmp(op, "spl")) {
            printf("b%d", F(splice)(self, atol(a[1]), atol(a[2]), other) ? 1 : 0);
        } else if (!strcmp(op, "splp")) {
            char *t = c01_text(a[3], NULL);
            printf("b%d", F(splice_from_ptr)(self, atol(a[1]), atol(a[2]), (spif_charptr_t) t) ? 1 : 0);
            free(t);
        } else if (!strcmp(op, "trim")) {
            printf("b%d", F(trim)(self) ? 1 : 0);
        } else if (!strcmp(op, "rev")) {
            printf("O%d", F(reverse)(self) ? 1 : 0);
        } else if (!strcmp(op, "up")) {
            printf("b%d", F(upcase)(self) ? 1 : 0);
        } else if (!strcmp(op, "down")) {
            printf("b%d", F(downcase)(self) ? 1 : 0);
        } else if (!strcmp(op, "clr")) {
            printf("b%d", F(clear)(self, (spif_char_t) atoi(a[1])) ? 1 : 0);
        } else if (!strcmp(op, "spf")) {
            spif_bool_t r;
            if (a[1][0] == 'N') r = F(sprintf)(self, (spif_charptr_t) NULL);
            else if (a[1][0] == 'E') r = F(sprintf)(self, (spif_charptr_t) "");
            else if (a[1][0] == 's') {
                char *t = c01_text(a[2], NULL);
                r = F(sprintf)(self, (spif_charptr_t) "%s", t);
                free(t);
            } else {
                char *t = c01_text(a[3], NULL);
                r = F(sprintf)(self, (spif_charptr_t) "[%d]%s", atoi(a[2]), t);
                free(t);
            }
            printf("b%d", r ? 1 : 0);
        } else if (!strcmp(op, "subp")) {
            spif_charptr_t p = F(substr_to_ptr)(self, atol(a[1]), atol(a[2]));
            if (!p) printf("N");
            else {
                printf("p%ld:", (long) __sanitizer_get_allocated_size(p));
                lv_puthex(p, strlen((char *) p));
                free(p);
            }
        } else if (!strcmp(op, "cmp") || !strcmp(op, "cmpp")) {
            int withptr = (op[3] == 'p');
            const char *kd = a[1];
            long cnt = (kd[0] == 'n') ? atol(a[2]) : 0;
            char *t = withptr ? c01_text(a[(kd[0] == 'n') ? 3 : 2], NULL) : NULL;
            spif_cmp_t r;
            if (!strcmp(kd, "p")) r = withptr ? F(cmp_with_ptr)(self, (spif_charptr_t) t) : F(cmp)(self, other);
            else if (!strcmp(kd, "c")) r = withptr ? F(casecmp_with_ptr)(self, (spif_charptr_t) t) : F(casecmp)(self, other);
            else if (!strcmp(kd, "n")) r = withptr ? F(ncmp_with_ptr)(self, (spif_charptr_t) t, cnt) : F(ncmp)(self, other, cnt);
            else r = withptr ? F(ncasecmp_with_ptr)(self, (spif_charptr_t) t, cnt) : F(ncasecmp)(self, other, cnt);
            printf("i%d", (int) r);
            free(t);
        } else if (!strcmp(op, "find")) {
            printf("i%lld", (long long) F(find)(self, other));
        } else if (!strcmp(op, "findp")) {
            char *t = c01_text(a[1], NULL);
            printf("i%lld", (long long) F(find_from_ptr)(self, (spif_charptr_t) t));
            free(t);
        } else if (!strcmp(op, "idx")) {
            printf("i%lld", (long long) F(index)(self, (spif_char_t) atoi(a[1])));
        } else if (!strcmp(op, "ridx")) {
            printf("i%lld", (long long) F(rindex)(self, (spif_char_t) atoi(a[1])));
        } else if (!strcmp(op, "tonum")) {
            printf("i%lu", (unsigned long) F(to_num)(self, atoi(a[1])));
        } else if (!strcmp(op, "flt")) {
            char *copy = strdup(self->s ? (char *) self->s : "");
            double r = F(to_float)(self), e = strtod(copy, NULL);
            printf("F%d", memcmp(&r, &e, sizeof(r)) ? 0 : 1);
            free(copy);
        } else if (!strcmp(op, "glen")) {
            printf("i%lld", (long long) F(get_len)(self));
        } else if (!strcmp(op, "gsize")) {
            printf("S%lld", (long long) F(get_size)(self));
        } else if (!strcmp(op, "same")) {
            F(set_len)(self, F(get_len)(self));
            F(set_size)(self, F(get_size)(self));
            printf("u");
        } else {
            printf("HARNESS-ERROR:op");
        }
        putchar(' ');
        PFX(state)(self, other);
    }
    if (other) F(del)(other);
    F(del)(self);
}
