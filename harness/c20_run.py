#!/usr/bin/env python3
"""C20 implementation-side runner (the "harness executable" lib/vlib.py calls): reads the case file,
dispatches every cell to the probe binary of its compile-time level (build/impl/c20/c<level>/probe, built by
checks/c20.py; a missing level is built on demand) and prints one line "#k <result>" per case.
usage: c20_run.py <cases> [start]"""
import os, sys
here = os.path.dirname(os.path.dirname(os.path.abspath(__file__)))
sys.path.insert(0, os.path.join(here, 'lib'))
sys.path.insert(0, os.path.join(here, 'checks'))
import c20

def main():
    path = sys.argv[1]
    start = int(sys.argv[2]) if len(sys.argv) > 2 else 0
    with open(path) as f:
        cases = [l.rstrip('\n') for l in f]
    res = c20.run_cells(cases, start)
    out = []
    for k, r in enumerate(res):
        if k >= start:
            out.append('#%d %s' % (k, r if r is not None else 'HARNESS-ERROR:no-result'))
    sys.stdout.write('\n'.join(out) + ('\n' if out else ''))

if __name__ == '__main__':
    main()
