/* C14 harness: spif_url_new_from_ptr on an exactly sized string, components read through the
 * accessors, then spif_url_unparse.  getprotobyname/getservbyname are defined HERE and answer
 * from the case line, so all three lookup outcomes occur on any host. */
#include "common.h"
#include <netdb.h>
#include <arpa/inet.h>

static int lk_kind = 'N', lk_port = 0, lk_ok = 0, proto_calls = 0, lk_badarg = 0;
static char lk_word[4096];        /* the protocol word the parser must ask about */
static struct protoent lv_pe;
static struct servent lv_se;

/* The lookups answer from the case line AND check what they are asked: the first getprotobyname
 * and every getservbyname must name the URL's protocol word, getservbyname's transport must be
 * "tcp" then "udp", and the follow-up getprotobyname must name the s_proto of the entry returned
 * ('S' = a tcp service, 'U' = a service that exists under udp only). */
static const char *lv_sproto = "tcp";
struct protoent *getprotobyname(const char *name)
{
    proto_calls++;
    if (proto_calls == 1) {
        if (!name || strcmp(name, lk_word)) lk_badarg |= 1;
        return (lk_kind == 'P') ? &lv_pe : NULL;
    }
    if (!name || strcmp(name, lv_sproto)) lk_badarg |= 2;
    return lk_ok ? &lv_pe : NULL;
}
struct servent *getservbyname(const char *name, const char *proto)
{
    if (!name || strcmp(name, lk_word)) lk_badarg |= 4;
    if (!proto || (strcmp(proto, "tcp") && strcmp(proto, "udp"))) { lk_badarg |= 8; return NULL; }
    if (lk_kind == 'S' && !strcmp(proto, "tcp")) lv_sproto = "tcp";
    else if (lk_kind == 'U' && !strcmp(proto, "udp")) lv_sproto = "udp";
    else return NULL;
    lv_se.s_port = htons((unsigned short) lk_port);
    lv_se.s_proto = (char *) lv_sproto;
    return &lv_se;
}

static int lv_first;
static void put_comp(spif_str_t s)
{
    if (!lv_first) putchar(' ');
    lv_first = 0;
    if (SPIF_STR_ISNULL(s)) { putchar('_'); return; }
    lv_puthex(SPIF_STR_STR(s), spif_str_get_len(s));
}

static void run_case(int n, char **t)
{
    if (n == 3 && !strcmp(t[0], "url")) {
        char *text = lv_unhex_str(t[2]);
        spif_url_t u;
        lk_kind = t[1][0]; lk_port = 0; lk_ok = 0; proto_calls = 0; lk_badarg = 0;
        if (lk_kind == 'S' || lk_kind == 'U') sscanf(t[1] + 2, "%d:%d", &lk_port, &lk_ok);
        {   /* the word the parser will look up: the text before the first ':' if it is all alphanumeric */
            const char *c = strchr(text, ':');
            size_t n = c ? (size_t) (c - text) : 0;
            if (n >= sizeof(lk_word)) n = sizeof(lk_word) - 1;
            memcpy(lk_word, text, n); lk_word[n] = 0;
        }
        u = spif_url_new_from_ptr((spif_charptr_t) text);
        free(text);                     /* the URL must own copies */
        if (SPIF_URL_ISNULL(u)) { printf("NULLURL"); return; }
        lv_first = 1;
        put_comp(spif_url_get_proto(u)); put_comp(spif_url_get_user(u)); put_comp(spif_url_get_passwd(u));
        put_comp(spif_url_get_host(u)); put_comp(spif_url_get_port(u)); put_comp(spif_url_get_path(u));
        put_comp(spif_url_get_query(u));
        if (lk_badarg) printf(" BADLOOKUPARG:%d", lk_badarg);
        spif_url_unparse(u);
        printf(" U ");
        lv_puthex(SPIF_STR_STR(SPIF_STR(u)), spif_str_get_len(SPIF_STR(u)));
        spif_url_del(u);
    } else {
        printf("HARNESS-ERROR:bad-case");
    }
}
