/* C20 probe: one use of one debugging macro per child process, at a given runtime level, silent flag,
 * program name (set / NULL) and condition value; compiled once per compile-time level DEBUG=c against
 * the headers and the library objects of the current tree (see checks/c20.py).
 *
 * The uses themselves (one function per macro, built from the macro list that tools/gen_c20.py found in
 * include/libast.h) are in the generated file c20_uses.h.
 *
 * usage: probe <cells>      cells: one line "<index> <macro> <r> <silent> <name> <cond>" per cell
 *                           cond: bit 0 = value of the condition argument; bit 1 = the second variant of the
 *                           use, whose condition / argument list is full of text that looks like printf
 *                           conversions ("%s", "%d", "%%", "% s", "% 2)")
 * output per cell:          "#<index> out=<-|d|w|e|f...> cond=N args=N val=N mark=N ctl=<fall|ret|retv|exit> txt=<ok|BAD|->"
 *                           or "#<index> FAULT:signal:N ..." when the child is killed
 * out: classes of the lines the child wrote to stderr: w/e/f = the "<prog>:  Warning:  " / "Error:" /
 * "FATAL:" lines of msgs.c, d = anything else (debugging text).
 * txt: the use has a text that must appear literally in whatever it logs (the stringified condition of
 * ASSERT/REQUIRE as the preprocessor spells it, the formatted message of D_X/DPRINTFn/the primitives):
 * ok = something was logged and the text is in it, BAD = something was logged without it, - = nothing
 * logged or the use has no such text. */
#include <config.h>
#include <libast.h>
#include <stdio.h>
#include <stdlib.h>
#include <string.h>
#include <unistd.h>
#include <fcntl.h>
#include <signal.h>
#include <sys/types.h>
#include <sys/wait.h>
#include <sys/resource.h>

extern spif_charptr_t libast_program_name;      /* declared in libast_internal.h only */

static int n_cond, n_args, n_val, n_mark;        /* evaluation counters of the macro arguments */
static int g_cond;                               /* value the condition argument evaluates to */
static int fell;                                 /* control reached the statement after the macro */
static int done;                                 /* the use returned to main */
static const char *ctl = "exit";

#define P_COND (n_cond++, g_cond)
#define P_VAL  (n_val++, 5)
#define P_ARGS ("probe-msg %d\n", (n_args++, 7))
#define P_ARGS_TEXT "probe-msg 7"
#define P_FALLTHROUGH 77
/* second variant.  The condition is written out at the use (a macro name would be stringified as the
 * name); P_STR spells it exactly as #x does inside the library's macros. */
#define P_STR(x) #x
/* (the condition itself, COND2, is spelled out in the generated c20_uses.h) */
#define P_ARGS2 ("probe-arg [%s] %d%% [%-4s] %%s\n", "100%s %d %% % s %lu", (n_args++, 7), "%x")
#define P_ARGS2_TEXT "probe-arg [100%s %d %% % s %lu] 7% [%x  ] %s"

/* vf/nf, expect: first variant; vf2/nf2, expect2: second variant (NULL function = same as the first) */
struct use { const char *name; int returns_int; void (*vf)(void); int (*nf)(void); const char *expect;
             void (*vf2)(void); int (*nf2)(void); const char *expect2; };

#include "c20_uses.h"

static void report(void)
{
    printf("cond=%d args=%d val=%d mark=%d ctl=%s\n", n_cond, n_args, n_val, n_mark, done ? ctl : "exit");
    fflush(stdout);
}

static void child(const struct use *u, unsigned long r, int silent, int name, int cond, int outfd, const char *errpath)
{
    int second = (cond >> 1) & 1;
    void (*vf)(void) = (second && u->vf2) ? u->vf2 : u->vf;
    int (*nf)(void) = (second && u->nf2) ? u->nf2 : u->nf;
    struct rlimit rl;
    int efd;
    static char badbuf[32];

    rl.rlim_cur = rl.rlim_max = 1 << 20;          /* unbounded recursion ends quickly */
    setrlimit(RLIMIT_STACK, &rl);
    alarm(20);
    efd = open(errpath, O_WRONLY | O_CREAT | O_TRUNC, 0600);
    if (efd < 0 || dup2(efd, 2) < 0 || dup2(outfd, 1) < 0) _exit(97);
    close(efd);
    close(outfd);
    atexit(report);
    g_cond = cond & 1;
    DEBUG_LEVEL = (unsigned int) r;
    {   /* "silenced" is any true value of the flag, not only TRUE: a masked option bit, a count, -1 */
        static const int truthy[4] = { 1, 4, 2, -1 };
        libast_set_silent(silent ? (spif_bool_t) truthy[(r + (unsigned long) name + (unsigned long) cond) & 3] : FALSE);
    }
    if (!name) libast_program_name = NULL;
    if (u->returns_int) {
        int v = nf();
        if (fell) ctl = "fall";
        else if (v == 5) ctl = "retv";
        else { snprintf(badbuf, sizeof(badbuf), "retv:BAD:%d", v); ctl = badbuf; }
        if (fell && v != P_FALLTHROUGH) ctl = "fall:BAD";
    } else {
        vf();
        ctl = fell ? "fall" : "ret";
    }
    done = 1;
    exit(0);
}

static void classify(const char *errpath, char *out, const char *expect, const char **txt)
{
    static char buf[1 << 16];
    int fd = open(errpath, O_RDONLY), d = 0, w = 0, e = 0, f = 0;
    ssize_t n = 0, k;
    char *p, *nl;
    if (fd >= 0) {
        while (n < (ssize_t) sizeof(buf) - 1 && (k = read(fd, buf + n, sizeof(buf) - 1 - n)) > 0) n += k;
        close(fd);
    }
    buf[n] = 0;
    *txt = (n > 0 && expect) ? (strstr(buf, expect) ? "ok" : "BAD") : "-";
    for (p = buf; *p; p = nl ? nl + 1 : p + strlen(p)) {
        nl = strchr(p, '\n');
        if (nl) *nl = 0;
        if (!*p) continue;
        if (strstr(p, ":  Warning:  ")) w = 1;
        else if (strstr(p, ":  FATAL:  ")) f = 1;
        else if (strstr(p, ":  Error:  ")) e = 1;
        else d = 1;
    }
    p = out;
    if (d) *p++ = 'd';
    if (w) *p++ = 'w';
    if (e) *p++ = 'e';
    if (f) *p++ = 'f';
    if (p == out) *p++ = '-';
    *p = 0;
}

int main(int argc, char **argv)
{
    FILE *f;
    char line[512], errpath[512];
    if (argc < 2 || !(f = fopen(argv[1], "r"))) { fprintf(stderr, "usage: probe cells\n"); return 2; }
    snprintf(errpath, sizeof(errpath), "%s.err.%d", argv[1], (int) getpid());
    while (fgets(line, sizeof(line), f)) {
        char macro[128], res[256], outs[8];
        const char *txt = "-", *expect;
        long idx;
        unsigned long r;
        int silent, name, cond, fds[2], st, i;
        const struct use *u = NULL;
        pid_t pid;
        ssize_t n = 0, k;
        if (sscanf(line, "%ld %127s %lu %d %d %d", &idx, macro, &r, &silent, &name, &cond) != 6) continue;
        for (i = 0; uses[i].name; i++) if (!strcmp(uses[i].name, macro)) u = &uses[i];
        printf("#%ld ", idx);
        if (!u) { printf("HARNESS-ERROR:no-probe-for-%s\n", macro); continue; }
        fflush(stdout);
        if (pipe(fds) < 0) { printf("HARNESS-ERROR:pipe\n"); continue; }
        pid = fork();
        if (pid < 0) { printf("HARNESS-ERROR:fork\n"); continue; }
        if (pid == 0) {
            close(fds[0]);
            fclose(f);
            child(u, r, silent, name, cond, fds[1], errpath);
            _exit(96);
        }
        close(fds[1]);
        while (n < (ssize_t) sizeof(res) - 1 && (k = read(fds[0], res + n, sizeof(res) - 1 - n)) > 0) n += k;
        close(fds[0]);
        res[n] = 0;
        if (n && res[n - 1] == '\n') res[n - 1] = 0;
        waitpid(pid, &st, 0);
        expect = ((cond >> 1) & 1) ? u->expect2 : u->expect;
        classify(errpath, outs, expect, &txt);
        if (WIFSIGNALED(st)) {
            printf("FAULT:signal:%d out=%s %s\n", WTERMSIG(st), outs, res);
        } else {
            int code = WEXITSTATUS(st);
            int want = strstr(res, "ctl=exit") ? 255 : 0;     /* libast_fatal_error: exit(-1) */
            if (!n) printf("FAULT:exit:%d out=%s (no report)\n", code, outs);
            else if (code != want) printf("out=%s %s txt=%s status=%d\n", outs, res, txt, code);
            else printf("out=%s %s txt=%s\n", outs, res, txt);
        }
        fflush(stdout);
    }
    unlink(errpath);
    return 0;
}
