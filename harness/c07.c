/* C07 harness: one history of spif_mbuff_* calls per case line (format: driver/c07_main.ml).
 * Caller memory lives in exactly sized malloc blocks (ASan redzones on both sides).  Input
 * descriptors are real pipes and regular files created under build/work/c07; in mode 'w'
 * the read() calls the library makes on that descriptor are answered according to the
 * case's schedule (link-time --wrap=read; fopencookie for FILE streams), the bytes still
 * travelling through the pipe/file; in mode 'n' nothing is interposed.
 *
 * Case "big <what> <obj> <arg>": lengths of 2^31-1 and more, which the list-of-cells model cannot be run on.
 * The objects (syntax and ideal order: harness/bigmap.h) are mbuffs made with spif_mbuff_init() whose buff / len /
 * size members are then pointed at a sparse all-zero mapping ("z<len>", "p<len>@<off>" = one byte 0x01 at <off>):
 *     big cmp <A> <B>       cmp, ncmp (count = common length, common length + 1, -1), cmp_with_ptr and
 *                           ncmp_with_ptr (count = common length), both ways round, and cmp(A, A), cmp(B, B)
 *     big idx <A> <byte>    index and rindex of the byte (decimal)
 *     big find <A> <hex>    find and find_from_ptr of a short needle
 *     big sub <A> <idx>:<cnt>   subbuff and subbuff_to_ptr (positions beyond 2^31, negative positions counted
 *                           from a length beyond 2^31; the piece itself is short)
 *     big rev <A> -         reverse in place (this one WRITES every page: the mapping is committed, <len> bytes of
 *                           memory for the duration of the case); afterwards the one 0x01 must sit at len-1-off
 *     big hist <A> <op,op,...>   a HISTORY on a real object: spif_mbuff_new_from_ptr copies A into the heap (len bytes
 *                           of memory, up to three times that while a splice or realloc is under way), then
 *                             app:<hex> apo:<hex>  append_from_ptr / append(other)      pre:<hex> ppo:<hex>  prepend...
 *                             spl:<idx>:<cnt>:<hex> splp:<idx>:<cnt>:<hex>  splice(other) / splice_from_ptr
 *                             sub:<idx>:<cnt>  rev  dup  clr:<byte>  trim
 *                           The ideal sequence is kept as (length, fill byte, a few marked positions); after every step
 *                           length, size >= length, allocation >= size, every marked byte and - by one memcmp of each
 *                           run between marks against itself shifted by one - every other byte are checked.
 * Every answer is compared with the ideal sequence's, which follows from (kind, length, offset) alone.
 * Output "BIG:ok", or "BIG:differs <call>=<answer> expected <ideal> ...". */
#define _GNU_SOURCE
#include "common.h"
#include <errno.h>
#include <fcntl.h>
#include <sys/stat.h>
#include "bigmap.h"
extern size_t __sanitizer_get_allocated_size(const volatile void *p);   /* ASan runtime */

/* ---- schedule ---- */
typedef struct { int kind; size_t left; } lv_ev_t;
#define LV_MAXEV 4096
static lv_ev_t lv_sched[LV_MAXEV];
static int lv_nsched = 0, lv_sp = 0, lv_ctl_fd = -1;
static int lv_glue_error = 0;
static off_t lv_data_start = -1;   /* offset of the first scheduled byte in a regular file, -1 for pipes */

ssize_t __real_read(int fd, void *buf, size_t n);

static ssize_t lv_sched_read(int fd, void *buf, size_t n)
{
    lv_ev_t *e;
    size_t give, got = 0;

    if (lv_data_start > 0) {
        /* stdio repositions a stream by seeking to a block boundary and reading forward: bytes in
         * front of the case's start offset are not part of the schedule */
        off_t cur = lseek(fd, 0, SEEK_CUR);
        if (cur >= 0 && cur < lv_data_start) {
            size_t k = (size_t) (lv_data_start - cur);
            return __real_read(fd, buf, (n < k) ? n : k);
        }
    }
    if (lv_sp >= lv_nsched) return 0;
    e = &lv_sched[lv_sp];
    switch (e->kind) {
        case 'I': lv_sp++; errno = EINTR; return -1;
        case 'X': lv_sp++; errno = EIO; return -1;
        case 'E': lv_sp++; return 0;
        default: break;
    }
    give = (n < e->left) ? n : e->left;
    while (got < give) {
        ssize_t r = __real_read(fd, (char *) buf + got, give - got);
        if (r <= 0) { lv_glue_error = 1; break; }
        got += (size_t) r;
    }
    e->left -= give;
    if (!e->left) lv_sp++;
    return (ssize_t) got;
}

ssize_t __wrap_read(int fd, void *buf, size_t n)
{
    if (fd >= 0 && fd == lv_ctl_fd) return lv_sched_read(fd, buf, n);
    return __real_read(fd, buf, n);
}

static ssize_t ck_read(void *c, char *buf, size_t n) { return lv_sched_read(*(int *) c, buf, n); }
static int ck_seek(void *c, off64_t *off, int whence)
{
    off_t r = lseek(*(int *) c, (off_t) *off, whence);
    if (r < 0) return -1;
    *off = r;
    return 0;
}

/* ---- work directory: <verif>/build/work/c07, derived from the executable's place ---- */
static char lv_workdir[4096];
static void workdir_init(void)
{
    char exe[4096];
    ssize_t n;
    char *p;
    int up;
    if (lv_workdir[0]) return;
    n = readlink("/proc/self/exe", exe, sizeof(exe) - 1);
    if (n <= 0) { strcpy(lv_workdir, "."); return; }
    exe[n] = 0;
    for (up = 0; up < 3; up++) { p = strrchr(exe, '/'); if (p) *p = 0; }   /* .../build */
    snprintf(lv_workdir, sizeof(lv_workdir), "%s/work", exe);
    mkdir(lv_workdir, 0777);
    strcat(lv_workdir, "/c07");
    mkdir(lv_workdir, 0777);
}

/* ---- small parsers ---- */
static int split_on(char *s, char sep, char **f, int max)
{
    int n = 0;
    f[n++] = s;
    while (*s && n < max) { if (*s == sep) { *s = 0; f[n++] = s + 1; } s++; }
    return n;
}
static unsigned char *ptr_arg(const char *h, size_t *n)
{
    if (h[0] == 'N' && !h[1]) { *n = 0; return NULL; }
    return lv_unhex(h, n);
}
static spif_mbuff_t other_arg(char *s)
{
    char *f[2];
    unsigned char *b;
    size_t n;
    spif_mbuff_t o;
    if (s[0] == 'N' && !s[1]) return (spif_mbuff_t) NULL;
    if (s[0] == 'E' && !s[1]) return spif_mbuff_new();
    if (split_on(s, '+', f, 2) != 2) { lv_glue_error = 1; return (spif_mbuff_t) NULL; }
    b = lv_unhex(f[0], &n);
    o = spif_mbuff_new_from_buff((spif_byteptr_t) b, (spif_memidx_t) n, (spif_memidx_t) n + atol(f[1]));
    free(b);
    return o;
}
static void other_free(spif_mbuff_t o) { if (o) spif_mbuff_del(o); }

/* ---- printing ---- */
static void put_fields(spif_mbuff_t m, char sep)
{
    long len = (long) m->len, size = (long) m->size;
    int a;
    printf("%ld%c", len, sep);
    if (len > 0 && !m->buff) printf("NULLBUF");
    else lv_puthex(m->buff, (len > 0) ? (size_t) len : 0);
    a = m->buff ? ((long) __sanitizer_get_allocated_size(m->buff) >= size) : (size == 0);
    printf("%c%d%c%d", sep, (size >= len) ? 1 : 0, sep, a);
}
static char lv_extra[64];
static void put_state(spif_mbuff_t m)
{
    putchar(' ');
    put_fields(m, ' ');
    printf(" %ld%s", (long) m->size, lv_extra);
    lv_extra[0] = 0;
}
static void put_obj(spif_mbuff_t o)
{
    if (!o) { printf("ONULL"); return; }
    printf("O:");
    put_fields(o, ':');
    snprintf(lv_extra, sizeof(lv_extra), "/%ld", (long) o->size);
}
static void put_bool(spif_bool_t b) { putchar(b ? 'T' : 'F'); }

/* ---- constructors on descriptors ---- */
static int parse_sched(char *s, unsigned char **data, size_t *total)
{
    char *f[LV_MAXEV];
    int n, i;
    size_t cap = 0, k;
    lv_nsched = 0; lv_sp = 0; *total = 0; *data = NULL;
    if (s[0] == '-' && !s[1]) return 0;
    n = split_on(s, ',', f, LV_MAXEV);
    for (i = 0; i < n; i++) cap += strlen(f[i]);
    *data = (unsigned char *) malloc(cap + 1);
    for (i = 0; i < n; i++) {
        lv_sched[lv_nsched].kind = f[i][0];
        lv_sched[lv_nsched].left = 0;
        if (f[i][0] == 'D' || f[i][0] == 'S') {
            unsigned char *b = lv_unhex(f[i] + 1, &k);
            memcpy(*data + *total, b, k);
            free(b);
            *total += k;
            lv_sched[lv_nsched].left = k;
        }
        lv_nsched++;
    }
    return 0;
}

/* kind "P" or "R<pos>", mode 'n' | 'w'; returns the init result */
static spif_bool_t init_from_desc(spif_mbuff_t m, int use_fp, char *args)
{
    char *f[3], path[4200];
    unsigned char *data;
    size_t total, pos = 0;
    int fd = -1, wfd = -1, pp[2], wrapped, regular;
    spif_bool_t r;
    FILE *fp = NULL;
    static int cookie_fd;

    if (split_on(args, ':', f, 3) != 3) { lv_glue_error = 1; return FALSE; }
    regular = (f[0][0] == 'R');
    wrapped = (f[1][0] == 'w');
    if (regular) pos = (size_t) atol(f[0] + 1);
    lv_data_start = regular ? (off_t) pos : (off_t) -1;
    parse_sched(f[2], &data, &total);
    workdir_init();
    if (regular) {
        size_t i;
        snprintf(path, sizeof(path), "%s/in-%ld.bin", lv_workdir, (long) getpid());
        wfd = open(path, O_WRONLY | O_CREAT | O_TRUNC, 0600);
        for (i = 0; i < pos; i++) { char j = (char) (0x5a ^ i); if (write(wfd, &j, 1) != 1) lv_glue_error = 1; }
        if (total && write(wfd, data, total) != (ssize_t) total) lv_glue_error = 1;
        close(wfd);
        fd = open(path, O_RDONLY);
        if (lseek(fd, (off_t) pos, SEEK_SET) != (off_t) pos) lv_glue_error = 1;
    } else {
        if (pipe(pp)) { lv_glue_error = 1; return FALSE; }
        if (total > 60000) fcntl(pp[1], F_SETPIPE_SZ, 1 << 20);
        if (total && write(pp[1], data, total) != (ssize_t) total) lv_glue_error = 1;
        close(pp[1]);
        fd = pp[0];
    }
    free(data);
    if (use_fp) {
        if (wrapped) {
            cookie_io_functions_t io = { ck_read, NULL, ck_seek, NULL };
            cookie_fd = fd;
            fp = fopencookie(&cookie_fd, "r", io);
        } else {
            fp = fdopen(fd, "r");
        }
        r = spif_mbuff_init_from_fp(m, fp);
        fclose(fp);
        if (wrapped) close(fd);
    } else {
        lv_ctl_fd = wrapped ? fd : -1;
        r = spif_mbuff_init_from_fd(m, fd);
        lv_ctl_fd = -1;
        close(fd);
    }
    if (regular) unlink(path);
    return r;
}

/* ---- one operation; m may be replaced (dupto) ---- */
static void do_op(spif_mbuff_t *pm, char *tok)
{
    spif_mbuff_t m = *pm, o;
    char *f[8];
    int nf = split_on(tok, ':', f, 8);
    unsigned char *p;
    size_t pl;
    const char *op = f[0];

    if (!strcmp(op, "done")) put_bool(spif_mbuff_done(m));
    else if (!strcmp(op, "dup") || !strcmp(op, "dupto")) {
        o = spif_mbuff_dup(m);
        put_obj(o);
        if (op[3] == 't' && o) { if (m) spif_mbuff_del(m); *pm = o; }
        else if (o) spif_mbuff_del(o);
    }
    else if (!strcmp(op, "ap") && nf == 2) { o = other_arg(f[1]); put_bool(spif_mbuff_append(m, o)); other_free(o); }
    else if (!strcmp(op, "pp") && nf == 2) { o = other_arg(f[1]); put_bool(spif_mbuff_prepend(m, o)); other_free(o); }
    else if (!strcmp(op, "app") && nf == 3) { p = ptr_arg(f[1], &pl); put_bool(spif_mbuff_append_from_ptr(m, p, atol(f[2]))); free(p); }
    else if (!strcmp(op, "ppp") && nf == 3) { p = ptr_arg(f[1], &pl); put_bool(spif_mbuff_prepend_from_ptr(m, p, atol(f[2]))); free(p); }
    else if (!strcmp(op, "spl") && nf == 4) { o = other_arg(f[3]); put_bool(spif_mbuff_splice(m, atol(f[1]), atol(f[2]), o)); other_free(o); }
    else if (!strcmp(op, "splp") && nf == 5) {
        p = ptr_arg(f[3], &pl);
        put_bool(spif_mbuff_splice_from_ptr(m, atol(f[1]), atol(f[2]), p, atol(f[4])));
        free(p);
    }
    else if (!strcmp(op, "sub") && nf == 3) { o = spif_mbuff_subbuff(m, atol(f[1]), atol(f[2])); put_obj(o); other_free(o); }
    else if (!strcmp(op, "subp") && nf == 3) {
        spif_byteptr_t r = spif_mbuff_subbuff_to_ptr(m, atol(f[1]), atol(f[2]));
        if (!r) printf("PNULL"); else { printf("P:"); lv_puthex(r, __sanitizer_get_allocated_size(r)); free(r); }
    }
    else if (!strcmp(op, "trim")) put_bool(spif_mbuff_trim(m));
    else if (!strcmp(op, "rev")) put_bool(spif_mbuff_reverse(m));
    else if (!strcmp(op, "clr") && nf == 2) put_bool(spif_mbuff_clear(m, (spif_uint8_t) atoi(f[1])));
    else if (!strcmp(op, "spf") && nf == 2) {
        if (f[1][0] == 'N') put_bool(spif_mbuff_sprintf(m, (spif_charptr_t) NULL));
        else if (f[1][0] == 'E') put_bool(spif_mbuff_sprintf(m, (spif_charptr_t) ""));
        else if (f[1][0] == 'S') { char *s = lv_unhex_str(f[1] + 1); put_bool(spif_mbuff_sprintf(m, (spif_charptr_t) "%s", s)); free(s); }
        else {
            char *g[2], *a, *b;
            split_on(f[1] + 1, ',', g, 2);
            a = lv_unhex_str(g[0]); b = lv_unhex_str(g[1]);
            put_bool(spif_mbuff_sprintf(m, (spif_charptr_t) "%s%c%s", a, 0, b));
            free(a); free(b);
        }
    }
    else if (!strcmp(op, "cmp") && nf == 2) { o = other_arg(f[1]); printf("c%d", (int) spif_mbuff_cmp(m, o)); other_free(o); }
    else if (!strcmp(op, "ncmp") && nf == 3) { o = other_arg(f[1]); printf("c%d", (int) spif_mbuff_ncmp(m, o, atol(f[2]))); other_free(o); }
    else if (!strcmp(op, "cmpp") && nf == 3) { p = ptr_arg(f[1], &pl); printf("c%d", (int) spif_mbuff_cmp_with_ptr(m, p, atol(f[2]))); free(p); }
    else if (!strcmp(op, "ncmpp") && nf == 3) { p = ptr_arg(f[1], &pl); printf("c%d", (int) spif_mbuff_ncmp_with_ptr(m, p, atol(f[2]))); free(p); }
    else if (!strcmp(op, "find") && nf == 2) { o = other_arg(f[1]); printf("i%ld", (long) spif_mbuff_find(m, o)); other_free(o); }
    else if (!strcmp(op, "findp") && nf == 3) { p = ptr_arg(f[1], &pl); printf("i%ld", (long) spif_mbuff_find_from_ptr(m, p, atol(f[2]))); free(p); }
    else if (!strcmp(op, "idx") && nf == 2) printf("i%ld", (long) spif_mbuff_index(m, (spif_uint8_t) atoi(f[1])));
    else if (!strcmp(op, "ridx") && nf == 2) printf("i%ld", (long) spif_mbuff_rindex(m, (spif_uint8_t) atoi(f[1])));
    else if (!strcmp(op, "glen")) printf("i%ld", (long) spif_mbuff_get_len(m));
    else if (!strcmp(op, "gsize")) { printf("Z"); snprintf(lv_extra, sizeof(lv_extra), "/%ld", (long) spif_mbuff_get_size(m)); }
    else if (!strcmp(op, "slen") && nf == 2) put_bool(spif_mbuff_set_len(m, atol(f[1])));
    else if (!strcmp(op, "ssize") && nf == 2) put_bool(spif_mbuff_set_size(m, atol(f[1])));
    else { printf("HARNESS-ERROR:bad-op"); lv_glue_error = 1; }
}

/* ---- buffers of 2 GiB and more ---- */
static int lv_bigbad;
static void big_expect(const char *call, const char *a, const char *b, long long cnt, long long got, long long want, int ascmp)
{
    if (ascmp ? (lv_big_sign(got) == lv_big_sign(want) && got >= -1 && got <= 1) : (got == want)) return;
    printf("%s %s(%s,%s", lv_bigbad ? "" : "BIG:differs", call, a, b);
    if (cnt != -2) printf(",%lld", cnt);
    if (ascmp) printf(")=%s(%lld) expected %s", lv_big_cmpname(got), got, lv_big_cmpname(want));
    else printf(")=%lld expected %lld", got, want);
    lv_bigbad = 1;
}
static spif_mbuff_t big_mbuff(lv_big_t *o)
{
    spif_mbuff_t m = (spif_mbuff_t) malloc(sizeof(*m));
    spif_mbuff_init(m);
    m->buff = (spif_byteptr_t) o->base;
    m->len = (spif_memidx_t) o->len;
    m->size = (spif_memidx_t) o->len;
    return m;
}
static void big_release(spif_mbuff_t m, lv_big_t *o)
{
    m->buff = (spif_byteptr_t) NULL; m->len = 0; m->size = 0;      /* the mapping is not the object's to free */
    spif_mbuff_del(m);
    lv_big_unmap(o);
}
static long long big_byte_at(const lv_big_t *o, long long i) { return (lv_big_haspoke(o, o->len) && o->off == i) ? o->poke : o->fill; }
/* the ideal find: candidate starts are the first few positions and the ones whose window holds the poke */
static long long big_ideal_find(const lv_big_t *o, const unsigned char *nd, long long k)
{
    long long cand[64], best = o->len, i, j;
    int nc = 0;
    for (i = 0; i <= k + 1 && nc < 30; i++) cand[nc++] = i;
    if (lv_big_haspoke(o, o->len)) for (i = o->off - k; i <= o->off + 1 && nc < 62; i++) cand[nc++] = i;
    for (j = 0; j < nc; j++) {
        long long s0 = cand[j];
        if (s0 < 0 || s0 + k > o->len || s0 >= best) continue;
        for (i = 0; i < k; i++) if (big_byte_at(o, s0 + i) != nd[i]) break;
        if (i == k) best = s0;
    }
    return best;
}

/* ---- a history on a real object of 2 GiB and more: the ideal sequence as (len, fill, marks) ---- */
#define BIG_MAXMARK 96
typedef struct { long long len; int fill; int n; long long pos[BIG_MAXMARK]; unsigned char val[BIG_MAXMARK]; } big_ideal_t;
static void ideal_sort(big_ideal_t *s)
{
    int i, j;
    for (i = 1; i < s->n; i++) for (j = i; j > 0 && s->pos[j - 1] > s->pos[j]; j--) {
        long long p = s->pos[j]; unsigned char v = s->val[j];
        s->pos[j] = s->pos[j - 1]; s->val[j] = s->val[j - 1]; s->pos[j - 1] = p; s->val[j - 1] = v;
    }
}
static int ideal_add(big_ideal_t *s, long long pos, unsigned char v)
{
    if (s->n >= BIG_MAXMARK) return 0;
    s->pos[s->n] = pos; s->val[s->n] = v; s->n++;
    return 1;
}
static int ideal_at(const big_ideal_t *s, long long i)
{
    int k;
    for (k = 0; k < s->n; k++) if (s->pos[k] == i) return s->val[k];
    return s->fill;
}
/* remove [idx, idx+cnt), insert k bytes there */
static int ideal_splice(big_ideal_t *s, long long idx, long long cnt, const unsigned char *b, long long k)
{
    int i, m = 0;
    for (i = 0; i < s->n; i++) {
        if (s->pos[i] < idx) { s->pos[m] = s->pos[i]; s->val[m] = s->val[i]; m++; }
        else if (s->pos[i] >= idx + cnt) { s->pos[m] = s->pos[i] - cnt + k; s->val[m] = s->val[i]; m++; }
    }
    s->n = m;
    for (i = 0; i < k; i++) if (!ideal_add(s, idx + i, b[i])) return 0;
    s->len += k - cnt;
    ideal_sort(s);
    return 1;
}
static int big_run_is(const unsigned char *b, long long from, long long to, int fill)
{
    if (to <= from) return 1;
    if (b[from] != fill) return 0;
    return to - from == 1 || memcmp(b + from, b + from + 1, (size_t) (to - from - 1)) == 0;
}
/* compare an object with the ideal; reports the first difference */
static void big_verify(const char *step, spif_mbuff_t m, big_ideal_t *s)
{
    long long prev = 0;
    int k;
    const unsigned char *b = (const unsigned char *) SPIF_MBUFF_BUFF(m);
    big_expect("len-after", step, "", -2, (long long) spif_mbuff_get_len(m), s->len, 0);
    if ((long long) spif_mbuff_get_len(m) != s->len) return;
    big_expect("size>=len-after", step, "", -2, m->size >= m->len, 1, 0);
    if (b) big_expect("allocation>=size-after", step, "", -2, (long long) __sanitizer_get_allocated_size(b) >= (long long) m->size, 1, 0);
    else { big_expect("buffer-present-after", step, "", -2, s->len == 0, 1, 0); return; }
    ideal_sort(s);
    for (k = 0; k <= s->n; k++) {
        long long stop = (k < s->n) ? s->pos[k] : s->len;
        if (!big_run_is(b, prev, stop, s->fill)) { big_expect("bytes-between-marks-after", step, "", prev, 0, 1, 0); return; }
        if (k < s->n) {
            if (b[stop] != s->val[k]) { big_expect("marked-byte-after", step, "", stop, b[stop], s->val[k], 0); return; }
            prev = stop + 1;
        }
    }
}
static int is_c_space(int c) { return c == ' ' || (c >= 9 && c <= 13); }
static void run_big_hist(lv_big_t *A, char *prog)
{
    static char *ops[64];
    big_ideal_t S;
    spif_mbuff_t m;
    int nops, i;
    if (!lv_big_map(A, 0, 1, 0)) { printf("HARNESS-ERROR:big-map"); return; }
    memset(&S, 0, sizeof(S));
    S.len = A->len; S.fill = 0;
    if (lv_big_haspoke(A, A->len)) ideal_add(&S, A->off, A->poke);
    m = spif_mbuff_new_from_ptr((spif_byteptr_t) A->base, (spif_memidx_t) A->len);
    lv_big_unmap(A);
    if (SPIF_MBUFF_ISNULL(m)) { printf("BIG:differs new_from_ptr returned NULL"); return; }
    big_verify("new_from_ptr", m, &S);
    nops = split_on(prog, ',', ops, 64);
    for (i = 0; i < nops && !lv_bigbad; i++) {
        char step[80], *f[5];
        int nf;
        size_t k = 0;
        unsigned char *b = NULL;
        long long idx, cnt;
        snprintf(step, sizeof(step), "%d:%s", i, ops[i]);
        nf = split_on(ops[i], ':', f, 5);
        if ((!strcmp(f[0], "app") || !strcmp(f[0], "apo") || !strcmp(f[0], "pre") || !strcmp(f[0], "ppo")) && nf == 2) {
            spif_bool_t r;
            spif_mbuff_t o;
            b = lv_unhex(f[1], &k);
            o = spif_mbuff_new_from_ptr((spif_byteptr_t) b, (spif_memidx_t) k);
            if (!strcmp(f[0], "app")) r = spif_mbuff_append_from_ptr(m, (spif_byteptr_t) b, (spif_memidx_t) k);
            else if (!strcmp(f[0], "apo")) r = spif_mbuff_append(m, o);
            else if (!strcmp(f[0], "pre")) r = spif_mbuff_prepend_from_ptr(m, (spif_byteptr_t) b, (spif_memidx_t) k);
            else r = spif_mbuff_prepend(m, o);
            big_expect("ret", step, "", -2, r ? 1 : 0, 1, 0);
            if (!ideal_splice(&S, (f[0][0] == 'a') ? S.len : 0, 0, b, (long long) k)) { printf("HARNESS-ERROR:marks"); return; }
            spif_mbuff_del(o);
        } else if ((!strcmp(f[0], "spl") || !strcmp(f[0], "splp")) && nf == 4) {
            spif_bool_t r;
            spif_mbuff_t o;
            long long ni, nc;
            int ok = 1;
            idx = atoll(f[1]); cnt = atoll(f[2]);
            b = lv_unhex(f[3], &k);
            o = spif_mbuff_new_from_ptr((spif_byteptr_t) b, (spif_memidx_t) k);
            ni = (idx < 0) ? S.len + idx : idx;
            if (ni < 0 || ni >= S.len) ok = 0;
            nc = (cnt < 0) ? ni + S.len + cnt : cnt;
            if (nc < 0 || nc > S.len - ni) ok = 0;
            if (!strcmp(f[0], "spl")) r = spif_mbuff_splice(m, (spif_memidx_t) idx, (spif_memidx_t) cnt, o);
            else r = spif_mbuff_splice_from_ptr(m, (spif_memidx_t) idx, (spif_memidx_t) cnt, (spif_byteptr_t) b, (spif_memidx_t) k);
            big_expect("ret", step, "", -2, r ? 1 : 0, ok, 0);
            if (ok && !ideal_splice(&S, ni, nc, b, (long long) k)) { printf("HARNESS-ERROR:marks"); return; }
            spif_mbuff_del(o);
        } else if (!strcmp(f[0], "sub") && nf == 3) {
            long long ni, nc, j, refused = 0;
            spif_mbuff_t sb;
            idx = atoll(f[1]); cnt = atoll(f[2]);
            ni = (idx < 0) ? S.len + idx : idx;
            if (ni < 0 || ni >= S.len) refused = 1;
            nc = (cnt <= 0) ? S.len - ni + cnt : cnt;
            if (nc < 0) refused = 1;
            if (nc > S.len - ni) nc = S.len - ni;
            if (!refused && nc > 65536) { printf("HARNESS-ERROR:big-sub-piece-too-long"); return; }
            sb = spif_mbuff_subbuff(m, (spif_memidx_t) idx, (spif_memidx_t) cnt);
            big_expect("subbuff:isnull", step, "", -2, SPIF_MBUFF_ISNULL(sb) ? 1 : 0, refused, 0);
            if (!refused && !SPIF_MBUFF_ISNULL(sb)) {
                big_expect("subbuff:len", step, "", -2, (long long) spif_mbuff_get_len(sb), nc, 0);
                for (j = 0; j < nc && j < (long long) spif_mbuff_get_len(sb); j++)
                    if (SPIF_MBUFF_BUFF(sb)[j] != ideal_at(&S, ni + j)) { big_expect("subbuff:byte", step, "", j, SPIF_MBUFF_BUFF(sb)[j], ideal_at(&S, ni + j), 0); break; }
            }
            if (!SPIF_MBUFF_ISNULL(sb)) spif_mbuff_del(sb);
        } else if (!strcmp(f[0], "rev") && nf == 1) {
            int q;
            spif_bool_t r = spif_mbuff_reverse(m);
            big_expect("ret", step, "", -2, r ? 1 : 0, 1, 0);
            for (q = 0; q < S.n; q++) S.pos[q] = S.len - 1 - S.pos[q];
            ideal_sort(&S);
        } else if (!strcmp(f[0], "clr") && nf == 2) {
            spif_bool_t r = spif_mbuff_clear(m, (spif_uint8_t) atoi(f[1]));
            big_expect("ret", step, "", -2, r ? 1 : 0, 1, 0);
            S.fill = atoi(f[1]) & 255; S.n = 0;
        } else if (!strcmp(f[0], "trim") && nf == 1) {
            long long a = 0, z = S.len;       /* the ideal keeps [a, z) */
            int q, m2 = 0;
            spif_bool_t r = spif_mbuff_trim(m);
            big_expect("ret", step, "", -2, r ? 1 : 0, 1, 0);
            ideal_sort(&S);
            if (is_c_space(S.fill)) {
                /* everything outside the first and the last mark that is not white space goes */
                a = S.len; z = S.len;
                for (q = 0; q < S.n; q++) if (!is_c_space(S.val[q])) { a = S.pos[q]; break; }
                for (q = S.n - 1; q >= 0; q--) if (!is_c_space(S.val[q])) { z = S.pos[q] + 1; break; }
                if (a == S.len) z = a;
            } else {
                while (a < z && is_c_space(ideal_at(&S, a))) a++;
                while (z > a && is_c_space(ideal_at(&S, z - 1))) z--;
            }
            for (q = 0; q < S.n; q++) if (S.pos[q] >= a && S.pos[q] < z) { S.pos[m2] = S.pos[q] - a; S.val[m2] = S.val[q]; m2++; }
            S.n = m2; S.len = z - a;
        } else if (!strcmp(f[0], "dup") && nf == 1) {
            spif_mbuff_t d = spif_mbuff_dup(m);
            big_expect("dup:isnull", step, "", -2, SPIF_MBUFF_ISNULL(d) ? 1 : 0, 0, 0);
            if (!SPIF_MBUFF_ISNULL(d)) {
                big_expect("dup:own-storage", step, "", -2, SPIF_MBUFF_BUFF(d) != SPIF_MBUFF_BUFF(m) || S.len == 0, 1, 0);
                big_verify(step, d, &S);
                big_expect("cmp(original,copy)", step, "", -2, spif_mbuff_cmp(m, d), 0, 1);
                spif_mbuff_del(d);
            }
        } else { printf("HARNESS-ERROR:bad-big-op:%s", ops[i]); return; }
        if (b) free(b);
        if (!lv_bigbad) big_verify(step, m, &S);
    }
    spif_mbuff_del(m);
    if (!lv_bigbad) printf("BIG:ok");
}
static void run_big(int n, char **t)
{
    lv_big_t A, B;
    spif_mbuff_t a, b;
    lv_bigbad = 0;
    if (n != 4 || !lv_big_parse(t[2], &A)) { printf("HARNESS-ERROR:bad-big-case"); return; }
    if (!strcmp(t[1], "hist")) { run_big_hist(&A, t[3]); return; }
    if (!lv_big_map(&A, 0, 1, 0)) { printf("HARNESS-ERROR:big-map"); return; }
    if (strcmp(t[1], "rev")) lv_big_readonly(&A);
    a = big_mbuff(&A);
    if (!strcmp(t[1], "cmp")) {
        long long m;
        if (!lv_big_parse(t[3], &B) || !lv_big_map(&B, 0, 1, 0)) { printf("HARNESS-ERROR:bad-big-case"); return; }
        lv_big_readonly(&B);
        b = big_mbuff(&B);
        m = (A.len < B.len) ? A.len : B.len;
        big_expect("cmp", t[2], t[3], -2, spif_mbuff_cmp(a, b), lv_big_order(&A, &B), 1);
        big_expect("cmp", t[3], t[2], -2, spif_mbuff_cmp(b, a), lv_big_order(&B, &A), 1);
        big_expect("cmp", t[2], t[2], -2, spif_mbuff_cmp(a, a), 0, 1);
        big_expect("cmp", t[3], t[3], -2, spif_mbuff_cmp(b, b), 0, 1);
        big_expect("ncmp", t[2], t[3], m, spif_mbuff_ncmp(a, b, m), lv_big_memcmp(&A, &B, m), 1);
        big_expect("ncmp", t[3], t[2], m, spif_mbuff_ncmp(b, a, m), lv_big_memcmp(&B, &A, m), 1);
        /* a count beyond either length, or a negative one, compares everything */
        big_expect("ncmp", t[2], t[3], m + 1, spif_mbuff_ncmp(a, b, m + 1), (A.len == B.len) ? lv_big_memcmp(&A, &B, m) : lv_big_order(&A, &B), 1);
        big_expect("ncmp", t[3], t[2], -1, spif_mbuff_ncmp(b, a, -1), lv_big_order(&B, &A), 1);
        big_expect("cmp_with_ptr", t[2], t[3], m, spif_mbuff_cmp_with_ptr(a, b->buff, m), lv_big_memcmp(&A, &B, m), 1);
        big_expect("ncmp_with_ptr", t[3], t[2], m, spif_mbuff_ncmp_with_ptr(b, a->buff, m), lv_big_memcmp(&B, &A, m), 1);
        big_release(b, &B);
    } else if (!strcmp(t[1], "idx")) {
        long long c = atoll(t[3]), first = A.len, last = A.len, poke = lv_big_haspoke(&A, A.len) ? A.off : -1;
        if (c == A.fill && A.len > 0) {
            first = (poke == 0) ? ((A.len > 1) ? 1 : A.len) : 0;
            last = (poke == A.len - 1) ? ((A.len > 1) ? A.len - 2 : A.len) : A.len - 1;
        } else if (c == A.poke && poke >= 0) first = last = poke;
        big_expect("index", t[2], t[3], -2, spif_mbuff_index(a, (spif_uint8_t) c), first, 0);
        big_expect("rindex", t[2], t[3], -2, spif_mbuff_rindex(a, (spif_uint8_t) c), last, 0);
    } else if (!strcmp(t[1], "find")) {
        size_t k;
        unsigned char *nd = lv_unhex(t[3], &k);
        long long want = big_ideal_find(&A, nd, (long long) k);
        spif_mbuff_t o = spif_mbuff_new_from_ptr((spif_byteptr_t) nd, (spif_memidx_t) k);
        if (!k || k > 24) { printf("HARNESS-ERROR:bad-big-case"); return; }
        big_expect("find", t[2], t[3], -2, spif_mbuff_find(a, o), want, 0);
        big_expect("find_from_ptr", t[2], t[3], -2, spif_mbuff_find_from_ptr(a, (spif_byteptr_t) nd, (spif_memidx_t) k), want, 0);
        spif_mbuff_del(o);
        free(nd);
    } else if (!strcmp(t[1], "sub")) {
        char *f[4];
        long long idx, cnt, i, ni, nc, refused = 0;
        spif_mbuff_t sb;
        spif_byteptr_t sp;
        if (split_on(t[3], ':', f, 4) != 2) { printf("HARNESS-ERROR:bad-big-case"); return; }
        idx = atoll(f[0]); cnt = atoll(f[1]);
        ni = (idx < 0) ? A.len + idx : idx;
        if (ni < 0 || ni >= A.len) refused = 1;
        nc = (cnt <= 0) ? A.len - ni + cnt : cnt;
        if (nc < 0) refused = 1;
        if (nc > A.len - ni) nc = A.len - ni;
        if (!refused && nc > 65536) { printf("HARNESS-ERROR:big-sub-piece-too-long"); return; }
        sb = spif_mbuff_subbuff(a, (spif_memidx_t) idx, (spif_memidx_t) cnt);
        sp = spif_mbuff_subbuff_to_ptr(a, (spif_memidx_t) idx, (spif_memidx_t) cnt);
        big_expect("subbuff:isnull", t[2], t[3], -2, SPIF_MBUFF_ISNULL(sb) ? 1 : 0, refused, 0);
        big_expect("subbuff_to_ptr:isnull", t[2], t[3], -2, sp ? 0 : 1, refused, 0);
        if (!refused && !SPIF_MBUFF_ISNULL(sb)) {
            big_expect("subbuff:len", t[2], t[3], -2, (long long) spif_mbuff_get_len(sb), nc, 0);
            for (i = 0; i < nc && i < (long long) spif_mbuff_get_len(sb); i++) {
                if (SPIF_MBUFF_BUFF(sb)[i] != big_byte_at(&A, ni + i)) { big_expect("subbuff:byte", t[2], t[3], i, SPIF_MBUFF_BUFF(sb)[i], big_byte_at(&A, ni + i), 0); break; }
            }
        }
        if (!refused && sp) {
            for (i = 0; i < nc; i++) {
                if (sp[i] != big_byte_at(&A, ni + i)) { big_expect("subbuff_to_ptr:byte", t[2], t[3], i, sp[i], big_byte_at(&A, ni + i), 0); break; }
            }
        }
        if (!SPIF_MBUFF_ISNULL(sb)) spif_mbuff_del(sb);
        if (sp) free(sp);
    } else if (!strcmp(t[1], "rev")) {
        long long want = lv_big_haspoke(&A, A.len) ? A.len - 1 - A.off : -1;
        unsigned char *q;
        spif_bool_t r = spif_mbuff_reverse(a);
        big_expect("reverse:ret", t[2], "-", -2, r ? 1 : 0, 1, 0);
        big_expect("reverse:len", t[2], "-", -2, (long long) spif_mbuff_get_len(a), A.len, 0);
        /* where the 0x01 bytes are afterwards (the harness's own scan, not the library's) */
        q = (unsigned char *) memchr(A.base, A.poke, (size_t) A.len);
        big_expect("reverse:position-of-the-0x01-byte", t[2], "-", -2, q ? (long long) (q - A.base) : -1, want, 0);
        if (q) {
            unsigned char *q2 = (q + 1 < A.base + A.len) ? (unsigned char *) memchr(q + 1, A.poke, (size_t) (A.base + A.len - q - 1)) : NULL;
            big_expect("reverse:second-0x01-byte", t[2], "-", -2, q2 ? (long long) (q2 - A.base) : -1, -1, 0);
        }
    } else { printf("HARNESS-ERROR:bad-big-case"); return; }
    big_release(a, &A);
    if (!lv_bigbad) printf("BIG:ok");
}

static void run_case(int n, char **t)
{
    spif_mbuff_t m;
    spif_bool_t r = FALSE;
    unsigned char *p;
    size_t pl;
    char *f[4];
    int k;

    lv_glue_error = 0;
    lv_extra[0] = 0;
    if (n < 2) { printf("HARNESS-ERROR:bad-case"); return; }
    if (!strcmp(t[0], "big")) { run_big(n, t); return; }
    if (!strcmp(t[0], "null")) {
        if (n != 3) { printf("HARNESS-ERROR:bad-case"); return; }
        m = (spif_mbuff_t) NULL;
        printf("NULLSELF | ");
        do_op(&m, t[2]);
        return;
    }
    m = (spif_mbuff_t) malloc(sizeof(*m));
    memset(m, lv_paint, sizeof(*m));
    if (!strcmp(t[0], "new")) r = spif_mbuff_init(m);
    else if (!strcmp(t[0], "ptr") && split_on(t[1], ':', f, 4) == 2) {
        p = ptr_arg(f[0], &pl);
        r = spif_mbuff_init_from_ptr(m, p, atol(f[1]));
        free(p);
    } else if (!strcmp(t[0], "buff") && split_on(t[1], ':', f, 4) == 3) {
        p = ptr_arg(f[0], &pl);
        r = spif_mbuff_init_from_buff(m, p, atol(f[1]), atol(f[2]));
        free(p);
    } else if (!strcmp(t[0], "fd")) r = init_from_desc(m, 0, t[1]);
    else if (!strcmp(t[0], "fp")) r = init_from_desc(m, 1, t[1]);
    else { printf("HARNESS-ERROR:bad-ctor"); free(m); return; }
    put_bool(r);
    put_state(m);
    for (k = 2; k < n; k++) {
        printf(" | ");
        do_op(&m, t[k]);
        put_state(m);
    }
    if (lv_glue_error) printf(" HARNESS-ERROR:glue");
    spif_mbuff_del(m);
}
