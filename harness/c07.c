/* C07 harness: one history of spif_mbuff_* calls per case line (format: driver/c07_main.ml).
 * Caller memory lives in exactly sized malloc blocks (ASan redzones on both sides).  Input
 * descriptors are real pipes and regular files created under build/work/c07; in mode 'w'
 * the read() calls the library makes on that descriptor are answered according to the
 * case's schedule (link-time --wrap=read; fopencookie for FILE streams), the bytes still
 * travelling through the pipe/file; in mode 'n' nothing is interposed. */
#define _GNU_SOURCE
#include "common.h"
#include <errno.h>
#include <fcntl.h>
#include <sys/stat.h>
extern size_t __sanitizer_get_allocated_size(const volatile void *p);   /* ASan runtime */

/* ---- schedule ---- */
typedef struct { int kind; size_t left; } lv_ev_t;
#define LV_MAXEV 4096
static lv_ev_t lv_sched[LV_MAXEV];
static int lv_nsched = 0, lv_sp = 0, lv_ctl_fd = -1;
static int lv_glue_error = 0;
static off_t lv_data_start = -1;   /* offset of the first scheduled byte in a regular file, -1 for pipes */

ssize_t __real_read(int fd, void *buf, size_t n);

static ssize_t lv_sched_read(int fd, void *buf, size_t n)
{
    lv_ev_t *e;
    size_t give, got = 0;

    if (lv_data_start > 0) {
        /* stdio repositions a stream by seeking to a block boundary and reading forward: bytes in
         * front of the case's start offset are not part of the schedule */
        off_t cur = lseek(fd, 0, SEEK_CUR);
        if (cur >= 0 && cur < lv_data_start) {
            size_t k = (size_t) (lv_data_start - cur);
            return __real_read(fd, buf, (n < k) ? n : k);
        }
    }
    if (lv_sp >= lv_nsched) return 0;
    e = &lv_sched[lv_sp];
    switch (e->kind) {
        case 'I': lv_sp++; errno = EINTR; return -1;
        case 'X': lv_sp++; errno = EIO; return -1;
        case 'E': lv_sp++; return 0;
        default: break;
    }
    give = (n < e->left) ? n : e->left;
    while (got < give) {
        ssize_t r = __real_read(fd, (char *) buf + got, give - got);
        if (r <= 0) { lv_glue_error = 1; break; }
        got += (size_t) r;
    }
    e->left -= give;
    if (!e->left) lv_sp++;
    return (ssize_t) got;
}

ssize_t __wrap_read(int fd, void *buf, size_t n)
{
    if (fd >= 0 && fd == lv_ctl_fd) return lv_sched_read(fd, buf, n);
    return __real_read(fd, buf, n);
}

static ssize_t ck_read(void *c, char *buf, size_t n) { return lv_sched_read(*(int *) c, buf, n); }
static int ck_seek(void *c, off64_t *off, int whence)
{
    off_t r = lseek(*(int *) c, (off_t) *off, whence);
    if (r < 0) return -1;
    *off = r;
    return 0;
}

/* ---- work directory: <verif>/build/work/c07, derived from the executable's place ---- */
static char lv_workdir[4096];
static void workdir_init(void)
{
    char exe[4096];
    ssize_t n;
    char *p;
    int up;
    if (lv_workdir[0]) return;
    n = readlink("/proc/self/exe", exe, sizeof(exe) - 1);
    if (n <= 0) { strcpy(lv_workdir, "."); return; }
    exe[n] = 0;
    for (up = 0; up < 3; up++) { p = strrchr(exe, '/'); if (p) *p = 0; }   /* .../build */
    snprintf(lv_workdir, sizeof(lv_workdir), "%s/work", exe);
    mkdir(lv_workdir, 0777);
    strcat(lv_workdir, "/c07");
    mkdir(lv_workdir, 0777);
}

/* ---- small parsers ---- */
static int split_on(char *s, char sep, char **f, int max)
{
    int n = 0;
    f[n++] = s;
    while (*s && n < max) { if (*s == sep) { *s = 0; f[n++] = s + 1; } s++; }
    return n;
}
static unsigned char *ptr_arg(const char *h, size_t *n)
{
    if (h[0] == 'N' && !h[1]) { *n = 0; return NULL; }
    return lv_unhex(h, n);
}
static spif_mbuff_t other_arg(char *s)
{
    char *f[2];
    unsigned char *b;
    size_t n;
    spif_mbuff_t o;
    if (s[0] == 'N' && !s[1]) return (spif_mbuff_t) NULL;
    if (s[0] == 'E' && !s[1]) return spif_mbuff_new();
    if (split_on(s, '+', f, 2) != 2) { lv_glue_error = 1; return (spif_mbuff_t) NULL; }
    b = lv_unhex(f[0], &n);
    o = spif_mbuff_new_from_buff((spif_byteptr_t) b, (spif_memidx_t) n, (spif_memidx_t) n + atol(f[1]));
    free(b);
    return o;
}
static void other_free(spif_mbuff_t o) { if (o) spif_mbuff_del(o); }

/* ---- printing ---- */
static void put_fields(spif_mbuff_t m, char sep)
{
    long len = (long) m->len, size = (long) m->size;
    int a;
    printf("%ld%c", len, sep);
    if (len > 0 && !m->buff) printf("NULLBUF");
    else lv_puthex(m->buff, (len > 0) ? (size_t) len : 0);
    a = m->buff ? ((long) __sanitizer_get_allocated_size(m->buff) >= size) : (size == 0);
    printf("%c%d%c%d", sep, (size >= len) ? 1 : 0, sep, a);
}
static char lv_extra[64];
static void put_state(spif_mbuff_t m)
{
    putchar(' ');
    put_fields(m, ' ');
    printf(" %ld%s", (long) m->size, lv_extra);
    lv_extra[0] = 0;
}
static void put_obj(spif_mbuff_t o)
{
    if (!o) { printf("ONULL"); return; }
    printf("O:");
    put_fields(o, ':');
    snprintf(lv_extra, sizeof(lv_extra), "/%ld", (long) o->size);
}
static void put_bool(spif_bool_t b) { putchar(b ? 'T' : 'F'); }

/* ---- constructors on descriptors ---- */
static int parse_sched(char *s, unsigned char **data, size_t *total)
{
    char *f[LV_MAXEV];
    int n, i;
    size_t cap = 0, k;
    lv_nsched = 0; lv_sp = 0; *total = 0; *data = NULL;
    if (s[0] == '-' && !s[1]) return 0;
    n = split_on(s, ',', f, LV_MAXEV);
    for (i = 0; i < n; i++) cap += strlen(f[i]);
    *data = (unsigned char *) malloc(cap + 1);
    for (i = 0; i < n; i++) {
        lv_sched[lv_nsched].kind = f[i][0];
        lv_sched[lv_nsched].left = 0;
        if (f[i][0] == 'D' || f[i][0] == 'S') {
            unsigned char *b = lv_unhex(f[i] + 1, &k);
            memcpy(*data + *total, b, k);
            free(b);
            *total += k;
            lv_sched[lv_nsched].left = k;
        }
        lv_nsched++;
    }
    return 0;
}

/* kind "P" or "R<pos>", mode 'n' | 'w'; returns the init result */
static spif_bool_t init_from_desc(spif_mbuff_t m, int use_fp, char *args)
{
    char *f[3], path[4200];
    unsigned char *data;
    size_t total, pos = 0;
    int fd = -1, wfd = -1, pp[2], wrapped, regular;
    spif_bool_t r;
    FILE *fp = NULL;
    static int cookie_fd;

    if (split_on(args, ':', f, 3) != 3) { lv_glue_error = 1; return FALSE; }
    regular = (f[0][0] == 'R');
    wrapped = (f[1][0] == 'w');
    if (regular) pos = (size_t) atol(f[0] + 1);
    lv_data_start = regular ? (off_t) pos : (off_t) -1;
    parse_sched(f[2], &data, &total);
    workdir_init();
    if (regular) {
        size_t i;
        snprintf(path, sizeof(path), "%s/in-%ld.bin", lv_workdir, (long) getpid());
        wfd = open(path, O_WRONLY | O_CREAT | O_TRUNC, 0600);
        for (i = 0; i < pos; i++) { char j = (char) (0x5a ^ i); if (write(wfd, &j, 1) != 1) lv_glue_error = 1; }
        if (total && write(wfd, data, total) != (ssize_t) total) lv_glue_error = 1;
        close(wfd);
        fd = open(path, O_RDONLY);
        if (lseek(fd, (off_t) pos, SEEK_SET) != (off_t) pos) lv_glue_error = 1;
    } else {
        if (pipe(pp)) { lv_glue_error = 1; return FALSE; }
        if (total > 60000) fcntl(pp[1], F_SETPIPE_SZ, 1 << 20);
        if (total && write(pp[1], data, total) != (ssize_t) total) lv_glue_error = 1;
        close(pp[1]);
        fd = pp[0];
    }
    free(data);
    if (use_fp) {
        if (wrapped) {
            cookie_io_functions_t io = { ck_read, NULL, ck_seek, NULL };
            cookie_fd = fd;
            fp = fopencookie(&cookie_fd, "r", io);
        } else {
            fp = fdopen(fd, "r");
        }
        r = spif_mbuff_init_from_fp(m, fp);
        fclose(fp);
        if (wrapped) close(fd);
    } else {
        lv_ctl_fd = wrapped ? fd : -1;
        r = spif_mbuff_init_from_fd(m, fd);
        lv_ctl_fd = -1;
        close(fd);
    }
    if (regular) unlink(path);
    return r;
}

/* ---- one operation; m may be replaced (dupto) ---- */
static void do_op(spif_mbuff_t *pm, char *tok)
{
    spif_mbuff_t m = *pm, o;
    char *f[8];
    int nf = split_on(tok, ':', f, 8);
    unsigned char *p;
    size_t pl;
    const char *op = f[0];

    if (!strcmp(op, "done")) put_bool(spif_mbuff_done(m));
    else if (!strcmp(op, "dup") || !strcmp(op, "dupto")) {
        o = spif_mbuff_dup(m);
        put_obj(o);
        if (op[3] == 't' && o) { if (m) spif_mbuff_del(m); *pm = o; }
        else if (o) spif_mbuff_del(o);
    }
    else if (!strcmp(op, "ap") && nf == 2) { o = other_arg(f[1]); put_bool(spif_mbuff_append(m, o)); other_free(o); }
    else if (!strcmp(op, "pp") && nf == 2) { o = other_arg(f[1]); put_bool(spif_mbuff_prepend(m, o)); other_free(o); }
    else if (!strcmp(op, "app") && nf == 3) { p = ptr_arg(f[1], &pl); put_bool(spif_mbuff_append_from_ptr(m, p, atol(f[2]))); free(p); }
    else if (!strcmp(op, "ppp") && nf == 3) { p = ptr_arg(f[1], &pl); put_bool(spif_mbuff_prepend_from_ptr(m, p, atol(f[2]))); free(p); }
    else if (!strcmp(op, "spl") && nf == 4) { o = other_arg(f[3]); put_bool(spif_mbuff_splice(m, atol(f[1]), atol(f[2]), o)); other_free(o); }
    else if (!strcmp(op, "splp") && nf == 5) {
        p = ptr_arg(f[3], &pl);
        put_bool(spif_mbuff_splice_from_ptr(m, atol(f[1]), atol(f[2]), p, atol(f[4])));
        free(p);
    }
    else if (!strcmp(op, "sub") && nf == 3) { o = spif_mbuff_subbuff(m, atol(f[1]), atol(f[2])); put_obj(o); other_free(o); }
    else if (!strcmp(op, "subp") && nf == 3) {
        spif_byteptr_t r = spif_mbuff_subbuff_to_ptr(m, atol(f[1]), atol(f[2]));
        if (!r) printf("PNULL"); else { printf("P:"); lv_puthex(r, __sanitizer_get_allocated_size(r)); free(r); }
    }
    else if (!strcmp(op, "trim")) put_bool(spif_mbuff_trim(m));
    else if (!strcmp(op, "rev")) put_bool(spif_mbuff_reverse(m));
    else if (!strcmp(op, "clr") && nf == 2) put_bool(spif_mbuff_clear(m, (spif_uint8_t) atoi(f[1])));
    else if (!strcmp(op, "spf") && nf == 2) {
        if (f[1][0] == 'N') put_bool(spif_mbuff_sprintf(m, (spif_charptr_t) NULL));
        else if (f[1][0] == 'E') put_bool(spif_mbuff_sprintf(m, (spif_charptr_t) ""));
        else if (f[1][0] == 'S') { char *s = lv_unhex_str(f[1] + 1); put_bool(spif_mbuff_sprintf(m, (spif_charptr_t) "%s", s)); free(s); }
        else {
            char *g[2], *a, *b;
            split_on(f[1] + 1, ',', g, 2);
            a = lv_unhex_str(g[0]); b = lv_unhex_str(g[1]);
            put_bool(spif_mbuff_sprintf(m, (spif_charptr_t) "%s%c%s", a, 0, b));
            free(a); free(b);
        }
    }
    else if (!strcmp(op, "cmp") && nf == 2) { o = other_arg(f[1]); printf("c%d", (int) spif_mbuff_cmp(m, o)); other_free(o); }
    else if (!strcmp(op, "ncmp") && nf == 3) { o = other_arg(f[1]); printf("c%d", (int) spif_mbuff_ncmp(m, o, atol(f[2]))); other_free(o); }
    else if (!strcmp(op, "cmpp") && nf == 3) { p = ptr_arg(f[1], &pl); printf("c%d", (int) spif_mbuff_cmp_with_ptr(m, p, atol(f[2]))); free(p); }
    else if (!strcmp(op, "ncmpp") && nf == 3) { p = ptr_arg(f[1], &pl); printf("c%d", (int) spif_mbuff_ncmp_with_ptr(m, p, atol(f[2]))); free(p); }
    else if (!strcmp(op, "find") && nf == 2) { o = other_arg(f[1]); printf("i%ld", (long) spif_mbuff_find(m, o)); other_free(o); }
    else if (!strcmp(op, "findp") && nf == 3) { p = ptr_arg(f[1], &pl); printf("i%ld", (long) spif_mbuff_find_from_ptr(m, p, atol(f[2]))); free(p); }
    else if (!strcmp(op, "idx") && nf == 2) printf("i%ld", (long) spif_mbuff_index(m, (spif_uint8_t) atoi(f[1])));
    else if (!strcmp(op, "ridx") && nf == 2) printf("i%ld", (long) spif_mbuff_rindex(m, (spif_uint8_t) atoi(f[1])));
    else if (!strcmp(op, "glen")) printf("i%ld", (long) spif_mbuff_get_len(m));
    else if (!strcmp(op, "gsize")) { printf("Z"); snprintf(lv_extra, sizeof(lv_extra), "/%ld", (long) spif_mbuff_get_size(m)); }
    else if (!strcmp(op, "slen") && nf == 2) put_bool(spif_mbuff_set_len(m, atol(f[1])));
    else if (!strcmp(op, "ssize") && nf == 2) put_bool(spif_mbuff_set_size(m, atol(f[1])));
    else { printf("HARNESS-ERROR:bad-op"); lv_glue_error = 1; }
}

static void run_case(int n, char **t)
{
    spif_mbuff_t m;
    spif_bool_t r = FALSE;
    unsigned char *p;
    size_t pl;
    char *f[4];
    int k;

    lv_glue_error = 0;
    lv_extra[0] = 0;
    if (n < 2) { printf("HARNESS-ERROR:bad-case"); return; }
    if (!strcmp(t[0], "null")) {
        if (n != 3) { printf("HARNESS-ERROR:bad-case"); return; }
        m = (spif_mbuff_t) NULL;
        printf("NULLSELF | ");
        do_op(&m, t[2]);
        return;
    }
    m = (spif_mbuff_t) malloc(sizeof(*m));
    memset(m, lv_paint, sizeof(*m));
    if (!strcmp(t[0], "new")) r = spif_mbuff_init(m);
    else if (!strcmp(t[0], "ptr") && split_on(t[1], ':', f, 4) == 2) {
        p = ptr_arg(f[0], &pl);
        r = spif_mbuff_init_from_ptr(m, p, atol(f[1]));
        free(p);
    } else if (!strcmp(t[0], "buff") && split_on(t[1], ':', f, 4) == 3) {
        p = ptr_arg(f[0], &pl);
        r = spif_mbuff_init_from_buff(m, p, atol(f[1]), atol(f[2]));
        free(p);
    } else if (!strcmp(t[0], "fd")) r = init_from_desc(m, 0, t[1]);
    else if (!strcmp(t[0], "fp")) r = init_from_desc(m, 1, t[1]);
    else { printf("HARNESS-ERROR:bad-ctor"); free(m); return; }
    put_bool(r);
    put_state(m);
    for (k = 2; k < n; k++) {
        printf(" | ");
        do_op(&m, t[k]);
        put_state(m);
    }
    if (lv_glue_error) printf(" HARNESS-ERROR:glue");
    spif_mbuff_del(m);
}
