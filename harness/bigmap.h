/* Buffers of 2 GiB and more that cost no memory (shared by harness/c05.c and harness/c07.c; harness/c18.c has
 * its own variant with pseudo-random contents).
 *
 * A "big object" is written <t><len>[@<off>]:
 *     t = z   all bytes equal the fill byte (mbuff: 0x00 on untouched MAP_NORESERVE anonymous pages; str: 'a', one
 *             2 MiB memfd chunk of 'a' mapped MAP_PRIVATE again and again);
 *     t = p   the same with ONE byte larger than the fill byte poked in at offset <off> (copy-on-write, one page);
 *     len     the object's length, set through the public struct members (len, size; str: plus the NUL at s[len]).
 * Each object has its own mapping, [len rounded up to pages][PROT_NONE page]; the buffer starts at the mapping's
 * start, so reading much past the length traps.  Nothing is committed apart from the poked pages and page tables
 * (8 bytes per 4 KiB page that was read).
 *
 * The ideal answer of every comparison of two such objects follows from (t, len, off) alone:
 *     the first position where they differ is   d = min(off of a poked one within both lengths)  if exactly one holds
 *     a poke there (or both hold pokes at different offsets); otherwise the bytes agree over the common length and
 *     the shorter one is the smaller - lv_big_order() below.  An implementation whose answers all equal this
 *     function's is reflexive, antisymmetric and transitive on these objects, because the function is the
 *     lexicographic order on the byte sequences. */
#ifndef LV_BIGMAP_H
#define LV_BIGMAP_H
#include <sys/mman.h>
#include <stdint.h>

typedef struct {
    char t;                 /* 'z' or 'p' */
    long long len, off;     /* off = -1: no poke */
    unsigned char *base;    /* start of the mapping = start of the buffer */
    size_t span;            /* mapped bytes without the guard page */
    unsigned char fill, poke;
} lv_big_t;

#define LV_BIG_CHUNK ((size_t) 2 << 20)

/* parse "z123", "p123@45"; returns 0 on a syntax error */
static int lv_big_parse(const char *s, lv_big_t *o)
{
    char *e;
    memset(o, 0, sizeof(*o));
    if (s[0] != 'z' && s[0] != 'p') return 0;
    o->t = s[0];
    o->len = strtoll(s + 1, &e, 10);
    o->off = -1;
    if (o->len < 0 || e == s + 1) return 0;
    if (o->t == 'p') {
        if (*e != '@') return 0;
        o->off = strtoll(e + 1, &e, 10);
        if (o->off < 0) return 0;
    }
    return *e == 0;
}

/* map the object's bytes: `extra` more bytes than len are readable and hold `after` (str: the NUL) followed by
 * fill bytes; fill = 0 uses anonymous zero pages, anything else a repeated file chunk.  Returns 0 on failure. */
static int lv_big_map(lv_big_t *o, unsigned char fill, unsigned char poke, size_t extra)
{
    size_t page = (size_t) sysconf(_SC_PAGESIZE), need = (size_t) o->len + extra, q;
    o->fill = fill;
    o->poke = poke;
    if (fill) {
        o->span = (need + LV_BIG_CHUNK - 1) / LV_BIG_CHUNK * LV_BIG_CHUNK;
        if (!o->span) o->span = LV_BIG_CHUNK;
    } else {
        o->span = (need + page - 1) / page * page;
        if (!o->span) o->span = page;
    }
    o->base = (unsigned char *) mmap(NULL, o->span + page, PROT_NONE, MAP_PRIVATE | MAP_ANONYMOUS | MAP_NORESERVE, -1, 0);
    if (o->base == MAP_FAILED) return 0;
    if (fill) {
        int fd = memfd_create("lv-big", 0);
        unsigned char *c;
        if (fd < 0) { FILE *tf = tmpfile(); fd = tf ? fileno(tf) : -1; }
        if (fd < 0 || ftruncate(fd, (off_t) LV_BIG_CHUNK)) return 0;
        c = (unsigned char *) mmap(NULL, LV_BIG_CHUNK, PROT_READ | PROT_WRITE, MAP_SHARED, fd, 0);
        if (c == MAP_FAILED) return 0;
        memset(c, fill, LV_BIG_CHUNK);
        munmap(c, LV_BIG_CHUNK);
        for (q = 0; q < o->span; q += LV_BIG_CHUNK) {
            if (mmap(o->base + q, LV_BIG_CHUNK, PROT_READ | PROT_WRITE, MAP_PRIVATE | MAP_FIXED | MAP_NORESERVE, fd, 0) == MAP_FAILED) return 0;
        }
        close(fd);
    } else if (mprotect(o->base, o->span, PROT_READ | PROT_WRITE)) return 0;
    if (o->t == 'p' && o->off < o->len) o->base[o->off] = poke;
    return 1;
}
static void lv_big_readonly(lv_big_t *o) { mprotect(o->base, o->span, PROT_READ); }
static void lv_big_unmap(lv_big_t *o)
{
    if (o->base) munmap(o->base, o->span + (size_t) sysconf(_SC_PAGESIZE));
    o->base = NULL;
}

/* does the object hold its poke (within the first n bytes)? */
static int lv_big_haspoke(const lv_big_t *o, long long n) { return o->t == 'p' && o->off < o->len && o->off < n; }

/* first position below n at which a and b differ, or -1 (n <= both lengths) */
static long long lv_big_firstdiff(const lv_big_t *a, const lv_big_t *b, long long n)
{
    int pa = lv_big_haspoke(a, n), pb = lv_big_haspoke(b, n);
    if (pa && pb) return (a->off == b->off) ? -1 : ((a->off < b->off) ? a->off : b->off);
    if (pa) return a->off;
    if (pb) return b->off;
    return -1;
}
/* sign of memcmp over the first n bytes (poke > fill) */
static int lv_big_memcmp(const lv_big_t *a, const lv_big_t *b, long long n)
{
    long long d = lv_big_firstdiff(a, b, n);
    if (d < 0) return 0;
    return (lv_big_haspoke(a, n) && a->off == d) ? 1 : -1;
}
/* the lexicographic order of the two byte sequences: -1, 0, 1 */
static int lv_big_order(const lv_big_t *a, const lv_big_t *b)
{
    long long n = (a->len < b->len) ? a->len : b->len;
    int c = lv_big_memcmp(a, b, n);
    if (c) return c;
    return (a->len < b->len) ? -1 : ((a->len > b->len) ? 1 : 0);
}
static const char *lv_big_cmpname(long long c) { return (c < 0) ? "LESS" : ((c > 0) ? "GREATER" : "EQUAL"); }
static int lv_big_sign(long long c) { return (c < 0) ? -1 : ((c > 0) ? 1 : 0); }
#endif
