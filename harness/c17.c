/* C17 harness: spiftool_version_compare on two exactly sized heap strings (ASan redzones on
 * both sides), both argument orders, each call made twice: before the first the stack below
 * the caller is painted with 0xA5, before the second with 0x5A (a deep alloca frame), so that
 * a result that depends on uninitialised locals differs between the two calls. */
#include "common.h"
#include <alloca.h>

#define PAINT_BYTES 32768

static void __attribute__((noinline)) paint_stack(int v)
{
    volatile unsigned char *p = (volatile unsigned char *) alloca(PAINT_BYTES);
    memset((void *) p, v, PAINT_BYTES);
    __asm__ volatile("" : : "r"(p) : "memory");
}

static int __attribute__((noinline)) call(char *a, char *b, int paint)
{
    paint_stack(paint);
    return (int) spiftool_version_compare((spif_charptr_t) a, (spif_charptr_t) b);
}

static void run_case(int n, char **t)
{
    if (n == 3 && (!strcmp(t[0], "cmp") || !strcmp(t[0], "wf"))) {
        char *a = lv_unhex_str(t[1]);
        char *b = lv_unhex_str(t[2]);
        int r1 = call(a, b, 0xA5);
        int r2 = call(a, b, 0x5A);
        int r3 = call(b, a, 0xA5);
        int r4 = call(b, a, 0x5A);
        printf("%d %d %d %d", r1, r2, r3, r4);
        free(a); free(b);
    } else {
        printf("HARNESS-ERROR:bad-case");
    }
}
