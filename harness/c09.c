/* C09 / C11 harness: the config-file subsystem of src/conf.c driven through histories of
 * init / register / parse / free operations.  conf.c is #included (the check builds the
 * library without it) so that the static tables, indices and capacities are visible
 * without changing the source.  Every registered context gets its own recording handler
 * (the handler signature carries no context id), handlers return a fresh token as state.
 * Process creation is intercepted at link time (--wrap) and only counted.
 *
 * case:  hist TOKEN...        (at most 62 tokens)
 *   F<name>=<hex>   file <name> with the given content (created before the first operation)
 *   C<n>            a chain of n files c0 .. c<n-1>: c<k> holds "begin foo", "t<k>", "%include c<k+1>" (not the last), "u<k>", "end"
 *   T               TMPDIR names a directory that does not exist (for the whole case)
 *   P<n>            TMPDIR is the work directory spelled with n characters (padded with "/." and "/"): the name that
 *                   spiftool_temp_file builds in its 256-byte buffer gets longer than the buffer from n = 235 (%preproc) / 238 (%exec)
 *   E<hexname>=<v>  environment variable for the whole case (the environment is otherwise empty but for TMPDIR);
 *                   <v> is a value spec: parts joined by '+', a part is hex | - | *<n> (n times 'L') | *<n>/<hexpattern> (the
 *                   pattern repeated up to n bytes)
 *   D<name>=<g>,..  directory <name> (created before the first operation); each <g> is <count>x<len> (count regular files
 *                   whose names are len characters long), s (a subdirectory with a file in it), l (a dangling symbolic link),
 *                   k (a symbolic link to a regular file), p (a FIFO)
 *   O<v>            what an intercepted system() writes to the file behind the last " >" of a builtin_exec command
 *                   (value spec); without it the command has no output
 *   i               spifconf_init_subsystem          -> i      (before it the heap is dirtied: blocks of many sizes, among them every
 *                   size the four tables pass through, are allocated, filled with 0xA5 / 0x5A (alternating) and freed; every block
 *                   that grows through realloc gets a fresh block whose new part is painted with the same byte, and the sanitizer
 *                   fills every malloc'ed block: no part of a table is zero by luck)
 *   f               spifconf_free_subsystem          -> f:vars=<0|1>,tabs=<0|1>
 *   r<hexname>      spifconf_register_context        -> r=<id>
 *   R<n>            n contexts named g<handler no.>  -> R=<last id>
 *   b<n>            n built-ins named b<k>           -> b=<last id>     (each answers the string "<b>")
 *   p<name>         spifconf_parse(name, NULL, NULL) -> p[<events>]ret=..,fi=..,ci=..,open=..,sp=..
 *   q               spifconf_parse("a", NULL, NULL), only faults, termination and spawning observed -> q:ok, or q:SPAWNED when a process was
 *                   created although no file of the case contains a backquote, %exec or %preproc
 *   o<name>         spifconf_open_file(name) under seven stack paints -> o=<0|1|UNSTABLE>
 *   x<v>            spifconf_shell_expand on the text <v> (value spec) in a heap block of CONFIG_BUFF bytes -> x:ok when the result is
 *                   NULL, or is the block itself holding a terminated string shorter than CONFIG_BUFF (and no process was created for a
 *                   text without backquote or %exec); x:BAD-<why> otherwise.  What the sanitizers see is the main observation.
 *   s<name>         the result of expanding "%dirscan(<name>)" against the harness's own reading of the directory -> s:ok when every
 *                   word is the name of a regular file of the directory, no name occurs twice, the names come in readdir order and
 *                   nothing is missing when all names (each with its blank) fit the line buffer; s:BAD-<why> otherwise
 *   d               counters                         -> d=ci/cc,si/sc,fi/fc,bi/bc,v<n>
 *   l               ledger: live heap blocks relative to the start of the case -> l=<n>
 * case:  find <flen> <dlen|-1> <n1,n2,...|->   spifconf_find_file on strings of these lengths
 * case:  temp <n>                               spiftool_temp_file n times: mode and uniqueness
 * case:  tmpf <envk> <dirlen> <tplhex> <len> <cap> <umask> <picks> <nexist> <flags>
 *        one call of spiftool_temp_file(ftemplate, len): envk D (TMPDIR = the work directory spelled with dirlen characters), M (TMP
 *        instead), B (both, TMP nonexistent), K (TMPDIR names a directory that does not exist), N (neither: /tmp, real mkstemp,
 *        the six characters masked); ftemplate is a block of exactly cap bytes holding the template; the process umask; the
 *        candidates mkstemp tries, the first nexist of which exist already (mode 0644); flags F = fchmod fails
 *        -> ret=<ok|-1> tpl=<string in ftemplate afterwards, the directory as D+> um=<umask afterwards> mode=<of the descriptor> files=<listing>
 */
#include "common.h"
#include <stdint.h>
#include <stdarg.h>
#include <dirent.h>
#include <errno.h>
#include <fcntl.h>
#include <sys/stat.h>
#include <sys/types.h>
/* ASan runtime */
extern int __sanitizer_install_malloc_and_free_hooks(void (*mh)(const volatile void *, size_t), void (*fh)(const volatile void *));

#include <conf.c>

/* ---- process creation: counted, never performed ---- */
static long lv_spawns;
static unsigned char *lv_spawn_out;      /* token O: what a command run by builtin_exec "prints" */
static size_t lv_spawn_out_len;
int __wrap_system(const char *cmd)
{
    const char *gt = NULL, *q;
    lv_spawns++;
    if (!cmd || !lv_spawn_out) return 0;
    for (q = cmd; (q = strstr(q, " >")); q += 2) gt = q;
    if (gt && strstr(gt, "Eterm-exec-")) {      /* builtin_exec: "<command> ><temporary file>" */
        FILE *f = fopen(gt + 2, "wb");
        if (f) { if (lv_spawn_out_len) fwrite(lv_spawn_out, 1, lv_spawn_out_len, f); fclose(f); }
    }
    return 0;
}
FILE *__wrap_popen(const char *cmd, const char *m) { lv_spawns++; errno = ENOSYS; return NULL; }
pid_t __wrap_fork(void) { lv_spawns++; errno = ENOSYS; return -1; }
pid_t __wrap_vfork(void) { lv_spawns++; errno = ENOSYS; return -1; }
int __wrap_execve(const char *p, char *const a[], char *const e[]) { lv_spawns++; errno = ENOSYS; return -1; }
int __wrap_execv(const char *p, char *const a[]) { lv_spawns++; errno = ENOSYS; return -1; }
int __wrap_execvp(const char *p, char *const a[]) { lv_spawns++; errno = ENOSYS; return -1; }
int __wrap_posix_spawn(pid_t *pid, const char *p, const void *fa, const void *at, char *const a[], char *const e[])
{ lv_spawns++; return ENOSYS; }
int __wrap_posix_spawnp(pid_t *pid, const char *p, const void *fa, const void *at, char *const a[], char *const e[])
{ lv_spawns++; return ENOSYS; }

/* ---- no zero-filled memory by luck ---- */
const char *__asan_default_options(void) { return "max_malloc_fill_size=1048576"; }
static unsigned char lv_heap_paint = 0x5A;
size_t malloc_usable_size(void *p);
void *__real_realloc(void *p, size_t n);
void *__wrap_realloc(void *q, size_t n)
{
    /* a block that grows gets fresh memory: new block, painted, the old content copied, the old block released */
    size_t old = q ? malloc_usable_size(q) : 0;
    void *p;
    if (!n) return __real_realloc(q, n);
    p = malloc(n);
    if (!p) return NULL;
    memset(p, lv_heap_paint, n);
    if (q) { memcpy(p, q, old < n ? old : n); free(q); }
    return p;
}
static void lv_dirty_heap(void)
{
    static const size_t sz[] = { 8, 16, 24, 32, 48, 64, 80, 96, 112, 128, 144, 160, 176, 192, 208, 224, 240, 256, 288, 304, 320, 336,
                                 352, 400, 480, 512, 624, 640, 656, 800, 960, 1024, 1264, 1280, 1296, 1920, 2048, 2544, 2560, 2576,
                                 3840, 4096, 5120, 7680, 8192, 10240, 15360, 20480 };
    void *blk[4 * sizeof(sz) / sizeof(sz[0])];
    size_t i, n = 0;
    lv_heap_paint = (unsigned char) ~lv_heap_paint;
    for (i = 0; i < sizeof(sz) / sizeof(sz[0]); i++) {
        int r;
        for (r = 0; r < 4; r++) {
            void *p = malloc(sz[i]);
            if (p) { memset(p, lv_heap_paint, sz[i]); blk[n++] = p; }
        }
    }
    for (i = 0; i < n; i += 2) free(blk[i]);
    for (i = 1; i < n; i += 2) free(blk[i]);
}

/* ---- heap ledger ---- */
static volatile long lv_live;
static void lv_mhook(const volatile void *p, size_t n) { if (p) lv_live++; }
static void lv_fhook(const volatile void *p) { if (p) lv_live--; }

/* ---- recording handlers ---- */
#define TRACE_MAX (1 << 23)
static char lv_trace[TRACE_MAX];
static size_t lv_tlen;
static int lv_tover;
static uintptr_t lv_token;

static void tr(const char *fmt, ...)
{
    va_list ap;
    int k;
    if (lv_tlen + 64 >= TRACE_MAX) { lv_tover = 1; return; }
    va_start(ap, fmt);
    k = vsnprintf(lv_trace + lv_tlen, TRACE_MAX - lv_tlen, fmt, ap);
    va_end(ap);
    if (k > 0) lv_tlen += (size_t) k;
}
static void tr_hex(const unsigned char *s, size_t n)
{
    static const char hd[] = "0123456789abcdef";
    size_t i;
    if (lv_tlen + 2 * n + 8 >= TRACE_MAX) { lv_tover = 1; return; }
    if (!n) { lv_trace[lv_tlen++] = '-'; return; }
    for (i = 0; i < n; i++) { lv_trace[lv_tlen++] = hd[s[i] >> 4]; lv_trace[lv_tlen++] = hd[s[i] & 15]; }
}
static void *rec(int hid, char *b, void *st)
{
    uintptr_t out = ++lv_token;
    if (lv_tlen) tr(",");
    /* the begin and end calls pass the one-character strings "\001" and "\002"; a text line that merely starts with one of
     * these bytes is text (a line that consists of exactly that byte cannot be told from the call: the driver prints it alike) */
    if (b[0] == SPIFCONF_BEGIN_CHAR && !b[1]) tr("%db%lu>%lu", hid, (unsigned long) (uintptr_t) st, (unsigned long) out);
    else if (b[0] == SPIFCONF_END_CHAR && !b[1]) tr("%de%lu>%lu", hid, (unsigned long) (uintptr_t) st, (unsigned long) out);
    else { tr("%dt", hid); tr_hex((unsigned char *) b, strlen(b)); tr(":%lu>%lu", (unsigned long) (uintptr_t) st, (unsigned long) out); }
    return (void *) out;
}
#define HD(a, b, c) static void *hh_##a##b##c(spif_charptr_t x, void *s) { return rec(a * 100 + b * 10 + c, (char *) x, s); }
#define HT(a, b, c) hh_##a##b##c,
#define R10(M, a, b) M(a, b, 0) M(a, b, 1) M(a, b, 2) M(a, b, 3) M(a, b, 4) M(a, b, 5) M(a, b, 6) M(a, b, 7) M(a, b, 8) M(a, b, 9)
#define R100(M, a) R10(M, a, 0) R10(M, a, 1) R10(M, a, 2) R10(M, a, 3) R10(M, a, 4) R10(M, a, 5) R10(M, a, 6) R10(M, a, 7) R10(M, a, 8) R10(M, a, 9)
R100(HD, 0) R100(HD, 1) R100(HD, 2) R100(HD, 3) R100(HD, 4) R100(HD, 5)
static ctx_handler_t lv_handlers[] = { R100(HT, 0) R100(HT, 1) R100(HT, 2) R100(HT, 3) R100(HT, 4) R100(HT, 5) };
#define NHANDLERS 600
static int lv_nexth;

static spif_charptr_t lv_dummy_builtin(spif_charptr_t p) { return (spif_charptr_t) strdup("<b>"); }

/* ---- may the text of this case spawn a process?  (a backquote, or '%' - optionally followed by
 * blanks or quote characters - and the word exec or preproc, case-insensitively) ---- */
static int lv_may_spawn;
static int text_may_spawn(const unsigned char *d, size_t n)
{
    size_t i, j;
    for (i = 0; i < n; i++) {
        if (d[i] == '`') return 1;
        if (d[i] == '%') {
            j = i + 1;
            while (j < n && (d[j] == ' ' || (d[j] >= 9 && d[j] <= 13) || d[j] == '"' || d[j] == '\'')) j++;
            if (j + 4 <= n && !strncasecmp((const char *) d + j, "exec", 4)) return 1;
            if (j + 7 <= n && !strncasecmp((const char *) d + j, "preproc", 7)) return 1;
        }
    }
    return 0;
}
static void scan_spawn(const unsigned char *d, size_t n) { if (text_may_spawn(d, n)) lv_may_spawn = 1; }

/* value spec: parts joined by '+'; a part is hex | - | *<n> (n times 'L') | *<n>/<hexpattern> (the pattern repeated up to n bytes).
 * The result is an exact block of *len + 1 bytes, NUL after the value */
static unsigned char *lv_valspec(const char *v, size_t *len)
{
    unsigned char *r = (unsigned char *) malloc(1);
    size_t total = 0;
    char *c = strdup(v), *part, *save = NULL;
    for (part = strtok_r(c, "+", &save); part; part = strtok_r(NULL, "+", &save)) {
        if (part[0] == '*') {
            size_t n = (size_t) strtoul(part + 1, NULL, 10), pl = 1, i;
            const char *sl = strchr(part, '/');
            unsigned char *pat = NULL;
            if (sl) pat = lv_unhex(sl + 1, &pl);
            r = (unsigned char *) realloc(r, total + n + 1);
            for (i = 0; i < n; i++) r[total + i] = (pat && pl) ? pat[i % pl] : 'L';
            total += n;
            free(pat);
        } else {
            size_t n;
            unsigned char *b = lv_unhex(part, &n);
            r = (unsigned char *) realloc(r, total + n + 1);
            if (n) memcpy(r + total, b, n);
            total += n;
            free(b);
        }
    }
    free(c);
    {   /* exact block */
        unsigned char *e = (unsigned char *) malloc(total + 1);
        if (total) memcpy(e, r, total);
        e[total] = 0;
        free(r);
        *len = total;
        return e;
    }
}

/* ---- helpers ---- */
static char lv_dir[4096];

static int count_fds(void)
{
    DIR *d = opendir("/proc/self/fd");
    struct dirent *e;
    int n = 0;
    if (!d) return -1;
    while ((e = readdir(d))) if (e->d_name[0] != '.') n++;
    closedir(d);
    return n;
}
/* descriptors left open by a case (a config file that includes itself leaves 256 of them when the 8-bit
 * file index wraps) are closed before the next case so that fopen() keeps succeeding */
static void close_above(int keep)
{
    DIR *d = opendir("/proc/self/fd");
    struct dirent *e;
    int fds[4096], n = 0, k, self;
    if (!d) return;
    self = dirfd(d);
    while ((e = readdir(d)) && n < 4096) {
        int fd = atoi(e->d_name);
        if (e->d_name[0] != '.' && fd > keep && fd != self) fds[n++] = fd;
    }
    closedir(d);
    for (k = 0; k < n; k++) close(fds[k]);
}
static void clean_dir(const char *dir)
{
    DIR *d = opendir(dir);
    struct dirent *e;
    char p[8192];
    struct stat st;
    if (!d) return;
    while ((e = readdir(d))) {
        if (!strcmp(e->d_name, ".") || !strcmp(e->d_name, "..")) continue;
        snprintf(p, sizeof(p), "%s/%s", dir, e->d_name);
        if (!lstat(p, &st) && S_ISDIR(st.st_mode)) { clean_dir(p); rmdir(p); }
        else unlink(p);
    }
    closedir(d);
}

/* token D: a directory with regular files whose names have given lengths, and things that are not regular files */
static int make_dir(const char *name, const char *spec)
{
    char *c = strdup(spec), *g, path[8192];
    int grp = 0;
    if (mkdir(name, 0700)) { free(c); return -1; }
    for (g = strtok(c, ","); g; g = strtok(NULL, ","), grp++) {
        char *x = strchr(g, 'x');
        if (x) {
            long cnt = atol(g), len = atol(x + 1), i;
            char nm[300], dg[32];
            if (len < 1 || len > 255) { free(c); return -1; }
            for (i = 0; i < cnt; i++) {
                /* the index in base 36, right-aligned in a name of upper-case letters */
                int nd = 0, fd;
                long q = i;
                char rev[32];
                do { rev[nd++] = "0123456789abcdefghijklmnopqrstuvwxyz"[q % 36]; q /= 36; } while (q);
                { int z; for (z = 0; z < nd; z++) dg[z] = rev[nd - 1 - z]; dg[nd] = 0; }
                if (nd > len) { free(c); return -1; }
                memset(nm, 'A' + grp % 26, (size_t) len);
                memcpy(nm + len - nd, dg, (size_t) nd);
                nm[len] = 0;
                snprintf(path, sizeof(path), "%s/%s", name, nm);
                fd = open(path, O_WRONLY | O_CREAT | O_EXCL, 0600);
                if (fd < 0) { free(c); return -1; }
                close(fd);
            }
        } else if (!strcmp(g, "s")) {
            int fd;
            snprintf(path, sizeof(path), "%s/subdir", name);
            if (mkdir(path, 0700)) { free(c); return -1; }
            snprintf(path, sizeof(path), "%s/subdir/inner", name);
            fd = open(path, O_WRONLY | O_CREAT, 0600);
            if (fd >= 0) close(fd);
        } else if (!strcmp(g, "l")) {
            snprintf(path, sizeof(path), "%s/dangling", name);
            if (symlink("nowhere-lv", path)) { free(c); return -1; }
        } else if (!strcmp(g, "k")) {
            int fd;
            snprintf(path, sizeof(path), "%s/target", name);
            fd = open(path, O_WRONLY | O_CREAT, 0600);
            if (fd >= 0) close(fd);
            snprintf(path, sizeof(path), "%s/link", name);
            if (symlink("target", path)) { free(c); return -1; }
        } else if (!strcmp(g, "p")) {
            snprintf(path, sizeof(path), "%s/fifo", name);
            if (mkfifo(path, 0600)) { free(c); return -1; }
        } else { free(c); return -1; }
    }
    free(c);
    return 0;
}

/* op s: "%dirscan(<name>)" against the harness's own reading of the directory */
static const char *check_dirscan(const char *name)
{
    static char why[64];
    char **names = NULL, *blk, *r, *w, path[8192];
    size_t nn = 0, cap = 0, total = 0, k, next = 0;
    DIR *d = opendir(name);
    struct dirent *e;
    struct stat st;
    const char *res = "ok";
    if (!d) return "HARNESS-ERROR:opendir";
    while ((e = readdir(d))) {
        snprintf(path, sizeof(path), "%s/%s", name, e->d_name);
        if (stat(path, &st) || !S_ISREG(st.st_mode)) continue;
        if (nn == cap) { cap = cap ? 2 * cap : 64; names = (char **) realloc(names, cap * sizeof(char *)); }
        names[nn++] = strdup(e->d_name);
        total += strlen(e->d_name) + 1;
    }
    closedir(d);
    blk = (char *) malloc(CONFIG_BUFF);
    memset(blk, 0x5a, CONFIG_BUFF);
    snprintf(blk, CONFIG_BUFF, "%%dirscan(%s)", name);
    r = (char *) spifconf_shell_expand((spif_charptr_t) blk);
    if (!r) res = "BAD-null";
    else if (r != blk) res = "BAD-not-in-place";
    else if (!memchr(blk, 0, CONFIG_BUFF)) res = "BAD-unterminated";
    else {
        size_t rl = strlen(blk), found = 0;
        for (w = blk; *w; ) {
            char *sp = strchr(w, ' ');
            size_t wl = sp ? (size_t) (sp - w) : strlen(w);
            if (!sp && wl == 0) break;
            if (!sp) {
                /* the last word without its blank: only where the text was cut at the line limit */
                if (rl + 2 < CONFIG_BUFF) { res = "BAD-last-word-without-blank"; break; }
                for (k = next; k < nn; k++) if (!strncmp(names[k], w, wl)) break;
                if (k == nn) res = "BAD-cut-word-not-a-prefix-of-a-name";
                break;
            }
            for (k = next; k < nn; k++) if (strlen(names[k]) == wl && !memcmp(names[k], w, wl)) break;
            if (k == nn) { res = "BAD-word-not-a-file-of-the-directory-in-order"; break; }
            next = k + 1;
            found++;
            w = sp + 1;
        }
        if (!strcmp(res, "ok") && total + 1 < CONFIG_BUFF - 1 && found != nn) {
            snprintf(why, sizeof(why), "BAD-%lu-of-%lu-names", (unsigned long) found, (unsigned long) nn);
            res = why;
        }
    }
    free(blk);
    for (k = 0; k < nn; k++) free(names[k]);
    free(names);
    return res;
}
static void __attribute__((noinline)) paint_stack(const char *pat, size_t plen, size_t shift)
{
    volatile char a[49152];
    size_t i;
    for (i = 0; i < sizeof(a); i++) a[i] = pat[(i + shift) % plen];
    __asm__ volatile("" ::: "memory");
}
static int __attribute__((noinline)) open_once(char *name)
{
    FILE *fp = spifconf_open_file((spif_charptr_t) name);
    if (fp) { fclose(fp); return 1; }
    return 0;
}
static long vars_len(void)
{
    long n = 0;
    spifconf_var_t *v;
    for (v = spifconf_vars; v; v = v->next) n++;
    return n;
}

/* the stream behind libast's stderr: line-buffered, so one call is one message line (a FATAL line that follows an
 * unterminated trace arrives in the middle of the piece, hence the search) */
static ssize_t lv_msg_write(void *cookie, const char *buf, size_t n)
{
    static const char fatal[] = "lv:  FATAL:  ";
    const char *hit = (const char *) memmem(buf, n, fatal, sizeof(fatal) - 1);
    USE_VAR(cookie);
    if (hit) {
        size_t off = (size_t) (hit - buf);
        while (off < n) { ssize_t w = write(2, buf + off, n - off); if (w <= 0) break; off += (size_t) w; }
    }
    return (ssize_t) n;
}

static void remove_work_dir(void)
{
    if (!lv_dir[0]) return;
    clean_dir(lv_dir);
    if (!chdir("..")) rmdir(lv_dir);
}

static void setup_dir(const char *casefile)
{
    static int done;
    char *sl;
    if (done) return;
    done = 1;
    /* the work directory: next to the case file and named after it (cases-main-<pid>.txt -> fs-cases-main-<pid>), so that
     * two runs of one property (quick and thorough, two trees) do not share it; removed again when the run ends normally */
    if (!realpath(casefile, lv_dir)) snprintf(lv_dir, sizeof(lv_dir) - 16, "%s", casefile);
    sl = strrchr(lv_dir, '/');
    {
        char base[256];
        char *dot;
        snprintf(base, sizeof(base), "%s", sl ? sl + 1 : lv_dir);
        if ((dot = strrchr(base, '.'))) *dot = 0;
        if (sl) *sl = 0; else strcpy(lv_dir, ".");
        snprintf(lv_dir + strlen(lv_dir), sizeof(lv_dir) - strlen(lv_dir), "/fs-%s", base);
    }
    mkdir(lv_dir, 0700);
    if (chdir(lv_dir)) { printf("HARNESS-ERROR:chdir"); exit(3); }
    atexit(remove_work_dir);
    setenv("TMPDIR", lv_dir, 1);
    libast_program_name = "lv";
    libast_program_version = "1.0";
    {   /* libast's messages go to the FILE stderr and are dropped (a random file is thousands of parse errors), all but
         * the line libast_fatal_error prints before it leaves through exit(-1): that one goes to descriptor 2, which the
         * sanitizers keep, so that the check can tell a failed ASSERT (fatal by design at runtime debug level >= 1, e.g.
         * len > 0 in spiftool_temp_file) from any other exit */
        static cookie_io_functions_t io = { NULL, lv_msg_write, NULL, NULL };
        static char line[1 << 16];
        FILE *flt = fopencookie(NULL, "w", io);
        if (flt) { setvbuf(flt, line, _IOLBF, sizeof(line)); stderr = flt; }
    }
    __sanitizer_install_malloc_and_free_hooks(lv_mhook, lv_fhook);
}

static void do_hist(int n, char **t)
{
    int k;
    long live0;
    static int fd_keep = -1;
    if (fd_keep < 0) { int fd = open("/dev/null", O_RDONLY); fd_keep = fd; close(fd); fd_keep--; }
    close_above(fd_keep);
    clean_dir(lv_dir);
    lv_may_spawn = 0;
    clearenv();
    free(lv_spawn_out);
    lv_spawn_out = NULL;
    lv_spawn_out_len = 0;
    for (k = 1; k < n; k++) {
        if (t[k][0] == 'E') {
            char *eq = strchr(t[k], '='), *nm;
            unsigned char *v;
            size_t vl;
            if (!eq) { printf("HARNESS-ERROR:env"); return; }
            *eq = 0;
            nm = lv_unhex_str(t[k] + 1);
            v = lv_valspec(eq + 1, &vl);
            if (setenv(nm, (char *) v, 1)) { printf("HARNESS-ERROR:setenv"); return; }
            free(nm);
            free(v);
        }
        if (t[k][0] == 'D') {
            char *eq = strchr(t[k], '=');
            if (!eq) { printf("HARNESS-ERROR:dir"); return; }
            *eq = 0;
            if (make_dir(t[k] + 1, eq + 1)) { printf("HARNESS-ERROR:mkdir"); return; }
        }
        if (t[k][0] == 'O') lv_spawn_out = lv_valspec(t[k] + 1, &lv_spawn_out_len);
        if (t[k][0] == 'C') {
            int cn = atoi(t[k] + 1), j;
            for (j = 0; j < cn; j++) {
                char nm[32];
                FILE *f;
                snprintf(nm, sizeof(nm), "c%d", j);
                f = fopen(nm, "wb");
                if (!f) { printf("HARNESS-ERROR:create"); return; }
                fprintf(f, "<lv-1.0>\nbegin foo\nt%d\n", j);
                if (j + 1 < cn) fprintf(f, "%%include c%d\n", j + 1);
                fprintf(f, "u%d\nend\n", j);
                fclose(f);
            }
        }
        if (t[k][0] == 'F') {
            char *eq = strchr(t[k], '=');
            size_t len;
            unsigned char *data;
            FILE *f;
            if (!eq) { printf("HARNESS-ERROR:file"); return; }
            *eq = 0;
            data = lv_unhex(eq + 1, &len);
            f = fopen(t[k] + 1, "wb");
            if (!f) { printf("HARNESS-ERROR:create"); return; }
            if (len) fwrite(data, 1, len, f);
            fclose(f);
            scan_spawn(data, len);
            free(data);
        }
    }
    {   /* "T": the temporary directory does not exist for this case; "P<n>": its name is n characters long */
        int broken = 0;
        long padto = 0;
        for (k = 1; k < n; k++) {
            if (!strcmp(t[k], "T")) broken = 1;
            if (t[k][0] == 'P') padto = atol(t[k] + 1);
        }
        if (padto) {
            size_t dl = strlen(lv_dir);
            char *pad;
            if ((size_t) padto < dl || padto > 100000) { printf("HARNESS-ERROR:pad"); return; }
            pad = (char *) malloc((size_t) padto + 1);
            memcpy(pad, lv_dir, dl);
            while (dl + 2 <= (size_t) padto) { pad[dl++] = '/'; pad[dl++] = '.'; }
            if (dl < (size_t) padto) pad[dl++] = '/';
            pad[dl] = 0;
            setenv("TMPDIR", pad, 1);
            free(pad);
        } else {
            setenv("TMPDIR", broken ? "/nonexistent-lv-tmp" : lv_dir, 1);
        }
    }
    lv_nexth = 0;
    lv_token = 0;
    lv_spawns = 0;
    live0 = lv_live;
    for (k = 1; k < n; k++) {
        char *a = t[k] + 1;
        switch (t[k][0]) {
        case 'F':
        case 'T':
        case 'C':
        case 'E':
        case 'D':
        case 'O':
        case 'P':
            continue;
        case 'x': {
            size_t len;
            unsigned char *text = lv_valspec(a, &len);
            long sp0 = lv_spawns;
            char *blk, *r;
            int allowed;
            if (len >= CONFIG_BUFF) { printf("HARNESS-ERROR:text-too-long "); free(text); break; }
            allowed = text_may_spawn(text, len);
            blk = (char *) malloc(CONFIG_BUFF);
            memset(blk, 0x5a, CONFIG_BUFF);
            memcpy(blk, text, len + 1);
            free(text);
            r = (char *) spifconf_shell_expand((spif_charptr_t) blk);
            if (r && r != blk) printf("x:BAD-not-in-place ");
            else if (r && !memchr(blk, 0, CONFIG_BUFF)) printf("x:BAD-unterminated ");
            else if (lv_spawns != sp0 && !allowed) printf("x:BAD-spawned ");
            else printf("x:ok ");
            free(blk);
            break;
        }
        case 's':
            printf("s:%s ", check_dirscan(a));
            break;
        case 'i':
            lv_dirty_heap();
            spifconf_init_subsystem();
            printf("i ");
            break;
        case 'f':
            spifconf_free_subsystem();
            printf("f:vars=%d,tabs=%d ", spifconf_vars ? 1 : 0, (context || ctx_state || fstate || builtins) ? 1 : 0);
            break;
        case 'r': {
            char *nm = lv_unhex_str(a);
            unsigned char id = spifconf_register_context((spif_charptr_t) nm, lv_handlers[lv_nexth % NHANDLERS]);
            lv_nexth++;
            free(nm);
            printf("r=%d ", (int) id);
            break;
        }
        case 'R': {
            int cnt = atoi(a), j;
            unsigned char id = 0;
            for (j = 0; j < cnt; j++) {
                char nm[32];
                snprintf(nm, sizeof(nm), "g%d", lv_nexth);
                id = spifconf_register_context((spif_charptr_t) nm, lv_handlers[lv_nexth % NHANDLERS]);
                lv_nexth++;
            }
            printf("R=%d ", (int) id);
            break;
        }
        case 'b': {
            int cnt = atoi(a), j;
            unsigned char id = 0;
            for (j = 0; j < cnt; j++) {
                char nm[32];
                snprintf(nm, sizeof(nm), "b%d", j);
                id = spifconf_register_builtin(nm, lv_dummy_builtin);
            }
            printf("b=%d ", (int) id);
            break;
        }
        case 'p': {
            int fd0 = count_fds(), fd1;
            long sp0 = lv_spawns;
            spif_charptr_t r;
            lv_tlen = 0;
            lv_tover = 0;
            r = spifconf_parse((spif_charptr_t) a, NULL, NULL);
            fd1 = count_fds();
            lv_trace[lv_tlen] = 0;
            printf("p[");
            fputs(lv_tover ? "OVERFLOW" : lv_trace, stdout);
            printf("]ret=%d,fi=%d,ci=%d,open=%d,sp=%ld ", r ? 1 : 0, (int) fstate_idx, (int) ctx_state_idx, fd1 - fd0,
                   lv_spawns - sp0);
            if (r) free(r);
            break;
        }
        case 'q': {     /* quiet parse of file "a": only faults, termination and spawning are observed */
            long sp0 = lv_spawns;
            spif_charptr_t r;
            lv_tlen = 0;
            lv_tover = 0;
            r = spifconf_parse((spif_charptr_t) "a", NULL, NULL);
            printf((lv_spawns - sp0 == 0 || lv_may_spawn) ? "q:ok " : "q:SPAWNED ");
            if (r) free(r);
            break;
        }
        case 'o': {
            static const char pat[] = "<lv-1>\n";
            int s, first = -1, unstable = 0;
            for (s = 0; s < 7; s++) {
                int r;
                paint_stack(pat, 7, (size_t) s);
                r = open_once(a);
                if (first < 0) first = r; else if (r != first) unstable = 1;
            }
            {
                static const char pat2[] = "\xa5";
                int r;
                paint_stack(pat2, 1, 0);
                r = open_once(a);
                if (r != first) unstable = 1;
            }
            if (unstable) printf("o=UNSTABLE "); else printf("o=%d ", first);
            break;
        }
        case 'd':
            printf("d=%d/%d,%d/%d,%d/%d,%d/%d,v%ld ", (int) ctx_idx, (int) ctx_cnt, (int) ctx_state_idx, (int) ctx_state_cnt,
                   (int) fstate_idx, (int) fstate_cnt, (int) builtin_idx, (int) builtin_cnt, vars_len());
            break;
        case 'l':
            printf("l=%ld ", lv_live - live0);
            break;
        default:
            printf("HARNESS-ERROR:op ");
        }
        fflush(stdout);
    }
}

static char *mkstr(long len, char c)
{
    char *s = (char *) malloc((size_t) len + 1);
    memset(s, c, (size_t) len);
    s[len] = 0;
    return s;
}

static void do_find(int n, char **t)
{
    long flen = atol(t[1]), dlen = atol(t[2]);
    char *file = mkstr(flen, 'f'), *dir = (dlen >= 0) ? mkstr(dlen, 'd') : NULL;
    char *path = NULL, *q;
    size_t total = 1;
    spif_charptr_t r;
    if (t[3][0] != '-') {
        char *c = strdup(t[3]), *s;
        for (s = strtok(c, ","); s; s = strtok(NULL, ",")) total += (size_t) atol(s) + 1;
        free(c);
        path = (char *) malloc(total);
        q = path;
        c = strdup(t[3]);
        for (s = strtok(c, ","); s; s = strtok(NULL, ",")) {
            long l = atol(s);
            if (q != path) *q++ = ':';
            /* a component: 'p' characters; when it is at least 2 long it ends in '/' every other time */
            memset(q, 'p', (size_t) l);
            if (l >= 2 && (l & 1)) q[l - 1] = '/';
            q += l;
        }
        *q = 0;
        free(c);
    }
    r = spifconf_find_file((spif_charptr_t) file, (spif_charptr_t) dir, (spif_charptr_t) path);
    printf("find=%s", r ? "found" : "NULL");
    free(file);
    free(dir);
    free(path);
}

static void do_temp(int n, char **t)
{
    int cnt = atoi(t[1]), k, j, bad_mode = 0, dup = 0, fail = 0, notin = 0;
    char **names = (char **) calloc((size_t) cnt, sizeof(char *));
    size_t dl = strlen(lv_dir);
    clean_dir(lv_dir);
    for (k = 0; k < cnt; k++) {
        char buf[512];
        struct stat st;
        int fd;
        mode_t um = umask((k & 1) ? 0 : 0022);      /* the caller's umask must not matter */
        strcpy(buf, "lvtmp-");
        fd = spiftool_temp_file((spif_charptr_t) buf, sizeof(buf));
        umask(um);
        if (fd < 0) { fail++; names[k] = strdup(""); continue; }
        if (fstat(fd, &st) || (st.st_mode & 0777) != 0600) bad_mode++;
        if (strncmp(buf, lv_dir, dl) || buf[dl] != '/') notin++;
        names[k] = strdup(buf);
        close(fd);
    }
    for (k = 0; k < cnt; k++) for (j = 0; j < k; j++) if (!strcmp(names[k], names[j])) dup++;
    for (k = 0; k < cnt; k++) { if (names[k][0]) unlink(names[k]); free(names[k]); }
    free(names);
    printf("temp fail=%d badmode=%d dup=%d outside=%d", fail, bad_mode, dup, notin);
}

/* ---- spiftool_temp_file, one call with mkstemp and fchmod under the case's control ----
 * mkstemp is glibc's algorithm with the case's candidate list in place of the random characters: EINVAL unless the name
 * ends in XXXXXX, each candidate opened with O_RDWR|O_CREAT|O_EXCL and mode 0600 (the kernel applies the umask), EEXIST
 * moves on.  Outside a tmpf case both wrappers pass through. */
int __real_mkstemp(char *tpl);
int __real_fchmod(int fd, mode_t m);
static int lv_tmpf_active, lv_tmpf_fchmod_fails, lv_tmpf_npicks;
static char **lv_tmpf_picks;
int __wrap_mkstemp(char *tpl)
{
    size_t l;
    int k;
    if (!lv_tmpf_active) return __real_mkstemp(tpl);
    l = strlen(tpl);
    if (l < 6 || strcmp(tpl + l - 6, "XXXXXX")) { errno = EINVAL; return -1; }
    for (k = 0; k < lv_tmpf_npicks; k++) {
        int fd;
        memcpy(tpl + l - 6, lv_tmpf_picks[k], 6);
        fd = open(tpl, O_RDWR | O_CREAT | O_EXCL, 0600);
        if (fd >= 0) return fd;
        if (errno != EEXIST) return -1;
    }
    errno = EEXIST;
    return -1;
}
int __wrap_fchmod(int fd, mode_t m)
{
    if (lv_tmpf_active && lv_tmpf_fchmod_fails) { errno = EPERM; return -1; }
    return __real_fchmod(fd, m);
}

static int lv_cmpstr(const void *a, const void *b) { return strcmp(*(char *const *) a, *(char *const *) b); }

/* tmpf <envk> <dirlen> <tplhex> <len> <cap> <umask-octal> <picks> <nexist> <flags> */
static void do_tmpf(int n, char **t)
{
    const char *envk = t[1];
    long dirlen = atol(t[2]), len = atol(t[4]), cap = atol(t[5]);
    mode_t um = (mode_t) strtol(t[6], NULL, 8), um_after, um_saved;
    int nexist = atoi(t[8]), k, fd, real = !strcmp(envk, "N"), nodir = !strcmp(envk, "K");
    size_t tl = 0, dl = strlen(lv_dir);
    unsigned char *tplb = strcmp(t[3], "-") ? lv_unhex(t[3], &tl) : NULL;
    char *dir = NULL, *buf, *picks = strdup(t[7]);
    char *pickv[64];
    int npicks = 0;
    USE_VAR(n);
    clean_dir(lv_dir);
    if (strcmp(picks, "-")) { char *q; for (q = strtok(picks, ","); q && npicks < 64; q = strtok(NULL, ",")) { if (strlen(q) != 6) { printf("HARNESS-ERROR:pick"); return; } pickv[npicks++] = q; } }
    if (!real) {
        if ((size_t) dirlen < dl || dirlen > 100000) { printf("HARNESS-ERROR:pad"); return; }
        dir = (char *) malloc((size_t) dirlen + 1);
        memcpy(dir, lv_dir, dl);
        if (nodir) { if ((size_t) dirlen < dl + 2) { printf("HARNESS-ERROR:pad"); return; } dir[dl++] = '/'; dir[dl++] = 'q'; }     /* <work>/q... does not exist */
        while (dl + 2 <= (size_t) dirlen) { dir[dl++] = '/'; dir[dl++] = '.'; }
        if (dl < (size_t) dirlen) dir[dl++] = '/';
        dir[dl] = 0;
    }
    unsetenv("TMPDIR"); unsetenv("TMP");
    if (!strcmp(envk, "D") || !strcmp(envk, "K") || !strcmp(envk, "B")) setenv("TMPDIR", dir, 1);
    if (!strcmp(envk, "M")) setenv("TMP", dir, 1);
    if (!strcmp(envk, "B")) setenv("TMP", "/nonexistent-lv", 1);
    for (k = 0; k < nexist && k < npicks; k++) {       /* candidates that exist already: <dir>/<template><pick>, mode 0644 */
        char *p = (char *) malloc((size_t) dirlen + tl + 16);
        int f;
        sprintf(p, "%s/%.*s%s", dir, (int) tl, tplb ? (char *) tplb : "", pickv[k]);
        f = open(p, O_WRONLY | O_CREAT | O_EXCL, 0644);
        if (f < 0) { printf("HARNESS-ERROR:pre-create"); return; }
        __real_fchmod(f, 0644);
        close(f);
        free(p);
    }
    if (cap < (long) tl + 1 || len > cap) { printf("HARNESS-ERROR:cap"); return; }
    buf = (char *) malloc((size_t) cap);               /* exactly cap cells: one byte too many is seen */
    if (tl) memcpy(buf, tplb, tl);
    buf[tl] = 0;
    lv_tmpf_picks = pickv; lv_tmpf_npicks = npicks; lv_tmpf_fchmod_fails = strchr(t[9], 'F') != NULL;
    lv_tmpf_active = !real;
    um_saved = umask(um);
    fd = spiftool_temp_file((spif_charptr_t) buf, (size_t) len);
    um_after = umask(um_saved);
    lv_tmpf_active = 0;
    printf("ret=%s tpl=", fd >= 0 ? "ok" : "-1");
    {
        size_t sl = strlen(buf), j;
        if (real && fd >= 0) unlink(buf);                  /* the file in /tmp is removed under its real name */
        if (real && fd >= 0 && sl >= 6) memset(buf + sl - 6, 'X', 6);     /* then the six characters are masked */
        if (!real && dirlen > 0 && sl >= (size_t) dirlen && !memcmp(buf, dir, (size_t) dirlen)) { printf("D+"); for (j = (size_t) dirlen; j < sl; j++) printf("%02x", (unsigned char) buf[j]); }
        else if (!real && dirlen > 0 && sl > 0 && sl <= (size_t) dirlen && !memcmp(buf, dir, sl)) printf("d%lu", (unsigned long) sl);
        else if (!sl) printf("-");
        else for (j = 0; j < sl; j++) printf("%02x", (unsigned char) buf[j]);
    }
    printf(" um=%o mode=", (unsigned) um_after);
    if (fd >= 0) { struct stat st; if (fstat(fd, &st)) printf("?"); else printf("%o", (unsigned) (st.st_mode & 07777)); } else printf("-");
    printf(" files=");
    if (real || nodir) printf("-");
    else {
        DIR *d = opendir(lv_dir);
        struct dirent *e;
        char *names[256];
        int nn = 0;
        while (d && (e = readdir(d)) && nn < 256) if (strcmp(e->d_name, ".") && strcmp(e->d_name, "..")) names[nn++] = strdup(e->d_name);
        if (d) closedir(d);
        qsort(names, (size_t) nn, sizeof(char *), lv_cmpstr);
        if (!nn) printf("-");
        for (k = 0; k < nn; k++) {
            struct stat st;
            char p[8192];
            size_t j;
            snprintf(p, sizeof(p), "%s/%s", lv_dir, names[k]);
            if (k) printf(",");
            for (j = 0; names[k][j]; j++) printf("%02x", (unsigned char) names[k][j]);
            if (lstat(p, &st)) printf(":?"); else printf(":%o", (unsigned) (st.st_mode & 07777));
            free(names[k]);
        }
    }
    if (fd >= 0) close(fd);
    clean_dir(lv_dir);
    unsetenv("TMP");
    setenv("TMPDIR", lv_dir, 1);
    free(buf); free(dir); free(picks); free(tplb);
}

static char *lv_casefile;
static void run_case(int n, char **t)
{
    setup_dir(lv_casefile ? lv_casefile : "./cases");
    if (n >= 1 && !strcmp(t[0], "hist")) do_hist(n, t);
    else if (n == 4 && !strcmp(t[0], "find")) do_find(n, t);
    else if (n == 2 && !strcmp(t[0], "temp")) do_temp(n, t);
    else if (n == 10 && !strcmp(t[0], "tmpf")) do_tmpf(n, t);
    else printf("HARNESS-ERROR:bad-case");
}

/* the work directory is derived from the case file's location (argv[1]) */
__attribute__((constructor)) static void lv_ctor(void)
{
    FILE *f = fopen("/proc/self/cmdline", "r");
    static char buf[8192];
    size_t n, i;
    if (!f) return;
    n = fread(buf, 1, sizeof(buf) - 1, f);
    fclose(f);
    buf[n] = 0;
    for (i = 0; i < n && buf[i]; i++);
    if (i + 1 < n) { lv_casefile = buf + i + 1; }
}
