/* Ownership / object-protocol harness (properties C05 and C06, model coq/Own/World.v,
 * driver driver/c05_main.ml - the case grammar and the output format are documented there).
 *
 * One case line = one PROGRAM over handles.  After every operation the harness prints
 * "<result>/<ledger>" where ledger = live heap blocks minus the live blocks at program start.
 *
 * Two builds of this file:
 *   default      with ASan/UBSan; malloc & co. are wrapped (-Wl,--wrap=...) only to COUNT live blocks
 *   -DLV_BUMP    without sanitizers; the wrap layer IS the allocator: a monotone bump allocator
 *                (addresses grow in allocation order, nothing is reused, freed blocks are poisoned)
 *                that keeps a live set: free/realloc of a pointer that is not live = FAULT:Bad_free.
 *                Comparisons by address (spif_obj_comp) are deterministic in this build.
 * pcre_malloc/pcre_free are pointed at the same layer so that compiled patterns are counted.
 * getservbyname/getprotobyname are interposed and answer "unknown" (the url model's oracle).
 *
 * Program errors are detected BEFORE the library is called, exactly where the model faults:
 * a handle the program does not hold -> FAULT:Use_after_free; an operation applied to an object of
 * the wrong class, init of an object that still owns storage -> FAULT:Abort.
 *
 * Case "big comp <class> <A> <B>" (class = mbuff | str): objects of 2^31-1 bytes and more, which the value-tree
 * model cannot be run on.  A and B (syntax and ideal order: harness/bigmap.h) are made with spif_mbuff_new() /
 * spif_str_new(); their buff / s, len and size members are then pointed at sparse mappings (mbuff: zero pages,
 * "p" = one byte 0x01; str: 'a' repeated with the NUL at s[len], "p" = one 'b').  The class's comp method
 * (SPIF_OBJ_COMP, i.e. through the method table) and spif_<class>_comp are called both ways round and on each
 * object with itself, and the answers compared with the lexicographic order of the two byte sequences.
 * Case "big dup <class> <A> -": SPIF_OBJ_DUP of such an object (this one commits <len> bytes for the copy): the
 * copy must be another object of the same class with its own storage, the same length, the same bytes (comp
 * EQUAL both ways, the marked byte where it was), and independent - a byte changed in the copy leaves the
 * original as it was and makes the two compare unequal; the copy is then deleted and the original read again.
 * Output "BIG:ok" or "BIG:differs <call>=<answer> expected <ideal> ...". */
#ifndef _GNU_SOURCE
#define _GNU_SOURCE 1            /* memfd_create */
#endif
#include "common.h"
#include <stdint.h>
#include <sys/mman.h>
#include <sys/syscall.h>
#include <fcntl.h>
#include <netdb.h>
#include <pcre.h>
#include "bigmap.h"

extern spif_iteratorclass_t SPIF_ITERATORCLASS_VAR(array);
extern spif_iteratorclass_t SPIF_ITERATORCLASS_VAR(linked_list);
extern spif_iteratorclass_t SPIF_ITERATORCLASS_VAR(dlinked_list);

/* ------------------------------------------------------------------------------------------ */
/* allocation layer */
static long lv_live = 0;          /* live blocks */
static int lv_badfree = 0;        /* set by the bump layer */

void *__real_malloc(size_t);
void *__real_calloc(size_t, size_t);
void *__real_realloc(void *, size_t);
void __real_free(void *);

#ifdef LV_BUMP
#define LV_MAGIC 0x4c56424dU
typedef struct { size_t size; uint32_t magic; uint32_t live; } lv_hdr;
static unsigned char *lv_arena = NULL, *lv_top = NULL, *lv_end = NULL, *lv_last = NULL;
static void *lv_alloc(size_t n)
{
    lv_hdr *h;
    size_t need = (n + sizeof(lv_hdr) + 15) & ~(size_t) 15;
    if (!lv_arena) {
        size_t sz = (size_t) 24 << 30;
        lv_arena = (unsigned char *) mmap(NULL, sz, PROT_READ | PROT_WRITE, MAP_PRIVATE | MAP_ANONYMOUS | MAP_NORESERVE, -1, 0);
        if (lv_arena == MAP_FAILED) { fprintf(stderr, "lv: arena\n"); _exit(7); }
        lv_top = lv_arena; lv_end = lv_arena + sz;
    }
    if (lv_top + need + 16 > lv_end) { fprintf(stderr, "lv: arena exhausted\n"); _exit(7); }
    h = (lv_hdr *) lv_top;
    lv_top += need + 16;                    /* a 16-byte red gap between blocks */
    h->size = n; h->magic = LV_MAGIC; h->live = 1;
    memset(h + 1, 0xA5, n);
    lv_live++;
    lv_last = (unsigned char *) (h + 1);
    return h + 1;
}
/* `far`: the next block starts exactly 2^31 bytes above the latest one (address differences
   that do not fit an int) */
static void lv_far(void)
{
    if (lv_last && lv_last - sizeof(lv_hdr) + ((size_t) 1 << 31) + 4096 < lv_end) lv_top = lv_last - sizeof(lv_hdr) + ((size_t) 1 << 31);
}
static lv_hdr *lv_find(void *p)
{
    lv_hdr *h;
    if ((unsigned char *) p < lv_arena + sizeof(lv_hdr) || (unsigned char *) p >= lv_top) return NULL;
    h = ((lv_hdr *) p) - 1;
    if (h->magic != LV_MAGIC || !h->live) return NULL;
    return h;
}
void *__wrap_malloc(size_t n) { return lv_alloc(n); }
void *__wrap_calloc(size_t a, size_t b) { void *p = lv_alloc(a * b); memset(p, 0, a * b); return p; }
void __wrap_free(void *p)
{
    lv_hdr *h;
    if (!p) return;
    h = lv_find(p);
    if (!h) { lv_badfree = 1; return; }
    h->live = 0;
    memset(p, 0xDD, h->size);
    lv_live--;
}
void *__wrap_realloc(void *p, size_t n)
{
    lv_hdr *h;
    void *q;
    if (!p) return lv_alloc(n);
    h = lv_find(p);
    if (!h) { lv_badfree = 1; return lv_alloc(n); }
    q = lv_alloc(n);
    memcpy(q, p, h->size < n ? h->size : n);
    __wrap_free(p);
    return q;
}
#else
void *__wrap_malloc(size_t n) { void *p = __real_malloc(n); if (p) lv_live++; return p; }
void *__wrap_calloc(size_t a, size_t b) { void *p = __real_calloc(a, b); if (p) lv_live++; return p; }
void __wrap_free(void *p) { if (p) lv_live--; __real_free(p); }
void *__wrap_realloc(void *p, size_t n)
{
    void *q = __real_realloc(p, n);
    if (!p && q) lv_live++;
    if (p && !n && !q) lv_live--;
    return q;
}
#endif
char *__wrap_strdup(const char *s)
{
    size_t n = strlen(s) + 1;
    char *p = (char *) __wrap_malloc(n);
    memcpy(p, s, n);
    return p;
}
struct servent *__wrap_getservbyname(const char *a, const char *b) { (void) a; (void) b; return NULL; }
struct protoent *__wrap_getprotobyname(const char *a) { (void) a; return NULL; }

/* ------------------------------------------------------------------------------------------ */
/* handles */
enum kind { K_NONE, K_OBJ, K_STR, K_USTR, K_MBUFF, K_PAIR, K_TOK, K_URL, K_RE,
            K_LA, K_LL, K_LD, K_VA, K_VL, K_VD, K_MA, K_ML, K_MD, K_IA, K_IL, K_ID, K_RAW };
#define MAXH 512
static void *hp[MAXH];
static int hk[MAXH];
static int hsubj[MAXH];        /* iterators: the handle of the subject */
static int hn;                 /* next handle number */
static long base_live;
static int faulted;

static int is_list(int k) { return k == K_LA || k == K_LL || k == K_LD; }
static int is_vector(int k) { return k == K_VA || k == K_VL || k == K_VD; }
static int is_map(int k) { return k == K_MA || k == K_ML || k == K_MD; }
static int is_cont(int k) { return is_list(k) || is_vector(k) || is_map(k); }
static int is_iter(int k) { return k == K_IA || k == K_IL || k == K_ID; }
static int storable(int k) { return k != K_RAW && !is_iter(k) && k != K_NONE; }
static int cls_of(int k)   /* 0 array, 1 linked, 2 dlinked */
{
    switch (k) {
        case K_LA: case K_VA: case K_MA: case K_IA: return 0;
        case K_LL: case K_VL: case K_ML: case K_IL: return 1;
        default: return 2;
    }
}

/* the kind of a real object, from its class pointer */
static int kind_of(spif_obj_t o)
{
    spif_class_t c = SPIF_OBJ_CLASS(o);
    if (c == SPIF_CLASS_VAR(obj)) return K_OBJ;
    if (c == SPIF_CLASS_VAR(str)) return K_STR;
    if (c == SPIF_CLASS_VAR(ustr)) return K_USTR;
    if (c == SPIF_CLASS_VAR(mbuff)) return K_MBUFF;
    if (c == SPIF_CLASS_VAR(objpair)) return K_PAIR;
    if (c == SPIF_CLASS_VAR(tok)) return K_TOK;
    if (c == SPIF_CLASS_VAR(url)) return K_URL;
    if (c == SPIF_CLASS_VAR(regexp)) return K_RE;
    if (c == SPIF_CLASS(SPIF_LISTCLASS_VAR(array))) return K_LA;
    if (c == SPIF_CLASS(SPIF_LISTCLASS_VAR(linked_list))) return K_LL;
    if (c == SPIF_CLASS(SPIF_LISTCLASS_VAR(dlinked_list))) return K_LD;
    if (c == SPIF_CLASS(SPIF_VECTORCLASS_VAR(array))) return K_VA;
    if (c == SPIF_CLASS(SPIF_VECTORCLASS_VAR(linked_list))) return K_VL;
    if (c == SPIF_CLASS(SPIF_VECTORCLASS_VAR(dlinked_list))) return K_VD;
    if (c == SPIF_CLASS(SPIF_MAPCLASS_VAR(array))) return K_MA;
    if (c == SPIF_CLASS(SPIF_MAPCLASS_VAR(linked_list))) return K_ML;
    if (c == SPIF_CLASS(SPIF_MAPCLASS_VAR(dlinked_list))) return K_MD;
    if (c == SPIF_CLASS(SPIF_ITERATORCLASS_VAR(array))) return K_IA;
    if (c == SPIF_CLASS(SPIF_ITERATORCLASS_VAR(linked_list))) return K_IL;
    if (c == SPIF_CLASS(SPIF_ITERATORCLASS_VAR(dlinked_list))) return K_ID;
    return K_NONE;
}

static void fault(const char *what) { printf("FAULT:%s", what); faulted = 1; }

/* a handle argument the program must hold; returns 0 (and faults) when it does not */
static int held(const char *tok, int *h)
{
    char *e;
    long v = strtol(tok, &e, 10);
    if (*e || v < 0 || v >= hn || hk[v] == K_NONE) { fault("Use_after_free"); return 0; }
    *h = (int) v;
    return 1;
}
/* a handle or "_" (NULL): *h = -1 for NULL */
static int held_opt(const char *tok, int *h)
{
    if (tok[0] == '_' && !tok[1]) { *h = -1; return 1; }
    return held(tok, h);
}
static void put_ledger(void) { printf("/%ld", lv_live - base_live); }

/* bind a handed-back object (or NULL) to the next handle and print the result token */
static void hand_back(void *p, int kind)
{
    int h = hn++;
    if (h >= MAXH) { fault("Abort"); return; }
    if (p) { hp[h] = p; hk[h] = kind; printf("h%d", h); }
    else { hp[h] = NULL; hk[h] = K_NONE; printf("h%d=_", h); }
}
static void hand_back_obj(spif_obj_t o) { hand_back(o, o ? kind_of(o) : K_NONE); }

/* ------------------------------------------------------------------------------------------ */
/* read-back of an object's value (format of driver/c05_main.ml show_obj) */
static void dump_text(const unsigned char *p, long len)
{
    if (!p) { putchar('N'); return; }
    lv_puthex(p, (size_t) len);
}
/* what a regexp object MATCHES: one character per probe subject, through both matching entry points
   ('X' when they disagree).  The probes are chosen so that every compile flag decides at least one of
   them for some pattern of the generators (caseless: "A"/"AB"/"ZZX"; multiline: "a\nb", "c\nB";
   dotall: "a\nb"; extended: "ab" vs "a b"; utf8: the two-byte "\xc3\xa9"). */
#define LV_NPROBE 12
static const char *lv_probe[LV_NPROBE] = { "a", "A", "ab", "AB", "a b", "a\nb", "zzx", "ZZX", "b", "\xc3\xa9", "", "c\nB" };
static void dump_re_sig(spif_regexp_t re)
{
    int i;
    for (i = 0; i < LV_NPROBE; i++) {
        spif_str_t subj = spif_str_new_from_ptr((spif_charptr_t) lv_probe[i]);
        int a = spif_regexp_matches_ptr(re, (spif_charptr_t) lv_probe[i]) ? 1 : 0;
        int b = spif_regexp_matches_str(re, subj) ? 1 : 0;
        spif_str_del(subj);
        putchar(a == b ? '0' + a : 'X');
    }
}
static void dump_obj(spif_obj_t o);
static void dump_cont(spif_obj_t o, int k)
{
    spif_iterator_t it;
    int first = 1;
    putchar(is_list(k) ? 'L' : (is_vector(k) ? 'V' : 'M'));
    putchar("ald"[cls_of(k)]);
    putchar('[');
    if (is_list(k)) it = SPIF_LIST_ITERATOR(SPIF_LIST(o));
    else if (is_vector(k)) it = SPIF_VECTOR_ITERATOR(SPIF_VECTOR(o));
    else it = SPIF_MAP_ITERATOR(SPIF_MAP(o));
    while (SPIF_ITERATOR_HAS_NEXT(it)) {
        spif_obj_t e = SPIF_ITERATOR_NEXT(it);
        if (!first) putchar(',');
        first = 0;
        dump_obj(e);
    }
    SPIF_ITERATOR_DEL(it);
    putchar(']');
}
static void dump_obj(spif_obj_t o)
{
    int k;
    if (!o) { putchar('_'); return; }
    k = kind_of(o);
    switch (k) {
        case K_OBJ: putchar('o'); break;
        case K_STR:
            if (spif_str_get_len(SPIF_STR(o)) != SPIF_STR(o)->len || spif_str_get_size(SPIF_STR(o)) != SPIF_STR(o)->size) printf("?getter");
            printf("s:"); dump_text((unsigned char *) SPIF_STR(o)->s, (long) SPIF_STR(o)->len); break;
        case K_USTR:
            if (spif_ustr_get_len(SPIF_USTR(o)) != SPIF_USTR(o)->len || spif_ustr_get_size(SPIF_USTR(o)) != SPIF_USTR(o)->size) printf("?getter");
            printf("u:"); dump_text((unsigned char *) SPIF_USTR(o)->s, (long) SPIF_USTR(o)->len); break;
        case K_MBUFF:
            if (spif_mbuff_get_len(SPIF_MBUFF(o)) != SPIF_MBUFF(o)->len || spif_mbuff_get_size(SPIF_MBUFF(o)) != SPIF_MBUFF(o)->size) printf("?getter");
            printf("m:"); dump_text((unsigned char *) SPIF_MBUFF(o)->buff, (long) SPIF_MBUFF(o)->len); break;
        /* members are read through the class's getters AND from the struct: a getter that answers
           anything but the member prints "?getter" (no model value looks like that) */
#define LV_GET(expr, member) do { if ((void *) (expr) != (void *) (member)) printf("?getter"); } while (0)
        case K_PAIR:
            LV_GET(spif_objpair_get_key(SPIF_OBJPAIR(o)), SPIF_OBJPAIR(o)->key);
            LV_GET(spif_objpair_get_value(SPIF_OBJPAIR(o)), SPIF_OBJPAIR(o)->value);
            printf("p("); dump_obj(SPIF_OBJPAIR(o)->key); putchar(','); dump_obj(SPIF_OBJPAIR(o)->value); putchar(')');
            break;
        case K_TOK: {
            spif_tok_t t = SPIF_TOK(o);
            LV_GET(spif_tok_get_src(t), t->src); LV_GET(spif_tok_get_sep(t), t->sep); LV_GET(spif_tok_get_tokens(t), t->tokens);
            if (spif_tok_get_quote(t) != t->quote || spif_tok_get_dquote(t) != t->dquote || spif_tok_get_escape(t) != t->escape) printf("?getter");
            printf("t("); dump_obj(SPIF_OBJ(t->src)); putchar(','); dump_obj(SPIF_OBJ(t->sep));
            putchar(','); dump_obj(SPIF_OBJ(t->tokens));
            printf(";%d.%d.%d)", (int) (unsigned char) t->quote, (int) (unsigned char) t->dquote, (int) (unsigned char) t->escape);
            break;
        }
        case K_URL: {
            spif_url_t u = (spif_url_t) o;
            LV_GET(spif_url_get_proto(u), u->proto); LV_GET(spif_url_get_user(u), u->user); LV_GET(spif_url_get_passwd(u), u->passwd);
            LV_GET(spif_url_get_host(u), u->host); LV_GET(spif_url_get_port(u), u->port); LV_GET(spif_url_get_path(u), u->path);
            LV_GET(spif_url_get_query(u), u->query);
            printf("U("); dump_text((unsigned char *) SPIF_STR(o)->s, (long) SPIF_STR(o)->len); putchar(';');
            dump_obj(SPIF_OBJ(u->proto)); putchar(','); dump_obj(SPIF_OBJ(u->user)); putchar(',');
            dump_obj(SPIF_OBJ(u->passwd)); putchar(','); dump_obj(SPIF_OBJ(u->host)); putchar(',');
            dump_obj(SPIF_OBJ(u->port)); putchar(','); dump_obj(SPIF_OBJ(u->path)); putchar(',');
            dump_obj(SPIF_OBJ(u->query)); putchar(')');
            break;
        }
        case K_RE:
            if (spif_regexp_get_flags((spif_regexp_t) o) != ((spif_regexp_t) o)->flags) printf("?getter");
            printf("r:"); dump_text((unsigned char *) SPIF_STR(o)->s, (long) SPIF_STR(o)->len);
            printf(":%d:", ((spif_regexp_t) o)->flags);
            dump_re_sig((spif_regexp_t) o);
            break;
        case K_IA: case K_IL: case K_ID: putchar('i'); putchar("ald"[cls_of(k)]); break;
        default:
            if (is_cont(k)) dump_cont(o, k); else printf("?class");
    }
}
static void dump_handle(int h)
{
    if (hk[h] == K_RAW) printf("raw"); else dump_obj(SPIF_OBJ(hp[h]));
}

/* does the class compare by address (model: addr_dep)?  first element of an array decides nothing:
   any element does */
static int addr_dep(spif_obj_t o)
{
    int k;
    if (!o) return 0;
    k = kind_of(o);
    if (k == K_OBJ) return 1;
    if (k == K_PAIR) return addr_dep(SPIF_OBJPAIR(o)->key);
    if (is_cont(k)) {
        spif_array_t a = (spif_array_t) o;
        spif_listidx_t i;
        if (cls_of(k) != 0) return 1;
        for (i = 0; i < a->len; i++) if (addr_dep(a->items[i])) return 1;
        return 0;
    }
    return 0;
}
/* the classes whose comp functions accept each other (model: comp's non-Abort rows) */
static int comp_class(int k)
{
    if (is_cont(k)) return 100 + cls_of(k);
    if (is_iter(k) || k == K_RAW) return -1;
    return k;
}

static int empty_state(spif_obj_t o, int k)
{
    switch (k) {
        case K_OBJ: return 1;
        case K_STR: return SPIF_STR(o)->s == NULL;
        case K_USTR: return SPIF_USTR(o)->s == NULL;
        case K_MBUFF: return SPIF_MBUFF(o)->buff == NULL;
        case K_PAIR: return !SPIF_OBJPAIR(o)->key && !SPIF_OBJPAIR(o)->value;
        case K_TOK: return !SPIF_TOK(o)->src && !SPIF_TOK(o)->sep && !SPIF_TOK(o)->tokens;
        case K_URL: {
            spif_url_t u = (spif_url_t) o;
            return !SPIF_STR(o)->s && !u->proto && !u->user && !u->passwd && !u->host && !u->port && !u->path && !u->query;
        }
        case K_RE: return !SPIF_STR(o)->s && !((spif_regexp_t) o)->data;
        default:
            if (is_cont(k)) {
                if (cls_of(k) == 0) return ((spif_array_t) o)->len == 0 && ((spif_array_t) o)->items == NULL;
                return ((spif_linked_list_t) o)->len == 0;
            }
            return 0;
    }
}

static char *text_arg(const char *hex) { return (hex[0] == 'N' && !hex[1]) ? NULL : lv_unhex_str(hex); }

static void del_handle(int h)
{
    if (hk[h] == K_RAW) free(hp[h]); else SPIF_OBJ_DEL(SPIF_OBJ(hp[h]));
    hk[h] = K_NONE; hp[h] = NULL;
}

/* ------------------------------------------------------------------------------------------ */
/* one operation; tok[0..n-1] */
static void run_op(int n, char **t)
{
    const char *op = t[0];
    int a, b, c;
#define NEED(k) do { if (n != (k) + 1) { printf("HARNESS-ERROR:arity:%s", op); faulted = 1; return; } } while (0)
#define IS(s) (!strcmp(op, s))
    if (IS("obj")) { NEED(0); hand_back_obj(spif_obj_new()); }
    else if (IS("str") || IS("ustr")) {
        char *s; spif_obj_t o;
        NEED(1); s = text_arg(t[1]);
        if (IS("str")) o = SPIF_OBJ(s ? spif_str_new_from_ptr((spif_charptr_t) s) : spif_str_new());
        else o = SPIF_OBJ(s ? spif_ustr_new_from_ptr((spif_charptr_t) s) : spif_ustr_new());
        free(s); hand_back_obj(o);
    }
    else if (IS("mbuff")) {
        NEED(1);
        if (t[1][0] == 'N' && !t[1][1]) hand_back_obj(SPIF_OBJ(spif_mbuff_new()));
        else { size_t len; unsigned char *p = lv_unhex(t[1], &len); spif_obj_t o = SPIF_OBJ(spif_mbuff_new_from_ptr(p, (spif_memidx_t) len)); free(p); hand_back_obj(o); }
    }
    else if (IS("pair")) {
        NEED(2);
        if (!held_opt(t[1], &a) || !held_opt(t[2], &b)) return;
        if ((a >= 0 && !storable(hk[a])) || (b >= 0 && !storable(hk[b]))) { fault("Abort"); return; }
        if (a < 0 && b < 0) hand_back_obj(SPIF_OBJ(spif_objpair_new()));
        else if (b < 0) hand_back_obj(SPIF_OBJ(spif_objpair_new_from_key(SPIF_OBJ(hp[a]))));
        else if (a < 0) hand_back_obj(SPIF_OBJ(spif_objpair_new_from_value(SPIF_OBJ(hp[b]))));
        else hand_back_obj(SPIF_OBJ(spif_objpair_new_from_both(SPIF_OBJ(hp[a]), SPIF_OBJ(hp[b]))));
    }
    else if (IS("tok")) { char *s; NEED(1); s = text_arg(t[1]); hand_back_obj(SPIF_OBJ(s ? spif_tok_new_from_ptr((spif_charptr_t) s) : spif_tok_new())); free(s); }
    else if (IS("url")) { char *s; NEED(1); s = text_arg(t[1]); hand_back_obj(SPIF_OBJ(s ? spif_url_new_from_ptr((spif_charptr_t) s) : spif_url_new())); free(s); }
    else if (IS("re")) { char *s; NEED(1); s = text_arg(t[1]); hand_back_obj(SPIF_OBJ(s ? spif_regexp_new_from_ptr((spif_charptr_t) s) : spif_regexp_new())); free(s); }
    else if (IS("cont")) {
        spif_obj_t o = NULL;
        NEED(2);
        switch (t[1][0] * 256 + t[2][0]) {
            case 'L' * 256 + 'a': o = SPIF_OBJ(SPIF_LIST_NEW(array)); break;
            case 'L' * 256 + 'l': o = SPIF_OBJ(SPIF_LIST_NEW(linked_list)); break;
            case 'L' * 256 + 'd': o = SPIF_OBJ(SPIF_LIST_NEW(dlinked_list)); break;
            case 'V' * 256 + 'a': o = SPIF_OBJ(SPIF_VECTOR_NEW(array)); break;
            case 'V' * 256 + 'l': o = SPIF_OBJ(SPIF_VECTOR_NEW(linked_list)); break;
            case 'V' * 256 + 'd': o = SPIF_OBJ(SPIF_VECTOR_NEW(dlinked_list)); break;
            case 'M' * 256 + 'a': o = SPIF_OBJ(SPIF_MAP_NEW(array)); break;
            case 'M' * 256 + 'l': o = SPIF_OBJ(SPIF_MAP_NEW(linked_list)); break;
            case 'M' * 256 + 'd': o = SPIF_OBJ(SPIF_MAP_NEW(dlinked_list)); break;
            default: printf("HARNESS-ERROR:cont"); faulted = 1; return;
        }
        hand_back_obj(o);
    }
    else if (IS("dup")) {
        NEED(1); if (!held(t[1], &a)) return;
        if (hk[a] == K_RAW) { fault("Abort"); return; }
        if (is_iter(hk[a])) {
            /* iterator_dup walks into the subject: the program must still hold it */
            if (hk[hsubj[a]] == K_NONE) { fault("Use_after_free"); return; }
            hsubj[hn] = hsubj[a];
        }
        hand_back_obj(SPIF_OBJ_DUP(SPIF_OBJ(hp[a])));
    }
    else if (IS("done")) {
        NEED(1); if (!held(t[1], &a)) return;
        if (hk[a] == K_RAW) { fault("Abort"); return; }
        SPIF_OBJ_DONE(SPIF_OBJ(hp[a])); putchar('1');
    }
    else if (IS("init")) {
        NEED(1); if (!held(t[1], &a)) return;
        if (hk[a] == K_RAW || is_iter(hk[a]) || !empty_state(SPIF_OBJ(hp[a]), hk[a])) { fault("Abort"); return; }
        SPIF_OBJ_INIT(SPIF_OBJ(hp[a])); putchar('1');
    }
    else if (IS("del")) { NEED(1); if (!held(t[1], &a)) return; del_handle(a); putchar('1'); }
    else if (IS("comp")) {
        spif_obj_t x, y; spif_cmp_t r;
        NEED(2); if (!held_opt(t[1], &a) || !held_opt(t[2], &b)) return;
        x = a < 0 ? NULL : SPIF_OBJ(hp[a]); y = b < 0 ? NULL : SPIF_OBJ(hp[b]);
        if (x && y) {
            int ka = comp_class(hk[a]), kb = comp_class(hk[b]);
            if (hk[a] == K_PAIR ? hk[b] == K_RAW : (ka < 0 || kb < 0 || ka != kb)) { fault("Abort"); return; }
        }
        if ((x && hk[a] == K_RAW) || (y && hk[b] == K_RAW)) { fault("Abort"); return; }
        if (x) r = SPIF_OBJ_COMP(x, y);
        else if (y) r = (spif_cmp_t) (SPIF_OBJ_CALL_METHOD(y, comp)(x, y));
        else r = spif_obj_comp(NULL, NULL);
        if (x && y && addr_dep(x)) {
            /* decided by addresses: printed only when the allocator is the model's (LV_EXACT) */
            putchar('@');
            if (!getenv("LV_EXACT")) return;
        }
        putchar(r == SPIF_CMP_LESS ? 'L' : (r == SPIF_CMP_EQUAL ? 'E' : (r == SPIF_CMP_GREATER ? 'G' : '?')));
    }
    else if (IS("type")) {
        NEED(1); if (!held(t[1], &a)) return;
        if (hk[a] == K_RAW) { fault("Abort"); return; }
        printf("%s", (const char *) SPIF_OBJ_TYPE(SPIF_OBJ(hp[a])));
    }
    else if (IS("dump")) { NEED(1); if (!held(t[1], &a)) return; dump_handle(a); }
    else if (IS("dumpall")) {
        int first = 1;
        NEED(0); putchar('{');
        for (a = 0; a < hn; a++) if (hk[a] != K_NONE) { if (!first) putchar(','); first = 0; printf("h%d=", a); dump_handle(a); }
        putchar('}');
    }
    else if (IS("delall")) { NEED(0); for (a = 0; a < hn; a++) if (hk[a] != K_NONE) del_handle(a); putchar('1'); }
    else if (IS("append")) {
        NEED(2); if (!held(t[1], &a)) return;
        if (hk[a] == K_STR) { char *s = lv_unhex_str(t[2]); spif_str_append_from_ptr(SPIF_STR(hp[a]), (spif_charptr_t) s); free(s); }
        else if (hk[a] == K_USTR) { char *s = lv_unhex_str(t[2]); spif_ustr_append_from_ptr(SPIF_USTR(hp[a]), (spif_charptr_t) s); free(s); }
        else if (hk[a] == K_MBUFF) { size_t len; unsigned char *p = lv_unhex(t[2], &len); spif_mbuff_append_from_ptr(SPIF_MBUFF(hp[a]), p, (spif_memidx_t) len); free(p); }
        else { fault("Abort"); return; }
        putchar('1');
    }
    else if (IS("substr")) {
        long idx, cnt;
        NEED(3); if (!held(t[1], &a)) return;
        idx = atol(t[2]); cnt = atol(t[3]);
        if (hk[a] == K_STR) hand_back_obj(SPIF_OBJ(spif_str_substr(SPIF_STR(hp[a]), idx, cnt)));
        else if (hk[a] == K_USTR) hand_back_obj(SPIF_OBJ(spif_ustr_substr(SPIF_USTR(hp[a]), idx, cnt)));
        else if (hk[a] == K_MBUFF) hand_back_obj(SPIF_OBJ(spif_mbuff_subbuff(SPIF_MBUFF(hp[a]), idx, cnt)));
        else { fault("Abort"); return; }
    }
    else if (IS("setk") || IS("setv") || IS("setsrc") || IS("setsep") || IS("urlset")) {
        int url = IS("urlset"), f = 0;
        spif_obj_t x;
        NEED(url ? 3 : 2); if (!held(t[1], &a)) return;
        if (url) { f = atoi(t[2]); if (f < 0 || f >= 7) { fault("Abort"); return; } }
        if (!held_opt(t[url ? 3 : 2], &b)) return;
        if (b == a) { fault("Abort"); return; }
        if (b >= 0 && !storable(hk[b])) { fault("Abort"); return; }
        x = b < 0 ? NULL : SPIF_OBJ(hp[b]);
        if (IS("setk") || IS("setv")) {
            if (hk[a] != K_PAIR) { fault("Abort"); return; }
            if (IS("setk")) spif_objpair_set_key(SPIF_OBJPAIR(hp[a]), x); else spif_objpair_set_value(SPIF_OBJPAIR(hp[a]), x);
        } else {
            if (hk[a] != (url ? K_URL : K_TOK) || (b >= 0 && hk[b] != K_STR)) { fault("Abort"); return; }
            if (IS("setsrc")) spif_tok_set_src(SPIF_TOK(hp[a]), SPIF_STR(x));
            else if (IS("setsep")) spif_tok_set_sep(SPIF_TOK(hp[a]), SPIF_STR(x));
            else {
                spif_url_t u = (spif_url_t) hp[a];
                switch (f) {
                    case 0: spif_url_set_proto(u, SPIF_STR(x)); break;
                    case 1: spif_url_set_user(u, SPIF_STR(x)); break;
                    case 2: spif_url_set_passwd(u, SPIF_STR(x)); break;
                    case 3: spif_url_set_host(u, SPIF_STR(x)); break;
                    case 4: spif_url_set_port(u, SPIF_STR(x)); break;
                    case 5: spif_url_set_path(u, SPIF_STR(x)); break;
                    default: spif_url_set_query(u, SPIF_STR(x)); break;
                }
            }
        }
        if (b >= 0) { hk[b] = K_NONE; hp[b] = NULL; }       /* the object changed hands */
        putchar('1');
    }
    else if (IS("eval")) {
        NEED(1); if (!held(t[1], &a)) return;
        if (hk[a] != K_TOK) { fault("Abort"); return; }
        putchar(spif_tok_eval(SPIF_TOK(hp[a])) ? '1' : '0');
    }
    else if (IS("unparse")) {
        NEED(1); if (!held(t[1], &a)) return;
        if (hk[a] != K_URL) { fault("Abort"); return; }
        spif_url_unparse((spif_url_t) hp[a]); putchar('1');
    }
    else if (IS("flags")) {
        char *s;
        NEED(2); if (!held(t[1], &a)) return;
        if (hk[a] != K_RE) { fault("Abort"); return; }
        s = lv_unhex_str(t[2]);
        putchar(spif_regexp_set_flags((spif_regexp_t) hp[a], (spif_charptr_t) s) ? '1' : '0'); free(s);
    }
    else if (IS("compile")) {
        NEED(1); if (!held(t[1], &a)) return;
        if (hk[a] != K_RE) { fault("Abort"); return; }
        putchar(spif_regexp_compile((spif_regexp_t) hp[a]) ? '1' : '0');
    }
    else if (IS("lappend") || IS("lprepend") || IS("linsert") || IS("linsert_at") || IS("vinsert")) {
        int vec = IS("vinsert"), at = IS("linsert_at");
        spif_bool_t r;
        NEED(at ? 3 : 2); if (!held(t[1], &c)) return;
        if (vec ? !is_vector(hk[c]) : !is_list(hk[c])) { fault("Abort"); return; }
        if (!strcmp(t[1], t[2])) { fault("Abort"); return; }
        if (!held(t[2], &a)) return;
        if (!storable(hk[a])) { fault("Abort"); return; }
        if (vec) r = SPIF_VECTOR_INSERT(SPIF_VECTOR(hp[c]), SPIF_OBJ(hp[a]));
        else if (IS("lappend")) r = SPIF_LIST_APPEND(SPIF_LIST(hp[c]), SPIF_OBJ(hp[a]));
        else if (IS("lprepend")) r = SPIF_LIST_PREPEND(SPIF_LIST(hp[c]), SPIF_OBJ(hp[a]));
        else if (IS("linsert")) r = SPIF_LIST_INSERT(SPIF_LIST(hp[c]), SPIF_OBJ(hp[a]));
        else r = SPIF_LIST_INSERT_AT(SPIF_LIST(hp[c]), SPIF_OBJ(hp[a]), (spif_listidx_t) atol(t[3]));
        if (r) { hk[a] = K_NONE; hp[a] = NULL; }             /* the container owns it now */
        putchar(r ? '1' : '0');
    }
    else if (IS("lremove") || IS("vremove") || IS("mremove")) {
        spif_obj_t r;
        NEED(2); if (!held(t[2], &a)) return;
        if (!held(t[1], &c)) return;
        if (IS("lremove") ? !is_list(hk[c]) : (IS("vremove") ? !is_vector(hk[c]) : !is_map(hk[c]))) { fault("Abort"); return; }
        if (IS("lremove")) r = SPIF_LIST_REMOVE(SPIF_LIST(hp[c]), SPIF_OBJ(hp[a]));
        else if (IS("vremove")) r = SPIF_VECTOR_REMOVE(SPIF_VECTOR(hp[c]), SPIF_OBJ(hp[a]));
        else r = SPIF_MAP_REMOVE(SPIF_MAP(hp[c]), SPIF_OBJ(hp[a]));
        hand_back_obj(r);
    }
    else if (IS("lremove_at")) {
        NEED(2); if (!held(t[1], &c)) return;
        if (!is_list(hk[c])) { fault("Abort"); return; }
        hand_back_obj(SPIF_LIST_REMOVE_AT(SPIF_LIST(hp[c]), (spif_listidx_t) atol(t[2])));
    }
    else if (IS("lreverse")) {
        NEED(1); if (!held(t[1], &c)) return;
        if (!is_list(hk[c])) { fault("Abort"); return; }
        SPIF_LIST_REVERSE(SPIF_LIST(hp[c])); putchar('1');
    }
    else if (IS("mset")) {
        int m;
        NEED(3); if (!held(t[1], &m) || !held(t[2], &a) || !held(t[3], &b)) return;
        if (!is_map(hk[m]) || m == a || m == b || !storable(hk[a]) || !storable(hk[b])) { fault("Abort"); return; }
        putchar(SPIF_MAP_SET(SPIF_MAP(hp[m]), SPIF_OBJ(hp[a]), SPIF_OBJ(hp[b])) ? '1' : '0');
    }
    else if (IS("msetp")) {
        /* the pair form: SPIF_MAP_SET(map, pair, NULL) */
        int m; spif_objpair_t pr;
        NEED(2); if (!held(t[1], &m) || !held(t[2], &a)) return;
        if (!is_map(hk[m]) || m == a || hk[a] != K_PAIR) { fault("Abort"); return; }
        pr = SPIF_OBJPAIR(hp[a]);
        if (!pr->key || !pr->value) { fault("Abort"); return; }      /* objpair_new_from_both ASSERTs both */
        putchar(SPIF_MAP_SET(SPIF_MAP(hp[m]), SPIF_OBJ(pr), (spif_obj_t) NULL) ? '1' : '0');
    }
    else if (IS("msetown") || IS("msetownp")) {
        /* the map's own stored value / own stored entry passed back to set; the entry is found as set
           itself finds it (first entry equal to the key, in iteration order) */
        int m; spif_iterator_t it; spif_obj_t e = NULL;
        NEED(2); if (!held(t[1], &m) || !held(t[2], &a)) return;
        if (!is_map(hk[m]) || m == a) { fault("Abort"); return; }
        it = SPIF_MAP_ITERATOR(SPIF_MAP(hp[m]));
        while (SPIF_ITERATOR_HAS_NEXT(it)) {
            spif_obj_t x = SPIF_ITERATOR_NEXT(it);
            if (SPIF_CMP_IS_EQUAL(SPIF_OBJ_COMP(x, SPIF_OBJ(hp[a])))) { e = x; break; }
        }
        SPIF_ITERATOR_DEL(it);
        if (!e) putchar('0');
        else if (IS("msetownp")) putchar(SPIF_MAP_SET(SPIF_MAP(hp[m]), e, (spif_obj_t) NULL) ? '1' : '0');
        else putchar(SPIF_MAP_SET(SPIF_MAP(hp[m]), SPIF_OBJ(hp[a]), SPIF_OBJPAIR(e)->value) ? '1' : '0');
    }
    else if (IS("mkeys") || IS("mvalues") || IS("mpairs")) {
        int m; spif_list_t dst, r;
        NEED(2); if (!held(t[1], &m)) return;
        if (!is_map(hk[m])) { fault("Abort"); return; }
        if (!held_opt(t[2], &b)) return;
        if (b >= 0 && (b == m || !is_list(hk[b]))) { fault("Abort"); return; }
        dst = b < 0 ? (spif_list_t) NULL : SPIF_LIST(hp[b]);
        if (IS("mkeys")) r = SPIF_MAP_GET_KEYS(SPIF_MAP(hp[m]), dst);
        else if (IS("mvalues")) r = SPIF_MAP_GET_VALUES(SPIF_MAP(hp[m]), dst);
        else r = SPIF_MAP_GET_PAIRS(SPIF_MAP(hp[m]), dst);
        if (b < 0) hand_back_obj(SPIF_OBJ(r)); else putchar(r == dst ? '1' : '0');
    }
    else if (IS("toarray")) {
        spif_obj_t *r;
        NEED(1); if (!held(t[1], &c)) return;
        if (!is_cont(hk[c])) { fault("Abort"); return; }
        if (is_list(hk[c])) r = SPIF_LIST_TO_ARRAY(SPIF_LIST(hp[c]));
        else if (is_vector(hk[c])) r = SPIF_VECTOR_TO_ARRAY(SPIF_VECTOR(hp[c]));
        else { fault("Abort"); return; }                       /* the map interface has no to_array */
        hand_back(r, K_RAW);
    }
    else if (IS("iter")) {
        spif_iterator_t r;
        NEED(1); if (!held(t[1], &c)) return;
        if (!is_cont(hk[c])) { fault("Abort"); return; }
        if (is_list(hk[c])) r = SPIF_LIST_ITERATOR(SPIF_LIST(hp[c]));
        else if (is_vector(hk[c])) r = SPIF_VECTOR_ITERATOR(SPIF_VECTOR(hp[c]));
        else r = SPIF_MAP_ITERATOR(SPIF_MAP(hp[c]));
        hsubj[hn] = c;
        hand_back_obj(SPIF_OBJ(r));
    }
    else if (IS("query")) {
        /* every query that hands out a number or a borrowed pointer, with the object under h as probe:
           nothing may be allocated, freed or changed (the ledger and the later read-backs show it) */
        spif_obj_t pr; long i, cnt; volatile unsigned long sink = 0;
        NEED(2); if (!held(t[1], &c) || !held(t[2], &a)) return;
        if (!is_cont(hk[c]) || c == a || !storable(hk[a])) { fault("Abort"); return; }
        pr = SPIF_OBJ(hp[a]);
        if (is_list(hk[c])) {
            spif_list_t l = SPIF_LIST(hp[c]);
            cnt = (long) SPIF_LIST_COUNT(l);
            for (i = -cnt - 1; i <= cnt; i++) sink += (unsigned long) (size_t) SPIF_LIST_GET(l, (spif_listidx_t) i);
            sink += SPIF_LIST_CONTAINS(l, pr) + (unsigned long) (size_t) SPIF_LIST_FIND(l, pr) + (unsigned long) SPIF_LIST_INDEX(l, pr);
        } else if (is_vector(hk[c])) {
            spif_vector_t v = SPIF_VECTOR(hp[c]);
            sink += SPIF_VECTOR_COUNT(v) + SPIF_VECTOR_CONTAINS(v, pr) + (unsigned long) (size_t) SPIF_VECTOR_FIND(v, pr);
        } else {
            spif_map_t m = SPIF_MAP(hp[c]);
            sink += SPIF_MAP_COUNT(m) + (unsigned long) (size_t) SPIF_MAP_GET(m, pr) + SPIF_MAP_HAS_KEY(m, pr) + SPIF_MAP_HAS_VALUE(m, pr);
        }
        (void) sink;
        printf("ok");
    }
    else if (IS("setq")) {
        long cv; spif_tok_t tk; int ok;
        NEED(3); if (!held(t[1], &a)) return;
        cv = atol(t[3]);
        if (cv < 0 || cv > 255 || hk[a] != K_TOK || !t[2][0] || t[2][1] || !strchr("qde", t[2][0])) { fault("Abort"); return; }
        tk = SPIF_TOK(hp[a]);
        /* setter, then the getter must hand back what was set */
        if (t[2][0] == 'q') ok = spif_tok_set_quote(tk, (spif_char_t) cv) && spif_tok_get_quote(tk) == (spif_char_t) cv;
        else if (t[2][0] == 'd') ok = spif_tok_set_dquote(tk, (spif_char_t) cv) && spif_tok_get_dquote(tk) == (spif_char_t) cv;
        else ok = spif_tok_set_escape(tk, (spif_char_t) cv) && spif_tok_get_escape(tk) == (spif_char_t) cv;
        putchar(ok ? '1' : 'G');
    }
    else if (IS("settoks")) {
        spif_list_t l;
        NEED(2); if (!held(t[1], &a)) return;
        if (!held_opt(t[2], &b)) return;
        if (b == a || hk[a] != K_TOK || (b >= 0 && !is_list(hk[b]))) { fault("Abort"); return; }
        l = b < 0 ? (spif_list_t) NULL : SPIF_LIST(hp[b]);
        if (!spif_tok_set_tokens(SPIF_TOK(hp[a]), l) || spif_tok_get_tokens(SPIF_TOK(hp[a])) != l) { putchar('G'); return; }
        if (b >= 0) { hk[b] = K_NONE; hp[b] = NULL; }       /* the list changed hands */
        putchar('1');
    }
    else if (IS("tlremove_at") || IS("tlappend")) {
        /* the caller edits the list spif_tok_get_tokens() hands out */
        spif_list_t l;
        NEED(2); if (!held(t[1], &a)) return;
        if (IS("tlappend")) {
            if (!strcmp(t[1], t[2])) { fault("Abort"); return; }
            if (!held(t[2], &b)) return;
            if (!storable(hk[b])) { fault("Abort"); return; }
        }
        if (hk[a] != K_TOK) { fault("Abort"); return; }
        l = spif_tok_get_tokens(SPIF_TOK(hp[a]));
        if (!l || !is_list(kind_of(SPIF_OBJ(l)))) { fault("Abort"); return; }
        if (IS("tlremove_at")) hand_back_obj(SPIF_LIST_REMOVE_AT(l, (spif_listidx_t) atol(t[2])));
        else {
            spif_bool_t r = SPIF_LIST_APPEND(l, SPIF_OBJ(hp[b]));
            if (r) { hk[b] = K_NONE; hp[b] = NULL; }
            putchar(r ? '1' : '0');
        }
    }
    else if (IS("mappend")) {
        /* a text member changed in place through the pointer its getter hands out */
        spif_obj_t m = NULL; int sel, mk;
        NEED(3); if (!held(t[1], &a)) return;
        sel = atoi(t[2]);
        if (sel < 0) { fault("Abort"); return; }
        if (hk[a] == K_TOK && sel < 2) m = SPIF_OBJ(sel == 0 ? spif_tok_get_src(SPIF_TOK(hp[a])) : spif_tok_get_sep(SPIF_TOK(hp[a])));
        else if (hk[a] == K_PAIR && sel < 2) m = sel == 0 ? spif_objpair_get_key(SPIF_OBJPAIR(hp[a])) : spif_objpair_get_value(SPIF_OBJPAIR(hp[a]));
        else if (hk[a] == K_URL && sel < 7) {
            spif_url_t u = (spif_url_t) hp[a];
            switch (sel) {
                case 0: m = SPIF_OBJ(spif_url_get_proto(u)); break;
                case 1: m = SPIF_OBJ(spif_url_get_user(u)); break;
                case 2: m = SPIF_OBJ(spif_url_get_passwd(u)); break;
                case 3: m = SPIF_OBJ(spif_url_get_host(u)); break;
                case 4: m = SPIF_OBJ(spif_url_get_port(u)); break;
                case 5: m = SPIF_OBJ(spif_url_get_path(u)); break;
                default: m = SPIF_OBJ(spif_url_get_query(u)); break;
            }
        } else { fault("Abort"); return; }
        if (!m) { fault("Abort"); return; }
        mk = kind_of(m);
        if (mk == K_STR) { char *s = lv_unhex_str(t[3]); spif_str_append_from_ptr(SPIF_STR(m), (spif_charptr_t) s); free(s); }
        else if (mk == K_USTR) { char *s = lv_unhex_str(t[3]); spif_ustr_append_from_ptr(SPIF_USTR(m), (spif_charptr_t) s); free(s); }
        else if (mk == K_MBUFF) { size_t len; unsigned char *p = lv_unhex(t[3], &len); spif_mbuff_append_from_ptr(SPIF_MBUFF(m), p, (spif_memidx_t) len); free(p); }
        else { fault("Abort"); return; }
        putchar('1');
    }
    else if (IS("setlen")) {
        long k; int ok = 0;
        NEED(2); if (!held(t[1], &a)) return;
        k = atol(t[2]);
        if (k < 0) {
            /* the size / len setters given what the getters answer: nothing may change */
            if (hk[a] == K_STR) { spif_str_t s = SPIF_STR(hp[a]); ok = spif_str_set_size(s, spif_str_get_size(s)) && spif_str_set_len(s, spif_str_get_len(s)); }
            else if (hk[a] == K_USTR) { spif_ustr_t s = SPIF_USTR(hp[a]); ok = spif_ustr_set_size(s, spif_ustr_get_size(s)) && spif_ustr_set_len(s, spif_ustr_get_len(s)); }
            else if (hk[a] == K_MBUFF) { spif_mbuff_t s = SPIF_MBUFF(hp[a]); ok = spif_mbuff_set_size(s, spif_mbuff_get_size(s)) && spif_mbuff_set_len(s, spif_mbuff_get_len(s)); }
            else { fault("Abort"); return; }
        } else {
            spif_mbuff_t s;
            if (hk[a] != K_MBUFF || k > (long) SPIF_MBUFF(hp[a])->len) { fault("Abort"); return; }
            s = SPIF_MBUFF(hp[a]);
            ok = spif_mbuff_set_len(s, (spif_memidx_t) k) && spif_mbuff_get_len(s) == (spif_memidx_t) k;
        }
        putchar(ok ? '1' : 'G');
    }
    else if (IS("fnew")) {
        /* fnew <str|ustr|mbuff|tok> <fp|fd> <reg|pipe|closed|bad> <content> <pos> */
        int cls, fp_form, fd = -1, wfd = -1; size_t len; unsigned char *data; long pos; FILE *fp = NULL; spif_obj_t o = NULL;
        NEED(5);
        cls = !strcmp(t[1], "str") ? K_STR : !strcmp(t[1], "ustr") ? K_USTR : !strcmp(t[1], "mbuff") ? K_MBUFF : !strcmp(t[1], "tok") ? K_TOK : K_NONE;
        fp_form = !strcmp(t[2], "fp");
        if (cls == K_NONE || (!fp_form && strcmp(t[2], "fd"))) { printf("HARNESS-ERROR:fnew"); faulted = 1; return; }
        data = lv_unhex(t[4], &len); pos = atol(t[5]);
        if (pos < 0 || (size_t) pos > len || (!strcmp(t[3], "closed") && fp_form) || (!strcmp(t[3], "pipe") && pos != 0)) {
            free(data); fault("Abort"); return;
        }
        if (!strcmp(t[3], "reg") || !strcmp(t[3], "closed")) {
            fd = (int) syscall(SYS_memfd_create, "lv-stream", 0);
            if (fd < 0 || (len && write(fd, data, len) != (ssize_t) len) || lseek(fd, (off_t) pos, SEEK_SET) != (off_t) pos) {
                printf("HARNESS-ERROR:memfd"); faulted = 1; free(data); return;
            }
            if (!strcmp(t[3], "closed")) close(fd);          /* the number of a descriptor that is no longer open */
        } else if (!strcmp(t[3], "pipe")) {
            int p2[2];
            if (len > 60000 || pipe(p2) < 0 || (len && write(p2[1], data, len) != (ssize_t) len)) { printf("HARNESS-ERROR:pipe"); faulted = 1; free(data); return; }
            close(p2[1]); fd = p2[0]; wfd = -1;
        } else if (!strcmp(t[3], "bad")) {
            fd = -1;
        } else { printf("HARNESS-ERROR:fnew-kind"); faulted = 1; free(data); return; }
        free(data);
        (void) wfd;
        if (fp_form) {
            if (fd >= 0) {
                fp = fdopen(fd, "r");
                if (!fp || (!strcmp(t[3], "reg") && fseek(fp, pos, SEEK_SET) != 0)) { printf("HARNESS-ERROR:fdopen"); faulted = 1; return; }
            }
            switch (cls) {
                case K_STR: o = SPIF_OBJ(spif_str_new_from_fp(fp)); break;
                case K_USTR: o = SPIF_OBJ(spif_ustr_new_from_fp(fp)); break;
                case K_MBUFF: o = SPIF_OBJ(spif_mbuff_new_from_fp(fp)); break;
                default: o = SPIF_OBJ(spif_tok_new_from_fp(fp)); break;
            }
            if (fp) fclose(fp);
        } else {
            switch (cls) {
                case K_STR: o = SPIF_OBJ(spif_str_new_from_fd(fd)); break;
                case K_USTR: o = SPIF_OBJ(spif_ustr_new_from_fd(fd)); break;
                case K_MBUFF: o = SPIF_OBJ(spif_mbuff_new_from_fd(fd)); break;
                default: o = SPIF_OBJ(spif_tok_new_from_fd(fd)); break;
            }
            if (fd >= 0 && strcmp(t[3], "closed")) close(fd);
        }
        hand_back_obj(o);
    }
    else if (IS("far")) {
        NEED(0);
#ifdef LV_BUMP
        lv_far();
#endif
        printf("ok");
    }
    else if (IS("calib")) {
        /* calib <pattern hex|N> <flag bits>: blocks pcre_compile leaves allocated, then ':' and what the
           compiled pattern matches among the probe subjects - straight from the pcre library */
        char *s; const char *err; int off, i; long before; pcre *re;
        NEED(2); s = text_arg(t[1]); before = lv_live;
        re = pcre_compile(s, atoi(t[2]), &err, &off, NULL);
        printf("%ld:", lv_live - before);
        for (i = 0; i < LV_NPROBE; i++)
            putchar(re && pcre_exec(re, NULL, lv_probe[i], (int) strlen(lv_probe[i]), 0, 0, NULL, 0) >= 0 ? '1' : '0');
        if (re) pcre_free(re);
        free(s);
    }
    else { printf("HARNESS-ERROR:op:%s", op); faulted = 1; }
}

static void *lv_pcre_malloc(size_t n) { return malloc(n); }
static void lv_pcre_free(void *p) { free(p); }

/* ---- objects of 2 GiB and more ---- */
static int lv_bigbad;
static void big_expect(const char *call, const char *a, const char *b, long long got, int want)
{
    if (got >= -1 && got <= 1 && lv_big_sign(got) == want) return;
    printf("%s %s(%s,%s)=%s(%lld) expected %s", lv_bigbad ? "" : "BIG:differs", call, a, b, lv_big_cmpname(got), got, lv_big_cmpname(want));
    lv_bigbad = 1;
}
static void big_expect_n(const char *what, const char *a, long long got, long long want)
{
    if (got == want) return;
    printf("%s %s(%s)=%lld expected %lld", lv_bigbad ? "" : "BIG:differs", what, a, got, want);
    lv_bigbad = 1;
}
static void run_big_dup(char **t)
{
    lv_big_t A;
    int ismb = !strcmp(t[2], "mbuff");
    spif_obj_t a, d;
    unsigned char *dbytes;
    long long dlen;
    if (!lv_big_parse(t[3], &A) || (!ismb && strcmp(t[2], "str"))) { printf("HARNESS-ERROR:bad-big-case"); return; }
    if (ismb) {
        spif_mbuff_t x = spif_mbuff_new();
        if (!lv_big_map(&A, 0, 1, 0)) { printf("HARNESS-ERROR:big-map"); return; }
        x->buff = (spif_byteptr_t) A.base; x->len = x->size = (spif_memidx_t) A.len;
        a = SPIF_OBJ(x);
    } else {
        spif_str_t x = spif_str_new();
        if (!lv_big_map(&A, 'a', 'b', 1)) { printf("HARNESS-ERROR:big-map"); return; }
        A.base[A.len] = 0;
        x->s = (spif_charptr_t) A.base; x->len = (spif_stridx_t) A.len; x->size = (spif_stridx_t) A.len + 1;
        a = SPIF_OBJ(x);
    }
    lv_big_readonly(&A);
    d = SPIF_OBJ_DUP(a);
    big_expect_n("dup:isnull", t[3], SPIF_OBJ_ISNULL(d) ? 1 : 0, 0);
    if (!SPIF_OBJ_ISNULL(d)) {
        big_expect_n("dup:distinct-object", t[3], d != a, 1);
        big_expect_n("dup:same-class", t[3], SPIF_OBJ_CLASS(d) == SPIF_OBJ_CLASS(a), 1);
        if (ismb) { dbytes = (unsigned char *) ((spif_mbuff_t) d)->buff; dlen = (long long) ((spif_mbuff_t) d)->len; }
        else { dbytes = (unsigned char *) ((spif_str_t) d)->s; dlen = (long long) ((spif_str_t) d)->len; }
        big_expect_n("dup:own-storage", t[3], dbytes != A.base && dbytes != NULL, 1);
        big_expect_n("dup:len", t[3], dlen, A.len);
        if (dbytes && dbytes != A.base && dlen == A.len) {
            long long at = lv_big_haspoke(&A, A.len) ? A.off : A.len - 1;
            big_expect("SPIF_OBJ_COMP(original,copy)", t[3], "copy", (long long) SPIF_OBJ_COMP(a, d), 0);
            big_expect("SPIF_OBJ_COMP(copy,original)", "copy", t[3], (long long) SPIF_OBJ_COMP(d, a), 0);
            if (!ismb) big_expect_n("dup:terminator", t[3], dbytes[A.len], 0);
            if (at >= 0) {
                /* a byte of the copy is raised: the original keeps its own, the copy now sorts after it */
                unsigned char was = dbytes[at];
                big_expect_n("dup:byte-at-mark", t[3], was, A.base[at]);
                dbytes[at] = (unsigned char) (was + 1);
                big_expect_n("original-after-writing-to-the-copy", t[3], A.base[at], was);
                big_expect("SPIF_OBJ_COMP(original,changed copy)", t[3], "copy", (long long) SPIF_OBJ_COMP(a, d), -1);
            }
        }
        SPIF_OBJ_DEL(d);
        big_expect("SPIF_OBJ_COMP(original,original) after the copy is gone", t[3], t[3], (long long) SPIF_OBJ_COMP(a, a), 0);
    }
    if (ismb) { ((spif_mbuff_t) a)->buff = (spif_byteptr_t) NULL; ((spif_mbuff_t) a)->len = ((spif_mbuff_t) a)->size = 0; }
    else { ((spif_str_t) a)->s = (spif_charptr_t) NULL; ((spif_str_t) a)->len = ((spif_str_t) a)->size = 0; }
    SPIF_OBJ_DEL(a);
    lv_big_unmap(&A);
    if (!lv_bigbad) printf("BIG:ok");
}
static void run_big(int n, char **t)
{
    lv_big_t A, B;
    int ismb;
    spif_obj_t a, b;
    lv_bigbad = 0;
    if (n == 5 && !strcmp(t[1], "dup")) { run_big_dup(t); return; }
    if (n != 5 || strcmp(t[1], "comp") || !lv_big_parse(t[3], &A) || !lv_big_parse(t[4], &B)) { printf("HARNESS-ERROR:bad-big-case"); return; }
    ismb = !strcmp(t[2], "mbuff");
    if (!ismb && strcmp(t[2], "str")) { printf("HARNESS-ERROR:bad-big-case"); return; }
    if (ismb) {
        spif_mbuff_t x = spif_mbuff_new(), y = spif_mbuff_new();
        if (!lv_big_map(&A, 0, 1, 0) || !lv_big_map(&B, 0, 1, 0)) { printf("HARNESS-ERROR:big-map"); return; }
        x->buff = (spif_byteptr_t) A.base; x->len = x->size = (spif_memidx_t) A.len;
        y->buff = (spif_byteptr_t) B.base; y->len = y->size = (spif_memidx_t) B.len;
        a = SPIF_OBJ(x); b = SPIF_OBJ(y);
    } else {
        spif_str_t x = spif_str_new(), y = spif_str_new();
        if (!lv_big_map(&A, 'a', 'b', 1) || !lv_big_map(&B, 'a', 'b', 1)) { printf("HARNESS-ERROR:big-map"); return; }
        A.base[A.len] = 0; B.base[B.len] = 0;
        x->s = (spif_charptr_t) A.base; x->len = (spif_stridx_t) A.len; x->size = (spif_stridx_t) A.len + 1;
        y->s = (spif_charptr_t) B.base; y->len = (spif_stridx_t) B.len; y->size = (spif_stridx_t) B.len + 1;
        a = SPIF_OBJ(x); b = SPIF_OBJ(y);
    }
    lv_big_readonly(&A); lv_big_readonly(&B);
    big_expect("SPIF_OBJ_COMP", t[3], t[4], (long long) SPIF_OBJ_COMP(a, b), lv_big_order(&A, &B));
    big_expect("SPIF_OBJ_COMP", t[4], t[3], (long long) SPIF_OBJ_COMP(b, a), lv_big_order(&B, &A));
    big_expect("SPIF_OBJ_COMP", t[3], t[3], (long long) SPIF_OBJ_COMP(a, a), 0);
    big_expect("SPIF_OBJ_COMP", t[4], t[4], (long long) SPIF_OBJ_COMP(b, b), 0);
    if (ismb) {
        big_expect("spif_mbuff_comp", t[3], t[4], (long long) spif_mbuff_comp((spif_mbuff_t) a, (spif_mbuff_t) b), lv_big_order(&A, &B));
        big_expect("spif_mbuff_comp", t[4], t[3], (long long) spif_mbuff_comp((spif_mbuff_t) b, (spif_mbuff_t) a), lv_big_order(&B, &A));
        ((spif_mbuff_t) a)->buff = ((spif_mbuff_t) b)->buff = (spif_byteptr_t) NULL;      /* the mappings are not theirs to free */
        ((spif_mbuff_t) a)->len = ((spif_mbuff_t) a)->size = ((spif_mbuff_t) b)->len = ((spif_mbuff_t) b)->size = 0;
    } else {
        big_expect("spif_str_comp", t[3], t[4], (long long) spif_str_comp((spif_str_t) a, (spif_str_t) b), lv_big_order(&A, &B));
        big_expect("spif_str_comp", t[4], t[3], (long long) spif_str_comp((spif_str_t) b, (spif_str_t) a), lv_big_order(&B, &A));
        ((spif_str_t) a)->s = ((spif_str_t) b)->s = (spif_charptr_t) NULL;
        ((spif_str_t) a)->len = ((spif_str_t) a)->size = ((spif_str_t) b)->len = ((spif_str_t) b)->size = 0;
    }
    SPIF_OBJ_DEL(a); SPIF_OBJ_DEL(b);
    lv_big_unmap(&A); lv_big_unmap(&B);
    if (!lv_bigbad) printf("BIG:ok");
}

static void run_case(int ntok, char **tok)
{
    int i, start, nops = 0;
    if (ntok >= 1 && !strcmp(tok[0], "big")) { run_big(ntok, tok); fflush(stdout); return; }
    pcre_malloc = lv_pcre_malloc;
    pcre_free = lv_pcre_free;
    for (i = 0; i < MAXH; i++) { hp[i] = NULL; hk[i] = K_NONE; }
    hn = 0; faulted = 0; lv_badfree = 0;
    base_live = lv_live;
    if (ntok < 2) { printf("HARNESS-ERROR:case"); return; }
    /* tok[0] = kind, tok[1] = oracle table (the implementation needs none), then ops separated by ";" */
    i = 2;
    while (i < ntok && !faulted) {
        while (i < ntok && !strcmp(tok[i], ";")) i++;
        if (i >= ntok) break;
        start = i;
        while (i < ntok && strcmp(tok[i], ";")) i++;
        if (nops++) putchar(' ');
        run_op(i - start, tok + start);
        if (lv_badfree && !faulted) { putchar(' '); fault("Bad_free"); }
        if (!faulted) put_ledger();
    }
    fflush(stdout);
}
