/* C12 harness: spiftool_split / spif_tok_eval / spiftool_join / get_word / get_pword /
 * num_words on exactly sized heap blocks (ASan redzones directly behind the terminator).
 * Output format is the one of driver/c12_main.ml.
 *   split D S          D = N (NULL delimiter set) or hex ("-" = empty string); S hex
 *   tok D S            the real spif_tok_* API, tokens read through the list interface
 *   join SEP t1 t2 ..  SEP = N or hex
 *   rt D SEP t1 t2 ..  join, then split the result with D
 *   words S            num_words, then get_word(i) / get_pword(i) for i = 0 .. n+1
 *   splitbig D UNIT K  split of UNIT repeated K times: count, first and last token
 *   tokobj S0 ; op ; op ...   ONE tok object through a history.  S0 = hex source (spif_tok_new_from_ptr) or N
 *                      (spif_tok_new, no source).  Operations:
 *                        src H | src N      spif_tok_set_src(tk, spif_str_new_from_ptr(H)) / (tk, NULL)
 *                        sep H | sep N      spif_tok_set_sep likewise
 *                        q XX | dq XX | esc XX   spif_tok_set_quote / _dquote / _escape (one hex byte)
 *                        eval               spif_tok_eval(tk); prints "F" or the token list "T n t1 .. tn" and, while
 *                                           the quote characters are the defaults, " / " and spiftool_split() of the
 *                                           CURRENT source with the CURRENT separators
 *                        dup                c = spif_tok_dup(tk); spif_tok_del(tk); tk = c; prints "D " and c's list
 *                                           ("U" = tokens member NULL)
 *                        fork               c = spif_tok_dup(tk); eval c and print as eval does; spif_tok_del(c)
 *                        done               spif_tok_done(tk)
 *                      The printed parts are separated by " ; ".
 */
#define main lv_common_main_unused
#include "common.h"
#undef main
#include <signal.h>
#include <sys/mman.h>
#include <sys/wait.h>

/* splitbig frees tens of thousands of large token blocks; the default 256 MB quarantine
 * makes that page-fault bound (40 s), a 16 MB one does not (options named in ASAN_OPTIONS
 * still win) */
const char *__asan_default_options(void) { return "quarantine_size_mb=16"; }

static char *dset(const char *h) { return (h[0] == 'N' && !h[1]) ? NULL : lv_unhex_str(h); }

static void put_tokens(spif_charptr_t *sl)
{
    size_t n = 0, i;
    if (sl) while (sl[n]) n++;
    printf("T %lu", (unsigned long) n);
    for (i = 0; i < n; i++) { putchar(' '); lv_puthex(sl[i], strlen((char *) sl[i])); }
}
static void free_tokens(spif_charptr_t *sl)
{
    size_t i;
    if (!sl) return;
    for (i = 0; sl[i]; i++) free(sl[i]);
    free(sl);
}

/* the token list of a tok object as it stands: "T n t1 .. tn", "U" when the member is NULL */
static void put_tok_list(spif_tok_t tk)
{
    spif_list_t l = SPIF_TOK_LIST(tk);
    spif_listidx_t cnt, i;
    if (SPIF_LIST_ISNULL(l)) { putchar('U'); return; }
    cnt = SPIF_LIST_COUNT(l);
    printf("T %lu", (unsigned long) cnt);
    for (i = 0; i < cnt; i++) {
        spif_str_t e = (spif_str_t) SPIF_LIST_GET(l, i);
        const char *p = SPIF_STR_ISNULL(e) ? NULL : (const char *) e->s;
        putchar(' ');
        if (SPIF_STR_ISNULL(e)) printf("NULLOBJ");
        else if (!p) putchar('-');
        else lv_puthex(p, strlen(p));
    }
}
/* evaluate and print; with the default quote characters also what split says about the same source and separators */
static void eval_and_put(spif_tok_t tk)
{
    if (!spif_tok_eval(tk)) { putchar('F'); return; }
    put_tok_list(tk);
    if (tk->quote == '\'' && tk->dquote == '\"' && tk->escape == '\\' && !SPIF_STR_ISNULL(tk->src)) {
        const char *sp = (const char *) SPIF_STR_STR(tk->src);
        char *s = (char *) malloc(strlen(sp ? sp : "") + 1), *d = NULL;
        spif_charptr_t *sl;
        strcpy(s, sp ? sp : "");
        if (!SPIF_STR_ISNULL(tk->sep)) {
            const char *dp = (const char *) SPIF_STR_STR(tk->sep);
            d = (char *) malloc(strlen(dp ? dp : "") + 1);
            strcpy(d, dp ? dp : "");
        }
        sl = spiftool_split((spif_charptr_t) d, (spif_charptr_t) s);
        printf(" / ");
        put_tokens(sl);
        free_tokens(sl); free(s); free(d);
    }
}
static spif_str_t str_arg(const char *h)
{
    /* the object copies the text: the caller's exactly sized buffer is freed at once */
    char *b;
    spif_str_t r;
    if (h[0] == 'N' && !h[1]) return (spif_str_t) NULL;
    b = lv_unhex_str(h);
    r = spif_str_new_from_ptr((spif_charptr_t) b);
    free(b);
    return r;
}
static void run_tokobj(int n, char **t)
{
    spif_tok_t tk;
    int i = 2, first = 1;
    if (n < 2) { printf("HARNESS-ERROR:bad-case"); return; }
    if (t[1][0] == 'N' && !t[1][1]) tk = spif_tok_new();
    else { char *b = lv_unhex_str(t[1]); tk = spif_tok_new_from_ptr((spif_charptr_t) b); free(b); }
    if (SPIF_TOK_ISNULL(tk)) { printf("NEW-NULL"); return; }
    while (i < n) {
        const char *op;
        if (strcmp(t[i], ";") || i + 1 >= n) { printf(" HARNESS-ERROR:bad-case"); break; }
        op = t[i + 1];
        i += 2;
        if (!strcmp(op, "src") && i < n) spif_tok_set_src(tk, str_arg(t[i++]));
        else if (!strcmp(op, "sep") && i < n) spif_tok_set_sep(tk, str_arg(t[i++]));
        else if (!strcmp(op, "q") && i < n) spif_tok_set_quote(tk, (spif_char_t) strtol(t[i++], NULL, 16));
        else if (!strcmp(op, "dq") && i < n) spif_tok_set_dquote(tk, (spif_char_t) strtol(t[i++], NULL, 16));
        else if (!strcmp(op, "esc") && i < n) spif_tok_set_escape(tk, (spif_char_t) strtol(t[i++], NULL, 16));
        else if (!strcmp(op, "done")) spif_tok_done(tk);
        else if (!strcmp(op, "eval") || !strcmp(op, "fork") || !strcmp(op, "dup")) {
            if (!first) printf(" ; ");
            first = 0;
            if (op[0] == 'e') eval_and_put(tk);
            else {
                spif_tok_t c = spif_tok_dup(tk);
                if (SPIF_TOK_ISNULL(c)) { printf("DUP-NULL"); continue; }
                if (op[0] == 'f') { eval_and_put(c); spif_tok_del(c); }
                else { spif_tok_del(tk); tk = c; printf("D "); put_tok_list(tk); }
            }
        } else { printf(" HARNESS-ERROR:bad-case"); break; }
    }
    if (first) putchar('-');
    spif_tok_del(tk);
}

static void run_case(int n, char **t)
{
    if (n >= 2 && !strcmp(t[0], "tokobj")) {
        run_tokobj(n, t);
    } else if (n == 3 && !strcmp(t[0], "split")) {
        char *d = dset(t[1]), *s = lv_unhex_str(t[2]);
        spif_charptr_t *sl = spiftool_split((spif_charptr_t) d, (spif_charptr_t) s);
        put_tokens(sl);
        free_tokens(sl); free(s); free(d);
    } else if (n == 4 && !strcmp(t[0], "splitbig")) {
        char *d = dset(t[1]), *u = lv_unhex_str(t[2]);
        size_t ul = strlen(u), k = (size_t) atol(t[3]), i, cnt = 0;
        char *s = (char *) malloc(ul * k + 1);
        spif_charptr_t *sl;
        for (i = 0; i < k; i++) memcpy(s + i * ul, u, ul);
        s[ul * k] = 0;
        sl = spiftool_split((spif_charptr_t) d, (spif_charptr_t) s);
        if (sl) while (sl[cnt]) cnt++;
        printf("T %lu", (unsigned long) cnt);
        if (cnt) {
            putchar(' '); lv_puthex(sl[0], strlen((char *) sl[0]));
            putchar(' '); lv_puthex(sl[cnt - 1], strlen((char *) sl[cnt - 1]));
        }
        free_tokens(sl); free(s); free(u); free(d);
    } else if (n == 3 && !strcmp(t[0], "tok")) {
        char *d = dset(t[1]), *s = lv_unhex_str(t[2]);
        spif_tok_t tk = spif_tok_new_from_ptr((spif_charptr_t) s);
        spif_list_t l;
        spif_listidx_t cnt, i;
        if (d) spif_tok_set_sep(tk, spif_str_new_from_ptr((spif_charptr_t) d));
        if (!spif_tok_eval(tk)) { printf("EVAL-FALSE"); }
        else {
            l = SPIF_TOK_LIST(tk);
            cnt = SPIF_LIST_COUNT(l);
            printf("T %lu", (unsigned long) cnt);
            for (i = 0; i < cnt; i++) {
                spif_str_t e = (spif_str_t) SPIF_LIST_GET(l, i);
                const char *p = SPIF_STR_ISNULL(e) ? NULL : (const char *) e->s;
                putchar(' ');
                if (SPIF_STR_ISNULL(e)) printf("NULLOBJ");
                else if (!p) putchar('-');
                else lv_puthex(p, strlen(p));
            }
        }
        spif_tok_del(tk);
        free(s); free(d);
    } else if (n >= 2 && (!strcmp(t[0], "join") || !strcmp(t[0], "rt"))) {
        int rt = (t[0][0] == 'r'), first = rt ? 3 : 2, i, k = n - first;
        char *d = rt ? dset(t[1]) : NULL, *sep;
        spif_charptr_t *sl, r;
        if (k < 0) { printf("HARNESS-ERROR:bad-case"); return; }
        sep = dset(t[first - 1]);
        sl = (spif_charptr_t *) malloc(sizeof(spif_charptr_t) * (k + 1));
        for (i = 0; i < k; i++) sl[i] = (spif_charptr_t) lv_unhex_str(t[first + i]);
        sl[k] = NULL;
        r = spiftool_join((spif_charptr_t) sep, sl);
        if (!r) printf("NULL");
        else { printf("J "); lv_puthex(r, strlen((char *) r)); }
        if (rt && r) {
            /* hand split an exactly sized copy */
            char *c = (char *) malloc(strlen((char *) r) + 1);
            spif_charptr_t *s2;
            strcpy(c, (char *) r);
            s2 = spiftool_split((spif_charptr_t) d, (spif_charptr_t) c);
            putchar(' ');
            put_tokens(s2);
            free_tokens(s2); free(c);
        }
        if (r) free(r);
        for (i = 0; i < k; i++) free(sl[i]);
        free(sl); free(sep); free(d);
    } else if (n == 2 && !strcmp(t[0], "words")) {
        char *s = lv_unhex_str(t[1]);
        unsigned long nw = spiftool_num_words((spif_charptr_t) s), i;
        printf("N %lu", nw);
        if (nw > 100000) { free(s); return; }
        for (i = 0; i <= nw + 1; i++) {
            spif_charptr_t w, p;
            printf(" ; ");
            w = spiftool_get_word(i, (spif_charptr_t) s);
            if (!w) printf("W:NULL"); else { printf("W:"); lv_puthex(w, strlen((char *) w)); free(w); }
            p = spiftool_get_pword(i, (spif_charptr_t) s);
            if (!p) printf(" P:NULL"); else printf(" P:%ld", (long) ((char *) p - s));
        }
        free(s);
    } else if (n == 2 && !strcmp(t[0], "all")) {
        /* every scanner on one string: split and tok with the four delimiter sets, then the words */
        static const char *ds[4] = { "N", "3a", "203a", "6162" };
        char *sub[3];
        int i;
        for (i = 0; i < 8; i++) {
            sub[0] = (char *) (i < 4 ? "split" : "tok"); sub[1] = (char *) ds[i & 3]; sub[2] = t[1];
            run_case(3, sub);
            printf(" | ");
        }
        sub[0] = (char *) "words"; sub[1] = t[1];
        run_case(2, sub);
    } else {
        printf("HARNESS-ERROR:bad-case");
    }
}

/* Own main (common.h's is compiled out): the cases run in a forked child; when the child
 * dies in case k (sanitizer report, signal, 10 s alarm) the parent prints "#k FAULT:..."
 * in the wording of vlib.classify_crash and forks a new child for k+1.  A whole line is
 * printed only when its case has finished, so a fault never leaves partial output. */
static const char *lv_classify(const char *err, int status, char *buf, size_t bl)
{
    const char *a = strstr(err, "AddressSanitizer: ");
    if (a) {
        char kind[64];
        size_t i = 0;
        a += 18;
        while (a[i] && a[i] != ' ' && a[i] != '\n' && i < sizeof(kind) - 1) { kind[i] = a[i]; i++; }
        kind[i] = 0;
        if (!strcmp(kind, "heap-use-after-free")) return "FAULT:Use_after_free";
        if (!strcmp(kind, "SEGV")) return "FAULT:Null_deref:SEGV";
        if (!strcmp(kind, "stack-overflow")) return "FAULT:Out_of_fuel:stack-overflow";
        if (!strcmp(kind, "attempting") || !strcmp(kind, "double-free") || !strcmp(kind, "bad-free")) {
            snprintf(buf, bl, "FAULT:Bad_free:%s", kind); return buf;
        }
        if (strstr(kind, "overflow") || strstr(kind, "underflow") || strstr(kind, "overlap") || strstr(kind, "poison")
            || strstr(kind, "negative-size")) {
            snprintf(buf, bl, "FAULT:%s:%s", strstr(err, "WRITE of size") ? "OOB_write" : "OOB_read", kind); return buf;
        }
        snprintf(buf, bl, "FAULT:asan:%s", kind); return buf;
    }
    if (strstr(err, "runtime error:")) return "FAULT:ubsan";
    if (WIFSIGNALED(status) && WTERMSIG(status) == SIGALRM) return "FAULT:Out_of_fuel:timeout";
    if (WIFSIGNALED(status)) { snprintf(buf, bl, "FAULT:signal:%d", WTERMSIG(status)); return buf; }
    snprintf(buf, bl, "FAULT:exit:%d", WEXITSTATUS(status)); return buf;
}

int main(int argc, char **argv)
{
    FILE *f;
    char **lines = NULL, *line = NULL;
    size_t cap = 0, nl = 0, al = 0;
    long start = (argc > 2) ? atol(argv[2]) : 0, crashes = 0;
    volatile long *cur;
    static char outbuf[1 << 20];

    if (argc < 2 || !(f = fopen(argv[1], "r"))) { fprintf(stderr, "usage: harness cases [start]\n"); return 2; }
    while (getline(&line, &cap, f) > 0) {
        if (nl == al) { al = al ? al * 2 : 1024; lines = (char **) realloc(lines, al * sizeof(char *)); }
        lines[nl++] = strdup(line);
    }
    fclose(f);
    cur = (volatile long *) mmap(NULL, sizeof(long), PROT_READ | PROT_WRITE, MAP_SHARED | MAP_ANONYMOUS, -1, 0);
    setvbuf(stdout, outbuf, _IOFBF, sizeof(outbuf));
    while (start < (long) nl) {
        int pfd[2], status;
        pid_t pid;
        char err[16384], cls[128];
        size_t el = 0;
        ssize_t r;
        fflush(stdout);
        if (pipe(pfd)) return 3;
        *cur = start;
        pid = fork();
        if (pid < 0) return 3;
        if (pid == 0) {
            long k;
            char *tok[LV_MAXTOK];
            close(pfd[0]); dup2(pfd[1], 2); close(pfd[1]);
            for (k = start; k < (long) nl; k++) {
                int n = lv_split(lines[k], tok);
                *cur = k;
                alarm(n > 0 && !strcmp(tok[0], "splitbig") ? 120 : 10);
                printf("#%ld ", k);
                run_case(n, tok);
                putchar('\n');
                fflush(stdout);
            }
            alarm(0);
            _exit(0);
        }
        close(pfd[1]);
        /* drain the child's stderr to its end (a child that is left with a closed pipe dies of SIGPIPE on its next
           trace line: with LV_DEBUG_LEVEL set every refused call logs one); keep the tail, where a report would be */
        for (;;) {
            if (el > sizeof(err) - 1 - 4096) { memmove(err, err + el - 8192, 8192); el = 8192; }
            r = read(pfd[0], err + el, sizeof(err) - 1 - el);
            if (r <= 0) break;
            el += (size_t) r;
        }
        err[el] = 0;
        close(pfd[0]);
        while (waitpid(pid, &status, 0) < 0) ;
        if (WIFEXITED(status) && WEXITSTATUS(status) == 0) break;
        /* the child lost its unflushed output (at most the line of the faulting case) */
        printf("#%ld %s\n", (long) *cur, lv_classify(err, status, cls, sizeof(cls)));
        if (crashes++ == 0) fputs(err, stderr);
        start = *cur + 1;
        /* a tree this broken needs no further evidence; forking an ASan process is slow */
        if (crashes >= 300) { fprintf(stderr, "harness: 300 faults, giving up\n"); break; }
    }
    fflush(stdout);
    return 0;
}
