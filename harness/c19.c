/* C19 harness: lifecycle histories of spif_socket_t objects over real descriptors, with the system
 * calls the library makes interposed at link time (-Wl,--wrap=read,write,accept,close,dup,socket,
 * bind,listen,connect,select).
 *
 *   sim  mode: the wrappers ARE the kernel oracle of the model: socket/accept/dup hand out real
 *              descriptors (so /proc/self/fd sees every leak) or fail as the case says;
 *              bind/listen/connect only report the outcome given in the case; write/read follow the
 *              case's write/read schedule completely (exhausted write schedule: everything taken;
 *              exhausted read schedule: end of file).
 *   real mode: real AF_UNIX stream sockets opened through unix: URLs under a private directory;
 *              outcome bit 1 = call the real function, 0 = fail without calling it; the first k
 *              write/read calls of a transfer are shortened/interrupted as the schedule says (the
 *              bytes really travel through the kernel), later calls go through unchanged.
 *
 *
 * Descriptor NUMBERS are an input class of their own: an optional first operation `fds <n>` makes n the
 * lowest descriptor number that is free when the scenario starts.  n = 0, 1, 2: the standard streams
 * from n on are closed around the scenario (a daemon without stdin/stdout/stderr) - the harness's own
 * stdout, the saved standard streams, the sanitizer's report descriptor, the case file and /dev/null
 * all live on descriptors >= HI, so nothing of the harness is in the way; n >= 3: everything below n
 * is taken (sim: the descriptor-table oracle hands out the lowest free number >= n; real: the numbers
 * below n are really occupied by duplicates of /dev/null).  Without `fds` the lowest free number is 3.
 * The census compares the SET of open descriptors, 0-2 included, with the set before the scenario.
 *
 * Output format: see driver/c19_main.ml (must match exactly). */
#define main lv_main
#define LV_MAXTOK 8192
#include "common.h"
#undef main
#include <errno.h>
#include <fcntl.h>
#include <dirent.h>
#include <signal.h>
#include <sys/types.h>
#include <sys/socket.h>
#include <sys/un.h>
#include <sys/select.h>
#include <sys/time.h>
#include <sys/resource.h>

ssize_t __real_read(int, void *, size_t);
ssize_t __real_write(int, const void *, size_t);
int __real_accept(int, struct sockaddr *, socklen_t *);
int __real_close(int);
int __real_dup(int);
int __real_socket(int, int, int);
int __real_bind(int, const struct sockaddr *, socklen_t);
int __real_listen(int, int);
int __real_connect(int, const struct sockaddr *, socklen_t);
int __real_select(int, fd_set *, fd_set *, fd_set *, struct timeval *);

enum { M_OFF = 0, M_SIM = 1, M_REAL = 2 };
static int g_mode = M_OFF;         /* interposition active only while a library call is running */
static char g_dir[512];
static long g_caseno;

/* ---- plans for the next library call ---- */
#define MAXSCHED 64
struct witem { int kind; long k; };                 /* 'w' k | 'i' | 'a' | 'e' errno */
static struct witem g_ws[MAXSCHED]; static int g_wn, g_wpos;
struct ritem { int kind; long k; unsigned char *data; size_t len, off; };   /* sim: 'd' data | 'i' 'a' 'z' 'x'; real: 't' k | 'i' */
static struct ritem g_rs[MAXSCHED]; static int g_rn, g_rpos;
static int g_sock_ok = 1, g_bind_ok = 1, g_conn_ok = 1, g_listen_ok = 1, g_acc_ok = 1, g_dup_ok = 1;
static long g_again_left;
static int g_close_plan; static long g_eintr_left; static int g_close_ok = 1;
static unsigned long g_acc_len; static unsigned int g_acc_hash;
static long g_nsel; static struct timeval g_lastsel;
static long g_io_calls;
static char g_realfail[128];
#define HI 4000                    /* the harness's own descriptors live at HI .. HI+5 */
static int g_devnull = -1, g_save[3] = { -1, -1, -1 };
static int g_min;                  /* sim: socket/accept/dup hand out the lowest free number >= g_min */
static int g_fill[HI + 8]; static int g_nfill;

/* sim mode with `fds n`, n > 3: the descriptor table hands out the lowest free number >= n */
static int place(int fd)
{
    int n, e;
    if (fd < 0 || g_min <= 3) return fd;
    n = fcntl(fd, F_DUPFD, g_min);
    e = errno;
    __real_close(fd);
    errno = e;
    return n;
}

static void note_realfail(const char *what)
{
    if (!g_realfail[0]) snprintf(g_realfail, sizeof(g_realfail), "!real:%s:%d", what, errno);
}
static void acc_add(const unsigned char *b, size_t n)
{
    size_t i;
    for (i = 0; i < n; i++) g_acc_hash = (g_acc_hash ^ b[i]) * 16777619u;
    g_acc_len += n;
}
static unsigned int fnv(const unsigned char *b, size_t n)
{
    unsigned int h = 0x811c9dc5u; size_t i;
    for (i = 0; i < n; i++) h = (h ^ b[i]) * 16777619u;
    return h;
}
static void runaway(void)
{
    if (++g_io_calls > 300000) {
        static const char msg[] = "C19 harness: runaway I/O loop (more than 300000 calls in one operation)\n";
        __real_write(g_save[2] >= 0 ? g_save[2] : 2, msg, sizeof(msg) - 1);
        abort();
    }
}
static int fd_valid(int fd) { return fd >= 0 && fcntl(fd, F_GETFD) != -1; }

/* ---- the wrappers ---- */
ssize_t __wrap_write(int fd, const void *buf, size_t count)
{
    if (g_mode == M_OFF) return __real_write(fd, buf, count);
    runaway();
    if (!fd_valid(fd)) { errno = EBADF; return -1; }
    if (g_wpos < g_wn) {
        struct witem *it = &g_ws[g_wpos++];
        switch (it->kind) {
            case 'w': {
                size_t n = (it->k < 0) ? 0 : (size_t) it->k;
                ssize_t r;
                if (n > count) n = count;
                if (g_mode == M_SIM) { acc_add((const unsigned char *) buf, n); return (ssize_t) n; }
                r = __real_write(fd, buf, n);
                if (r >= 0) acc_add((const unsigned char *) buf, (size_t) r); else note_realfail("write");
                return r;
            }
            case 'i': errno = EINTR; return -1;
            case 'a': errno = EAGAIN; return -1;
            default: errno = (int) it->k; return -1;
        }
    }
    if (g_mode == M_SIM) { acc_add((const unsigned char *) buf, count); return (ssize_t) count; }
    {
        ssize_t r = __real_write(fd, buf, count);
        if (r >= 0) acc_add((const unsigned char *) buf, (size_t) r); else note_realfail("write");
        return r;
    }
}

ssize_t __wrap_read(int fd, void *buf, size_t count)
{
    if (g_mode == M_OFF) return __real_read(fd, buf, count);
    runaway();
    if (!fd_valid(fd)) { errno = EBADF; return -1; }
    if (g_mode == M_SIM) {
        while (g_rpos < g_rn) {
            struct ritem *it = &g_rs[g_rpos];
            switch (it->kind) {
                case 'd': {
                    size_t n;
                    if (it->len == 0) { g_rpos++; return 0; }
                    n = it->len - it->off;
                    if (n > count) n = count;
                    memcpy(buf, it->data + it->off, n);
                    it->off += n;
                    if (it->off >= it->len) g_rpos++;
                    return (ssize_t) n;
                }
                case 'i': g_rpos++; errno = EINTR; return -1;
                case 'a': g_rpos++; errno = EAGAIN; return -1;
                case 'z': g_rpos++; return 0;
                default:  g_rpos++; errno = EIO; return -1;
            }
        }
        return 0;
    }
    if (g_rpos < g_rn) {
        struct ritem *it = &g_rs[g_rpos++];
        if (it->kind == 'i') { errno = EINTR; return -1; }
        {
            size_t n = (it->k < 1) ? 1 : (size_t) it->k;
            if (n > count) n = count;
            return __real_read(fd, buf, n);
        }
    }
    return __real_read(fd, buf, count);
}

int __wrap_accept(int fd, struct sockaddr *addr, socklen_t *len)
{
    if (g_mode == M_OFF) return __real_accept(fd, addr, len);
    runaway();
    if (!fd_valid(fd)) { errno = EBADF; return -1; }
    if (g_again_left > 0) { g_again_left--; errno = EAGAIN; return -1; }
    if (!g_acc_ok) { errno = ECONNABORTED; return -1; }
    if (g_mode == M_SIM) {
        int nfd = place(__real_socket(AF_UNIX, SOCK_STREAM, 0));
        if (nfd >= 0 && addr && len && *len >= sizeof(sa_family_t)) {
            /* what Linux reports for an unnamed peer: the family only */
            addr->sa_family = AF_UNIX;
            *len = sizeof(sa_family_t);
        }
        return nfd;
    }
    {
        int r = __real_accept(fd, addr, len);
        if (r < 0) note_realfail("accept");
        return r;
    }
}

int __wrap_close(int fd)
{
    if (g_mode == M_OFF || !g_close_plan) return __real_close(fd);
    runaway();
    if (g_eintr_left > 0) { g_eintr_left--; errno = EINTR; return -1; }   /* descriptor stays open */
    g_close_plan = 0;
    {
        int r = __real_close(fd);                                          /* descriptor released ... */
        if (!g_close_ok && r == 0) { errno = EIO; return -1; }             /* ... even when an error is reported */
        return r;
    }
}

int __wrap_dup(int fd)
{
    if (g_mode == M_OFF) return __real_dup(fd);
    if (!g_dup_ok) { errno = EMFILE; return -1; }
    if (g_mode == M_SIM && g_min > 3) return fcntl(fd, F_DUPFD, g_min);
    return __real_dup(fd);
}

int __wrap_socket(int d, int t, int p)
{
    if (g_mode == M_OFF) return __real_socket(d, t, p);
    if (!g_sock_ok) { errno = EMFILE; return -1; }
    {
        int r = __real_socket(d, t, p);
        if (r < 0) note_realfail("socket");
        if (g_mode == M_SIM) r = place(r);
        return r;
    }
}

int __wrap_bind(int fd, const struct sockaddr *a, socklen_t l)
{
    if (g_mode == M_OFF) return __real_bind(fd, a, l);
    if (!g_bind_ok) { errno = EADDRINUSE; return -1; }
    if (g_mode == M_SIM) return 0;
    {
        int r = __real_bind(fd, a, l);
        if (r < 0) note_realfail("bind");
        return r;
    }
}

int __wrap_listen(int fd, int n)
{
    if (g_mode == M_OFF) return __real_listen(fd, n);
    if (!g_listen_ok) { errno = EADDRINUSE; return -1; }
    if (g_mode == M_SIM) return 0;
    {
        int r = __real_listen(fd, n);
        if (r < 0) note_realfail("listen");
        return r;
    }
}

int __wrap_connect(int fd, const struct sockaddr *a, socklen_t l)
{
    if (g_mode == M_OFF) return __real_connect(fd, a, l);
    if (!g_conn_ok) { errno = ECONNREFUSED; return -1; }
    if (g_mode == M_SIM) return 0;
    {
        int r = __real_connect(fd, a, l);
        if (r < 0) note_realfail("connect");
        return r;
    }
}

int __wrap_select(int n, fd_set *r, fd_set *w, fd_set *e, struct timeval *tv)
{
    if (g_mode == M_OFF || n != 0) return __real_select(n, r, w, e, tv);
    runaway();
    /* the back-off of spif_socket_send: record the timeout, do not sleep, leave *tv alone */
    g_nsel++;
    if (tv) g_lastsel = *tv;
    return 0;
}

/* ---- descriptor census from /proc/self/fd ---- */
#define MAXFD 4096
static unsigned char g_base[MAXFD], g_now[MAXFD];
static int census(unsigned char *set)
{
    DIR *d = opendir("/proc/self/fd");
    struct dirent *e;
    int n = 0, dfd;
    memset(set, 0, MAXFD);
    if (!d) return -1;
    dfd = dirfd(d);
    while ((e = readdir(d))) {
        int fd;
        if (e->d_name[0] < '0' || e->d_name[0] > '9') continue;
        fd = atoi(e->d_name);
        if (fd == dfd || fd >= MAXFD) continue;
        set[fd] = 1;
        n++;
    }
    closedir(d);
    return n;
}

/* ---- objects ---- */
#define MAXOBJ 64
static spif_socket_t g_obj[MAXOBJ];
static int g_nobj;

/* descriptors open now but not before the scenario / open before the scenario but not now */
static int diff_sets(int *missing)
{
    int i, extra = 0, miss = 0;
    for (i = 0; i < MAXFD; i++) {
        if (g_now[i] && !g_base[i]) extra++;
        if (g_base[i] && !g_now[i]) miss++;
    }
    if (missing) *missing = miss;
    return extra;
}
static void list_set(const char *tag, int want_now)
{
    int i, first = 1;
    printf("%s", tag);
    for (i = 0; i < MAXFD; i++) {
        if (want_now ? (g_now[i] && !g_base[i]) : (g_base[i] && !g_now[i])) { printf("%s%d", first ? "[" : ",", i); first = 0; }
    }
    printf("]");
}

static void payload_fill(unsigned char *b, long len, long seed)
{
    long j;
    for (j = 0; j < len; j++) b[j] = (unsigned char) (1 + ((seed + j * 7 + (j / 256) * 13) % 255));
}
static int parse_spec(const char *s, long *len, long *seed)
{
    return sscanf(s, "%ld:%ld", len, seed) == 2;
}

static void state_suffix(void)
{
    int i, dang = 0, extra, miss = 0;
    census(g_now);
    for (i = 0; i < g_nobj; i++) {
        if (g_obj[i] && g_obj[i]->fd >= 0 && !(g_obj[i]->fd < MAXFD && g_now[g_obj[i]->fd])) dang++;
    }
    extra = diff_sets(&miss);
    printf("+%d!%d", extra, dang);
    if (miss) printf("^%d", miss);          /* a descriptor that was open before the scenario is gone */
    printf(" ");
}

static void parse_ws(char *s)
{
    char *t;
    g_wn = g_wpos = 0;
    if (s[0] == '-') return;
    for (t = strtok(s, ","); t && g_wn < MAXSCHED; t = strtok(NULL, ",")) {
        struct witem *it = &g_ws[g_wn++];
        it->kind = t[0];
        it->k = 0;
        if (t[0] == 'w') it->k = atol(t + 1);
        else if (t[0] == 'e') {
            switch (t[1]) {
                case 'F': it->k = EFBIG; break;
                case 'I': it->k = EIO; break;
                case 'P': it->k = EPIPE; break;
                case 'V': it->k = EINVAL; break;
                default:  it->k = ECONNRESET; break;
            }
        }
    }
}
static void free_rs(void)
{
    int i;
    for (i = 0; i < g_rn; i++) { free(g_rs[i].data); g_rs[i].data = NULL; }
    g_rn = g_rpos = 0;
}
static void parse_rs(char *s)
{
    char *t;
    free_rs();
    if (s[0] == '-') return;
    for (t = strtok(s, ","); t && g_rn < MAXSCHED; t = strtok(NULL, ",")) {
        struct ritem *it = &g_rs[g_rn++];
        it->kind = t[0];
        it->k = 0; it->data = NULL; it->len = it->off = 0;
        if (t[0] == 'd') {
            long len, seed;
            if (parse_spec(t + 1, &len, &seed)) {
                it->data = (unsigned char *) malloc(len ? len : 1);
                payload_fill(it->data, len, seed);
                it->len = (size_t) len;
            }
        } else if (t[0] == 't') {
            it->k = atol(t + 1);
        }
    }
}

static void reset_plans(void)
{
    g_wn = g_wpos = 0;
    free_rs();
    g_sock_ok = g_bind_ok = g_conn_ok = g_listen_ok = g_acc_ok = g_dup_ok = 1;
    g_again_left = 0;
    g_close_plan = 0; g_eintr_left = 0; g_close_ok = 1;
    g_io_calls = 0;
}

static int live(int i) { return i >= 0 && i < g_nobj && g_obj[i] != NULL; }

static void run_op(int mode, int n, char **t, const char *path)
{
    int i = (n > 1) ? atoi(t[1]) : -1;
    reset_plans();
    if (!strcmp(t[0], "new") && n == 2) {
        char urlbuf[600];
        spif_url_t u;
        snprintf(urlbuf, sizeof(urlbuf), "unix:%s", path);
        u = spif_url_new_from_ptr(SPIF_CHARPTR(urlbuf));
        if (g_nobj < MAXOBJ) {
            g_obj[g_nobj++] = spif_socket_new_from_urls((t[1][0] == '1') ? u : (spif_url_t) NULL,
                                                        (t[1][1] == '1') ? u : (spif_url_t) NULL);
        }
        spif_url_del(u);
        printf("n");
    } else if (!live(i)) {
        printf("-");
    } else if (!strcmp(t[0], "open") && n == 3) {
        spif_bool_t b;
        g_sock_ok = t[2][0] == '1'; g_bind_ok = t[2][1] == '1'; g_conn_ok = t[2][2] == '1'; g_listen_ok = t[2][3] == '1';
        if (mode == M_REAL && g_obj[i]->fd < 0 && !SPIF_URL_ISNULL(g_obj[i]->local_url)) unlink(path);
        g_mode = mode;
        b = spif_socket_open(g_obj[i]);
        g_mode = M_OFF;
        printf("%s", b ? "T" : "F");
    } else if (!strcmp(t[0], "accept") && n == 5) {
        spif_socket_t s;
        g_again_left = atol(t[2]); g_acc_ok = t[3][0] == '1'; g_dup_ok = t[4][0] == '1';
        g_mode = mode;
        s = spif_socket_accept(g_obj[i]);
        g_mode = M_OFF;
        if (!SPIF_SOCKET_ISNULL(s) && g_nobj < MAXOBJ) g_obj[g_nobj++] = s;
        printf("%s", SPIF_SOCKET_ISNULL(s) ? "N" : "O");
    } else if ((!strcmp(t[0], "close") || !strcmp(t[0], "done") || !strcmp(t[0], "del")) && n == 4) {
        spif_bool_t b;
        g_close_plan = 1; g_eintr_left = atol(t[2]); g_close_ok = t[3][0] == '1';
        g_mode = mode;
        if (t[0][0] == 'c') b = spif_socket_close(g_obj[i]);
        else if (t[0][1] == 'o') b = spif_socket_done(g_obj[i]);
        else { b = spif_socket_del(g_obj[i]); g_obj[i] = NULL; }
        g_mode = M_OFF;
        printf("%s", b ? "T" : "F");
    } else if (!strcmp(t[0], "dup") && n == 3) {
        spif_socket_t s;
        g_dup_ok = t[2][0] == '1';
        g_mode = mode;
        s = spif_socket_dup(g_obj[i]);
        g_mode = M_OFF;
        if (!SPIF_SOCKET_ISNULL(s) && g_nobj < MAXOBJ) g_obj[g_nobj++] = s;
        printf("%s", SPIF_SOCKET_ISNULL(s) ? "N" : "O");
    } else if (!strcmp(t[0], "nbio") && n == 2) {
        spif_bool_t b;
        g_mode = mode;
        b = spif_socket_set_nbio(g_obj[i]);
        g_mode = M_OFF;
        printf("%s", b ? "T" : "F");
    } else if (!strcmp(t[0], "send") && n == 4) {
        long len, seed;
        int f0 = g_obj[i]->fd;
        char eff;
        spif_bool_t b;
        spif_str_t data;
        char *text;
        if (t[2][0] != 'P' || !parse_spec(t[2] + 1, &len, &seed)) { printf("HARNESS-ERROR:payload"); return; }
        text = (char *) malloc(len + 1);
        payload_fill((unsigned char *) text, len, seed);
        text[len] = 0;
        data = spif_str_new_from_ptr(SPIF_CHARPTR(text));
        free(text);
        parse_ws(t[3]);
        g_acc_len = 0; g_acc_hash = 0x811c9dc5u; g_nsel = 0; g_lastsel.tv_sec = 0; g_lastsel.tv_usec = 0;
        g_mode = mode;
        b = spif_socket_send(g_obj[i], data);
        g_mode = M_OFF;
        spif_str_del(data);
        census(g_now);
        if (g_obj[i]->fd == f0 && f0 >= 0) eff = 'K';
        else if (f0 < 0) eff = 'G';
        else eff = (f0 < MAXFD && g_now[f0]) ? 'G' : 'C';
        printf("S%s:%lu:%08x:%c~%ld:%ld.%06ld", b ? "T" : "F", g_acc_len, g_acc_hash, eff, g_nsel,
               (long) g_lastsel.tv_sec, (long) g_lastsel.tv_usec);
    } else if ((!strcmp(t[0], "recv") && n == 3) || (!strcmp(t[0], "rrecv") && n == 4)) {
        spif_str_t s;
        parse_rs(t[0][1] == 'r' ? t[3] : t[2]);
        g_mode = mode;
        s = spif_socket_recv(g_obj[i]);
        g_mode = M_OFF;
        if (SPIF_STR_ISNULL(s)) {
            printf("RN");
        } else {
            size_t len = (size_t) spif_str_get_len(s);
            const unsigned char *p = (const unsigned char *) SPIF_STR_STR(s);
            printf("R%lu:%08x%s~%ld", (unsigned long) len, fnv(p, len), p[len] == 0 ? "" : "!noterm", (long) spif_str_get_size(s));
            spif_str_del(s);
        }
    } else {
        printf("HARNESS-ERROR:bad-op:%s", t[0]);
    }
}

/* the first case: the descriptors that kept lv_main's fopen() away from the low numbers are released */
static void release_fill(void)
{
    while (g_nfill > 0) __real_close(g_fill[--g_nfill]);
}

static void run_case(int ntok, char **tok)
{
    int mode, k, start, i, fdbase = 3, first = 1, extra, miss = 0;
    char path[600];

    release_fill();
    if (ntok < 2) { printf("HARNESS-ERROR:empty"); return; }
    mode = !strcmp(tok[0], "sim") ? M_SIM : M_REAL;
    snprintf(path, sizeof(path), "%s/s%ld_%ld", g_dir, (long) getpid(), g_caseno++);
    unlink(path);
    g_nobj = 0;
    g_realfail[0] = 0;
    g_min = 0;
    alarm(60);
    /* ---- the descriptor numbers of this scenario ---- */
    if (!strcmp(tok[1], "fds")) {
        if (ntok < 3 || (ntok > 3 && strcmp(tok[3], ";"))) { printf("HARNESS-ERROR:fds"); return; }
        fdbase = atoi(tok[2]);
        if (fdbase < 0 || fdbase > HI - 2 * MAXOBJ - 4) { printf("HARNESS-ERROR:fds-range"); return; }
        for (i = fdbase; i <= 2; i++) __real_close(i);
        if (fdbase > 3) {
            if (mode == M_SIM) {
                g_min = fdbase;
            } else {
                for (;;) {
                    int d = __real_dup(g_devnull);
                    if (d < 0) { printf("HARNESS-ERROR:occupy:%d", errno); break; }
                    if (d >= fdbase) { __real_close(d); break; }
                    g_fill[g_nfill++] = d;
                }
            }
        }
    }
    census(g_base);
    for (start = 1, k = 1; k <= ntok; k++) {
        if (k == ntok || !strcmp(tok[k], ";")) {
            if (k > start) {
                if (!strcmp(tok[start], "fds")) {
                    if (!first) { printf("HARNESS-ERROR:fds-not-first"); break; }
                    printf("f");
                } else {
                    run_op(mode, k - start, tok + start, path);
                }
                first = 0;
                state_suffix();
            }
            start = k + 1;
        }
    }
    reset_plans();
    printf("|");
    census(g_now);
    for (i = 0; i < g_nobj; i++) {
        if (g_obj[i]) {
            int fd = g_obj[i]->fd;
            printf(" %d:%s~%04x@%d", i, fd < 0 ? "-" : ((fd < MAXFD && g_now[fd]) ? "o" : "x"), (unsigned) g_obj[i]->flags, fd);
        }
    }
    for (i = 0; i < g_nobj; i++) {
        if (g_obj[i]) { spif_socket_del(g_obj[i]); g_obj[i] = NULL; }
    }
    /* the census is exact: the SET of open descriptors (0, 1 and 2 included) must be the one before the scenario */
    census(g_now);
    extra = diff_sets(&miss);
    printf(" | leak=%d", extra);
    if (extra) list_set("", 1);
    if (miss) { printf(" stolen=%d", miss); list_set("", 0); }
    printf("%s", g_realfail);
    /* descriptors the library lost are closed here so that one case cannot starve the next */
    for (i = 0; i < MAXFD; i++) if (g_now[i] && !g_base[i]) __real_close(i);
    /* the standard streams come back, the occupied numbers are released */
    for (i = fdbase; i <= 2; i++) dup2(g_save[i], i);
    release_fill();
    g_min = 0;
    unlink(path);
    alarm(0);
}

void __sanitizer_set_report_fd(void *fd) __attribute__((weak));

static int move_high(int fd, int to)
{
    int n = fcntl(fd, F_DUPFD, to);
    if (n != to) { static const char m[] = "C19 harness: cannot place a descriptor at HI\n"; __real_write(2, m, sizeof(m) - 1); _exit(3); }
    return n;
}

int main(int argc, char **argv)
{
    char *slash;
    const char *env = getenv("C19_DIR");
    struct rlimit rl;
    int i, d;
    if (env) {
        snprintf(g_dir, sizeof(g_dir), "%s", env);
    } else if (argc > 1) {
        snprintf(g_dir, sizeof(g_dir), "%s", argv[1]);
        slash = strrchr(g_dir, '/');
        if (slash) *slash = 0; else strcpy(g_dir, ".");
    }
    signal(SIGPIPE, SIG_IGN);
    if (getrlimit(RLIMIT_NOFILE, &rl) == 0 && rl.rlim_cur < 2 * MAXFD) {
        rl.rlim_cur = (rl.rlim_max == RLIM_INFINITY || rl.rlim_max > 2 * MAXFD) ? 2 * MAXFD : rl.rlim_max;
        setrlimit(RLIMIT_NOFILE, &rl);
    }
    /* Everything the harness itself needs moves to descriptors >= HI, so that a scenario may be handed any
     * low number - 0, 1 and 2 included: /dev/null, the saved standard streams, stdout (the FILE the results
     * are printed to), the sanitizer's report descriptor, the quiet stderr FILE and (below) the case file. */
    d = open("/dev/null", O_RDWR);
    if (d < 0) { perror("C19 harness: /dev/null"); return 3; }
    for (i = 0; i <= 2; i++) if (fcntl(i, F_GETFD) == -1) dup2(d, i);      /* an ordinary process has all three */
    if (d <= 2) d = open("/dev/null", O_RDWR);
    g_devnull = move_high(d, HI);
    __real_close(d);
    for (i = 0; i <= 2; i++) g_save[i] = move_high(i, HI + 1 + i);
    stdout = fdopen(g_save[1], "w");
    if (__sanitizer_set_report_fd) __sanitizer_set_report_fd((void *) (long) g_save[2]);
    /* the library reports every injected failure on stderr; keep the stream quiet */
    d = move_high(g_devnull, HI + 4);
    stderr = fdopen(d, "w");
    /* lv_main() opens the case file with fopen(): keep it away from the low numbers as well */
    for (;;) {
        d = dup(g_devnull);
        if (d < 0 || d > HI + 4) { if (d >= 0) __real_close(d); break; }
        g_fill[g_nfill++] = d;
    }
    return lv_main(argc, argv);
}
