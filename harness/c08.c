/* C08 harness: spifopt_parse() on an option table and an argument vector given as data.
 *
 * case line:  parse <pre> <rm> <allow> <ret> <bad0> <binit> <table> <argv>
 *   pre, rm   0/1: SPIFOPT_SETTING_PREPARSE / SPIFOPT_SETTING_REMOVE_ARGS; pre = 2: the usual client
 *             sequence, one call with PREPARSE set followed by a second call (the first clears the flag)
 *   allow     SPIFOPT_ALLOWBAD_SET value (0..255)
 *   ret       1: the help handler returns (counted), 0: it longjmps out of the parser
 *   bad0      initial SPIFOPT_BADOPTS value
 *   binit     initial value (hex, 64 bit) of every boolean target
 *   table     "-" (no options) or entries separated by ',':  SS:LONGHEX:FLAGS:SLOT:MASK
 *             SS = short option byte in hex (00 = none), LONGHEX = long name in hex ("-" = empty),
 *             FLAGS decimal 16 bit, SLOT 0..3 or "-" (NULL value pointer), MASK decimal 32 bit
 *   argv      argument strings in hex separated by ',' ("-" = empty string); argv[0] included;
 *             argc = number of entries; the array has argc + 1 slots, the last is NULL
 *
 * Every argument string, every long name, the option array, the argv array and every target
 * variable is a separate malloc block of exactly the size its C type needs (boolean targets
 * unsigned long, integer targets int, as documented in libast.h), so ASan sees any access
 * one byte outside.  The kind of variable a slot number refers to follows the dispatch order
 * of spifopt_parse(): BOOLEAN, STRING, INTEGER, ARGLIST, ABSTRACT (else: an unused byte).
 *
 *             spell <...same eight fields...> <argv> <spellings>: as parse; the spelling list is for the
 *             model driver, which answers with the ideal reading; argv is printed up to its first NULL
 *             numwords <hex> / getword <k> <hex> / strtol <hex>: the helpers behind handle_arglist and
 *             handle_integer, compared with their sub-models directly
 *
 * A case that runs longer than a second is killed by SIGALRM (reported as a fault by lib/vlib.py).
 *
 * output:  <ok|help> bad=N helps=N fl=N B=x,x,x,x I=d,d,d,d S=s,s,s,s L=l,l,l,l A=log argv=a,a,...
 */
#include "common.h"
#include <setjmp.h>
#include <signal.h>

#define NSLOT 4
#define I_INIT 23130

static unsigned long *Bv[NSLOT];
static int *Iv[NSLOT];
static char **Sv[NSLOT];
static char ***Lv[NSLOT];
static char *dummy;
static jmp_buf help_jmp;
static int help_returns, help_calls;

/* abstract handlers: log "slot:value" */
static char alog[8192];
static size_t alog_len;
static void alog_add(int slot, spif_charptr_t v)
{
    size_t i, n;
    if (alog_len > sizeof(alog) - 600) return;
    alog_len += sprintf(alog + alog_len, "%s%d:", alog_len ? ";" : "", slot);
    if (!v) { alog[alog_len++] = 'N'; return; }
    n = strlen((char *) v);
    if (!n) { alog[alog_len++] = '-'; return; }
    for (i = 0; i < n && i < 250; i++) alog_len += sprintf(alog + alog_len, "%02x", (unsigned char) v[i]);
}
static void abst0(spif_charptr_t v) { alog_add(0, v); }
static void abst1(spif_charptr_t v) { alog_add(1, v); }
static void abst2(spif_charptr_t v) { alog_add(2, v); }
static void abst3(spif_charptr_t v) { alog_add(3, v); }
static spifopt_abstract_handler_t Av[NSLOT] = { abst0, abst1, abst2, abst3 };

static void help_handler(void)
{
    help_calls++;
    if (!help_returns) longjmp(help_jmp, 1);
}

static void put_str(const char *s)
{
    if (!s) { putchar('N'); return; }
    lv_puthex(s, strlen(s));
}

/* split a comma separated token in place; returns number of fields */
static int split_on(char *s, char sep, char **out, int max)
{
    int n = 0;
    if (!*s) return 0;
    out[n++] = s;
    for (; *s; s++) {
        if (*s == sep && n < max) { *s = 0; out[n++] = s + 1; }
    }
    return n;
}

#define MAXOPT 40
#define MAXARG 60

static void run_case(int ntok, char **t)
{
    char *of[MAXOPT], *af[MAXARG], *f[6];
    spifopt_t *opts;
    char **argv;
    volatile int argc;
    int nopt = 0, k, helped;
    unsigned long binit;

    /* the helpers handle_arglist / handle_integer rely on, compared with their sub-models directly */
    if (ntok == 2 && !strcmp(t[0], "numwords")) {
        char *s = lv_unhex_str(t[1]);
        printf("%lu", spiftool_num_words((spif_charptr_t) s));
        free(s);
        return;
    }
    if (ntok == 3 && !strcmp(t[0], "getword")) {
        char *s = lv_unhex_str(t[2]);
        spif_charptr_t w = spiftool_get_word(strtoul(t[1], NULL, 10), (spif_charptr_t) s);
        put_str((char *) w);
        free(w); free(s);
        return;
    }
    if (ntok == 2 && !strcmp(t[0], "strtol")) {
        char *s = lv_unhex_str(t[1]);
        printf("%d", (int) strtol(s, (char **) NULL, 0));
        free(s);
        return;
    }
    /* "spell" lines carry the spelling list the argument vector was rendered from as a tenth
     * token; it is read by the model driver only (which answers with the ideal reading) */
    if (!((ntok == 9 && !strcmp(t[0], "parse")) || (ntok == 10 && !strcmp(t[0], "spell")))) {
        printf("HARNESS-ERROR:bad-case");
        return;
    }
    binit = strtoul(t[6], NULL, 16);
    for (k = 0; k < NSLOT; k++) {
        Bv[k] = (unsigned long *) malloc(sizeof(unsigned long)); *Bv[k] = binit;
        Iv[k] = (int *) malloc(sizeof(int)); *Iv[k] = I_INIT;
        Sv[k] = (char **) malloc(sizeof(char *)); *Sv[k] = NULL;
        Lv[k] = (char ***) malloc(sizeof(char **)); *Lv[k] = NULL;
    }
    dummy = (char *) malloc(1);
    alog_len = 0;
    help_calls = 0;
    help_returns = atoi(t[4]);

    if (strcmp(t[7], "-")) nopt = split_on(t[7], ',', of, MAXOPT);
    opts = (spifopt_t *) malloc(nopt ? nopt * sizeof(spifopt_t) : 1);
    for (k = 0; k < nopt; k++) {
        unsigned long fl;
        void *val;
        int slot;
        if (split_on(of[k], ':', f, 6) != 5) { printf("HARNESS-ERROR:bad-option"); return; }
        fl = strtoul(f[2], NULL, 10);
        opts[k].short_opt = (spif_char_t) strtoul(f[0], NULL, 16);
        opts[k].long_opt = (spif_charptr_t) lv_unhex_str(f[1]);
        opts[k].desc = (spif_charptr_t) "d";
        opts[k].flags = (spif_uint16_t) fl;
        opts[k].mask = (spif_uint32_t) strtoul(f[4], NULL, 10);
        if (f[3][0] == '-') {
            val = NULL;
        } else {
            slot = atoi(f[3]) % NSLOT;
            if (fl & SPIFOPT_FLAG_BOOLEAN) val = Bv[slot];
            else if (fl & SPIFOPT_FLAG_STRING) val = Sv[slot];
            else if (fl & SPIFOPT_FLAG_INTEGER) val = Iv[slot];
            else if (fl & SPIFOPT_FLAG_ARGLIST) val = Lv[slot];
            else if (fl & SPIFOPT_FLAG_ABSTRACT) val = (void *) Av[slot];
            else val = dummy;
        }
        opts[k].value = val;
    }
    argc = split_on(t[8], ',', af, MAXARG);
    argv = (char **) malloc((argc + 1) * sizeof(char *));
    for (k = 0; k < argc; k++) argv[k] = lv_unhex_str(af[k]);
    argv[argc] = NULL;

    SPIFOPT_OPTLIST_SET(opts);
    SPIFOPT_NUMOPTS_SET(nopt);
    SPIFOPT_ALLOWBAD_SET(atoi(t[3]));
    SPIFOPT_BADOPTS_SET(atoi(t[5]));
    SPIFOPT_HELPHANDLER_SET(help_handler);
    SPIFOPT_FLAGS_CLEAR(0xff);
    if (atoi(t[1])) SPIFOPT_FLAGS_SET(SPIFOPT_SETTING_PREPARSE);
    if (atoi(t[2])) SPIFOPT_FLAGS_SET(SPIFOPT_SETTING_REMOVE_ARGS);

    alarm(1);
    helped = setjmp(help_jmp);
    if (!helped) {
        spifopt_parse(argc, argv);
        if (atoi(t[1]) == 2) spifopt_parse(argc, argv);
    }
    alarm(0);

    printf("%s bad=%u helps=%d fl=%u B=", helped ? "help" : "ok", (unsigned) SPIFOPT_BADOPTS_GET(), help_calls,
           (unsigned) SPIFOPT_FLAGS_GET());
    for (k = 0; k < NSLOT; k++) printf("%s%lx", k ? "," : "", *Bv[k]);
    printf(" I=");
    for (k = 0; k < NSLOT; k++) printf("%s%d", k ? "," : "", *Iv[k]);
    printf(" S=");
    for (k = 0; k < NSLOT; k++) { if (k) putchar(','); put_str(*Sv[k]); }
    printf(" L=");
    for (k = 0; k < NSLOT; k++) {
        char **l = *Lv[k];
        if (k) putchar(',');
        if (!l) { putchar('N'); continue; }
        putchar('(');
        for (; *l; l++) { put_str(*l); putchar(';'); }
        putchar(')');
    }
    printf(" A=");
    if (alog_len) fwrite(alog, 1, alog_len, stdout); else putchar('-');
    printf(" argv=");
    /* "spell" lines: what the caller sees, i.e. up to the first NULL (the ideal reading says
     * nothing about the stale slots behind it) */
    for (k = 0; k <= argc; k++) {
        if (k) putchar(',');
        put_str(argv[k]);
        if (!argv[k] && t[0][0] == 's') break;
    }
}
