/* C13 harness: the helpers of src/strings.c on exactly sized heap blocks (ASan redzones on
 * both sides), whole block printed afterwards. */
#include "common.h"

static void run_case(int n, char **t)
{
    size_t dl, sl;
    if (n == 4 && (!strcmp(t[0], "strncpy") || !strcmp(t[0], "strncat"))) {
        char *src = lv_unhex_str(t[2]);
        unsigned char *dest = lv_unhex(t[3], &dl);
        spif_bool_t r = (t[0][5] == 'p')
            ? spiftool_safe_strncpy((spif_charptr_t) dest, (spif_charptr_t) src, atoi(t[1]))
            : spiftool_safe_strncat((spif_charptr_t) dest, (spif_charptr_t) src, atoi(t[1]));
        printf("%d ", r ? 1 : 0);
        lv_putcells(dest, dl, t[3]);
        free(src); free(dest);
    } else if (n == 4 && !strcmp(t[0], "substr")) {
        char *s = lv_unhex_str(t[3]);
        spif_charptr_t r = spiftool_substr((spif_charptr_t) s, atoi(t[1]), atoi(t[2]));
        if (!r) printf("NULL"); else { printf("S "); lv_puthex(r, strlen((char *) r)); free(r); }
        free(s);
    } else if (n == 2 && (!strcmp(t[0], "down") || !strcmp(t[0], "up") || !strcmp(t[0], "chomp")
                          || !strcmp(t[0], "strrev"))) {
        unsigned char *b = lv_unhex(t[1], &dl);
        if (t[0][0] == 'd') spiftool_downcase_str((spif_charptr_t) b);
        else if (t[0][0] == 'u') spiftool_upcase_str((spif_charptr_t) b);
        else if (t[0][0] == 'c') spiftool_chomp((spif_charptr_t) b);
        else strrev((char *) b);
        lv_putcells(b, dl, t[1]);
        free(b);
    } else if (n == 3 && !strcmp(t[0], "safestr")) {
        unsigned char *b = lv_unhex(t[2], &dl);
        spiftool_safe_str((spif_charptr_t) b, (unsigned short) atoi(t[1]));
        lv_putcells(b, dl, t[2]);
        free(b);
    } else if (n == 2 && !strcmp(t[0], "condense")) {
        unsigned char *b = lv_unhex(t[1], &dl);
        spif_charptr_t r = spiftool_condense_whitespace((spif_charptr_t) b);
        sl = strlen((char *) r);
        lv_puthex(r, sl + 1);
        free(r);
    } else {
        printf("HARNESS-ERROR:bad-case");
    }
}
