/* C13 harness: the helpers of src/strings.c on exactly sized blocks, whole block printed afterwards.
 *
 * Two placements of every block the helper is handed (destination AND source):
 *   default   exactly sized malloc blocks (ASan redzones on both sides);
 *   "pg" ...  the case word `pg` in front of a case puts every block at the END OF A PAGE that is followed by a
 *             PROT_NONE page: a read or write one byte past the block is a SIGSEGV even for a routine the sanitizer
 *             does not instrument (libc strlen/strnlen/memcpy reached through an interceptor that only checks what
 *             it is told, hand-written assembly, a word-at-a-time loop).
 * Sources come in two forms:
 *   strncpy / strncat SIZE SRC DEST     SRC = the bytes of a C string, the harness appends the terminator (the block
 *                                       is exactly the string and its NUL);
 *   strncpyr / strncatr SIZE SRC DEST   SRC = raw cells, NOTHING appended: a source block that ends exactly where the
 *                                       contract lets the function stop looking (it may read at most `size` bytes of it).
 */
#include "common.h"
#include <sys/mman.h>

static int cx_guard;            /* set for the current case by the leading word "pg" */

static void *cx_alloc(size_t len)
{
    if (!cx_guard) {
        return malloc(len);     /* malloc(0): a zero-length block, every access is outside it */
    } else {
        size_t page = (size_t) sysconf(_SC_PAGESIZE), body = (len + page - 1) / page * page, total = body + page;
        unsigned char *base = (unsigned char *) mmap(NULL, total, PROT_READ | PROT_WRITE, MAP_PRIVATE | MAP_ANONYMOUS, -1, 0);
        if (base == MAP_FAILED) { printf("HARNESS-ERROR:mmap"); fflush(stdout); _exit(3); }
        /* the slack in front of the block is not part of it either: fill it with a byte that is neither a
           terminator nor a blank, so that nothing read there looks like the end of a string */
        memset(base, 0x5a, body);
        if (mprotect(base + body, page, PROT_NONE)) { printf("HARNESS-ERROR:mprotect"); fflush(stdout); _exit(3); }
        return base + body - len;
    }
}
static void cx_free(void *p, size_t len)
{
    if (!cx_guard) free(p);
    else {
        size_t page = (size_t) sysconf(_SC_PAGESIZE), body = (len + page - 1) / page * page;
        munmap((unsigned char *) p + len - body, body + page);
    }
}
/* hex -> exactly sized block of cells ("??" = paint) */
static unsigned char *cx_unhex(const char *h, size_t *n)
{
    size_t i, len = (h[0] == '-') ? 0 : strlen(h) / 2;
    unsigned char *b = (unsigned char *) cx_alloc(len);
    for (i = 0; i < len; i++) {
        b[i] = (h[2 * i] == '?') ? lv_paint : (unsigned char) (lv_hv(h[2 * i]) * 16 + lv_hv(h[2 * i + 1]));
    }
    *n = len;
    return b;
}
/* hex -> the string and its terminator in an exactly sized block; *n = block size */
static char *cx_unhex_str(const char *h, size_t *n)
{
    size_t i, len = (h[0] == '-') ? 0 : strlen(h) / 2;
    char *b = (char *) cx_alloc(len + 1);
    for (i = 0; i < len; i++) b[i] = (char) (lv_hv(h[2 * i]) * 16 + lv_hv(h[2 * i + 1]));
    b[len] = 0;
    *n = len + 1;
    return b;
}

static void run_case(int n, char **t)
{
    size_t dl, sl;
    cx_guard = 0;
    if (n >= 1 && !strcmp(t[0], "pg")) { cx_guard = 1; n--; t++; }
    if (n == 4 && (!strcmp(t[0], "strncpy") || !strcmp(t[0], "strncat") || !strcmp(t[0], "strncpyr") || !strcmp(t[0], "strncatr"))) {
        int raw = (t[0][7] == 'r');
        char *src = raw ? (char *) cx_unhex(t[2], &sl) : cx_unhex_str(t[2], &sl);
        unsigned char *dest = cx_unhex(t[3], &dl);
        spif_bool_t r = (t[0][5] == 'p')
            ? spiftool_safe_strncpy((spif_charptr_t) dest, (spif_charptr_t) src, atoi(t[1]))
            : spiftool_safe_strncat((spif_charptr_t) dest, (spif_charptr_t) src, atoi(t[1]));
        printf("%d ", r ? 1 : 0);
        lv_putcells(dest, dl, t[3]);
        cx_free(src, sl); cx_free(dest, dl);
    } else if (n == 4 && !strcmp(t[0], "substr")) {
        char *s = cx_unhex_str(t[3], &sl);
        spif_charptr_t r = spiftool_substr((spif_charptr_t) s, atoi(t[1]), atoi(t[2]));
        if (!r) printf("NULL"); else { printf("S "); lv_puthex(r, strlen((char *) r)); free(r); }
        cx_free(s, sl);
    } else if (n == 2 && (!strcmp(t[0], "down") || !strcmp(t[0], "up") || !strcmp(t[0], "chomp")
                          || !strcmp(t[0], "strrev"))) {
        unsigned char *b = cx_unhex(t[1], &dl);
        if (t[0][0] == 'd') spiftool_downcase_str((spif_charptr_t) b);
        else if (t[0][0] == 'u') spiftool_upcase_str((spif_charptr_t) b);
        else if (t[0][0] == 'c') spiftool_chomp((spif_charptr_t) b);
        else strrev((char *) b);
        lv_putcells(b, dl, t[1]);
        cx_free(b, dl);
    } else if (n == 3 && !strcmp(t[0], "safestr")) {
        unsigned char *b = cx_unhex(t[2], &dl);
        spiftool_safe_str((spif_charptr_t) b, (unsigned short) atoi(t[1]));
        lv_putcells(b, dl, t[2]);
        cx_free(b, dl);
    } else if (n == 2 && !strcmp(t[0], "condense") && !cx_guard) {
        /* condense_whitespace REALLOCs its argument: heap blocks only */
        unsigned char *b = cx_unhex(t[1], &dl);
        spif_charptr_t r = spiftool_condense_whitespace((spif_charptr_t) b);
        sl = strlen((char *) r);
        lv_puthex(r, sl + 1);
        free(r);
    } else {
        printf("HARNESS-ERROR:bad-case");
    }
}
