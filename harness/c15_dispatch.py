#!/usr/bin/env python3
"""C15: one 'implementation executable' in front of the two builds of harness/c15.c
(DEBUG=5: tracking forms of the macros; DEBUG=4: plain forms).  Usage as for every harness:
  dispatch <cases> [start]
Both binaries read the whole case file; each prints SKIP for the cases tagged for the other
build.  The outputs are merged by case number.  If one of them dies at case k, the merged
output stops with the bare marker '#k ', its stderr is passed on and the exit status is
non-zero, so that lib/vlib.py classifies the crash and restarts at k+1."""
import os, subprocess, sys

here = os.path.dirname(os.path.abspath(__file__))
# per-run limit of one binary (the thorough tier's case file is large; checks/c15.py sets this)
TIMEOUT = int(os.environ.get('LV_C15_TIMEOUT', '100'))
args = sys.argv[1:]


def parse(out):
    res, last = {}, None
    for line in out.split('\n'):
        if line.startswith('#'):
            sp = line.find(' ')
            try:
                k = int(line[1:sp] if sp > 0 else line[1:])
            except ValueError:
                continue
            last = k
            res[k] = line[sp + 1:] if sp > 0 else ''
    return res, last


runs = []
for name in ('harness-d5', 'harness-d4'):
    try:
        p = subprocess.run([os.path.join(here, name)] + args, stdout=subprocess.PIPE, stderr=subprocess.PIPE, timeout=TIMEOUT)
        rc, out, err = p.returncode, p.stdout.decode(errors='replace'), p.stderr.decode(errors='replace')
    except subprocess.TimeoutExpired as ex:
        rc, out, err = -9, (ex.stdout or b'').decode(errors='replace'), (ex.stderr or b'').decode(errors='replace') + '\n[timeout]'
    res, last = parse(out)
    runs.append((rc, res, last, err))

crash = None      # (case, rc, stderr)
for (rc, res, last, err) in runs:
    if rc != 0:
        k = last if last is not None else (int(args[1]) if len(args) > 1 else 0)
        if crash is None or k < crash[0]:
            crash = (k, rc, err)

keys = sorted(set(runs[0][1]) | set(runs[1][1]))
w = sys.stdout.write
for k in keys:
    if crash is not None and k >= crash[0]:
        break
    a, b = runs[0][1].get(k), runs[1][1].get(k)
    v = a if (a is not None and a != 'SKIP') else b
    if v is None or v == 'SKIP':
        v = 'HARNESS-ERROR:no-build-ran-this-case'
    w('#%d %s\n' % (k, v))
if crash is not None:
    w('#%d ' % crash[0])
    sys.stdout.flush()
    sys.stderr.write(crash[2])
    sys.exit(crash[1] if 0 < crash[1] < 256 else 1)
sys.stdout.flush()
sys.exit(0)
