/* C10 harness: spifconf_shell_expand, spifconf_get_var / spifconf_put_var.
 *
 * conf.c is #included so that the static store and its two access functions can be reached and
 * emptied between runs (the library itself is otherwise unchanged; conf.c is left out of the
 * library objects).  Case line (same as driver/c10_main.ml):
 *     x <progname hex> <progver hex> <env> <op> <op> ...
 * The whole history is run THREE times from an empty store:
 *   run 1: stack, malloc'ed blocks and the slack of every input object painted 0xA5;
 *   run 2: the same with 0x5A;      the two transcripts must be identical (else PAINT-DEPENDENT);
 *   run 3: every input whose result in run 1 was no longer than the input sits in an exactly
 *          sized heap block (strlen + 1), so ASan traps a read of even one byte beyond the
 *          terminator; longer results get the CONFIG_BUFF object again.  Transcript must equal run 1.
 * An input object is what spifconf_parse_line / the recursive call hand over: CONFIG_BUFF bytes
 * holding the text, its terminator, then bytes the caller never wrote.
 * system/popen/fork/execve are wrapped at link time: a call sets a flag (printed as "X spawn") and fails. */
#include "common.h"
#include <alloca.h>
#include <sys/types.h>
#include "conf.c"

static int lv_spawned;
int __wrap_system(const char *c) { (void) c; lv_spawned = 1; return -1; }
FILE *__wrap_popen(const char *c, const char *m) { (void) c; (void) m; lv_spawned = 1; return NULL; }
pid_t __wrap_fork(void) { lv_spawned = 1; return -1; }
int __wrap_execve(const char *p, char *const a[], char *const e[]) { (void) p; (void) a; (void) e; lv_spawned = 1; return -1; }

/* every block the library allocates starts out filled with the current paint; malloc, strdup,
 * realloc and free are counted so that the number of blocks an expansion leaves allocated can be
 * printed (L<n>; the model predicts three blocks - node, name, value - per new store entry) */
static int lv_heap_paint_on;
static long lv_live;
void *__real_malloc(size_t n);
void *__real_realloc(void *p, size_t n);
char *__real_strdup(const char *s);
void __real_free(void *p);
void *__wrap_malloc(size_t n)
{
    void *p = __real_malloc(n);
    if (p) lv_live++;
    if (p && lv_heap_paint_on) memset(p, lv_paint, n);
    return p;
}
void *__wrap_realloc(void *q, size_t n)
{
    void *p = __real_realloc(q, n);
    if (!q && p) lv_live++;
    return p;
}
char *__wrap_strdup(const char *s)
{
    char *p = __real_strdup(s);
    if (p) lv_live++;
    return p;
}
void __wrap_free(void *p)
{
    if (p) lv_live--;
    __real_free(p);
}

/* fill the stack region the next call will use (one CONFIG_BUFF frame per nesting level of
 * %calls; 768 kB covers more than 30 levels) */
#define LV_STACK_PAINT (768 * 1024)
static void *(*volatile lv_memset)(void *, int, size_t) = memset;
static void __attribute__((noinline)) lv_paint_stack(unsigned char v)
{
    unsigned char *p = (unsigned char *) alloca(LV_STACK_PAINT);
    lv_memset(p, v, LV_STACK_PAINT);
}

static void lv_reset_store(void)
{
    spifconf_var_t *v, *t;
    for (v = spifconf_vars; v;) { t = v; v = v->next; spifconf_free_var(t); }
    spifconf_vars = NULL;
}

/* growing text buffer for one transcript */
typedef struct { char *s; size_t n, cap; } lv_out_t;
static void lv_add(lv_out_t *o, const char *t, size_t n)
{
    if (o->n + n + 1 > o->cap) { o->cap = (o->n + n + 1) * 2; o->s = (char *) realloc(o->s, o->cap); }
    memcpy(o->s + o->n, t, n); o->n += n; o->s[o->n] = 0;
}
static void lv_adds(lv_out_t *o, const char *t) { lv_add(o, t, strlen(t)); }
static void lv_addhex(lv_out_t *o, const unsigned char *b, size_t n)
{
    static const char *d = "0123456789abcdef";
    char tmp[2];
    size_t i;
    if (!n) { lv_adds(o, "-"); return; }
    for (i = 0; i < n; i++) { tmp[0] = d[b[i] >> 4]; tmp[1] = d[b[i] & 15]; lv_add(o, tmp, 2); }
}

static char *lv_field(const char *op, int idx)   /* idx-th ':'-separated field, decoded, exact block */
{
    const char *p = op;
    char *h, *r;
    size_t n;
    while (idx-- > 0) { p = strchr(p, ':'); if (!p) return NULL; p++; }
    n = strcspn(p, ":");
    h = (char *) malloc(n + 1); memcpy(h, p, n); h[n] = 0;
    r = lv_unhex_str(h);
    free(h);
    return r;
}

#define LV_MAXOPS 64
static size_t lv_outlen[LV_MAXOPS];     /* result length of each expansion in run 1; (size_t) -1 = NULL */

/* mode 0: paint runs (record result lengths when rec), mode 1: exact blocks where the result fits */
static void lv_run(int nops, char **ops, int mode, int rec, lv_out_t *o)
{
    int k;
    lv_reset_store();
    lv_spawned = 0;
    for (k = 0; k < nops; k++) {
        char *op = ops[k];
        if (k) lv_adds(o, " ; ");
        if (op[0] == 'e') {
            char *text = lv_field(op, 1);
            size_t len = strlen(text), sz = CONFIG_BUFF;
            spif_charptr_t s, r;
            long live0;
            char lb[32];
            if (mode == 1 && lv_outlen[k] != (size_t) -2 && (lv_outlen[k] == (size_t) -1 || lv_outlen[k] <= len)) sz = len + 1;
            lv_heap_paint_on = 0;
            s = (spif_charptr_t) malloc(sz);
            memset(s, lv_paint, sz);
            memcpy(s, text, len + 1);
            free(text);
            lv_heap_paint_on = 1;
            lv_paint_stack(lv_paint);
            live0 = lv_live;
            r = spifconf_shell_expand(s);
            live0 = lv_live - live0;
            lv_heap_paint_on = 0;
            if (lv_spawned) { lv_adds(o, "X spawn"); if (rec) lv_outlen[k] = (size_t) -2; free(s); return; }
            if (!r) { lv_adds(o, "N"); if (rec) lv_outlen[k] = (size_t) -1; }
            else {
                size_t rl = strlen((char *) r);
                lv_adds(o, "S "); lv_addhex(o, (unsigned char *) r, rl);
                if (r != s) lv_adds(o, " NOT-IN-PLACE");
                if (rec) lv_outlen[k] = rl;
            }
            snprintf(lb, sizeof(lb), " L%ld", live0);
            lv_adds(o, lb);
            free(s);
        } else if (op[0] == 'p') {
            /* spifconf_put_var takes ownership of both strings */
            spifconf_put_var((spif_charptr_t) lv_field(op, 1), (spif_charptr_t) lv_field(op, 2));
            lv_adds(o, "P");
        } else if (op[0] == 'd') {
            char *kname = lv_field(op, 1);
            spifconf_put_var((spif_charptr_t) kname, NULL);
            free(kname);
            lv_adds(o, "D");
        } else if (op[0] == 'g') {
            char *kname = lv_field(op, 1);
            spif_charptr_t v = spifconf_get_var((spif_charptr_t) kname);
            free(kname);
            if (!v) lv_adds(o, "U"); else { lv_adds(o, "V "); lv_addhex(o, (unsigned char *) v, strlen((char *) v)); }
        } else {
            lv_adds(o, "HARNESS-ERROR:bad-op");
            return;
        }
    }
    /* the store in list order */
    lv_adds(o, " | ");
    if (!spifconf_vars) lv_adds(o, "-");
    else {
        spifconf_var_t *v;
        for (v = spifconf_vars; v; v = v->next) {
            if (v != spifconf_vars) lv_adds(o, ",");
            lv_addhex(o, (unsigned char *) v->var, strlen((char *) v->var));
            lv_adds(o, "=");
            lv_addhex(o, (unsigned char *) v->value, strlen((char *) v->value));
        }
    }
}

static int lv_inited;
static void run_case(int n, char **t)
{
    lv_out_t o1 = { 0, 0, 0 }, o2 = { 0, 0, 0 }, o3 = { 0, 0, 0 };
    char *pn, *pv;
    int i;
    if (n < 4 || strcmp(t[0], "x") || n - 4 > LV_MAXOPS) { printf("HARNESS-ERROR:bad-case"); return; }
    if (!lv_inited) { spifconf_init_subsystem(); lv_inited = 1; }
    pn = lv_unhex_str(t[1]); pv = lv_unhex_str(t[2]);
    libast_program_name = (spif_charptr_t) pn;
    libast_program_version = (spif_charptr_t) pv;
    clearenv();
    if (strcmp(t[3], "-")) {
        char *e = strdup(t[3]), *p = e;
        while (p && *p) {
            char *nx = strchr(p, ','), *eq, *k, *v;
            if (nx) *nx++ = 0;
            eq = strchr(p, '=');
            *eq = 0;
            k = lv_unhex_str(p); v = lv_unhex_str(eq + 1);
            setenv(k, v, 1);
            free(k); free(v);
            p = nx;
        }
        free(e);
    }
    for (i = 0; i < LV_MAXOPS; i++) lv_outlen[i] = (size_t) -2;
    lv_adds(&o1, ""); lv_adds(&o2, ""); lv_adds(&o3, "");
    lv_paint = 0xA5; lv_run(n - 4, t + 4, 0, 1, &o1);
    lv_paint = 0x5A; lv_run(n - 4, t + 4, 0, 0, &o2);
    if (strcmp(o1.s, o2.s)) {
        printf("PAINT-DEPENDENT a5: %s  5a: %s", o1.s, o2.s);
    } else {
        lv_paint = 0xA5; lv_run(n - 4, t + 4, 1, 0, &o3);
        if (strcmp(o1.s, o3.s)) printf("BLOCK-DEPENDENT object: %s  exact: %s", o1.s, o3.s);
        else fputs(o1.s, stdout);
    }
    lv_reset_store();
    libast_program_name = (spif_charptr_t) PACKAGE;
    libast_program_version = (spif_charptr_t) VERSION;
    free(pn); free(pv);
    free(o1.s); free(o2.s); free(o3.s);
}
