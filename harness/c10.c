/* C10 harness: spifconf_shell_expand, spifconf_get_var / spifconf_put_var.
 *
 * conf.c is #included so that the static store and its two access functions can be reached and
 * emptied between runs (the library itself is otherwise unchanged; conf.c is left out of the
 * library objects).  Case line (same as driver/c10_main.ml):
 *     x <progname> <progver> <world> <op> <op> ...
 * Every text is a value spec: parts joined by '+', a part is hex | - | *<n> (n times 'L') | *<n>/<hexpattern>
 * (the pattern repeated up to n bytes).  <world> is - or a comma-separated list of
 *     <name>=<value>          an environment variable (the environment holds nothing else)
 *     @o=<value>              what a command run by %exec "prints": the intercepted system() writes it to the file
 *                             behind the last " >" of the command; without this entry a spawn ends the run ("X spawn")
 *     @d<name>=<e>;<e>;...    a directory as opendir/readdir/stat show it to conf.c (the four calls are redirected to
 *                             the harness, nothing touches the file system): <e> is <value> (a regular file),
 *                             !<value> (a directory), ?<value> (stat fails), #<count>x<len> (count regular files with
 *                             generated names of len characters); - for an empty directory.  Other directories do not exist.
 *     @f<name>=<value>|!      a function the application registers with spifconf_register_builtin under <name> (hex, - = the
 *                             empty name); called with the text t it answers a fresh string <value>t, called with NULL
 *                             <value>^; with ! it answers NULL.  Functions are registered in the order of the entries.
 *     @F=<count>              <count> such functions named f<k> answering "<k:"t (k = position among all functions, from 0)
 *     @n=<count>              only the first <count> functions are registered when the run starts (default: all)
 *     @c=<count>              <count> contexts are registered (spifconf_register_context) before the functions of every cycle
 * ops: e:<text> (expand), p:<k>:<v> (put_var), d:<k> (put_var k NULL), g:<k> (get_var),
 *      r:<n> (register the functions up to the n-th; prints R<id the last registration returned>),
 *      c:<n> (a new cycle: spifconf_free_subsystem, the heap dirtied, spifconf_init_subsystem, the first n functions
 *      registered; the store is empty again; prints C).
 * Every run starts with such a cycle: the heap is dirtied (blocks of many sizes - among them every size the function
 * table passes through - allocated, filled with the paint byte and freed), then spifconf_init_subsystem runs and the
 * functions are registered with every malloc'ed and every realloc'ed byte painted, so that no part of a table is zero
 * by luck; the run ends with spifconf_free_subsystem.
 * The whole history is run THREE times from an empty store:
 *   run 1: stack, malloc'ed blocks and the slack of every input object painted 0xA5;
 *   run 2: the same with 0x5A;      the two transcripts must be identical (else PAINT-DEPENDENT);
 *   run 3: every input whose result in run 1 was no longer than the input sits in an exactly
 *          sized heap block (strlen + 1), so ASan traps a read of even one byte beyond the
 *          terminator; longer results get the CONFIG_BUFF object again.  Transcript must equal run 1.
 * An input object is what spifconf_parse_line / the recursive call hand over: CONFIG_BUFF bytes
 * holding the text, its terminator, then bytes the caller never wrote.
 * system/popen/fork/execve are wrapped at link time: a call sets a flag (printed as "X spawn") and fails. */
#include "common.h"
#include <alloca.h>
#include <sys/types.h>
#include <sys/stat.h>
#include <dirent.h>
#include <errno.h>

/* ---- the directories of the case: opendir / readdir / closedir / stat as conf.c sees them ---- */
typedef struct { char *name; int kind; } lv_dent_t;            /* kind 0 regular file, 1 directory, 2 stat fails */
typedef struct { char *name; lv_dent_t *ents; long n; } lv_dir_t;
#define LV_MAXDIRS 8
static lv_dir_t lv_dirs[LV_MAXDIRS];
static int lv_ndirs;
typedef struct { lv_dir_t *d; long pos; struct dirent ent; } lv_DIR;

static DIR *lv_opendir(const char *name)
{
    int k;
    for (k = 0; k < lv_ndirs; k++) {
        if (!strcmp(lv_dirs[k].name, name)) {
            lv_DIR *h = (lv_DIR *) malloc(sizeof(lv_DIR));    /* malloc and free are the counted pair */
            memset(h, 0, sizeof(lv_DIR));
            h->d = &lv_dirs[k];
            return (DIR *) h;
        }
    }
    errno = ENOENT;
    return NULL;
}
static struct dirent *lv_readdir(DIR *dp)
{
    lv_DIR *h = (lv_DIR *) dp;
    const char *nm;
    if (h->pos == 0) nm = ".";
    else if (h->pos == 1) nm = "..";
    else if (h->pos - 2 < h->d->n) nm = h->d->ents[h->pos - 2].name;
    else return NULL;
    h->pos++;
    memset(&h->ent, 0, sizeof(h->ent));
    snprintf(h->ent.d_name, sizeof(h->ent.d_name), "%s", nm);
    return &h->ent;
}
static int lv_closedir(DIR *dp) { free(dp); return 0; }
static int lv_stat(const char *path, struct stat *st)
{
    int k;
    long j;
    for (k = 0; k < lv_ndirs; k++) {
        size_t dl = strlen(lv_dirs[k].name);
        if (strncmp(path, lv_dirs[k].name, dl) || path[dl] != '/') continue;
        memset(st, 0, sizeof(*st));
        if (!strcmp(path + dl + 1, ".") || !strcmp(path + dl + 1, "..")) { st->st_mode = S_IFDIR | 0755; return 0; }
        for (j = 0; j < lv_dirs[k].n; j++) {
            if (strcmp(path + dl + 1, lv_dirs[k].ents[j].name)) continue;
            if (lv_dirs[k].ents[j].kind == 2) { errno = ENOENT; return -1; }
            st->st_mode = (lv_dirs[k].ents[j].kind == 1) ? (S_IFDIR | 0755) : (S_IFREG | 0644);
            return 0;
        }
    }
    errno = ENOENT;
    return -1;
}
#define opendir(n) lv_opendir(n)
#define readdir(d) lv_readdir(d)
#define closedir(d) lv_closedir(d)
#define stat(p, b) lv_stat(p, b)
#include "conf.c"
#undef opendir
#undef readdir
#undef closedir
#undef stat

static int lv_spawned;
static unsigned char *lv_exec_out;      /* world entry @o: what a command "prints"; NULL = spawning ends the run */
static size_t lv_exec_out_len;
int __wrap_system(const char *c)
{
    const char *gt = NULL, *q;
    if (!lv_exec_out || !c) { lv_spawned = 1; return -1; }
    for (q = c; (q = strstr(q, " >")); q += 2) gt = q;
    if (gt) {
        FILE *f = fopen(gt + 2, "wb");
        if (f) { if (lv_exec_out_len) fwrite(lv_exec_out, 1, lv_exec_out_len, f); fclose(f); }
    }
    return 0;
}
FILE *__wrap_popen(const char *c, const char *m) { (void) c; (void) m; lv_spawned = 1; return NULL; }
pid_t __wrap_fork(void) { lv_spawned = 1; return -1; }
int __wrap_execve(const char *p, char *const a[], char *const e[]) { (void) p; (void) a; (void) e; lv_spawned = 1; return -1; }

/* every block the library allocates starts out filled with the current paint; malloc, strdup,
 * realloc and free are counted so that the number of blocks an expansion leaves allocated can be
 * printed (L<n>; the model predicts three blocks - node, name, value - per new store entry) */
static int lv_heap_paint_on;
static long lv_live;
void *__real_malloc(size_t n);
void *__real_realloc(void *p, size_t n);
char *__real_strdup(const char *s);
void __real_free(void *p);
void *__wrap_malloc(size_t n)
{
    void *p = __real_malloc(n);
    if (p) lv_live++;
    if (p && lv_heap_paint_on) memset(p, lv_paint, n);
    return p;
}
size_t malloc_usable_size(void *p);
void *__wrap_realloc(void *q, size_t n)
{
    void *p;
    if (lv_heap_paint_on && n) {
        /* a block that grows gets fresh memory: new block, painted, the old content copied, the old block released -
         * whatever the allocator would have done in place */
        size_t old = q ? malloc_usable_size(q) : 0;
        p = __real_malloc(n);
        if (!p) return NULL;
        memset(p, lv_paint, n);
        if (q) { memcpy(p, q, old < n ? old : n); __real_free(q); }
        else lv_live++;
        return p;
    }
    p = __real_realloc(q, n);
    if (!q && p) lv_live++;
    return p;
}
char *__wrap_strdup(const char *s)
{
    char *p = __real_strdup(s);
    if (p) lv_live++;
    return p;
}
void __wrap_free(void *p)
{
    if (p) lv_live--;
    __real_free(p);
}

/* ---- functions the application registers ---- */
#define LV_NFUN 200
static char *lv_fn_name[LV_NFUN], *lv_fn_ret[LV_NFUN];      /* lv_fn_ret NULL: the function answers NULL */
static int lv_nfun, lv_nfun_start = -1, lv_nctx, lv_nreg, lv_inited;
static spif_charptr_t lv_fn_answer(int k, spif_charptr_t param)
{
    size_t a, b;
    char *r;
    if (k >= lv_nfun || !lv_fn_ret[k]) return NULL;
    a = strlen(lv_fn_ret[k]);
    b = param ? strlen((char *) param) : 1;
    r = (char *) malloc(a + b + 1);
    memcpy(r, lv_fn_ret[k], a);
    if (param) memcpy(r + a, param, b); else r[a] = '^';
    r[a + b] = 0;
    return (spif_charptr_t) r;
}
#define FD(a, b, c) static spif_charptr_t lv_fn_##a##b##c(spif_charptr_t p) { return lv_fn_answer(a * 100 + b * 10 + c, p); }
#define FT(a, b, c) lv_fn_##a##b##c,
#define F10(M, a, b) M(a, b, 0) M(a, b, 1) M(a, b, 2) M(a, b, 3) M(a, b, 4) M(a, b, 5) M(a, b, 6) M(a, b, 7) M(a, b, 8) M(a, b, 9)
#define F100(M, a) F10(M, a, 0) F10(M, a, 1) F10(M, a, 2) F10(M, a, 3) F10(M, a, 4) F10(M, a, 5) F10(M, a, 6) F10(M, a, 7) F10(M, a, 8) F10(M, a, 9)
F100(FD, 0) F100(FD, 1)
static spifconf_func_ptr_t lv_fns[LV_NFUN] = { F100(FT, 0) F100(FT, 1) };
static void *lv_ctx_handler(spif_charptr_t b, void *st) { (void) b; return st; }

/* previously used and freed blocks of every size class the tables and their neighbours on the heap pass through */
static void lv_dirty_heap(void)
{
    static const size_t sz[] = { 8, 16, 24, 32, 48, 64, 80, 96, 112, 128, 144, 160, 176, 192, 208, 224, 240, 256, 288, 304, 320, 336,
                                 352, 400, 480, 512, 624, 640, 656, 800, 1024, 1264, 1280, 1296, 2048, 2544, 2560, 2576, 4096, 5120,
                                 8192, 10240, 20480 };
    void *blk[4 * sizeof(sz) / sizeof(sz[0])];
    size_t i, n = 0;
    for (i = 0; i < sizeof(sz) / sizeof(sz[0]); i++) {
        int r;
        for (r = 0; r < 4; r++) {
            void *p = __real_malloc(sz[i]);
            if (p) { memset(p, lv_paint, sz[i]); blk[n++] = p; }
        }
    }
    /* released in an order that leaves holes next to blocks still in use */
    for (i = 0; i < n; i += 2) __real_free(blk[i]);
    for (i = 1; i < n; i += 2) __real_free(blk[i]);
}
/* r:<n>: register the functions up to the n-th; the id the last registration returned, -1 if there was none */
static int lv_register_upto(int n)
{
    int id = -1;
    if (n > lv_nfun) n = lv_nfun;
    lv_heap_paint_on = 1;
    for (; lv_nreg < n; lv_nreg++) id = (int) spifconf_register_builtin(lv_fn_name[lv_nreg], lv_fns[lv_nreg]);
    lv_heap_paint_on = 0;
    return id;
}
static void lv_cycle(int nreg)
{
    int k;
    if (lv_inited) spifconf_free_subsystem();
    lv_dirty_heap();
    lv_heap_paint_on = 1;
    spifconf_init_subsystem();
    for (k = 0; k < lv_nctx; k++) {
        char nm[32];
        snprintf(nm, sizeof(nm), "ctx%d", k);
        spifconf_register_context((spif_charptr_t) nm, lv_ctx_handler);
    }
    lv_heap_paint_on = 0;
    lv_inited = 1;
    lv_nreg = 0;
    lv_register_upto(nreg);
}

/* fill the stack region the next call will use (one CONFIG_BUFF frame per nesting level of
 * %calls; 768 kB covers more than 30 levels) */
#define LV_STACK_PAINT (768 * 1024)
static void *(*volatile lv_memset)(void *, int, size_t) = memset;
static void __attribute__((noinline)) lv_paint_stack(unsigned char v)
{
    unsigned char *p = (unsigned char *) alloca(LV_STACK_PAINT);
    lv_memset(p, v, LV_STACK_PAINT);
}

static void lv_reset_store(void)
{
    spifconf_var_t *v, *t;
    for (v = spifconf_vars; v;) { t = v; v = v->next; spifconf_free_var(t); }
    spifconf_vars = NULL;
}

/* growing text buffer for one transcript */
typedef struct { char *s; size_t n, cap; } lv_out_t;
static void lv_add(lv_out_t *o, const char *t, size_t n)
{
    if (o->n + n + 1 > o->cap) { o->cap = (o->n + n + 1) * 2; o->s = (char *) realloc(o->s, o->cap); }
    memcpy(o->s + o->n, t, n); o->n += n; o->s[o->n] = 0;
}
static void lv_adds(lv_out_t *o, const char *t) { lv_add(o, t, strlen(t)); }
static void lv_addhex(lv_out_t *o, const unsigned char *b, size_t n)
{
    static const char *d = "0123456789abcdef";
    char tmp[2];
    size_t i;
    if (!n) { lv_adds(o, "-"); return; }
    for (i = 0; i < n; i++) { tmp[0] = d[b[i] >> 4]; tmp[1] = d[b[i] & 15]; lv_add(o, tmp, 2); }
}

/* value spec -> exact block of length + 1 bytes, NUL after the value (the values of a case hold no NUL) */
static char *lv_spec(const char *v, size_t *len)
{
    char *r = (char *) malloc(1), *c = strdup(v), *part, *save = NULL;
    size_t total = 0;
    for (part = strtok_r(c, "+", &save); part; part = strtok_r(NULL, "+", &save)) {
        if (part[0] == '*') {
            size_t n = (size_t) strtoul(part + 1, NULL, 10), pl = 1, i;
            const char *sl = strchr(part, '/');
            unsigned char *pat = NULL;
            if (sl) pat = lv_unhex(sl + 1, &pl);
            r = (char *) realloc(r, total + n + 1);
            for (i = 0; i < n; i++) r[total + i] = (pat && pl) ? (char) pat[i % pl] : 'L';
            total += n;
            free(pat);
        } else {
            size_t n;
            unsigned char *b = lv_unhex(part, &n);
            r = (char *) realloc(r, total + n + 1);
            if (n) memcpy(r + total, b, n);
            total += n;
            free(b);
        }
    }
    free(c);
    {
        char *e = (char *) malloc(total + 1);
        if (total) memcpy(e, r, total);
        e[total] = 0;
        free(r);
        if (len) *len = total;
        return e;
    }
}
static char *lv_field(const char *op, int idx)   /* idx-th ':'-separated field, decoded, exact block */
{
    const char *p = op;
    char *h, *r;
    size_t n;
    while (idx-- > 0) { p = strchr(p, ':'); if (!p) return NULL; p++; }
    n = strcspn(p, ":");
    h = (char *) malloc(n + 1); memcpy(h, p, n); h[n] = 0;
    r = lv_spec(h, NULL);
    free(h);
    return r;
}

/* world entry @d<name>=<e>;<e>;... */
static void lv_add_dir(char *name_spec, char *listing)
{
    lv_dir_t *d;
    char *e, *save = NULL;
    long cap = 0, grp = 0;
    if (lv_ndirs >= LV_MAXDIRS) return;
    d = &lv_dirs[lv_ndirs++];
    d->name = lv_spec(name_spec, NULL);
    d->ents = NULL;
    d->n = 0;
    if (!strcmp(listing, "-")) return;
    for (e = strtok_r(listing, ";", &save); e; e = strtok_r(NULL, ";", &save), grp++) {
        if (e[0] == '#') {
            long cnt = atol(e + 1), len = 0, i;
            char *x = strchr(e, 'x');
            if (x) len = atol(x + 1);
            for (i = 0; i < cnt; i++) {
                /* the index in base 36, right-aligned in a name of upper-case letters (as driver/c10_main.ml) */
                char rev[32], *nm = (char *) malloc((size_t) len + 1);
                int nd = 0, z;
                long q = i;
                do { rev[nd++] = "0123456789abcdefghijklmnopqrstuvwxyz"[q % 36]; q /= 36; } while (q);
                memset(nm, 'A' + (int) (grp % 26), (size_t) len);
                nm[len] = 0;
                for (z = 0; z < nd && z < len; z++) nm[len - 1 - z] = rev[z];
                if (d->n == cap) { cap = cap ? 2 * cap : 64; d->ents = (lv_dent_t *) realloc(d->ents, (size_t) cap * sizeof(lv_dent_t)); }
                d->ents[d->n].name = nm;
                d->ents[d->n].kind = 0;
                d->n++;
            }
        } else {
            int kind = (e[0] == '!') ? 1 : (e[0] == '?') ? 2 : 0;
            if (d->n == cap) { cap = cap ? 2 * cap : 64; d->ents = (lv_dent_t *) realloc(d->ents, (size_t) cap * sizeof(lv_dent_t)); }
            d->ents[d->n].name = lv_spec(e + (kind ? 1 : 0), NULL);
            d->ents[d->n].kind = kind;
            d->n++;
        }
    }
}
static void lv_clear_world(void)
{
    int k;
    long j;
    for (k = 0; k < lv_ndirs; k++) {
        for (j = 0; j < lv_dirs[k].n; j++) free(lv_dirs[k].ents[j].name);
        free(lv_dirs[k].ents);
        free(lv_dirs[k].name);
    }
    lv_ndirs = 0;
    for (k = 0; k < lv_nfun; k++) { free(lv_fn_name[k]); free(lv_fn_ret[k]); lv_fn_name[k] = lv_fn_ret[k] = NULL; }
    lv_nfun = 0;
    lv_nfun_start = -1;
    lv_nctx = 0;
    free(lv_exec_out);
    lv_exec_out = NULL;
    lv_exec_out_len = 0;
}

#define LV_MAXOPS 512
static size_t lv_outlen[LV_MAXOPS];     /* result length of each expansion in run 1; (size_t) -1 = NULL */

/* mode 0: paint runs (record result lengths when rec), mode 1: exact blocks where the result fits */
static void lv_run(int nops, char **ops, int mode, int rec, lv_out_t *o)
{
    int k;
    lv_cycle(lv_nfun_start < 0 ? lv_nfun : lv_nfun_start);
    lv_reset_store();
    lv_spawned = 0;
    for (k = 0; k < nops; k++) {
        char *op = ops[k];
        if (k) lv_adds(o, " ; ");
        if (op[0] == 'e') {
            char *text = lv_field(op, 1);
            size_t len = strlen(text), sz = CONFIG_BUFF;
            spif_charptr_t s, r;
            long live0;
            char lb[32];
            if (mode == 1 && lv_outlen[k] != (size_t) -2 && (lv_outlen[k] == (size_t) -1 || lv_outlen[k] <= len)) sz = len + 1;
            lv_heap_paint_on = 0;
            s = (spif_charptr_t) malloc(sz);
            memset(s, lv_paint, sz);
            memcpy(s, text, len + 1);
            free(text);
            lv_heap_paint_on = 1;
            lv_paint_stack(lv_paint);
            live0 = lv_live;
            r = spifconf_shell_expand(s);
            live0 = lv_live - live0;
            lv_heap_paint_on = 0;
            if (lv_spawned) { lv_adds(o, "X spawn"); if (rec) lv_outlen[k] = (size_t) -2; free(s); return; }
            if (!r) { lv_adds(o, "N"); if (rec) lv_outlen[k] = (size_t) -1; }
            else {
                size_t rl = strlen((char *) r);
                lv_adds(o, "S "); lv_addhex(o, (unsigned char *) r, rl);
                if (r != s) lv_adds(o, " NOT-IN-PLACE");
                if (rec) lv_outlen[k] = rl;
            }
            snprintf(lb, sizeof(lb), " L%ld", live0);
            lv_adds(o, lb);
            free(s);
        } else if (op[0] == 'p') {
            /* spifconf_put_var takes ownership of both strings */
            spifconf_put_var((spif_charptr_t) lv_field(op, 1), (spif_charptr_t) lv_field(op, 2));
            lv_adds(o, "P");
        } else if (op[0] == 'd') {
            char *kname = lv_field(op, 1);
            spifconf_put_var((spif_charptr_t) kname, NULL);
            free(kname);
            lv_adds(o, "D");
        } else if (op[0] == 'g') {
            char *kname = lv_field(op, 1);
            spif_charptr_t v = spifconf_get_var((spif_charptr_t) kname);
            free(kname);
            if (!v) lv_adds(o, "U"); else { lv_adds(o, "V "); lv_addhex(o, (unsigned char *) v, strlen((char *) v)); }
        } else if (op[0] == 'r') {
            char lb[32];
            snprintf(lb, sizeof(lb), "R%d", lv_register_upto(atoi(op + 2)));
            lv_adds(o, lb);
        } else if (op[0] == 'c') {
            lv_cycle(atoi(op + 2));
            lv_adds(o, "C");
        } else {
            lv_adds(o, "HARNESS-ERROR:bad-op");
            return;
        }
    }
    /* the store in list order */
    lv_adds(o, " | ");
    if (!spifconf_vars) lv_adds(o, "-");
    else {
        spifconf_var_t *v;
        for (v = spifconf_vars; v; v = v->next) {
            if (v != spifconf_vars) lv_adds(o, ",");
            lv_addhex(o, (unsigned char *) v->var, strlen((char *) v->var));
            lv_adds(o, "=");
            lv_addhex(o, (unsigned char *) v->value, strlen((char *) v->value));
        }
    }
}

static void run_case(int n, char **t)
{
    lv_out_t o1 = { 0, 0, 0 }, o2 = { 0, 0, 0 }, o3 = { 0, 0, 0 };
    char *pn, *pv;
    int i;
    if (n < 4 || strcmp(t[0], "x") || n - 4 > LV_MAXOPS) { printf("HARNESS-ERROR:bad-case"); return; }
    pn = lv_spec(t[1], NULL); pv = lv_spec(t[2], NULL);
    libast_program_name = (spif_charptr_t) pn;
    libast_program_version = (spif_charptr_t) pv;
    clearenv();
    lv_clear_world();
    if (strcmp(t[3], "-")) {
        char *e = strdup(t[3]), *p = e;
        while (p && *p) {
            char *nx = strchr(p, ','), *eq, *k, *v;
            if (nx) *nx++ = 0;
            eq = strchr(p, '=');
            if (!eq) { printf("HARNESS-ERROR:world"); free(e); return; }
            *eq = 0;
            if (p[0] == '@' && p[1] == 'o') {
                lv_exec_out = (unsigned char *) lv_spec(eq + 1, &lv_exec_out_len);
            } else if (p[0] == '@' && p[1] == 'd') {
                lv_add_dir(p + 2, eq + 1);
            } else if (p[0] == '@' && p[1] == 'f') {
                if (lv_nfun < LV_NFUN) {
                    lv_fn_name[lv_nfun] = lv_spec(p + 2, NULL);
                    lv_fn_ret[lv_nfun] = strcmp(eq + 1, "!") ? lv_spec(eq + 1, NULL) : NULL;
                    lv_nfun++;
                }
            } else if (p[0] == '@' && p[1] == 'F') {
                int cnt = atoi(eq + 1);
                while (cnt-- > 0 && lv_nfun < LV_NFUN) {
                    char nm[32];
                    snprintf(nm, sizeof(nm), "f%d", lv_nfun);
                    lv_fn_name[lv_nfun] = strdup(nm);
                    snprintf(nm, sizeof(nm), "<%d:", lv_nfun);
                    lv_fn_ret[lv_nfun] = strdup(nm);
                    lv_nfun++;
                }
            } else if (p[0] == '@' && p[1] == 'n') {
                lv_nfun_start = atoi(eq + 1);
            } else if (p[0] == '@' && p[1] == 'c') {
                lv_nctx = atoi(eq + 1);
            } else {
                k = lv_spec(p, NULL); v = lv_spec(eq + 1, NULL);
                setenv(k, v, 1);
                free(k); free(v);
            }
            p = nx;
        }
        free(e);
    }
    for (i = 0; i < LV_MAXOPS; i++) lv_outlen[i] = (size_t) -2;
    lv_adds(&o1, ""); lv_adds(&o2, ""); lv_adds(&o3, "");
    lv_paint = 0xA5; lv_run(n - 4, t + 4, 0, 1, &o1);
    lv_paint = 0x5A; lv_run(n - 4, t + 4, 0, 0, &o2);
    if (strcmp(o1.s, o2.s)) {
        printf("PAINT-DEPENDENT a5: %s  5a: %s", o1.s, o2.s);
    } else {
        lv_paint = 0xA5; lv_run(n - 4, t + 4, 1, 0, &o3);
        if (strcmp(o1.s, o3.s)) printf("BLOCK-DEPENDENT object: %s  exact: %s", o1.s, o3.s);
        else fputs(o1.s, stdout);
    }
    if (lv_inited) { spifconf_free_subsystem(); lv_inited = 0; }
    libast_program_name = (spif_charptr_t) PACKAGE;
    libast_program_version = (spif_charptr_t) VERSION;
    free(pn); free(pv);
    free(o1.s); free(o2.s); free(o3.s);
}
