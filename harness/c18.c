/* C18 harness: the six built-in hashes of src/builtin_hashes.c.
 *
 * Case "h <align> <seed> <len> <keyhex>": the first <len> key bytes are hashed in two placements
 *  (1) inside an mmap'ed region [PROT_NONE page][2 data pages][PROT_NONE page], start address
 *      congruent to <align> modulo 8 and as close to the trailing PROT_NONE page as that allows
 *      (0..7 slack bytes, filled with non-zero garbage; exactly flush for one alignment per
 *      length), so an over-read traps or changes the value;
 *  (2) at offset <align> of a malloc block of exactly align+len bytes (ASan redzone flush against
 *      the last key byte at every alignment; for align 0 also directly in front of the first).
 * spifhash_jenkins32 is specified for word arrays only: it gets the first 4*(len/4) bytes as
 * len/4 words, 4-aligned and flush in both placements.
 * The two placements must give the same six values ("same value wherever the bytes are placed").
 * Output "S:<six values> M:<six values> R:ok" (the model driver prints reference values after
 * S: and model values after M:).  R: compares with an independent C transcription of the
 * published definitions (lookup2.c hash()/hash2() with libast's initial value, rotating,
 * one-at-a-time, FNV-1a by multiplication). */
#include "common.h"
#include <sys/mman.h>
#include <stdint.h>

typedef uint32_t ub4;
typedef uint8_t ub1;

/* ---- reference transcription (Bob Jenkins, lookup2.c, public domain) ---- */
#define ref_mix(a,b,c) \
{ \
  a -= b; a -= c; a ^= (c>>13); \
  b -= c; b -= a; b ^= (a<<8); \
  c -= a; c -= b; c ^= (b>>13); \
  a -= b; a -= c; a ^= (c>>12);  \
  b -= c; b -= a; b ^= (a<<16); \
  c -= a; c -= b; c ^= (b>>5); \
  a -= b; a -= c; a ^= (c>>3);  \
  b -= c; b -= a; b ^= (a<<10); \
  c -= a; c -= b; c ^= (b>>15); \
}
#define REF_GOLDEN 0xf721b64dU   /* lookup2.c: 0x9e3779b9, "an arbitrary value"; libast's choice */

static ub4 ref_hash(const ub1 *k, ub4 length, ub4 initval)
{
    ub4 a, b, c, len;
    len = length;
    a = b = REF_GOLDEN;
    c = initval;
    while (len >= 12) {
        a += (k[0] + ((ub4) k[1] << 8) + ((ub4) k[2] << 16) + ((ub4) k[3] << 24));
        b += (k[4] + ((ub4) k[5] << 8) + ((ub4) k[6] << 16) + ((ub4) k[7] << 24));
        c += (k[8] + ((ub4) k[9] << 8) + ((ub4) k[10] << 16) + ((ub4) k[11] << 24));
        ref_mix(a, b, c);
        k += 12; len -= 12;
    }
    c += length;
    switch (len) {
        case 11: c += ((ub4) k[10] << 24);
        case 10: c += ((ub4) k[9] << 16);
        case 9:  c += ((ub4) k[8] << 8);
        case 8:  b += ((ub4) k[7] << 24);
        case 7:  b += ((ub4) k[6] << 16);
        case 6:  b += ((ub4) k[5] << 8);
        case 5:  b += k[4];
        case 4:  a += ((ub4) k[3] << 24);
        case 3:  a += ((ub4) k[2] << 16);
        case 2:  a += ((ub4) k[1] << 8);
        case 1:  a += k[0];
    }
    ref_mix(a, b, c);
    return c;
}
/* hash2(): the key as words; the words are composed from bytes so that no alignment is needed */
static ub4 ref_word(const ub1 *k, ub4 i)
{
    return k[4 * i] + ((ub4) k[4 * i + 1] << 8) + ((ub4) k[4 * i + 2] << 16) + ((ub4) k[4 * i + 3] << 24);
}
static ub4 ref_hash2(const ub1 *k, ub4 length, ub4 initval)
{
    ub4 a, b, c, len, o = 0;
    len = length;
    a = b = REF_GOLDEN;
    c = initval;
    while (len >= 3) {
        a += ref_word(k, o + 0);
        b += ref_word(k, o + 1);
        c += ref_word(k, o + 2);
        ref_mix(a, b, c);
        o += 3; len -= 3;
    }
    c += length;
    switch (len) {
        case 2: b += ref_word(k, o + 1);
        case 1: a += ref_word(k, o + 0);
    }
    ref_mix(a, b, c);
    return c;
}
static ub4 ref_rotating(const ub1 *k, ub4 len, ub4 seed)
{
    ub4 h = seed ? seed : REF_GOLDEN, i;
    for (i = 0; i < len; i++) h = ((h << 4) | (h >> 28)) ^ k[i];   /* rotate left by 4 */
    return h ^ (h >> 10) ^ (h >> 20);
}
static ub4 ref_oaat(const ub1 *k, ub4 len, ub4 seed)
{
    ub4 h = seed ? seed : REF_GOLDEN, i;
    for (i = 0; i < len; i++) { h += k[i]; h *= 1025U; h ^= (h >> 6); }
    h *= 9U; h ^= (h >> 11); h *= 32769U;
    return h;
}
static ub4 ref_fnv1a(const ub1 *k, ub4 len, ub4 seed)
{
    ub4 h = seed ? seed : 2166136261U, i;
    for (i = 0; i < len; i++) { h ^= k[i]; h *= 16777619U; }
    return h;
}

/* ---- placement ---- */
static unsigned char *region;      /* [NONE][data][data][NONE] */
static size_t pagesz;
#define DATA_PAGES 2

static void setup(void)
{
    pagesz = (size_t) sysconf(_SC_PAGESIZE);
    region = (unsigned char *) mmap(NULL, (DATA_PAGES + 2) * pagesz, PROT_READ | PROT_WRITE,
                                    MAP_PRIVATE | MAP_ANONYMOUS, -1, 0);
    if (region == MAP_FAILED) { perror("mmap"); exit(2); }
    if (mprotect(region, pagesz, PROT_NONE) || mprotect(region + (DATA_PAGES + 1) * pagesz, pagesz, PROT_NONE)) {
        perror("mprotect"); exit(2);
    }
}
/* copy n key bytes so that they end d bytes before the trailing PROT_NONE page, where d in 0..7
 * is the least value giving start = align (mod 8); everything else in the data pages is garbage */
static unsigned char *place_guard(const unsigned char *key, size_t n, unsigned align)
{
    unsigned char *end = region + (DATA_PAGES + 1) * pagesz, *p;
    size_t i, d;
    for (i = 0; i < DATA_PAGES * pagesz; i++) region[pagesz + i] = (unsigned char) (0xA5 ^ (i * 7 + 1) | 1);
    for (d = 0; d < 8; d++) {
        p = end - n - d;
        if (((uintptr_t) p & 7) == (align & 7)) break;
    }
    memcpy(p, key, n);
    return p;
}

static void six(ub4 *v, unsigned char *k, unsigned char *k32, ub4 len, ub4 seed)
{
    v[0] = spifhash_jenkins(k, len, seed);
    v[1] = spifhash_jenkinsLE(k, len, seed);
    v[2] = spifhash_jenkins32(k32, len / 4, seed);
    v[3] = spifhash_rotating(k, len, seed);
    v[4] = spifhash_one_at_a_time(k, len, seed);
    v[5] = spifhash_fnv(k, len, seed);
}

static void run_case(int n, char **t)
{
    if (!region) setup();
    if (n == 5 && !strcmp(t[0], "h")) {
        unsigned align = (unsigned) atoi(t[1]) & 7;
        ub4 seed = (ub4) strtoul(t[2], NULL, 10);
        size_t klen, len = (size_t) strtoul(t[3], NULL, 10), i;
        unsigned char *key = lv_unhex(t[4], &klen);
        unsigned char *g, *g32, *m, *m32, *copy;
        ub4 v1[6], v2[6], r[6];
        int same = 1, refok = 1;

        if (len > klen || len + 16 > DATA_PAGES * pagesz) { printf("HARNESS-ERROR:bad-length"); free(key); return; }
        /* placement 1: guard page.  jenkins32 gets its own flush, 4-aligned placement, so the
         * byte-wise functions run first on their placement */
        copy = (unsigned char *) malloc(len ? len : 1);
        memcpy(copy, key, len);
        g = place_guard(copy, len, align);
        v1[0] = spifhash_jenkins(g, (ub4) len, seed);
        v1[1] = spifhash_jenkinsLE(g, (ub4) len, seed);
        v1[3] = spifhash_rotating(g, (ub4) len, seed);
        v1[4] = spifhash_one_at_a_time(g, (ub4) len, seed);
        v1[5] = spifhash_fnv(g, (ub4) len, seed);
        if (memcmp(g, copy, len)) { printf("HARNESS-ERROR:key-modified"); return; }
        g32 = place_guard(copy, 4 * (len / 4), 0);   /* end flush: 4*(len/4) bytes before a page boundary */
        if (((uintptr_t) g32 & 3) != 0) { printf("HARNESS-ERROR:placement"); return; }
        v1[2] = spifhash_jenkins32(g32, (ub4) (len / 4), seed);
        /* placement 2: exact malloc blocks */
        m = (unsigned char *) malloc(align + len ? align + len : 1);
        for (i = 0; i < align; i++) m[i] = 0x5b;
        memcpy(m + align, copy, len);
        m32 = (unsigned char *) malloc(4 * (len / 4) ? 4 * (len / 4) : 1);
        memcpy(m32, copy, 4 * (len / 4));
        six(v2, m + align, m32, (ub4) len, seed);
        /* reference transcription */
        r[0] = ref_hash(copy, (ub4) len, seed);
        r[1] = r[0];
        r[2] = ref_hash2(copy, (ub4) (len / 4), seed);
        r[3] = ref_rotating(copy, (ub4) len, seed);
        r[4] = ref_oaat(copy, (ub4) len, seed);
        r[5] = ref_fnv1a(copy, (ub4) len, seed);
        for (i = 0; i < 6; i++) { if (v1[i] != v2[i]) same = 0; if (v1[i] != r[i]) refok = 0; }
        if (!same) {
            printf("S:placement-dependent guard=%u %u %u %u %u %u malloc=%u %u %u %u %u %u", v1[0], v1[1], v1[2], v1[3], v1[4], v1[5],
                   v2[0], v2[1], v2[2], v2[3], v2[4], v2[5]);
        } else {
            printf("S:%u %u %u %u %u %u M:%u %u %u %u %u %u R:", v1[0], v1[1], v1[2], v1[3], v1[4], v1[5],
                   v1[0], v1[1], v1[2], v1[3], v1[4], v1[5]);
            if (refok) printf("ok");
            else printf("differs-from-C-reference(%u,%u,%u,%u,%u,%u)", r[0], r[1], r[2], r[3], r[4], r[5]);
        }
        free(m); free(m32); free(copy); free(key);
    } else {
        printf("HARNESS-ERROR:bad-case");
    }
}
