/* C18 harness: the six built-in hashes of src/builtin_hashes.c.
 *
 * Case "h <align> <seed> <len> <keyhex>": the first <len> key bytes are hashed in two placements
 *  (1) inside an mmap'ed region [PROT_NONE page][2 data pages][PROT_NONE page], start address
 *      congruent to <align> modulo 8 and as close to the trailing PROT_NONE page as that allows
 *      (0..7 slack bytes, filled with non-zero garbage; exactly flush for one alignment per
 *      length), so an over-read traps or changes the value;
 *  (2) at offset <align> of a malloc block of exactly align+len bytes (ASan redzone flush against
 *      the last key byte at every alignment; for align 0 also directly in front of the first).
 * spifhash_jenkins32 is specified for word arrays only: it gets the first 4*(len/4) bytes as
 * len/4 words, 4-aligned and flush in both placements.
 * The two placements must give the same six values ("same value wherever the bytes are placed").
 * Output "S:<six values> M:<six values> R:ok" (the model driver prints reference values after
 * S: and model values after M:).  R: compares with an independent C transcription of the
 * published definitions (lookup2.c hash()/hash2() with libast's initial value, rotating,
 * one-at-a-time, FNV-1a by multiplication).
 *
 * Case "big <hashes> <len> <seed> <align> <cseed>": the size class the list-of-cells model cannot be run on -
 * length arguments of 2^31-1 and more (the parameter is a spif_uint32_t: every value up to 2^32-1 is legal).
 * <hashes> is a string of digits 0..5 (jenkins, jenkinsLE, jenkins32, rotating, one-at-a-time, fnv); <len> is the
 * LENGTH ARGUMENT each of them gets (bytes; for jenkins32 words, i.e. 4*len key bytes).  The key lives in a sparse
 * mapping that commits next to nothing: cseed = 0 -> untouched MAP_NORESERVE anonymous pages (all zero), otherwise
 * a 2 MiB pseudo-random chunk (memfd) mapped MAP_PRIVATE again and again; on top of either, ~1500 single bytes are
 * poked in (copy-on-write, one page each): the first and last 40 bytes of the key, the bytes around offsets 2^31
 * and 2^32, and pseudo-random offsets all over the key - a purely periodic key cancels out of the xor/rotate hashes.
 * The key ends 0..7 bytes before a PROT_NONE page (start congruent to <align> modulo 8) and is read-only while
 * the hashes run.  Each selected function is compared with the C transcription of its reference definition (the
 * same one the R: field of every "h" case compares with, which ties it to the extracted reference on every small
 * case).  Output "BIG:ok", or "BIG:differs <name>(len=..,seed=..)=<value> reference=<value> ...". */
#define _GNU_SOURCE
#include "common.h"
#include <sys/mman.h>
#include <stdint.h>

typedef uint32_t ub4;
typedef uint8_t ub1;

/* ---- reference transcription (Bob Jenkins, lookup2.c, public domain) ---- */
#define ref_mix(a,b,c) \
{ \
  a -= b; a -= c; a ^= (c>>13); \
  b -= c; b -= a; b ^= (a<<8); \
  c -= a; c -= b; c ^= (b>>13); \
  a -= b; a -= c; a ^= (c>>12);  \
  b -= c; b -= a; b ^= (a<<16); \
  c -= a; c -= b; c ^= (b>>5); \
  a -= b; a -= c; a ^= (c>>3);  \
  b -= c; b -= a; b ^= (a<<10); \
  c -= a; c -= b; c ^= (b>>15); \
}
/* the transcription is the oracle, not the subject: no per-byte shadow checks (it runs over keys of up to 16 GiB) */
#define REF_FN __attribute__((no_sanitize_address, optimize("O2")))
#define REF_GOLDEN 0xf721b64dU   /* lookup2.c: 0x9e3779b9, "an arbitrary value"; libast's choice */

REF_FN static ub4 ref_hash(const ub1 *k, ub4 length, ub4 initval)
{
    ub4 a, b, c, len;
    len = length;
    a = b = REF_GOLDEN;
    c = initval;
    while (len >= 12) {
        a += (k[0] + ((ub4) k[1] << 8) + ((ub4) k[2] << 16) + ((ub4) k[3] << 24));
        b += (k[4] + ((ub4) k[5] << 8) + ((ub4) k[6] << 16) + ((ub4) k[7] << 24));
        c += (k[8] + ((ub4) k[9] << 8) + ((ub4) k[10] << 16) + ((ub4) k[11] << 24));
        ref_mix(a, b, c);
        k += 12; len -= 12;
    }
    c += length;
    switch (len) {
        case 11: c += ((ub4) k[10] << 24);
        case 10: c += ((ub4) k[9] << 16);
        case 9:  c += ((ub4) k[8] << 8);
        case 8:  b += ((ub4) k[7] << 24);
        case 7:  b += ((ub4) k[6] << 16);
        case 6:  b += ((ub4) k[5] << 8);
        case 5:  b += k[4];
        case 4:  a += ((ub4) k[3] << 24);
        case 3:  a += ((ub4) k[2] << 16);
        case 2:  a += ((ub4) k[1] << 8);
        case 1:  a += k[0];
    }
    ref_mix(a, b, c);
    return c;
}
/* hash2(): the key as words; the words are composed from bytes so that no alignment is needed */
REF_FN static ub4 ref_word(const ub1 *k, ub4 i)
{
    const ub1 *p = k + (size_t) 4 * i;      /* not 4 * i in 32 bits: word arrays of 2^30 words and more */
    return p[0] + ((ub4) p[1] << 8) + ((ub4) p[2] << 16) + ((ub4) p[3] << 24);
}
REF_FN static ub4 ref_hash2(const ub1 *k, ub4 length, ub4 initval)
{
    ub4 a, b, c, len, o = 0;
    len = length;
    a = b = REF_GOLDEN;
    c = initval;
    while (len >= 3) {
        a += ref_word(k, o + 0);
        b += ref_word(k, o + 1);
        c += ref_word(k, o + 2);
        ref_mix(a, b, c);
        o += 3; len -= 3;
    }
    c += length;
    switch (len) {
        case 2: b += ref_word(k, o + 1);
        case 1: a += ref_word(k, o + 0);
    }
    ref_mix(a, b, c);
    return c;
}
REF_FN static ub4 ref_rotating(const ub1 *k, ub4 len, ub4 seed)
{
    ub4 h = seed ? seed : REF_GOLDEN, i;
    for (i = 0; i < len; i++) h = ((h << 4) | (h >> 28)) ^ k[i];   /* rotate left by 4 */
    return h ^ (h >> 10) ^ (h >> 20);
}
REF_FN static ub4 ref_oaat(const ub1 *k, ub4 len, ub4 seed)
{
    ub4 h = seed ? seed : REF_GOLDEN, i;
    for (i = 0; i < len; i++) { h += k[i]; h *= 1025U; h ^= (h >> 6); }
    h *= 9U; h ^= (h >> 11); h *= 32769U;
    return h;
}
REF_FN static ub4 ref_fnv1a(const ub1 *k, ub4 len, ub4 seed)
{
    ub4 h = seed ? seed : 2166136261U, i;
    for (i = 0; i < len; i++) { h ^= k[i]; h *= 16777619U; }
    return h;
}

/* ---- placement ---- */
static unsigned char *region;      /* [NONE][data][data][NONE] */
static size_t pagesz;
#define DATA_PAGES 2

static void setup(void)
{
    pagesz = (size_t) sysconf(_SC_PAGESIZE);
    region = (unsigned char *) mmap(NULL, (DATA_PAGES + 2) * pagesz, PROT_READ | PROT_WRITE,
                                    MAP_PRIVATE | MAP_ANONYMOUS, -1, 0);
    if (region == MAP_FAILED) { perror("mmap"); exit(2); }
    if (mprotect(region, pagesz, PROT_NONE) || mprotect(region + (DATA_PAGES + 1) * pagesz, pagesz, PROT_NONE)) {
        perror("mprotect"); exit(2);
    }
}
/* copy n key bytes so that they end d bytes before the trailing PROT_NONE page, where d in 0..7
 * is the least value giving start = align (mod 8); everything else in the data pages is garbage */
static unsigned char *place_guard(const unsigned char *key, size_t n, unsigned align)
{
    unsigned char *end = region + (DATA_PAGES + 1) * pagesz, *p;
    size_t i, d;
    for (i = 0; i < DATA_PAGES * pagesz; i++) region[pagesz + i] = (unsigned char) (0xA5 ^ (i * 7 + 1) | 1);
    for (d = 0; d < 8; d++) {
        p = end - n - d;
        if (((uintptr_t) p & 7) == (align & 7)) break;
    }
    memcpy(p, key, n);
    return p;
}

static void six(ub4 *v, unsigned char *k, unsigned char *k32, ub4 len, ub4 seed)
{
    v[0] = spifhash_jenkins(k, len, seed);
    v[1] = spifhash_jenkinsLE(k, len, seed);
    v[2] = spifhash_jenkins32(k32, len / 4, seed);
    v[3] = spifhash_rotating(k, len, seed);
    v[4] = spifhash_one_at_a_time(k, len, seed);
    v[5] = spifhash_fnv(k, len, seed);
}


/* ---- keys of 2 GiB and more ---- */
#define BIG_CHUNK ((size_t) 2 << 20)
static uint64_t big_x;
static uint64_t big_rnd(void) { big_x ^= big_x << 13; big_x ^= big_x >> 7; big_x ^= big_x << 17; return big_x; }

static const char *big_names[6] = { "jenkins", "jenkinsLE", "jenkins32", "rotating", "one_at_a_time", "fnv" };

static void run_big(const char *which, uint64_t len, ub4 seed, unsigned align, uint64_t cseed)
{
    uint64_t kbytes = len, span, i;
    unsigned char *base, *guard, *key;
    size_t d;
    int has32 = strchr(which, '2') != NULL, bad = 0;
    const char *w;

    if (len > 0xffffffffULL || !*which || strspn(which, "012345") != strlen(which)) { printf("HARNESS-ERROR:bad-big-case"); return; }
    if (has32) { kbytes = 4 * len; align &= 4; }       /* the word-wise hash needs a 4-aligned key */
    align &= 7;
    span = (kbytes + 8 + BIG_CHUNK - 1) / BIG_CHUNK * BIG_CHUNK;
    base = (unsigned char *) mmap(NULL, span + pagesz, PROT_NONE, MAP_PRIVATE | MAP_ANONYMOUS | MAP_NORESERVE, -1, 0);
    if (base == MAP_FAILED) { printf("HARNESS-ERROR:mmap-reserve"); return; }
    guard = base + span;
    if (cseed) {
        int fd = memfd_create("lv-c18-key", 0);
        unsigned char *c;
        uint64_t o;
        if (fd < 0) { FILE *tf = tmpfile(); fd = tf ? fileno(tf) : -1; }
        if (fd < 0 || ftruncate(fd, (off_t) BIG_CHUNK)) { printf("HARNESS-ERROR:chunk-file"); return; }
        c = (unsigned char *) mmap(NULL, BIG_CHUNK, PROT_READ | PROT_WRITE, MAP_SHARED, fd, 0);
        if (c == MAP_FAILED) { printf("HARNESS-ERROR:chunk-map"); return; }
        big_x = cseed * 0x9E3779B97F4A7C15ULL + 88172645463325252ULL;
        for (i = 0; i < BIG_CHUNK; i += 8) { uint64_t v = big_rnd(); memcpy(c + i, &v, 8); }
        munmap(c, BIG_CHUNK);
        for (o = 0; o < span; o += BIG_CHUNK) {
            if (mmap(base + o, BIG_CHUNK, PROT_READ | PROT_WRITE, MAP_PRIVATE | MAP_FIXED | MAP_NORESERVE, fd, 0) == MAP_FAILED) {
                printf("HARNESS-ERROR:chunk-repeat"); return;
            }
        }
        close(fd);
    } else if (mprotect(base, span, PROT_READ | PROT_WRITE)) { printf("HARNESS-ERROR:mprotect"); return; }
    for (d = 0; d < 8; d++) {
        key = guard - kbytes - d;
        if (((uintptr_t) key & 7) == align) break;
    }
    /* the poked bytes (never zero, so that on zero pages every one of them counts) */
    big_x = (cseed + 1) * 0xD1B54A32D192ED03ULL + len;
#define POKE(off) do { uint64_t o_ = (off); if (o_ < kbytes) key[o_] = (unsigned char) (big_rnd() >> 32 | 1); } while (0)
    for (i = 0; i < 40; i++) { POKE(i); POKE(kbytes - 1 - i); }
    for (i = 0; i < 16; i++) { POKE(0x7ffffff8ULL + i); POKE(0xfffffff8ULL + i); POKE(0x1fffffff8ULL + i); POKE(0x3fffffff8ULL + i); }
    for (i = 0; i < 1400 && kbytes; i++) POKE(big_rnd() % kbytes);
    for (i = 0; i < d; i++) guard[-1 - (ptrdiff_t) i] = 0xC3;     /* slack after the key: must not be read */
    if (mprotect(base, span, PROT_READ)) { printf("HARNESS-ERROR:mprotect-ro"); return; }

    for (w = which; *w; w++) {
        ub4 v, r;
        switch (*w) {
            case '0': v = spifhash_jenkins(key, (ub4) len, seed);       r = ref_hash(key, (ub4) len, seed); break;
            case '1': v = spifhash_jenkinsLE(key, (ub4) len, seed);     r = ref_hash(key, (ub4) len, seed); break;
            case '2': v = spifhash_jenkins32(key, (ub4) len, seed);     r = ref_hash2(key, (ub4) len, seed); break;
            case '3': v = spifhash_rotating(key, (ub4) len, seed);      r = ref_rotating(key, (ub4) len, seed); break;
            case '4': v = spifhash_one_at_a_time(key, (ub4) len, seed); r = ref_oaat(key, (ub4) len, seed); break;
            default:  v = spifhash_fnv(key, (ub4) len, seed);           r = ref_fnv1a(key, (ub4) len, seed); break;
        }
        if (v != r) {
            printf("%s %s(len=%llu,seed=%u)=%u reference=%u", bad ? "" : "BIG:differs", big_names[*w - '0'],
                   (unsigned long long) len, seed, v, r);
            bad = 1;
        }
    }
    if (!bad) printf("BIG:ok");
    munmap(base, span + pagesz);
}

static void run_case(int n, char **t)
{
    if (!region) setup();
    if (n == 6 && !strcmp(t[0], "big")) {
        run_big(t[1], strtoull(t[2], NULL, 10), (ub4) strtoul(t[3], NULL, 10), (unsigned) atoi(t[4]), strtoull(t[5], NULL, 10));
        return;
    }
    if (n == 5 && !strcmp(t[0], "h")) {
        unsigned align = (unsigned) atoi(t[1]) & 7;
        ub4 seed = (ub4) strtoul(t[2], NULL, 10);
        size_t klen, len = (size_t) strtoul(t[3], NULL, 10), i;
        unsigned char *key = lv_unhex(t[4], &klen);
        unsigned char *g, *g32, *m, *m32, *copy;
        ub4 v1[6], v2[6], r[6];
        int same = 1, refok = 1;

        if (len > klen || len + 16 > DATA_PAGES * pagesz) { printf("HARNESS-ERROR:bad-length"); free(key); return; }
        /* placement 1: guard page.  jenkins32 gets its own flush, 4-aligned placement, so the
         * byte-wise functions run first on their placement */
        copy = (unsigned char *) malloc(len ? len : 1);
        memcpy(copy, key, len);
        g = place_guard(copy, len, align);
        v1[0] = spifhash_jenkins(g, (ub4) len, seed);
        v1[1] = spifhash_jenkinsLE(g, (ub4) len, seed);
        v1[3] = spifhash_rotating(g, (ub4) len, seed);
        v1[4] = spifhash_one_at_a_time(g, (ub4) len, seed);
        v1[5] = spifhash_fnv(g, (ub4) len, seed);
        if (memcmp(g, copy, len)) { printf("HARNESS-ERROR:key-modified"); return; }
        g32 = place_guard(copy, 4 * (len / 4), 0);   /* end flush: 4*(len/4) bytes before a page boundary */
        if (((uintptr_t) g32 & 3) != 0) { printf("HARNESS-ERROR:placement"); return; }
        v1[2] = spifhash_jenkins32(g32, (ub4) (len / 4), seed);
        /* placement 2: exact malloc blocks */
        m = (unsigned char *) malloc(align + len ? align + len : 1);
        for (i = 0; i < align; i++) m[i] = 0x5b;
        memcpy(m + align, copy, len);
        m32 = (unsigned char *) malloc(4 * (len / 4) ? 4 * (len / 4) : 1);
        memcpy(m32, copy, 4 * (len / 4));
        six(v2, m + align, m32, (ub4) len, seed);
        /* reference transcription */
        r[0] = ref_hash(copy, (ub4) len, seed);
        r[1] = r[0];
        r[2] = ref_hash2(copy, (ub4) (len / 4), seed);
        r[3] = ref_rotating(copy, (ub4) len, seed);
        r[4] = ref_oaat(copy, (ub4) len, seed);
        r[5] = ref_fnv1a(copy, (ub4) len, seed);
        for (i = 0; i < 6; i++) { if (v1[i] != v2[i]) same = 0; if (v1[i] != r[i]) refok = 0; }
        if (!same) {
            printf("S:placement-dependent guard=%u %u %u %u %u %u malloc=%u %u %u %u %u %u", v1[0], v1[1], v1[2], v1[3], v1[4], v1[5],
                   v2[0], v2[1], v2[2], v2[3], v2[4], v2[5]);
        } else {
            printf("S:%u %u %u %u %u %u M:%u %u %u %u %u %u R:", v1[0], v1[1], v1[2], v1[3], v1[4], v1[5],
                   v1[0], v1[1], v1[2], v1[3], v1[4], v1[5]);
            if (refok) printf("ok");
            else printf("differs-from-C-reference(%u,%u,%u,%u,%u,%u)", r[0], r[1], r[2], r[3], r[4], r[5]);
        }
        free(m); free(m32); free(copy); free(key);
    } else {
        printf("HARNESS-ERROR:bad-case");
    }
}
