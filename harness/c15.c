/* C15 harness: the debug memory tracker of src/mem.c on scripted allocation histories.
 *
 * src/mem.c is #included here (the check builds the rest of the library without it) so that
 *  - the static table malloc_rec can be read directly, and
 *  - the libc allocator calls inside it (malloc/calloc/realloc/free) can be renamed to a
 *    scripted allocator: every block lives in a fixed slot of an arena, the slot of each
 *    answer is dictated by the case line (so freed addresses can be handed out again, a
 *    realloc can stay or move, and model and implementation see the same answers).
 *    Calls that concern the table's own storage (never an arena address) go to the real
 *    allocator, as does everything while a library scenario runs.
 *    A request for more than a slot holds (any size up to 2^64-1: 2^31, 2^32+4096, ...) is
 *    answered like any other - the slot's address, the requested size noted as the block's
 *    size - but only the first LV_SLOTSZ bytes exist.  The tracker never touches a block's
 *    bytes (only its dump does: scripts do not dump while such a block is live), so sizes of
 *    4 GiB and more cost nothing here.  strdup is the exception: it does write the bytes.
 * The same renaming is active where the harness uses the MALLOC/CALLOC/REALLOC/FREE/STRDUP
 * macros, so their non-tracking forms (DEBUG < DEBUG_MEM builds) hit the scripted allocator
 * too and the live sets of the two expansions can be compared.
 *
 * Case lines:
 *   h <build> <init> <ops...>      build must equal this binary's DEBUG or the case is
 *                                  skipped (the dispatcher merges the two binaries' output)
 *   scn <build> <name> <n>         library scenario at run-time level DEBUG_MEM on the real
 *                                  allocator; prints the record count left afterwards
 * ops (one token each, fields separated by commas; file/str in hex, "N" = NULL pointer):
 *   L,lvl | m,file,line,size,ans | c,file,line,count,size,ans | r,file,line,ptr,size,ans |
 *   s,file,line,str,ans | f,ptr | M,file,line,size,ans | C,file,line,n,esize,ans |
 *   R,file,line,ptr,size,ans | S,file,line,str,ans | F,ptr | x,size,ans | D
 * Output: per op "=<slot>" (returned pointer by slot name, 0 = NULL), "." (void) or
 * "dump=<count>/<total>", each followed by "#<cnt>"; then " | T" and the table in array
 * order (ptr:size:file:line), then " | H" and the allocator's live set (slot:size). */
#define LV_MAXTOK 16384          /* histories with more than 2048 live blocks: one token per call */
#include "common.h"
#include <sanitizer/asan_interface.h>
#include <sys/types.h>
#include <sys/socket.h>
#include <sys/mman.h>
#include <signal.h>
#include <fcntl.h>
#include <errno.h>
#include <regex.h>

/* ---------------------------------------------------------------- scripted allocator */
#define LV_NSLOT 2100     /* live sets cross 255/256/257 ... 2047/2048/2049 (the table's own storage is
                           * the real, sanitized allocator's: a record written past it is seen) */
#define LV_SLOTSZ 128
static unsigned char lv_arena[LV_NSLOT + 1][LV_SLOTSZ] __attribute__((aligned(64)));
static int lv_islive[LV_NSLOT + 1];
static size_t lv_sz[LV_NSLOT + 1];
static int lv_scripted = 0;      /* 0: pass everything to the real allocator */
static long lv_ans = -1;         /* slot the next scripted allocator call answers with */
static int lv_badfree = 0, lv_insane = 0;
static long lv_hi = LV_NSLOT;    /* highest slot touched since the last reset */

static long lv_slot_of(const void *p)
{
    const unsigned char *c = (const unsigned char *) p;
    if (c < &lv_arena[0][0] || c >= &lv_arena[LV_NSLOT][LV_SLOTSZ - 1] + 1) return -1;
    if ((c - &lv_arena[0][0]) % LV_SLOTSZ) return -1;
    return (long) ((c - &lv_arena[0][0]) / LV_SLOTSZ);
}
#define LV_BACKED(size) ((size) > LV_SLOTSZ ? (size_t) LV_SLOTSZ : (size_t) (size))    /* the bytes that really exist */
static void *lv_take(size_t size, int zero)
{
    long a = lv_ans;
    lv_ans = -1;
    /* an insane script (e.g. an answer that is still live): flag it and hand out the spare
     * slot 0 so that the library does not take its fatal out-of-memory exit */
    if (a < 0 || a > LV_NSLOT) { lv_insane = 1; return lv_arena[0]; }
    if (a == 0) return NULL;
    if (lv_islive[a]) { lv_insane = 1; return lv_arena[0]; }
    lv_islive[a] = 1;
    lv_sz[a] = size;
    if (a > lv_hi) lv_hi = a;
    ASAN_POISON_MEMORY_REGION(lv_arena[a], LV_SLOTSZ);
    ASAN_UNPOISON_MEMORY_REGION(lv_arena[a], LV_BACKED(size));
    memset(lv_arena[a], zero ? 0 : 0xA5, LV_BACKED(size));
    return lv_arena[a];
}
static void lv_drop(long a)
{
    lv_islive[a] = 0;
    ASAN_POISON_MEMORY_REGION(lv_arena[a], LV_SLOTSZ);
}
static void *lv_malloc(size_t size)
{
    if (!lv_scripted) return malloc(size);
    return lv_take(size, 0);
}
static void *lv_calloc(size_t n, size_t size)
{
    if (!lv_scripted) return calloc(n, size);
    return lv_take(n * size, 1);
}
static void lv_free(void *p)
{
    long a = lv_slot_of(p);
    if (a < 0) { free(p); return; }
    if (!lv_islive[a]) { lv_badfree = 1; return; }
    lv_drop(a);
}
static void *lv_realloc(void *p, size_t size)
{
    long a = lv_slot_of(p), b;
    unsigned char keep[LV_SLOTSZ];
    size_t n;
    if (a < 0) return realloc(p, size);             /* the table's own storage */
    if (!lv_islive[a]) { lv_badfree = 1; lv_ans = -1; return p; }
    b = lv_ans;
    lv_ans = -1;
    if (b < 0 || b > LV_NSLOT || (b != a && b != 0 && lv_islive[b])) { lv_insane = 1; return p; }
    if (b == 0) return NULL;
    n = LV_BACKED((lv_sz[a] < size) ? lv_sz[a] : size);
    memcpy(keep, lv_arena[a], n);
    lv_drop(a);
    lv_islive[b] = 1;
    lv_sz[b] = size;
    if (b > lv_hi) lv_hi = b;
    ASAN_POISON_MEMORY_REGION(lv_arena[b], LV_SLOTSZ);
    ASAN_UNPOISON_MEMORY_REGION(lv_arena[b], LV_BACKED(size));
    memset(lv_arena[b], 0xA5, LV_BACKED(size));
    memcpy(lv_arena[b], keep, n);
    return lv_arena[b];
}
static char *lv_strdup(const char *s)
{
    size_t n;
    char *d;
    if (!lv_scripted) return strdup(s);
    n = strlen(s) + 1;            /* a NULL argument crashes here, like strdup */
    if (n > LV_SLOTSZ) { lv_insane = 1; return (char *) lv_arena[0]; }     /* a copy needs its bytes */
    d = (char *) lv_take(n, 0);
    if (d) memcpy(d, s, n);
    return d;
}

#define malloc lv_malloc
#define calloc lv_calloc
#define realloc lv_realloc
#define free lv_free
#define strdup lv_strdup
#include "mem.c"

/* ---------------------------------------------------------------- the macros' call sites */
typedef struct { char c[3]; } lv_elem_t;
#define LV_SITE_FILE "c15_macro_call_site_file.c"
#line 101 "c15_macro_call_site_file.c"
static void *site_malloc(size_t sz) { return MALLOC(sz); }
static void *site_calloc(size_t n) { return CALLOC(lv_elem_t, n); }
static void *site_realloc(void *p, size_t sz) { return REALLOC(p, sz); }
static void *site_free(void *p) { FREE(p); return p; }
static char *site_strdup(const char *s) { return STRDUP(s); }
#line 147 "c15.c"
#undef malloc
#undef calloc
#undef realloc
#undef free
#undef strdup

/* ---------------------------------------------------------------- helpers */
static FILE *lv_null = NULL;
static void lv_quiet(void)
{
    /* D_MEM chatter goes to LIBAST_DEBUG_FD == stderr (the FILE, not descriptor 2, so the
     * sanitizers still report on 2) */
    if (getenv("LV_C15_VERBOSE")) return;          /* debugging a scenario by hand */
    if (!lv_null) lv_null = fopen("/dev/null", "w");
    stderr = lv_null;
}
static void lv_reset(void)
{
    long a;
    free(malloc_rec.ptrs);
    malloc_rec.ptrs = NULL;
    malloc_rec.cnt = 0;
    for (a = 0; a <= lv_hi; a++) { lv_islive[a] = 0; lv_sz[a] = 0; }
    ASAN_POISON_MEMORY_REGION(lv_arena, (size_t) (lv_hi + 1) * LV_SLOTSZ);
    ASAN_UNPOISON_MEMORY_REGION(lv_arena[0], LV_SLOTSZ);
    lv_hi = 0;
    lv_ans = -1;
    lv_badfree = lv_insane = 0;
    lv_scripted = 0;
}
static int lv_fields(char *tok, char **f, int max)
{
    int n = 0;
    char *p = tok;
    f[n++] = p;
    while (*p && n < max) {
        if (*p == ',') { *p = 0; f[n++] = p + 1; }
        p++;
    }
    return n;
}
static char *lv_optstr(const char *h) { return (h[0] == 'N') ? NULL : lv_unhex_str(h); }
static void *lv_ptr(const char *s) { long a = atol(s); return (a <= 0 || a > LV_NSLOT) ? NULL : (void *) lv_arena[a]; }
static void lv_putptr(const void *p)
{
    long a = lv_slot_of(p);
    if (!p) printf("0");
    else if (a >= 0) printf("%ld", a);
    else printf("?%p", p);
}
static void lv_dump(void)
{
    char *buf = NULL, *q;
    size_t len = 0;
    FILE *ms = open_memstream(&buf, &len), *save = stderr;
    unsigned long cnt = 0, total = 0;
    int ok = 0;
    stderr = ms;
    spifmem_dump_mem_tables();
    fflush(ms);
    stderr = save;
    fclose(ms);
    if ((q = strstr(buf, "PTR:  ")) && sscanf(q, "PTR:  %lu pointers stored.", &cnt) == 1) ok++;
    if ((q = strstr(buf, "PTR:  Total allocated memory:")) && sscanf(q, "PTR:  Total allocated memory: %lu bytes", &total) == 1) ok++;
    if (ok == 2) printf("dump=%lu/%lu", cnt, total); else printf("dump=?");
    free(buf);
}

/* ---------------------------------------------------------------- library scenarios */
static spif_str_t S(const char *s) { return spif_str_new_from_ptr((spif_charptr_t) s); }
static void scn_list(spif_list_t l, int n)
{
    int i;
    char b[32];
    spif_str_t k;
    spif_obj_t o;
    for (i = 0; i < n; i++) {
        sprintf(b, "item-%d", i);
        if (i % 3 == 2) SPIF_LIST_PREPEND(l, S(b)); else SPIF_LIST_APPEND(l, S(b));
    }
    for (i = 0; i < n; i += 2) {
        sprintf(b, "item-%d", i);
        k = S(b);
        o = SPIF_LIST_REMOVE(l, k);
        if (!SPIF_OBJ_ISNULL(o)) SPIF_OBJ_DEL(o);
        spif_str_del(k);
    }
    if (n > 4) {
        o = SPIF_LIST_REMOVE_AT(l, 1);
        if (!SPIF_OBJ_ISNULL(o)) SPIF_OBJ_DEL(o);
    }
    SPIF_LIST_DEL(l);
}
static void scn_map(spif_map_t m, int n)
{
    int i;
    char b[32], v[32];
    spif_str_t k, w;
    spif_obj_t o;
    for (i = 0; i < n; i++) {
        sprintf(b, "key-%d", (i * 7) % (n + 1));
        sprintf(v, "value-%d", i);
        k = S(b); w = S(v);
        SPIF_MAP_SET(m, k, w);
        spif_str_del(k); spif_str_del(w);
    }
    for (i = 0; i < n; i += 3) {
        sprintf(b, "key-%d", i);
        k = S(b);
        o = SPIF_MAP_REMOVE(m, k);
        if (!SPIF_OBJ_ISNULL(o)) SPIF_OBJ_DEL(o);
        spif_str_del(k);
    }
    SPIF_MAP_DEL(m);
}
static void scn_vector(spif_vector_t v, int n)
{
    int i;
    char b[32];
    spif_str_t k;
    spif_obj_t o;
    for (i = 0; i < n; i++) {
        sprintf(b, "v-%d", (i * 7) % 41);          /* distinct for n <= 40: a vector is a sorted set */
        SPIF_VECTOR_INSERT(v, S(b));
    }
    for (i = 0; i < n; i += 2) {
        sprintf(b, "v-%d", i);
        k = S(b);
        o = SPIF_VECTOR_REMOVE(v, k);
        if (!SPIF_OBJ_ISNULL(o)) SPIF_OBJ_DEL(o);
        spif_str_del(k);
    }
    SPIF_VECTOR_DEL(v);
}
/* dup of an EMPTY container, dup of a filled one, everything deleted (seeded change C15-2:
 * a zero-length items block owned only by the duplicate of an empty array) */
static void scn_listdup(spif_list_t l, int n)
{
    int i;
    char b[32];
    spif_list_t d0 = SPIF_LIST_DUP(l), d1;
    for (i = 0; i < n; i++) { sprintf(b, "item-%d", i); SPIF_LIST_APPEND(l, S(b)); }
    d1 = SPIF_LIST_DUP(l);
    if (!SPIF_LIST_ISNULL(d0)) SPIF_LIST_DEL(d0);
    if (!SPIF_LIST_ISNULL(d1)) SPIF_LIST_DEL(d1);
    SPIF_LIST_DEL(l);
}
static void scn_vecdup(spif_vector_t v, int n)
{
    int i;
    char b[32];
    spif_vector_t d0 = SPIF_VECTOR_DUP(v), d1;
    for (i = 0; i < n; i++) { sprintf(b, "v-%d", i); SPIF_VECTOR_INSERT(v, S(b)); }
    d1 = SPIF_VECTOR_DUP(v);
    if (!SPIF_VECTOR_ISNULL(d0)) SPIF_VECTOR_DEL(d0);
    if (!SPIF_VECTOR_ISNULL(d1)) SPIF_VECTOR_DEL(d1);
    SPIF_VECTOR_DEL(v);
}
static void scn_mapdup(spif_map_t m, int n)
{
    int i;
    char b[32];
    spif_str_t k;
    spif_map_t d0 = SPIF_MAP_DUP(m), d1;
    for (i = 0; i < n; i++) { sprintf(b, "k-%d", i); k = S(b); SPIF_MAP_SET(m, k, k); spif_str_del(k); }
    d1 = SPIF_MAP_DUP(m);
    if (!SPIF_MAP_ISNULL(d0)) SPIF_MAP_DEL(d0);
    if (!SPIF_MAP_ISNULL(d1)) SPIF_MAP_DEL(d1);
    SPIF_MAP_DEL(m);
}
/* ---------------------------------------------------------------- error-path scenarios
 * Every failure exit of the library that allocates before it fails: the operation is refused or
 * fails, everything the caller owns is deleted, and the table must be empty.  `n` selects the
 * variant; every scenario accepts every n (variants wrap). */
static int lv_memfile(const char *text, char *path, size_t plen)
{
    /* a file that exists only as a descriptor of this process */
    int fd = memfd_create("lv-c15", 0);
    if (fd < 0) return -1;
    if (text && *text && write(fd, text, strlen(text)) < 0) { close(fd); return -1; }
    lseek(fd, 0, SEEK_SET);
    snprintf(path, plen, "/proc/self/fd/%d", fd);
    return fd;
}
static spif_url_t U(const char *s) { return s ? spif_url_new_from_ptr((spif_charptr_t) s) : (spif_url_t) NULL; }
static void scn_del_sock(spif_socket_t k)
{
    spif_socket_t d;
    if (SPIF_SOCKET_ISNULL(k)) return;
    d = spif_socket_dup(k);
    spif_socket_del(k);
    if (!SPIF_SOCKET_ISNULL(d)) spif_socket_del(d);
}
static void scn_sockaccept(int n)
{
    spif_url_t a = U("tcp://127.0.0.1:1");
    spif_socket_t k, r;
    int sv[2] = { -1, -1 };
    switch (n % 5) {
        case 0: k = spif_socket_new_from_urls(a, (spif_url_t) NULL); break;           /* never opened: EBADF */
        case 1: k = spif_socket_new(); break;
        case 2: k = spif_socket_new_from_urls(a, (spif_url_t) NULL);                    /* not a socket */
                k->fd = open("/dev/null", O_RDONLY); break;
        case 3: k = spif_socket_new_from_urls((spif_url_t) NULL, a);                    /* connected, not listening */
                if (socketpair(AF_UNIX, SOCK_STREAM, 0, sv) == 0) k->fd = sv[0];
                break;
        default: k = spif_socket_new_from_urls(a, (spif_url_t) NULL);                   /* a datagram socket */
                k->fd = socket(AF_UNIX, SOCK_DGRAM, 0); break;
    }
    r = spif_socket_accept(k);
    if (!SPIF_SOCKET_ISNULL(r)) spif_socket_del(r);
    r = spif_socket_accept(k);                    /* and a second time */
    if (!SPIF_SOCKET_ISNULL(r)) spif_socket_del(r);
    scn_del_sock(k);
    if (sv[1] >= 0) close(sv[1]);
    spif_url_del(a);
}
static void scn_sockopen(int n)
{
    static const char *const loc[] = { "tcp://192.0.2.1:9", "unix:/nonexistent-lv-c15-dir/sock", NULL, NULL,
                                       NULL, "udp://192.0.2.1:9", "tcp://127.0.0.1:1", NULL, "udp://127.0.0.1:0", "unix:" };
    static const char *const rem[] = { NULL, NULL, "tcp://127.0.0.1:1", "unix:/nonexistent-lv-c15-dir/sock",
                                       "tcp:", NULL, "tcp://192.0.2.1:9", "raw://127.0.0.1", "udp://192.0.2.1:9", "unix:" };
    int v = n % 10;
    spif_url_t a = U(loc[v]), b = U(rem[v]);
    spif_socket_t k;
    if (v == 6) { if (!SPIF_URL_ISNULL(b)) spif_url_del(b); b = U("tcp://127.0.0.1:1"); }   /* bind fails first */
    k = spif_socket_new_from_urls(a, b);
    spif_socket_open(k);
    spif_socket_open(k);                          /* again after the failure */
    spif_socket_check_io(k);
    spif_socket_close(k);
    spif_socket_close(k);                         /* refused: not open */
    spif_socket_set_nbio(k);
    spif_socket_clear_nbio(k);
    scn_del_sock(k);
    if (!SPIF_URL_ISNULL(a)) spif_url_del(a);
    if (!SPIF_URL_ISNULL(b)) spif_url_del(b);
}
static void scn_sockio(int n)
{
    spif_socket_t k = spif_socket_new();
    spif_str_t d = S("payload"), e = spif_str_new(), r;
    int sv[2] = { -1, -1 };
    switch (n % 4) {
        case 0: break;                                                    /* fd -1: EBADF */
        case 1: if (socketpair(AF_UNIX, SOCK_STREAM, 0, sv) == 0) { k->fd = sv[0]; close(sv[1]); sv[1] = -1; } break;   /* EPIPE */
        case 2: k->fd = open("/dev/null", O_RDONLY); break;             /* EBADF for writing */
        default: if (socketpair(AF_UNIX, SOCK_STREAM, 0, sv) == 0) { k->fd = sv[0]; (void) !write(sv[1], "line one\nline two", 17); close(sv[1]); sv[1] = -1; } break;
    }
    spif_socket_send(k, (spif_str_t) NULL);       /* refused */
    spif_socket_send(k, e);                       /* refused: empty */
    if (k->fd >= 0 && n % 4 == 3) {
        r = spif_socket_recv(k);
        if (!SPIF_STR_ISNULL(r)) spif_str_del(r);
        r = spif_socket_recv(k);                  /* end of file */
        if (!SPIF_STR_ISNULL(r)) spif_str_del(r);
    }
    spif_socket_send(k, d);
    spif_socket_send(k, d);
    scn_del_sock(k);
    spif_str_del(d); spif_str_del(e);
}
static void scn_urlerr(int n)
{
    static const char *const bad[] = { "", ":", "://", "http://", "http://host:port:extra/", "user@", "@", "http://:@:/?",
                                       "nosuchproto://h", "//", "?q", "a:b@c", "http://[", "/", "http://u:p@/", ":80",
                                       "mailto:", "http://host:99999999999999999999/", "x://@:", "@@@@", "http://a@b@c:1:2/3?4?5",
                                       "::::", "http:///", "?", "://@:/?" };
    const char *t = bad[n % (int) (sizeof(bad) / sizeof(bad[0]))];
    spif_url_t u = U(t), d;
    spif_str_t s = S(t), w;
    spif_url_t v = spif_url_new_from_str(s), e = spif_url_new();
    if (!SPIF_URL_ISNULL(u)) {
        w = spif_url_show(u, (spif_charptr_t) "u", (spif_str_t) NULL, 0);
        if (!SPIF_STR_ISNULL(w)) spif_str_del(w);
        d = spif_url_dup(u);
        if (!SPIF_URL_ISNULL(d)) { spif_url_unparse(d); spif_url_del(d); }
        spif_url_unparse(u);
        spif_url_set_host(u, S("other.example"));
        spif_url_set_port(u, (spif_str_t) NULL);
        spif_url_unparse(u);
        spif_url_del(u);
    }
    if (!SPIF_URL_ISNULL(v)) spif_url_del(v);
    if (!SPIF_URL_ISNULL(e)) {
        d = spif_url_dup(e);
        if (!SPIF_URL_ISNULL(d)) spif_url_del(d);
        spif_url_unparse(e);
        spif_url_del(e);
    }
    spif_str_del(s);
}
static void scn_reerr(int n)
{
    static const char *const bad[] = { "(", "[a-", "*", "a{2,1}", "(?<", "\\", "a)", "(?P<n>a)(?P<n>b)", "[[:nosuch:]]", "(?z)", "\\c", "a**" , "" };
    const char *t = bad[n % (int) (sizeof(bad) / sizeof(bad[0]))];
    spif_regexp_t r = spif_regexp_new_from_ptr((spif_charptr_t) t), d, e;
    spif_str_t s = S(t), subj = S("subject");
    spif_regexp_t q = spif_regexp_new_from_str(s);
    if (!SPIF_REGEXP_ISNULL(r)) {
        spif_regexp_compile(r);                              /* fails again */
        spif_regexp_matches_str(r, (spif_str_t) NULL);       /* refused */
        spif_regexp_matches_ptr(r, (spif_charptr_t) NULL);   /* refused */
        spif_regexp_set_flags(r, (spif_charptr_t) "iZq");    /* unknown flag letters, compiles again */
        spif_regexp_set_flags(r, (spif_charptr_t) NULL);
        d = spif_regexp_dup(r);
        if (!SPIF_REGEXP_ISNULL(d)) spif_regexp_del(d);
        spif_regexp_del(r);
    }
    if (!SPIF_REGEXP_ISNULL(q)) spif_regexp_del(q);
    e = spif_regexp_new();                                   /* no pattern at all */
    if (!SPIF_REGEXP_ISNULL(e)) {
        spif_regexp_compile(e);                              /* refused */
        d = spif_regexp_dup(e);
        if (!SPIF_REGEXP_ISNULL(d)) spif_regexp_del(d);
        spif_regexp_del(e);
    }
#if HAVE_REGEX_H
    {   /* the plain-C helpers: a pattern that does not compile */
        regex_t *rx = NULL;
        spiftool_regexp_match_r((spif_charptr_t) "text", (spif_charptr_t) ((n % 2) ? "(" : "[a-"), &rx);
        if (rx) { spiftool_regexp_match_r((spif_charptr_t) "text", (spif_charptr_t) "t", &rx); }
        if (rx) { regfree(rx); FREE(rx); }
        spiftool_regexp_match((spif_charptr_t) "text", (spif_charptr_t) "(");
        spiftool_regexp_match((spif_charptr_t) NULL, (spif_charptr_t) NULL);      /* releases the static storage */
    }
#endif
    spif_str_del(s); spif_str_del(subj);
}
static void scn_strerr(int n)
{
    spif_str_t a = S("hello world"), e = spif_str_new(), r, z = spif_str_new_from_ptr((spif_charptr_t) NULL);
    spif_charptr_t p;
    static const int idx[] = { -1, 11, 12, 100, -100, 0, 5, 10 };
    static const int cnt[] = { -1, 100, 12, -100, 0, 7, 11 };
    int i = idx[n % 8], c = cnt[n % 7];
    r = spif_str_substr(a, i, c);                 if (!SPIF_STR_ISNULL(r)) spif_str_del(r);
    p = spif_str_substr_to_ptr(a, i, c);          if (p) FREE(p);
    r = spif_str_substr(e, i, c);                 if (!SPIF_STR_ISNULL(r)) spif_str_del(r);
    p = spif_str_substr_to_ptr(e, 0, 0);          if (p) FREE(p);
    spif_str_splice(a, i, c, e);
    spif_str_splice(a, i, c, (spif_str_t) NULL);
    spif_str_splice_from_ptr(a, i, c, (spif_charptr_t) "xy");
    spif_str_splice_from_ptr(a, i, c, (spif_charptr_t) NULL);
    spif_str_splice(e, i, c, a);
    spif_str_append(a, (spif_str_t) NULL);
    spif_str_append_from_ptr(a, (spif_charptr_t) NULL);
    spif_str_prepend(a, (spif_str_t) NULL);
    spif_str_prepend_from_ptr(a, (spif_charptr_t) NULL);
    spif_str_find(a, (spif_str_t) NULL);
    spif_str_find_from_ptr(a, (spif_charptr_t) NULL);
    spif_str_append(e, e);
    spif_str_prepend(e, e);
    spif_str_trim(e);
    spif_str_reverse(e);
    spif_str_clear(e, 'x');
    r = spif_str_dup(e);                          if (!SPIF_STR_ISNULL(r)) spif_str_del(r);
    if (!SPIF_STR_ISNULL(z)) { spif_str_append_from_ptr(z, (spif_charptr_t) "x"); spif_str_del(z); }
    {   /* streams that end at once, end without a newline, or hold more than one buffer */
        char path[64];
        static char big[10000];
        int fd, k;
        FILE *fp;
        memset(big, 'b', sizeof(big) - 1);
        for (k = 0; k < 3; k++) {
            fd = lv_memfile(k == 0 ? "" : (k == 1 ? "no newline" : big), path, sizeof(path));
            if (fd < 0) continue;
            fp = fopen(path, "r");
            if (fp) { r = spif_str_new_from_fp(fp); if (!SPIF_STR_ISNULL(r)) spif_str_del(r);
                      r = spif_str_new_from_fp(fp); if (!SPIF_STR_ISNULL(r)) spif_str_del(r); fclose(fp); }
            r = spif_str_new_from_fd(fd);         if (!SPIF_STR_ISNULL(r)) spif_str_del(r);
            r = spif_str_new_from_fd(fd);         if (!SPIF_STR_ISNULL(r)) spif_str_del(r);
            close(fd);
        }
        fd = open("/dev/null", O_WRONLY);         /* read() fails: EBADF */
        if (fd >= 0) { r = spif_str_new_from_fd(fd); if (!SPIF_STR_ISNULL(r)) spif_str_del(r); close(fd); }
    }
    spif_str_del(a); spif_str_del(e);
}
static void scn_mbufferr(int n)
{
    spif_mbuff_t a = spif_mbuff_new_from_ptr((spif_byteptr_t) "hello world", 11), e = spif_mbuff_new(), r;
    spif_byteptr_t p;
    static const int idx[] = { -1, 11, 12, 100, -100, 0, 5, 10 };
    static const int cnt[] = { -1, 100, 12, -100, 0, 7, 11 };
    int i = idx[n % 8], c = cnt[n % 7];
    r = spif_mbuff_subbuff(a, i, c);              if (!SPIF_MBUFF_ISNULL(r)) spif_mbuff_del(r);
    p = spif_mbuff_subbuff_to_ptr(a, i, c);       if (p) FREE(p);
    r = spif_mbuff_subbuff(e, i, c);              if (!SPIF_MBUFF_ISNULL(r)) spif_mbuff_del(r);
    spif_mbuff_splice(a, i, c, a);
    spif_mbuff_splice(a, i, c, (spif_mbuff_t) NULL);
    spif_mbuff_splice_from_ptr(a, i, c, (spif_byteptr_t) "xy", 2);
    spif_mbuff_splice_from_ptr(a, i, c, (spif_byteptr_t) NULL, 0);
    spif_mbuff_splice(e, i, c, a);
    spif_mbuff_append(a, (spif_mbuff_t) NULL);
    spif_mbuff_append_from_ptr(a, (spif_byteptr_t) NULL, 0);
    spif_mbuff_append_from_ptr(a, (spif_byteptr_t) "x", 0);
    spif_mbuff_prepend(a, (spif_mbuff_t) NULL);
    spif_mbuff_prepend_from_ptr(a, (spif_byteptr_t) NULL, 0);
    spif_mbuff_find(a, (spif_mbuff_t) NULL);
    spif_mbuff_find_from_ptr(a, (spif_byteptr_t) NULL, 0);
    spif_mbuff_append(e, e);
    spif_mbuff_prepend(e, e);
    spif_mbuff_trim(e);
    spif_mbuff_reverse(e);
    r = spif_mbuff_dup(e);                        if (!SPIF_MBUFF_ISNULL(r)) spif_mbuff_del(r);
    {
        char path[64];
        int fd, k;
        FILE *fp;
        for (k = 0; k < 2; k++) {
            fd = lv_memfile(k == 0 ? "" : "some bytes", path, sizeof(path));
            if (fd < 0) continue;
            fp = fopen(path, "r");
            if (fp) { r = spif_mbuff_new_from_fp(fp); if (!SPIF_MBUFF_ISNULL(r)) spif_mbuff_del(r); fclose(fp); }
            r = spif_mbuff_new_from_fd(fd);       if (!SPIF_MBUFF_ISNULL(r)) spif_mbuff_del(r);
            close(fd);
        }
        fd = open("/dev/null", O_WRONLY);
        if (fd >= 0) { r = spif_mbuff_new_from_fd(fd); if (!SPIF_MBUFF_ISNULL(r)) spif_mbuff_del(r); close(fd); }
    }
    spif_mbuff_del(a); spif_mbuff_del(e);
}
static void scn_tokerr(int n)
{
    static const char *const src[] = { "", "   ", "'abc", "\"a b", "abc\\", " \t ", "a 'b", "a\\", "''", "\"\"\"", "a'b\"c", "\\", "'", "x  y  ", "\\'" };
    const char *t = src[n % (int) (sizeof(src) / sizeof(src[0]))];
    spif_tok_t k = spif_tok_new_from_ptr((spif_charptr_t) t), d, e = spif_tok_new();
    spif_str_t w;
    if (!SPIF_TOK_ISNULL(e)) {
        spif_tok_eval(e);                                     /* refused: no source */
        d = spif_tok_dup(e);
        if (!SPIF_TOK_ISNULL(d)) spif_tok_del(d);
        spif_tok_del(e);
    }
    if (!SPIF_TOK_ISNULL(k)) {
        d = spif_tok_dup(k);                                  /* not yet evaluated */
        if (!SPIF_TOK_ISNULL(d)) { spif_tok_eval(d); spif_tok_del(d); }
        spif_tok_eval(k);
        spif_tok_eval(k);                                     /* a second evaluation replaces the first */
        w = spif_tok_show(k, (spif_charptr_t) "k", (spif_str_t) NULL, 0);
        if (!SPIF_STR_ISNULL(w)) spif_str_del(w);
        d = spif_tok_dup(k);
        if (!SPIF_TOK_ISNULL(d)) spif_tok_del(d);
        spif_tok_set_src(k, S("new 'source"));
        spif_tok_eval(k);
        spif_tok_del(k);
    }
    {
        char path[64];
        int fd = lv_memfile(t, path, sizeof(path));
        FILE *fp;
        if (fd >= 0) {
            fp = fopen(path, "r");
            if (fp) { k = spif_tok_new_from_fp(fp); if (!SPIF_TOK_ISNULL(k)) { spif_tok_eval(k); spif_tok_del(k); } fclose(fp); }
            k = spif_tok_new_from_fd(fd);
            if (!SPIF_TOK_ISNULL(k)) { spif_tok_eval(k); spif_tok_del(k); }
            close(fd);
        }
    }
}
static void *scn_ctx(spif_charptr_t buff, void *state) { (void) buff; return state; }
static void scn_conferr(int n)
{
    static const char *const body[] = {
        NULL,                                                     /* the file does not exist */
        "",                                                       /* empty: no magic */
        "no magic string here\nfoo bar\n",
        "<lv-99.0>\nfoo\n",                                       /* written for a newer version */
        "<lv-0.1>\nbegin nosuchcontext\n  attr value\nend\n",
        "<lv-0.1>\nend\nend nothing\n",
        "<lv-0.1>\n%include /nonexistent-lv-c15-dir/other.cfg\n%include \n%include\n",
        "<lv-0.1>\nbegin lvctx\n  a $(NOSUCHVAR ${ALSO `unterminated\n  b %get(nosuch) %put(k v) %get(k) %random(a b c)\n  c %dirscan(/proc/self) %dirscan(a b) %dirscan()\nend\n",
        "<lv-0.1>\nbegin lvctx\n  a %nosuchbuiltin(x) %(  %get( %put(only\n  b %dirscan(/nonexistent-lv-c15-dir) %version() %appname()\n",
        "<lv-0.1>\n%\n% \n%include /dev/null\nbegin lvctx\nbegin lvctx\nbegin lvctx\n",
        "<lv-0.1>\nbegin lvctx\n  v \\\n  'q\n  \"dq\n  $\n  ${\n  %put(a)\n  %put()\n  %get(a b c)\nend lvctx\nend\nend\n",
        "<lv-0.1",                                                /* magic line cut short, no newline */
    };
    int v = n % (int) (sizeof(body) / sizeof(body[0]));
    char path[64] = "/nonexistent-lv-c15-dir/none.cfg";
    int fd = -1, k;
    spif_charptr_t r;
    const char *save_name = libast_program_name, *save_ver = libast_program_version;
    libast_program_name = "lv";
    libast_program_version = "1.0";
    spifconf_init_subsystem();
    spifconf_register_context((spif_charptr_t) "lvctx", (ctx_handler_t) scn_ctx);
    if (body[v]) fd = lv_memfile(body[v], path, sizeof(path));
    if (n >= 12 && n % 2 && fd >= 0) {
        /* the same text followed by a line longer than the line buffer, then more text */
        static char big[3 * CONFIG_BUFF];
        lseek(fd, 0, SEEK_END);
        memset(big, 'L', sizeof(big) - 2);
        big[sizeof(big) - 2] = '\n';
        (void) !write(fd, "\n", 1);
        (void) !write(fd, big, sizeof(big) - 1);
        (void) !write(fd, "begin lvctx\n x y\nend\n", 21);
        lseek(fd, 0, SEEK_SET);
    }
    for (k = 0; k < 2; k++) {
        r = spifconf_parse((spif_charptr_t) path, (spif_charptr_t) NULL, (spif_charptr_t) NULL);
        if (r) FREE(r);
        if (fd >= 0) lseek(fd, 0, SEEK_SET);
    }
    r = spifconf_parse((spif_charptr_t) "none.cfg", (spif_charptr_t) "nodir", (spif_charptr_t) "/nonexistent-lv-c15-dir:/also-not-there");
    if (r) FREE(r);
    {   /* the expander on its own (spifconf_parse_line(NULL, ...) takes a fatal ASSERT exit at level >= 1) */
        char line[CONFIG_BUFF];
        snprintf(line, sizeof(line), "lvctx attr %s", (n % 2) ? "$(NOSUCH `x" : "%get(nosuch) %put(k) ${");
        spifconf_shell_expand((spif_charptr_t) line);
    }
    spifconf_free_subsystem();
    if (fd >= 0) close(fd);
    libast_program_name = save_name;
    libast_program_version = save_ver;
}
static void scn_conterr(int which, int n)
{
    /* refused and failing operations on a container holding n items */
    spif_list_t l = (which == 0) ? SPIF_LIST_NEW(array) : ((which == 1) ? SPIF_LIST_NEW(linked_list) : SPIF_LIST_NEW(dlinked_list));
    spif_map_t m = (which == 0) ? SPIF_MAP_NEW(array) : ((which == 1) ? SPIF_MAP_NEW(linked_list) : SPIF_MAP_NEW(dlinked_list));
    spif_vector_t v = (which == 0) ? SPIF_VECTOR_NEW(array) : ((which == 1) ? SPIF_VECTOR_NEW(linked_list) : SPIF_VECTOR_NEW(dlinked_list));
    spif_str_t k, miss = S("not-in-there");
    spif_obj_t o, *arr;
    spif_iterator_t it;
    spif_list_t out;
    char b[32];
    int i;
    static const int far[] = { -1, -5, 1000, 7, -1000 };
    for (i = 0; i < n; i++) {
        sprintf(b, "e-%d", i);
        SPIF_LIST_APPEND(l, S(b));
        SPIF_VECTOR_INSERT(v, S(b));
        k = S(b); SPIF_MAP_SET(m, k, k); spif_str_del(k);
    }
    for (i = 0; i < 5; i++) {
        int x = far[i] + ((far[i] > 0 && far[i] < 100) ? n : 0);
        o = SPIF_LIST_REMOVE_AT(l, x);            if (!SPIF_OBJ_ISNULL(o)) SPIF_OBJ_DEL(o);
        (void) SPIF_LIST_GET(l, x);
    }
    o = SPIF_LIST_REMOVE(l, miss);                if (!SPIF_OBJ_ISNULL(o)) SPIF_OBJ_DEL(o);
    (void) SPIF_LIST_FIND(l, miss);
    (void) SPIF_LIST_INDEX(l, miss);
    (void) SPIF_LIST_CONTAINS(l, miss);
    k = S("far");
    if (!SPIF_LIST_INSERT_AT(l, k, n + 3)) spif_str_del(k);       /* beyond the end; a refused item stays the caller's */
    k = S("neg");
    if (!SPIF_LIST_INSERT_AT(l, k, -(n + 5))) spif_str_del(k);    /* before the start */
    SPIF_LIST_REVERSE(l);
    arr = SPIF_LIST_TO_ARRAY(l);                  if (arr) FREE(arr);
    it = SPIF_LIST_ITERATOR(l);
    if (!SPIF_ITERATOR_ISNULL(it)) { while (SPIF_ITERATOR_HAS_NEXT(it)) (void) SPIF_ITERATOR_NEXT(it); (void) SPIF_ITERATOR_NEXT(it); SPIF_ITERATOR_DEL(it); }
    o = SPIF_VECTOR_REMOVE(v, miss);              if (!SPIF_OBJ_ISNULL(o)) SPIF_OBJ_DEL(o);
    (void) SPIF_VECTOR_FIND(v, miss);
    (void) SPIF_VECTOR_CONTAINS(v, miss);
    arr = SPIF_VECTOR_TO_ARRAY(v);                if (arr) FREE(arr);
    it = SPIF_VECTOR_ITERATOR(v);
    if (!SPIF_ITERATOR_ISNULL(it)) { while (SPIF_ITERATOR_HAS_NEXT(it)) (void) SPIF_ITERATOR_NEXT(it); (void) SPIF_ITERATOR_NEXT(it); SPIF_ITERATOR_DEL(it); }
    o = SPIF_MAP_REMOVE(m, miss);                 if (!SPIF_OBJ_ISNULL(o)) SPIF_OBJ_DEL(o);
    (void) SPIF_MAP_GET(m, miss);
    (void) SPIF_MAP_HAS_KEY(m, miss);
    (void) SPIF_MAP_HAS_VALUE(m, miss);
    for (i = 0; i < n; i += 2) {                  /* set an existing key again: the old value goes */
        sprintf(b, "e-%d", i);
        k = S(b); SPIF_MAP_SET(m, k, miss); spif_str_del(k);
    }
    out = SPIF_MAP_GET_KEYS(m, (spif_list_t) NULL);     if (!SPIF_LIST_ISNULL(out)) SPIF_LIST_DEL(out);
    out = SPIF_MAP_GET_VALUES(m, (spif_list_t) NULL);   if (!SPIF_LIST_ISNULL(out)) SPIF_LIST_DEL(out);
    out = SPIF_MAP_GET_PAIRS(m, (spif_list_t) NULL);    if (!SPIF_LIST_ISNULL(out)) SPIF_LIST_DEL(out);
    it = SPIF_MAP_ITERATOR(m);
    if (!SPIF_ITERATOR_ISNULL(it)) { while (SPIF_ITERATOR_HAS_NEXT(it)) (void) SPIF_ITERATOR_NEXT(it); (void) SPIF_ITERATOR_NEXT(it); SPIF_ITERATOR_DEL(it); }
    SPIF_LIST_DEL(l); SPIF_VECTOR_DEL(v); SPIF_MAP_DEL(m);
    spif_str_del(miss);
}
static void scn_toolerr(int n)
{
    static const char *const txt[] = { "", "   ", "'unterminated quote", "a\\", "\"", ":::", "one", " 'a b' \"c", "\\ ", "a  b" };
    const char *t = txt[n % 10];
    spif_charptr_t *w, j;
    spif_charptr_t none[1] = { NULL };
    w = spiftool_split((spif_charptr_t) NULL, (spif_charptr_t) NULL);       /* refused */
    if (w) spiftool_free_array(w, 0);
    w = spiftool_split((spif_charptr_t) ((n % 2) ? ":" : NULL), (spif_charptr_t) t);
    if (w) { j = spiftool_join((spif_charptr_t) NULL, w); if (j) FREE(j); spiftool_free_array(w, 0); }
    j = spiftool_join((spif_charptr_t) ",", none);                          /* refused: empty list */
    if (j) FREE(j);
    j = spiftool_substr((spif_charptr_t) NULL, 0, 1);                       if (j) FREE(j);
    j = spiftool_substr((spif_charptr_t) "abc", 3, 1);                      if (j) FREE(j);
    j = spiftool_substr((spif_charptr_t) "abc", 7 + n, -1);                 if (j) FREE(j);
    j = spiftool_substr((spif_charptr_t) "abc", -1 - n, 100);               if (j) FREE(j);
    j = spiftool_get_word(5 + n, (spif_charptr_t) t);                       if (j) FREE(j);
    j = spiftool_get_word(0, (spif_charptr_t) t);                           if (j) FREE(j);
    j = spiftool_get_word(1, (spif_charptr_t) t);                           if (j) FREE(j);
    (void) spiftool_get_pword(5 + n, (spif_charptr_t) t);
    (void) spiftool_num_words((spif_charptr_t) t);
}
static void scn_moderr(int n)
{
    spif_module_t m = spif_module_new(), d;
    spif_str_t w;
    if (SPIF_MODULE_ISNULL(m)) return;
    spif_module_load(m);                                      /* refused: no path */
    spif_module_unload(m);                                    /* refused: nothing loaded */
    spif_module_set_path(m, S((n % 2) ? "/nonexistent-lv-c15-dir/libnone.so" : "no-slash-no-such-module.so"));
    spif_module_load(m);                                      /* dlopen fails */
    spif_module_load(m);
    spif_module_getsym(m, (spif_charptr_t) "no_such_symbol_lv_c15");
    /* not spif_module_call()/run(): they call through the NULL symbol (uninitialised `err`) */
    w = spif_module_show(m, (spif_charptr_t) "m", (spif_str_t) NULL, 0);
    if (!SPIF_STR_ISNULL(w)) spif_str_del(w);
    d = spif_module_dup(m);
    if (!SPIF_MODULE_ISNULL(d)) spif_module_del(d);
    spif_module_del(m);
}
static void scn_pairerr(int n)
{
    spif_str_t k = S("k"), v = S("v");
    spif_objpair_t p, q;
    switch (n % 4) {
        case 0: p = spif_objpair_new(); break;
        case 1: p = spif_objpair_new_from_key(SPIF_OBJ(k)); break;
        case 2: p = spif_objpair_new_from_value(SPIF_OBJ(v)); break;
        default: p = spif_objpair_new_from_both(SPIF_OBJ(k), SPIF_OBJ(v)); break;
    }
    if (!SPIF_OBJPAIR_ISNULL(p)) {
        spif_str_t w = spif_objpair_show(p, (spif_charptr_t) "p", (spif_str_t) NULL, 0);
        if (!SPIF_STR_ISNULL(w)) spif_str_del(w);
        q = spif_objpair_dup(p);
        if (!SPIF_OBJPAIR_ISNULL(q)) { spif_objpair_comp(p, SPIF_OBJ(q)); spif_objpair_del(q); }
        spif_objpair_comp(p, SPIF_OBJ(k));
        spif_objpair_del(p);
    }
    spif_str_del(k); spif_str_del(v);
}
static int lv_err_scenario(const char *name, int n)
{
    if (!strcmp(name, "e-accept")) scn_sockaccept(n);
    else if (!strcmp(name, "e-sockopen")) scn_sockopen(n);
    else if (!strcmp(name, "e-sockio")) scn_sockio(n);
    else if (!strcmp(name, "e-url")) scn_urlerr(n);
    else if (!strcmp(name, "e-regexp")) scn_reerr(n);
    else if (!strcmp(name, "e-str")) scn_strerr(n);
    else if (!strcmp(name, "e-mbuff")) scn_mbufferr(n);
    else if (!strcmp(name, "e-tok")) scn_tokerr(n);
    else if (!strcmp(name, "e-conf")) scn_conferr(n);
    else if (!strcmp(name, "e-array")) scn_conterr(0, n);
    else if (!strcmp(name, "e-llist")) scn_conterr(1, n);
    else if (!strcmp(name, "e-dlist")) scn_conterr(2, n);
    else if (!strcmp(name, "e-tool")) scn_toolerr(n);
    else if (!strcmp(name, "e-module")) scn_moderr(n);
    else if (!strcmp(name, "e-pair")) scn_pairerr(n);
    else return 0;
    return 1;
}

static int lv_scenario(const char *name, int n)
{
    int i;
    if (name[0] == 'e' && name[1] == '-') return lv_err_scenario(name, n);
    if (!strcmp(name, "adup")) { scn_listdup(SPIF_LIST_NEW(array), n); return 1; }
    if (!strcmp(name, "ldup")) { scn_listdup(SPIF_LIST_NEW(linked_list), n); return 1; }
    if (!strcmp(name, "ddup")) { scn_listdup(SPIF_LIST_NEW(dlinked_list), n); return 1; }
    if (!strcmp(name, "avdup")) { scn_vecdup(SPIF_VECTOR_NEW(array), n); return 1; }
    if (!strcmp(name, "amdup")) { scn_mapdup(SPIF_MAP_NEW(array), n); return 1; }
    if (!strcmp(name, "str")) {
        spif_str_t a = S("hello"), b, c;
        for (i = 0; i < n; i++) spif_str_append_from_ptr(a, (spif_charptr_t) " more text to make it grow");
        b = spif_str_dup(a);
        c = spif_str_substr(a, 2, 3);
        spif_str_append(b, c);
        spif_str_upcase(b);
        spif_str_del(a); spif_str_del(b); spif_str_del(c);
    } else if (!strcmp(name, "array")) {
        scn_list(SPIF_LIST_NEW(array), n);
    } else if (!strcmp(name, "llist")) {
        scn_list(SPIF_LIST_NEW(linked_list), n);
    } else if (!strcmp(name, "dlist")) {
        scn_list(SPIF_LIST_NEW(dlinked_list), n);
    } else if (!strcmp(name, "amap")) {
        scn_map(SPIF_MAP_NEW(array), n);
    } else if (!strcmp(name, "lmap")) {
        scn_map(SPIF_MAP_NEW(linked_list), n);
    } else if (!strcmp(name, "dmap")) {
        scn_map(SPIF_MAP_NEW(dlinked_list), n);
    } else if (!strcmp(name, "avec")) {
        scn_vector(SPIF_VECTOR_NEW(array), n);
    } else if (!strcmp(name, "lvec")) {
        scn_vector(SPIF_VECTOR_NEW(linked_list), n);
    } else if (!strcmp(name, "dvec")) {
        scn_vector(SPIF_VECTOR_NEW(dlinked_list), n);
    } else if (!strcmp(name, "mbuff")) {
        spif_mbuff_t a = spif_mbuff_new_from_ptr((spif_byteptr_t) "abcdef", 6), b;
        for (i = 0; i < n; i++) spif_mbuff_append_from_ptr(a, (spif_byteptr_t) "0123456789", 10);
        b = spif_mbuff_dup(a);
        spif_mbuff_append(a, b);
        spif_mbuff_del(a); spif_mbuff_del(b);
    } else if (!strcmp(name, "tok")) {
        spif_tok_t t = spif_tok_new_from_ptr((spif_charptr_t) "one two 'three four' five:six");
        spif_tok_eval(t);
        spif_tok_del(t);
    } else if (!strcmp(name, "url")) {
        spif_url_t u = spif_url_new_from_ptr((spif_charptr_t) "http://user:pw@host.example:8080/path/x?q=1");
        spif_str_t s = spif_url_show(u, (spif_charptr_t) "u", (spif_str_t) NULL, 0);
        spif_str_del(s);
        spif_url_del(u);
    } else if (!strcmp(name, "objpair")) {
        spif_str_t k = S("k"), v = S("v");
        spif_objpair_t p = spif_objpair_new_from_both(SPIF_OBJ(k), SPIF_OBJ(v));
        spif_objpair_t q = spif_objpair_dup(p);
        spif_objpair_del(p); spif_objpair_del(q);
        spif_str_del(k); spif_str_del(v);
    } else if (!strcmp(name, "split")) {
        spif_charptr_t *w = spiftool_split((spif_charptr_t) " ", (spif_charptr_t) "a bc def 'g h' i");
        spif_charptr_t j;
        if (w) {
            j = spiftool_join((spif_charptr_t) "+", w);
            FREE(j);
            spiftool_free_array(w, 0);
        }
        j = spiftool_substr((spif_charptr_t) "substring", 2, n % 5);
        if (j) FREE(j);
    } else if (!strcmp(name, "regexp")) {
        spif_regexp_t r = spif_regexp_new_from_ptr((spif_charptr_t) "^a.*z$");
        spif_str_t s = S("abcz");
        spif_regexp_matches_str(r, s);
        spif_str_del(s);
        spif_regexp_del(r);
    } else if (!strcmp(name, "conf")) {
        for (i = 0; i <= n % 3; i++) {
            spifconf_init_subsystem();
            spifconf_free_subsystem();
        }
    } else if (!strcmp(name, "socket")) {
        spif_url_t a = spif_url_new_from_ptr((spif_charptr_t) "tcp://127.0.0.1:1"), b = (spif_url_t) NULL;
        spif_socket_t k = spif_socket_new_from_urls(a, b);
        spif_socket_t d = spif_socket_dup(k);
        spif_socket_del(k);
        spif_socket_del(d);
        spif_url_del(a);
    } else {
        return 0;
    }
    return 1;
}

/* ---------------------------------------------------------------- one case */
static void run_case(int ntok, char **tok)
{
    int i, nf, build;
    char *f[8];

    lv_quiet();
    lv_reset();
    signal(SIGPIPE, SIG_IGN);        /* a send to a closed peer is an error return, not a signal */
    if (ntok < 2) { printf("HARNESS-ERROR:bad-case"); return; }
    build = atoi(tok[1]);
    if ((build >= DEBUG_MEM) != (DEBUG >= DEBUG_MEM)) { printf("SKIP"); return; }

    if (!strcmp(tok[0], "scn") && ntok == 4) {
        size_t k;
        libast_debug_level = DEBUG_MEM;
        if (!lv_scenario(tok[2], atoi(tok[3]))) { printf("HARNESS-ERROR:unknown-scenario"); return; }
        libast_debug_level = 0;
        if (malloc_rec.cnt == 0) printf("scn empty");
        else {
            printf("scn leftover=%lu", (unsigned long) malloc_rec.cnt);
            for (k = 0; k < malloc_rec.cnt && k < 8; k++)
                printf(" %s:%lu(%lu)", malloc_rec.ptrs[k].file, (unsigned long) malloc_rec.ptrs[k].line, (unsigned long) malloc_rec.ptrs[k].size);
        }
        malloc_rec.cnt = 0;    /* the leftover blocks are simply abandoned */
        lv_reset();
        return;
    }
    if (strcmp(tok[0], "h") || ntok < 3) { printf("HARNESS-ERROR:bad-case"); return; }

    libast_debug_level = 0;
    if (atoi(tok[2])) {
        spifmem_init();              /* real allocator: three one-record blocks */
        free(pixmap_rec.ptrs); pixmap_rec.ptrs = NULL;
        free(gc_rec.ptrs); gc_rec.ptrs = NULL;
    }
    lv_scripted = 1;
    for (i = 3; i < ntok; i++) {
        char op = tok[i][0];
        void *r = NULL;
        int isptr = 1;
        nf = lv_fields(tok[i], f, 8);
        if (op == 'L' && nf == 2) {
            libast_debug_level = (unsigned int) atol(f[1]);
            isptr = 0;
        } else if (op == 'm' && nf == 5) {
            char *fn = lv_optstr(f[1]);
            lv_ans = atol(f[4]);
            r = spifmem_malloc(fn, strtoul(f[2], NULL, 10), strtoul(f[3], NULL, 10));
            free(fn);
        } else if (op == 'c' && nf == 6) {
            char *fn = lv_optstr(f[1]);
            lv_ans = atol(f[5]);
            r = spifmem_calloc(fn, strtoul(f[2], NULL, 10), strtoul(f[3], NULL, 10), strtoul(f[4], NULL, 10));
            free(fn);
        } else if (op == 'r' && nf == 6) {
            char *fn = lv_optstr(f[1]);
            lv_ans = atol(f[5]);
            r = spifmem_realloc("v", fn, strtoul(f[2], NULL, 10), lv_ptr(f[3]), strtoul(f[4], NULL, 10));
            free(fn);
        } else if (op == 's' && nf == 5) {
            char *fn = lv_optstr(f[1]), *str = lv_optstr(f[3]);
            lv_ans = atol(f[4]);
            r = spifmem_strdup("v", fn, strtoul(f[2], NULL, 10), str);
            free(fn); free(str);
        } else if (op == 'f' && nf == 2) {
            spifmem_free("v", "c15.c", 1, lv_ptr(f[1]));
            isptr = 0;
        } else if (op == 'M' && nf == 5) {
            char *fn = lv_unhex_str(f[1]);
            if (strcmp(fn, LV_SITE_FILE) || atol(f[2]) != 101) { printf("HARNESS-ERROR:site"); return; }
            lv_ans = atol(f[4]);
            r = site_malloc(strtoul(f[3], NULL, 10));
            free(fn);
        } else if (op == 'C' && nf == 6) {
            if (atol(f[2]) != 102 || atol(f[4]) != (long) sizeof(lv_elem_t)) { printf("HARNESS-ERROR:site"); return; }
            lv_ans = atol(f[5]);
            r = site_calloc(strtoul(f[3], NULL, 10));
        } else if (op == 'R' && nf == 6) {
            if (atol(f[2]) != 103) { printf("HARNESS-ERROR:site"); return; }
            lv_ans = atol(f[5]);
            r = site_realloc(lv_ptr(f[3]), strtoul(f[4], NULL, 10));
        } else if (op == 'S' && nf == 5) {
            char *str = lv_optstr(f[3]);
            if (atol(f[2]) != 105) { printf("HARNESS-ERROR:site"); return; }
            lv_ans = atol(f[4]);
            r = site_strdup(str);
            free(str);
        } else if (op == 'F' && nf == 2) {
            r = site_free(lv_ptr(f[1]));
        } else if (op == 'x' && nf == 3) {
            lv_ans = atol(f[2]);
            r = lv_malloc(strtoul(f[1], NULL, 10));
        } else if (op == 'D' && nf == 1) {
            lv_dump();
            isptr = 2;
        } else {
            printf("HARNESS-ERROR:bad-op:%s", tok[i]);
            return;
        }
        if (lv_insane) { printf("HARNESS-ERROR:insane-script"); return; }
        if (lv_badfree) { printf("FAULT:Bad_free"); return; }
        if (isptr == 1) { putchar('='); lv_putptr(r); } else if (isptr == 0) putchar('.');
        printf("#%lu ", (unsigned long) malloc_rec.cnt);
    }
    lv_scripted = 0;
    libast_debug_level = 0;
    printf("| T");
    {
        size_t k;
        for (k = 0; k < malloc_rec.cnt; k++) {
            spifmem_ptr_t *p = malloc_rec.ptrs + k;
            putchar(' ');
            lv_putptr(p->ptr);
            printf(":%lu:", (unsigned long) p->size);
            lv_puthex(p->file, strnlen((char *) p->file, sizeof(p->file)));
            printf(":%lu", (unsigned long) p->line);
        }
    }
    printf(" | H");
    {
        long a;
        for (a = 1; a <= lv_hi; a++) if (lv_islive[a]) printf(" %ld:%lu", a, (unsigned long) lv_sz[a]);
    }
    lv_reset();
}
