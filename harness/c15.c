/* C15 harness: the debug memory tracker of src/mem.c on scripted allocation histories.
 *
 * src/mem.c is #included here (the check builds the rest of the library without it) so that
 *  - the static table malloc_rec can be read directly, and
 *  - the libc allocator calls inside it (malloc/calloc/realloc/free) can be renamed to a
 *    scripted allocator: every block lives in a fixed slot of an arena, the slot of each
 *    answer is dictated by the case line (so freed addresses can be handed out again, a
 *    realloc can stay or move, and model and implementation see the same answers).
 *    Calls that concern the table's own storage (never an arena address) go to the real
 *    allocator, as does everything while a library scenario runs.
 * The same renaming is active where the harness uses the MALLOC/CALLOC/REALLOC/FREE/STRDUP
 * macros, so their non-tracking forms (DEBUG < DEBUG_MEM builds) hit the scripted allocator
 * too and the live sets of the two expansions can be compared.
 *
 * Case lines:
 *   h <build> <init> <ops...>      build must equal this binary's DEBUG or the case is
 *                                  skipped (the dispatcher merges the two binaries' output)
 *   scn <build> <name> <n>         library scenario at run-time level DEBUG_MEM on the real
 *                                  allocator; prints the record count left afterwards
 * ops (one token each, fields separated by commas; file/str in hex, "N" = NULL pointer):
 *   L,lvl | m,file,line,size,ans | c,file,line,count,size,ans | r,file,line,ptr,size,ans |
 *   s,file,line,str,ans | f,ptr | M,file,line,size,ans | C,file,line,n,esize,ans |
 *   R,file,line,ptr,size,ans | S,file,line,str,ans | F,ptr | x,size,ans | D
 * Output: per op "=<slot>" (returned pointer by slot name, 0 = NULL), "." (void) or
 * "dump=<count>/<total>", each followed by "#<cnt>"; then " | T" and the table in array
 * order (ptr:size:file:line), then " | H" and the allocator's live set (slot:size). */
#include "common.h"
#include <sanitizer/asan_interface.h>

/* ---------------------------------------------------------------- scripted allocator */
#define LV_NSLOT 40
#define LV_SLOTSZ 128
static unsigned char lv_arena[LV_NSLOT + 1][LV_SLOTSZ] __attribute__((aligned(64)));
static int lv_islive[LV_NSLOT + 1];
static size_t lv_sz[LV_NSLOT + 1];
static int lv_scripted = 0;      /* 0: pass everything to the real allocator */
static long lv_ans = -1;         /* slot the next scripted allocator call answers with */
static int lv_badfree = 0, lv_insane = 0;

static long lv_slot_of(const void *p)
{
    const unsigned char *c = (const unsigned char *) p;
    if (c < &lv_arena[0][0] || c >= &lv_arena[LV_NSLOT][LV_SLOTSZ - 1] + 1) return -1;
    if ((c - &lv_arena[0][0]) % LV_SLOTSZ) return -1;
    return (long) ((c - &lv_arena[0][0]) / LV_SLOTSZ);
}
static void *lv_take(size_t size, int zero)
{
    long a = lv_ans;
    lv_ans = -1;
    /* an insane script (e.g. an answer that is still live): flag it and hand out the spare
     * slot 0 so that the library does not take its fatal out-of-memory exit */
    if (a < 0 || a > LV_NSLOT || size > LV_SLOTSZ) { lv_insane = 1; return lv_arena[0]; }
    if (a == 0) return NULL;
    if (lv_islive[a]) { lv_insane = 1; return lv_arena[0]; }
    lv_islive[a] = 1;
    lv_sz[a] = size;
    ASAN_POISON_MEMORY_REGION(lv_arena[a], LV_SLOTSZ);
    ASAN_UNPOISON_MEMORY_REGION(lv_arena[a], size);
    memset(lv_arena[a], zero ? 0 : 0xA5, size);
    return lv_arena[a];
}
static void lv_drop(long a)
{
    lv_islive[a] = 0;
    ASAN_POISON_MEMORY_REGION(lv_arena[a], LV_SLOTSZ);
}
static void *lv_malloc(size_t size)
{
    if (!lv_scripted) return malloc(size);
    return lv_take(size, 0);
}
static void *lv_calloc(size_t n, size_t size)
{
    if (!lv_scripted) return calloc(n, size);
    return lv_take(n * size, 1);
}
static void lv_free(void *p)
{
    long a = lv_slot_of(p);
    if (a < 0) { free(p); return; }
    if (!lv_islive[a]) { lv_badfree = 1; return; }
    lv_drop(a);
}
static void *lv_realloc(void *p, size_t size)
{
    long a = lv_slot_of(p), b;
    unsigned char keep[LV_SLOTSZ];
    size_t n;
    if (a < 0) return realloc(p, size);             /* the table's own storage */
    if (!lv_islive[a]) { lv_badfree = 1; lv_ans = -1; return p; }
    b = lv_ans;
    lv_ans = -1;
    if (b < 0 || b > LV_NSLOT || size > LV_SLOTSZ || (b != a && b != 0 && lv_islive[b])) { lv_insane = 1; return p; }
    if (b == 0) return NULL;
    n = (lv_sz[a] < size) ? lv_sz[a] : size;
    memcpy(keep, lv_arena[a], n);
    lv_drop(a);
    lv_islive[b] = 1;
    lv_sz[b] = size;
    ASAN_POISON_MEMORY_REGION(lv_arena[b], LV_SLOTSZ);
    ASAN_UNPOISON_MEMORY_REGION(lv_arena[b], size);
    memset(lv_arena[b], 0xA5, size);
    memcpy(lv_arena[b], keep, n);
    return lv_arena[b];
}
static char *lv_strdup(const char *s)
{
    size_t n;
    char *d;
    if (!lv_scripted) return strdup(s);
    n = strlen(s) + 1;            /* a NULL argument crashes here, like strdup */
    d = (char *) lv_take(n, 0);
    if (d) memcpy(d, s, n);
    return d;
}

#define malloc lv_malloc
#define calloc lv_calloc
#define realloc lv_realloc
#define free lv_free
#define strdup lv_strdup
#include "mem.c"

/* ---------------------------------------------------------------- the macros' call sites */
typedef struct { char c[3]; } lv_elem_t;
#define LV_SITE_FILE "c15_macro_call_site_file.c"
#line 101 "c15_macro_call_site_file.c"
static void *site_malloc(size_t sz) { return MALLOC(sz); }
static void *site_calloc(size_t n) { return CALLOC(lv_elem_t, n); }
static void *site_realloc(void *p, size_t sz) { return REALLOC(p, sz); }
static void *site_free(void *p) { FREE(p); return p; }
static char *site_strdup(const char *s) { return STRDUP(s); }
#line 115 "c15.c"
#undef malloc
#undef calloc
#undef realloc
#undef free
#undef strdup

/* ---------------------------------------------------------------- helpers */
static FILE *lv_null = NULL;
static void lv_quiet(void)
{
    /* D_MEM chatter goes to LIBAST_DEBUG_FD == stderr (the FILE, not descriptor 2, so the
     * sanitizers still report on 2) */
    if (!lv_null) lv_null = fopen("/dev/null", "w");
    stderr = lv_null;
}
static void lv_reset(void)
{
    long a;
    free(malloc_rec.ptrs);
    malloc_rec.ptrs = NULL;
    malloc_rec.cnt = 0;
    for (a = 0; a <= LV_NSLOT; a++) { lv_islive[a] = 0; lv_sz[a] = 0; }
    ASAN_POISON_MEMORY_REGION(lv_arena, sizeof(lv_arena));
    ASAN_UNPOISON_MEMORY_REGION(lv_arena[0], LV_SLOTSZ);
    lv_ans = -1;
    lv_badfree = lv_insane = 0;
    lv_scripted = 0;
}
static int lv_fields(char *tok, char **f, int max)
{
    int n = 0;
    char *p = tok;
    f[n++] = p;
    while (*p && n < max) {
        if (*p == ',') { *p = 0; f[n++] = p + 1; }
        p++;
    }
    return n;
}
static char *lv_optstr(const char *h) { return (h[0] == 'N') ? NULL : lv_unhex_str(h); }
static void *lv_ptr(const char *s) { long a = atol(s); return (a <= 0 || a > LV_NSLOT) ? NULL : (void *) lv_arena[a]; }
static void lv_putptr(const void *p)
{
    long a = lv_slot_of(p);
    if (!p) printf("0");
    else if (a >= 0) printf("%ld", a);
    else printf("?%p", p);
}
static void lv_dump(void)
{
    char *buf = NULL, *q;
    size_t len = 0;
    FILE *ms = open_memstream(&buf, &len), *save = stderr;
    unsigned long cnt = 0, total = 0;
    int ok = 0;
    stderr = ms;
    spifmem_dump_mem_tables();
    fflush(ms);
    stderr = save;
    fclose(ms);
    if ((q = strstr(buf, "PTR:  ")) && sscanf(q, "PTR:  %lu pointers stored.", &cnt) == 1) ok++;
    if ((q = strstr(buf, "PTR:  Total allocated memory:")) && sscanf(q, "PTR:  Total allocated memory: %lu bytes", &total) == 1) ok++;
    if (ok == 2) printf("dump=%lu/%lu", cnt, total); else printf("dump=?");
    free(buf);
}

/* ---------------------------------------------------------------- library scenarios */
static spif_str_t S(const char *s) { return spif_str_new_from_ptr((spif_charptr_t) s); }
static void scn_list(spif_list_t l, int n)
{
    int i;
    char b[32];
    spif_str_t k;
    spif_obj_t o;
    for (i = 0; i < n; i++) {
        sprintf(b, "item-%d", i);
        if (i % 3 == 2) SPIF_LIST_PREPEND(l, S(b)); else SPIF_LIST_APPEND(l, S(b));
    }
    for (i = 0; i < n; i += 2) {
        sprintf(b, "item-%d", i);
        k = S(b);
        o = SPIF_LIST_REMOVE(l, k);
        if (!SPIF_OBJ_ISNULL(o)) SPIF_OBJ_DEL(o);
        spif_str_del(k);
    }
    if (n > 4) {
        o = SPIF_LIST_REMOVE_AT(l, 1);
        if (!SPIF_OBJ_ISNULL(o)) SPIF_OBJ_DEL(o);
    }
    SPIF_LIST_DEL(l);
}
static void scn_map(spif_map_t m, int n)
{
    int i;
    char b[32], v[32];
    spif_str_t k, w;
    spif_obj_t o;
    for (i = 0; i < n; i++) {
        sprintf(b, "key-%d", (i * 7) % (n + 1));
        sprintf(v, "value-%d", i);
        k = S(b); w = S(v);
        SPIF_MAP_SET(m, k, w);
        spif_str_del(k); spif_str_del(w);
    }
    for (i = 0; i < n; i += 3) {
        sprintf(b, "key-%d", i);
        k = S(b);
        o = SPIF_MAP_REMOVE(m, k);
        if (!SPIF_OBJ_ISNULL(o)) SPIF_OBJ_DEL(o);
        spif_str_del(k);
    }
    SPIF_MAP_DEL(m);
}
static void scn_vector(spif_vector_t v, int n)
{
    int i;
    char b[32];
    spif_str_t k;
    spif_obj_t o;
    for (i = 0; i < n; i++) {
        sprintf(b, "v-%d", (i * 7) % 41);          /* distinct for n <= 40: a vector is a sorted set */
        SPIF_VECTOR_INSERT(v, S(b));
    }
    for (i = 0; i < n; i += 2) {
        sprintf(b, "v-%d", i);
        k = S(b);
        o = SPIF_VECTOR_REMOVE(v, k);
        if (!SPIF_OBJ_ISNULL(o)) SPIF_OBJ_DEL(o);
        spif_str_del(k);
    }
    SPIF_VECTOR_DEL(v);
}
/* dup of an EMPTY container, dup of a filled one, everything deleted (seeded change C15-2:
 * a zero-length items block owned only by the duplicate of an empty array) */
static void scn_listdup(spif_list_t l, int n)
{
    int i;
    char b[32];
    spif_list_t d0 = SPIF_LIST_DUP(l), d1;
    for (i = 0; i < n; i++) { sprintf(b, "item-%d", i); SPIF_LIST_APPEND(l, S(b)); }
    d1 = SPIF_LIST_DUP(l);
    if (!SPIF_LIST_ISNULL(d0)) SPIF_LIST_DEL(d0);
    if (!SPIF_LIST_ISNULL(d1)) SPIF_LIST_DEL(d1);
    SPIF_LIST_DEL(l);
}
static void scn_vecdup(spif_vector_t v, int n)
{
    int i;
    char b[32];
    spif_vector_t d0 = SPIF_VECTOR_DUP(v), d1;
    for (i = 0; i < n; i++) { sprintf(b, "v-%d", i); SPIF_VECTOR_INSERT(v, S(b)); }
    d1 = SPIF_VECTOR_DUP(v);
    if (!SPIF_VECTOR_ISNULL(d0)) SPIF_VECTOR_DEL(d0);
    if (!SPIF_VECTOR_ISNULL(d1)) SPIF_VECTOR_DEL(d1);
    SPIF_VECTOR_DEL(v);
}
static void scn_mapdup(spif_map_t m, int n)
{
    int i;
    char b[32];
    spif_str_t k;
    spif_map_t d0 = SPIF_MAP_DUP(m), d1;
    for (i = 0; i < n; i++) { sprintf(b, "k-%d", i); k = S(b); SPIF_MAP_SET(m, k, k); spif_str_del(k); }
    d1 = SPIF_MAP_DUP(m);
    if (!SPIF_MAP_ISNULL(d0)) SPIF_MAP_DEL(d0);
    if (!SPIF_MAP_ISNULL(d1)) SPIF_MAP_DEL(d1);
    SPIF_MAP_DEL(m);
}
static int lv_scenario(const char *name, int n)
{
    int i;
    if (!strcmp(name, "adup")) { scn_listdup(SPIF_LIST_NEW(array), n); return 1; }
    if (!strcmp(name, "ldup")) { scn_listdup(SPIF_LIST_NEW(linked_list), n); return 1; }
    if (!strcmp(name, "ddup")) { scn_listdup(SPIF_LIST_NEW(dlinked_list), n); return 1; }
    if (!strcmp(name, "avdup")) { scn_vecdup(SPIF_VECTOR_NEW(array), n); return 1; }
    if (!strcmp(name, "amdup")) { scn_mapdup(SPIF_MAP_NEW(array), n); return 1; }
    if (!strcmp(name, "str")) {
        spif_str_t a = S("hello"), b, c;
        for (i = 0; i < n; i++) spif_str_append_from_ptr(a, (spif_charptr_t) " more text to make it grow");
        b = spif_str_dup(a);
        c = spif_str_substr(a, 2, 3);
        spif_str_append(b, c);
        spif_str_upcase(b);
        spif_str_del(a); spif_str_del(b); spif_str_del(c);
    } else if (!strcmp(name, "array")) {
        scn_list(SPIF_LIST_NEW(array), n);
    } else if (!strcmp(name, "llist")) {
        scn_list(SPIF_LIST_NEW(linked_list), n);
    } else if (!strcmp(name, "dlist")) {
        scn_list(SPIF_LIST_NEW(dlinked_list), n);
    } else if (!strcmp(name, "amap")) {
        scn_map(SPIF_MAP_NEW(array), n);
    } else if (!strcmp(name, "lmap")) {
        scn_map(SPIF_MAP_NEW(linked_list), n);
    } else if (!strcmp(name, "dmap")) {
        scn_map(SPIF_MAP_NEW(dlinked_list), n);
    } else if (!strcmp(name, "avec")) {
        scn_vector(SPIF_VECTOR_NEW(array), n);
    } else if (!strcmp(name, "lvec")) {
        scn_vector(SPIF_VECTOR_NEW(linked_list), n);
    } else if (!strcmp(name, "dvec")) {
        scn_vector(SPIF_VECTOR_NEW(dlinked_list), n);
    } else if (!strcmp(name, "mbuff")) {
        spif_mbuff_t a = spif_mbuff_new_from_ptr((spif_byteptr_t) "abcdef", 6), b;
        for (i = 0; i < n; i++) spif_mbuff_append_from_ptr(a, (spif_byteptr_t) "0123456789", 10);
        b = spif_mbuff_dup(a);
        spif_mbuff_append(a, b);
        spif_mbuff_del(a); spif_mbuff_del(b);
    } else if (!strcmp(name, "tok")) {
        spif_tok_t t = spif_tok_new_from_ptr((spif_charptr_t) "one two 'three four' five:six");
        spif_tok_eval(t);
        spif_tok_del(t);
    } else if (!strcmp(name, "url")) {
        spif_url_t u = spif_url_new_from_ptr((spif_charptr_t) "http://user:pw@host.example:8080/path/x?q=1");
        spif_str_t s = spif_url_show(u, (spif_charptr_t) "u", (spif_str_t) NULL, 0);
        spif_str_del(s);
        spif_url_del(u);
    } else if (!strcmp(name, "objpair")) {
        spif_str_t k = S("k"), v = S("v");
        spif_objpair_t p = spif_objpair_new_from_both(SPIF_OBJ(k), SPIF_OBJ(v));
        spif_objpair_t q = spif_objpair_dup(p);
        spif_objpair_del(p); spif_objpair_del(q);
        spif_str_del(k); spif_str_del(v);
    } else if (!strcmp(name, "split")) {
        spif_charptr_t *w = spiftool_split((spif_charptr_t) " ", (spif_charptr_t) "a bc def 'g h' i");
        spif_charptr_t j;
        if (w) {
            j = spiftool_join((spif_charptr_t) "+", w);
            FREE(j);
            spiftool_free_array(w, 0);
        }
        j = spiftool_substr((spif_charptr_t) "substring", 2, n % 5);
        if (j) FREE(j);
    } else if (!strcmp(name, "regexp")) {
        spif_regexp_t r = spif_regexp_new_from_ptr((spif_charptr_t) "^a.*z$");
        spif_str_t s = S("abcz");
        spif_regexp_matches_str(r, s);
        spif_str_del(s);
        spif_regexp_del(r);
    } else if (!strcmp(name, "conf")) {
        for (i = 0; i <= n % 3; i++) {
            spifconf_init_subsystem();
            spifconf_free_subsystem();
        }
    } else if (!strcmp(name, "socket")) {
        spif_url_t a = spif_url_new_from_ptr((spif_charptr_t) "tcp://127.0.0.1:1"), b = (spif_url_t) NULL;
        spif_socket_t k = spif_socket_new_from_urls(a, b);
        spif_socket_t d = spif_socket_dup(k);
        spif_socket_del(k);
        spif_socket_del(d);
        spif_url_del(a);
    } else {
        return 0;
    }
    return 1;
}

/* ---------------------------------------------------------------- one case */
static void run_case(int ntok, char **tok)
{
    int i, nf, build;
    char *f[8];

    lv_quiet();
    lv_reset();
    if (ntok < 2) { printf("HARNESS-ERROR:bad-case"); return; }
    build = atoi(tok[1]);
    if ((build >= DEBUG_MEM) != (DEBUG >= DEBUG_MEM)) { printf("SKIP"); return; }

    if (!strcmp(tok[0], "scn") && ntok == 4) {
        size_t k;
        libast_debug_level = DEBUG_MEM;
        if (!lv_scenario(tok[2], atoi(tok[3]))) { printf("HARNESS-ERROR:unknown-scenario"); return; }
        libast_debug_level = 0;
        if (malloc_rec.cnt == 0) printf("scn empty");
        else {
            printf("scn leftover=%lu", (unsigned long) malloc_rec.cnt);
            for (k = 0; k < malloc_rec.cnt && k < 8; k++)
                printf(" %s:%lu(%lu)", malloc_rec.ptrs[k].file, (unsigned long) malloc_rec.ptrs[k].line, (unsigned long) malloc_rec.ptrs[k].size);
        }
        malloc_rec.cnt = 0;    /* the leftover blocks are simply abandoned */
        lv_reset();
        return;
    }
    if (strcmp(tok[0], "h") || ntok < 3) { printf("HARNESS-ERROR:bad-case"); return; }

    libast_debug_level = 0;
    if (atoi(tok[2])) {
        spifmem_init();              /* real allocator: three one-record blocks */
        free(pixmap_rec.ptrs); pixmap_rec.ptrs = NULL;
        free(gc_rec.ptrs); gc_rec.ptrs = NULL;
    }
    lv_scripted = 1;
    for (i = 3; i < ntok; i++) {
        char op = tok[i][0];
        void *r = NULL;
        int isptr = 1;
        nf = lv_fields(tok[i], f, 8);
        if (op == 'L' && nf == 2) {
            libast_debug_level = (unsigned int) atol(f[1]);
            isptr = 0;
        } else if (op == 'm' && nf == 5) {
            char *fn = lv_optstr(f[1]);
            lv_ans = atol(f[4]);
            r = spifmem_malloc(fn, strtoul(f[2], NULL, 10), strtoul(f[3], NULL, 10));
            free(fn);
        } else if (op == 'c' && nf == 6) {
            char *fn = lv_optstr(f[1]);
            lv_ans = atol(f[5]);
            r = spifmem_calloc(fn, strtoul(f[2], NULL, 10), strtoul(f[3], NULL, 10), strtoul(f[4], NULL, 10));
            free(fn);
        } else if (op == 'r' && nf == 6) {
            char *fn = lv_optstr(f[1]);
            lv_ans = atol(f[5]);
            r = spifmem_realloc("v", fn, strtoul(f[2], NULL, 10), lv_ptr(f[3]), strtoul(f[4], NULL, 10));
            free(fn);
        } else if (op == 's' && nf == 5) {
            char *fn = lv_optstr(f[1]), *str = lv_optstr(f[3]);
            lv_ans = atol(f[4]);
            r = spifmem_strdup("v", fn, strtoul(f[2], NULL, 10), str);
            free(fn); free(str);
        } else if (op == 'f' && nf == 2) {
            spifmem_free("v", "c15.c", 1, lv_ptr(f[1]));
            isptr = 0;
        } else if (op == 'M' && nf == 5) {
            char *fn = lv_unhex_str(f[1]);
            if (strcmp(fn, LV_SITE_FILE) || atol(f[2]) != 101) { printf("HARNESS-ERROR:site"); return; }
            lv_ans = atol(f[4]);
            r = site_malloc(strtoul(f[3], NULL, 10));
            free(fn);
        } else if (op == 'C' && nf == 6) {
            if (atol(f[2]) != 102 || atol(f[4]) != (long) sizeof(lv_elem_t)) { printf("HARNESS-ERROR:site"); return; }
            lv_ans = atol(f[5]);
            r = site_calloc(strtoul(f[3], NULL, 10));
        } else if (op == 'R' && nf == 6) {
            if (atol(f[2]) != 103) { printf("HARNESS-ERROR:site"); return; }
            lv_ans = atol(f[5]);
            r = site_realloc(lv_ptr(f[3]), strtoul(f[4], NULL, 10));
        } else if (op == 'S' && nf == 5) {
            char *str = lv_optstr(f[3]);
            if (atol(f[2]) != 105) { printf("HARNESS-ERROR:site"); return; }
            lv_ans = atol(f[4]);
            r = site_strdup(str);
            free(str);
        } else if (op == 'F' && nf == 2) {
            r = site_free(lv_ptr(f[1]));
        } else if (op == 'x' && nf == 3) {
            lv_ans = atol(f[2]);
            r = lv_malloc(strtoul(f[1], NULL, 10));
        } else if (op == 'D' && nf == 1) {
            lv_dump();
            isptr = 2;
        } else {
            printf("HARNESS-ERROR:bad-op:%s", tok[i]);
            return;
        }
        if (lv_insane) { printf("HARNESS-ERROR:insane-script"); return; }
        if (lv_badfree) { printf("FAULT:Bad_free"); return; }
        if (isptr == 1) { putchar('='); lv_putptr(r); } else if (isptr == 0) putchar('.');
        printf("#%lu ", (unsigned long) malloc_rec.cnt);
    }
    lv_scripted = 0;
    libast_debug_level = 0;
    printf("| T");
    {
        size_t k;
        for (k = 0; k < malloc_rec.cnt; k++) {
            spifmem_ptr_t *p = malloc_rec.ptrs + k;
            putchar(' ');
            lv_putptr(p->ptr);
            printf(":%lu:", (unsigned long) p->size);
            lv_puthex(p->file, strnlen((char *) p->file, sizeof(p->file)));
            printf(":%lu", (unsigned long) p->line);
        }
    }
    printf(" | H");
    {
        long a;
        for (a = 1; a <= LV_NSLOT; a++) if (lv_islive[a]) printf(" %ld:%lu", a, (unsigned long) lv_sz[a]);
    }
    lv_reset();
}
