/* Container harness (family `cont`, properties C02 list / C03 map / C04 vector interface).
 *
 * One case line = one history run against ONE real class through the interface macros
 * (SPIF_LIST_*, SPIF_VECTOR_*, SPIF_MAP_*, SPIF_ITERATOR_*), under ASan/UBSan.
 *
 * ---------------------------------------------------------------------------------------
 * CASE-LINE GRAMMAR  (exactly three blank-separated tokens; shared with driver/cont_main.ml)
 *
 *   case  ::= iface ' ' class ' ' ops
 *   iface ::= 'list' | 'vector' | 'map'
 *   class ::= 'array' | 'linked_list' | 'dlinked_list'
 *   ops   ::= op ( ';' op )*                      -- no blanks inside
 *   op    ::= name ( ':' arg )*
 *   K,V,T ::= [a-z]+                              -- text of a spif_str element / key / value
 *   KN    ::= K | '_'                             -- '_' = NULL argument (guarded queries only)
 *   I     ::= ['-'] [0-9]+
 *
 *   list   ops: append:K  prepend:K  insert:K  insert_at:I:K  remove:KN  remove_at:I  get:I
 *               index:K  find:KN  contains:KN  count  reverse  to_array  iterate  dup
 *   vector ops: insert:K  remove:K  find:K  contains:K  count  iterate  to_array
 *   map    ops: set:K:V  get:K  remove:K  has_key:K  has_value:V  count  get_keys  get_values
 *               get_pairs  iterate
 *               set_pk:K:V                   -- set(objpair(K, "kk"), V): a key of class objpair WITH a value - the pair is the key, shown as K
 *               set_pv:K:A:B                 -- set(K, objpair(A, B)): a value whose order is coarser than its content, shown as AzB
 *               newpair                      -- spif_objpair_new() + del of an empty pair, prints '-'
 *               mutk:T  mutv:T  delk  delv   -- act on the CALLER's key / value object of the most
 *                                               recent `set` (change its text / delete it); no-ops
 *                                               for the ideal dictionary, which holds copies
 *
 *   COMPOSITES of the operations above (harness/driver level; the model side computes the expected
 *   output from the existing spec operations, the op datatypes of ContSpec.v are unchanged):
 *   quiet prefix   '~' op                    -- the operation is carried out, only `ret` is printed
 *                                               (step ::= ret '|'); used to build long containers cheaply
 *   own-object arguments (the container is handed back an object it stores itself):
 *     list  : remove_own:I  index_own:I  find_own:I  contains_own:I
 *                                            -- e = get(I); if e is an object: remove/index/find/contains(e)
 *     vector: remove_own:K  find_own:K  contains_own:K
 *                                            -- e = find(K); if found: remove/find/contains(e)
 *     map   : set_own:K                      -- v = get(K); if found: set(K, v)   (the map's own value object)
 *             has_value_own:K                -- v = get(K); if found: has_value(v)
 *             set_ownpair:K                  -- p = the map's own pair for K (from its iterator): set(p, NULL)
 *             set_ownkey:K:V  get_ownkey:K  remove_ownkey:K
 *                                            -- p as above: set(p->key, V) / get(p->key) / remove(p->key)
 *             set_pair:K:V                   -- pair form with a pair of the caller's: set(objpair(K,V), NULL)
 *             get_keys_into:C[:N]  get_values_into:C[:N]  get_pairs_into:C[:N]      (C = A | L | D, N = 0..5)
 *                                            -- non-NULL form: the caller passes a list of class array / linked_list /
 *                                               dlinked_list that already holds the object "pre" (no N) or the N objects
 *                                               pa, pb, ..; ret = [TX..] resp. [pa,pb,PR..] read from that list: the ideal
 *                                               result is  old ++ keys  ('?' if another list came back)
 *   second use of a copy (all three interfaces), at most one `fork` per history:
 *     fork                                   -- d = dup(c); from now on operations act on the COPY d, the
 *                                               original is kept, read back after every step and deleted
 *                                               after the copy at the end.  The copy's objects are shown
 *                                               under the ids of the originals they were copied from (the
 *                                               harness registers copy[i] under the id of original[i] when
 *                                               both are objects with equal text and copy[i] is a new object)
 *     swap                                   -- exchange the roles of the two containers (no-op before fork)
 *
 * Element identity.  Every K / KN(!= '_') argument of a list or vector operation creates one fresh
 * spif_str object; objects are numbered 0,1,2,... in creation order over the whole history (probe
 * objects of remove/index/find/contains included; they are deleted right after the call).  The id
 * is what is printed for an element pointer (pointer -> id table); '_' is NULL, '?' a pointer
 * that is not a live element of this history.  Map results are printed by text.
 *
 * ---------------------------------------------------------------------------------------
 * OUTPUT GRAMMAR  (one line per case, after the "#k " marker of common.h)
 *
 *   result ::= step ( ' ; ' step )* ' ; end'
 *   step   ::= ret ' ' readback '|' bdump        -- A part before '|', B part after (may be empty)
 *            | ret '|'                              quiet step ('~' prefix)
 *            | ret ' ' readback ' O ' readback '|' bdump ' O ' bdump     after `fork`: current container, then the other
 *   E      ::= id | '_' | '?'                     (list; and level B of list and vector)
 *   VE     ::= text | '_' | '?'                   (vector, level A) the element's text if the pointer is an
 *                                  object the vector currently stores (inserted, not yet handed back
 *                                  by remove), '?' otherwise.  Vector results are compared by key: WHICH
 *                                  of several equal elements a class returns is its own choice.
 *   TX     ::= text | '_' | '?'   with a trailing '!' if the pointer is one of the caller's own
 *                                  live key/value objects (never for a correct map)
 *   PR     ::= TX '=' TX | '_' | '?'
 *   [X..]  ::= '[' X (',' X)* ']' | '[]'          a trailing '!' inside = walk did not stop after n+2; a trailing '+' =
 *                                                 the exhausted iterator yielded another object / said has_next again
 *
 *   ret:  T | F            append prepend insert insert_at reverse contains set has_key has_value
 *         E                remove remove_at get find        (list; VE for vector)
 *         int              index count
 *         [E..]            to_array iterate                 (list; [VE..] for vector)
 *         int '/' [TX..] '/' [TX..]    dup: count of the copy, iterator sweep of the copy by text,
 *                                      get(0..n-1) of the copy by text
 *         TX               map get          PR  map remove
 *         [TX..]           get_keys get_values      [PR..]  get_pairs, map iterate
 *         '-'              mutk mutv delk delv newpair
 *         X '/' Y          own-object composites: X = the looked-up own object (E / VE / TX, PR for
 *                          set_ownpair, the key text for *_ownkey), Y = result of the second call, or
 *                          '_/-' when the lookup found nothing
 *         T                fork swap   ('?' when dup returned NULL)
 *   readback:
 *     list  : 'n=' int ' g=' [E..] ' i=' [E..]     g = get(i) for i = -n-1 .. n ; i = fresh iterator
 *     vector: 'n=' int ' i=' [VE..] ' a=' [VE..] ' m=' ('ok'|'BAD')     a = to_array; m = ok iff the iterator
 *             sweep and to_array each showed every currently stored object exactly once
 *     map   : 'n=' int ' k=' [TX..] ' v=' [TX..] ' p=' [PR..] ' i=' [PR..]
 *   bdump (level B; printed only when the environment has LV_CONT_B=1, otherwise empty):
 *     array       : 'A len=' int ' items=' ( 'NULL' | [X..] )
 *     linked_list : 'L len=' int ' next=' [X..]                     head->next chain
 *     dlinked_list: 'D len=' int ' next=' [X..] ' prev=' [X..] ' hp=' b ' tn=' b
 *                   prev = chain from tail through ->prev; hp / tn = 1 iff head->prev / tail->next
 *                   is non-NULL ('-' if head / tail is NULL)
 *     X = E for list and vector, PR for map.
 *   ' ; end' is printed after the container and all handed-back objects were deleted without a
 *   sanitizer report (a corrupt structure usually faults there at the latest).
 *
 * DEPTH stratum (implementation-side oracle; the extracted models cannot run containers this large):
 *   ops   ::= 'deep:' N ( ';' scenario )*         -- N = 0 .. 4 000 000
 *   The container is filled with N elements through the interface in the way that costs O(1) per step for the
 *   class where the interface has one - list: array / dlinked_list append, linked_list prepend; vector: linked_list
 *   and array insert in descending key order (array: one memmove per step), dlinked_list ascending; map: set, which
 *   probes the whole map first in all three classes (linear per step: maps stay below ~2*10^4 entries) - with the
 *   fixed-width keys k5(2p+2) for position p (values 'v' k5(2p+2)).  Each scenario checks its results against the
 *   harness's own array of the N objects (count, identity at first / middle / last position, full order in sweeps and
 *   to_array) and leaves the container as it found it:
 *     list  : get iterate to_array dup reverse find_last remove_last remove_at_last insert_last
 *     vector: iterate to_array dup find_last insert_last remove_last
 *     map   : iterate get_keys get_values get_pairs get_keys_into get_values_into get_pairs_into (receiving list of
 *             class dlinked_list) dup get_last set_last remove_last
 *   result ::= ( name '=' ( 'ok' | 'BAD(' what ')' ) '|' [ 'stk=' int ] ' ; ' )* 'end'     names: build, the scenarios, del
 *   `name=` is flushed before the scenario runs, so a crash reads  name=FAULT:...  ; after a BAD the remaining
 *   scenarios are skipped.  stk (only with LV_CONT_STK=1) = stack high-water mark of the scenario in bytes, measured by
 *   painting 512 KB below the frame: a value that grows with N shows a recursion per element long before it overflows.
 *   The stack limit is the default 8 MB (lowered to it if the environment allows more); watchdog 60 s (N > 500 000: 120 s).
 *
 * FAULTS.  Cases run in a forked child.  When the child dies (sanitizer report, signal, 30 s
 * watchdog per case) the parent completes the line of the case that was running with
 * 'FAULT:<kind>' (kinds named as vlib.classify_crash names them), copies the head of the report to
 * stderr and forks a new child for the remaining cases, so a tree in which thousands of histories
 * crash is still checked in seconds and the run always exits 0 with one line per case.
 */
#define main lv_common_main_unused      /* this harness brings its own crash-resilient main, see the end */
#include "common.h"
#undef main
#include <signal.h>
#include <sys/mman.h>
#include <sys/wait.h>

enum { IF_LIST, IF_VECTOR, IF_MAP };
enum { CL_ARRAY, CL_LL, CL_DLL };

static int iface, cls, show_b;

/* ---- element table --------------------------------------------------------------------- */
#define MAXENT 32768
static struct { spif_obj_t p; int id; int inset; int seen; int own; } tab[MAXENT];
static int ntab, next_id;
static spif_obj_t cont[2];          /* cont[cur] = the container operations act on; cont[1 - cur] = the other one after `fork` */
static int cur, rb_tag;             /* rb_tag = the container whose objects pv() shows */
static spif_obj_t pool[MAXENT];
static int npool;
static spif_obj_t ck, cv;           /* the caller's key / value objects of the last map set */

static spif_obj_t mk_str(const char *t) { return SPIF_OBJ(spif_str_new_from_ptr((spif_charptr_t) t)); }
static spif_obj_t mk_elem(const char *t)
{
    spif_obj_t o;
    if (t[0] == '_') return (spif_obj_t) NULL;
    o = mk_str(t);
    if (ntab < MAXENT) { tab[ntab].p = o; tab[ntab].id = next_id; tab[ntab].inset = tab[ntab].seen = 0; tab[ntab].own = cur; ntab++; }
    next_id++;
    return o;
}
static void unreg(spif_obj_t p)
{
    int i;
    for (i = 0; i < ntab; i++) if (tab[i].p == p) { tab[i] = tab[--ntab]; return; }
}
static void del_probe(spif_obj_t p) { if (p) { unreg(p); SPIF_OBJ_DEL(p); } }
static void to_pool(spif_obj_t p) { if (p && npool < MAXENT) pool[npool++] = p; }

static void pe(spif_obj_t p)
{
    int i;
    if (!p) { putchar('_'); return; }
    for (i = 0; i < ntab; i++) if (tab[i].p == p) { printf("%d", tab[i].id); return; }
    putchar('?');
}
static int slot_of(spif_obj_t p)
{
    int i;
    for (i = 0; i < ntab; i++) if (tab[i].p == p) return i;
    return -1;
}
/* vector mode: an element is shown by its text if it is an object the vector currently
 * stores (inserted and not yet handed back), '?' otherwise */
static void pv(spif_obj_t p)
{
    int i;
    if (!p) { putchar('_'); return; }
    i = slot_of(p);
    if (i < 0 || !tab[i].inset || tab[i].own != rb_tag) { putchar('?'); return; }
    tab[i].seen++;
    fputs((const char *) SPIF_STR_STR(SPIF_STR(p)), stdout);
}
static void seen_reset(void) { int i; for (i = 0; i < ntab; i++) tab[i].seen = 0; }
/* every stored object was shown exactly once since seen_reset() */
static int seen_all_once(void)
{
    int i;
    for (i = 0; i < ntab; i++) if ((tab[i].inset && tab[i].own == rb_tag) ? tab[i].seen != 1 : tab[i].seen != 0) return 0;
    return 1;
}
static void pt(spif_obj_t p)
{
    if (!p) { putchar('_'); return; }
    if (SPIF_OBJ_IS_OBJPAIR(p)) {
        /* a pair as a map VALUE (set_pv): shown as <A>z<B>; pairs order by their first member only, so two such values can
         * compare equal and still be different values */
        spif_objpair_t q = SPIF_OBJPAIR(p);
        if (!q->key || !q->value || SPIF_OBJ_CLASS(q->key) != SPIF_CLASS(SPIF_STRCLASS_VAR(str)) ||
            SPIF_OBJ_CLASS(q->value) != SPIF_CLASS(SPIF_STRCLASS_VAR(str))) { putchar('?'); return; }
        fputs((const char *) SPIF_STR_STR(SPIF_STR(q->key)), stdout);
        /* a pair <K, "kk"> is a map KEY of class objpair (set_pk): to the dictionary it is the key K (pairs compare by K) */
        if (strcmp((const char *) SPIF_STR_STR(SPIF_STR(q->value)), "kk")) {
            putchar('z');
            fputs((const char *) SPIF_STR_STR(SPIF_STR(q->value)), stdout);
        }
        if (p == ck || p == cv) putchar('!');
        return;
    }
    if (SPIF_OBJ_CLASS(p) != SPIF_CLASS(SPIF_STRCLASS_VAR(str))) { putchar('?'); return; }
    fputs((const char *) SPIF_STR_STR(SPIF_STR(p)), stdout);
    if (p == ck || p == cv) putchar('!');
}
static void pp(spif_obj_t p)
{
    if (!p) { putchar('_'); return; }
    if (!SPIF_OBJ_IS_OBJPAIR(p)) { putchar('?'); return; }
    pt(SPIF_OBJPAIR(p)->key); putchar('='); pt(SPIF_OBJPAIR(p)->value);
}
static void px(spif_obj_t p) { if (iface == IF_MAP) pp(p); else pe(p); }   /* level B: ids / pairs */
static void pb(int b) { putchar(b ? 'T' : 'F'); }

typedef void (*printer_t)(spif_obj_t);

static int sane(int n) { return n >= 0 && n <= 4000; }

/* fresh iterator sweep: elements while has_next, at most n + 3 of them */
static void sweep(spif_iterator_t it, int n, printer_t pr)
{
    int k = 0, cut = 0;
    putchar('[');
    if (SPIF_ITERATOR_ISNULL(it)) { printf("?]"); return; }
    while (SPIF_ITERATOR_HAS_NEXT(it)) {
        if (k) putchar(',');
        if (k > n + 2) { putchar('!'); cut = 1; break; }
        pr(SPIF_ITERATOR_NEXT(it));
        k++;
    }
    /* an exhausted iterator stays exhausted: next yields nothing, has_next stays false ('+' otherwise) */
    if (!cut) {
        if (SPIF_ITERATOR_NEXT(it)) putchar('+');
        if (SPIF_ITERATOR_HAS_NEXT(it)) putchar('+');
    }
    putchar(']');
    SPIF_ITERATOR_DEL(it);
}
/* a list object handed back by the map (get_keys ...): count + get(0..n-1), then deleted */
static void print_list_and_del(spif_list_t l, printer_t pr)
{
    int i, n;
    if (SPIF_LIST_ISNULL(l)) { printf("?"); return; }
    n = (int) SPIF_LIST_COUNT(l);
    putchar('[');
    for (i = 0; sane(n) && i < n; i++) { if (i) putchar(','); pr(SPIF_LIST_GET(l, i)); }
    if (!sane(n)) putchar('!');
    putchar(']');
    SPIF_LIST_DEL(l);
}
static void print_array_and_free(spif_obj_t *a, int n, printer_t pr)
{
    int i;
    putchar('[');
    for (i = 0; sane(n) && i < n; i++) { if (i) putchar(','); pr(a[i]); }
    putchar(']');
    if (a) free(a);
}

/* ---- level A read-back ------------------------------------------------------------------- */
static void readback(spif_obj_t c)
{
    int i, n;
    if (iface == IF_LIST) {
        n = (int) SPIF_LIST_COUNT(c);
        printf("n=%d g=[", n);
        for (i = -n - 1; sane(n) && i <= n; i++) { if (i != -n - 1) putchar(','); pe(SPIF_LIST_GET(c, i)); }
        printf("] i=");
        sweep(SPIF_LIST_ITERATOR(c), sane(n) ? n : 0, pe);
    } else if (iface == IF_VECTOR) {
        n = (int) (size_t) SPIF_VECTOR_COUNT(c);
        int ok;
        printf("n=%d i=", n);
        seen_reset();
        sweep(SPIF_VECTOR_ITERATOR(c), sane(n) ? n : 0, pv);
        ok = seen_all_once();
        printf(" a=");
        seen_reset();
        print_array_and_free(SPIF_VECTOR_TO_ARRAY(c), n, pv);
        ok = ok && seen_all_once();
        printf(" m=%s", ok ? "ok" : "BAD");
    } else {
        n = (int) (size_t) SPIF_MAP_COUNT(c);
        printf("n=%d k=", n);
        print_list_and_del(SPIF_MAP_GET_KEYS(c, (spif_list_t) NULL), pt);
        printf(" v=");
        print_list_and_del(SPIF_MAP_GET_VALUES(c, (spif_list_t) NULL), pt);
        printf(" p=");
        print_list_and_del(SPIF_MAP_GET_PAIRS(c, (spif_list_t) NULL), pp);
        printf(" i=");
        sweep(SPIF_MAP_ITERATOR(c), sane(n) ? n : 0, pp);
    }
}

/* ---- level B structure dump through the public struct fields --------------------------------- */
static void bdump(spif_obj_t c)
{
    int k, n;
    if (!show_b) return;
    if (cls == CL_ARRAY) {
        spif_array_t a = SPIF_ARRAY(c);
        n = a->len;
        printf("A len=%d items=", n);
        if (!a->items) { printf("NULL"); return; }
        putchar('[');
        for (k = 0; sane(n) && k < n; k++) { if (k) putchar(','); px(a->items[k]); }
        putchar(']');
    } else if (cls == CL_LL) {
        spif_linked_list_t l = SPIF_LINKED_LIST(c);
        spif_linked_list_item_t cur;
        n = l->len;
        printf("L len=%d next=[", n);
        for (cur = l->head, k = 0; cur; cur = cur->next, k++) {
            if (k) putchar(',');
            if (k > (sane(n) ? n : 0) + 2) { putchar('!'); break; }
            px(cur->data);
        }
        putchar(']');
    } else {
        spif_dlinked_list_t l = SPIF_DLINKED_LIST(c);
        spif_dlinked_list_item_t cur;
        n = l->len;
        printf("D len=%d next=[", n);
        for (cur = l->head, k = 0; cur; cur = cur->next, k++) {
            if (k) putchar(',');
            if (k > (sane(n) ? n : 0) + 2) { putchar('!'); break; }
            px(cur->data);
        }
        printf("] prev=[");
        for (cur = l->tail, k = 0; cur; cur = cur->prev, k++) {
            if (k) putchar(',');
            if (k > (sane(n) ? n : 0) + 2) { putchar('!'); break; }
            px(cur->data);
        }
        printf("] hp=%c tn=%c", l->head ? (l->head->prev ? '1' : '0') : '-', l->tail ? (l->tail->next ? '1' : '0') : '-');
    }
}

/* ---- operations ------------------------------------------------------------------------------ */
static int split_on(char *s, char sep, char **out, int max)
{
    int n = 0;
    out[n++] = s;
    for (; *s; s++) if (*s == sep && n < max) { *s = 0; out[n++] = s + 1; }
    return n;
}
#define IS(s) (!strcmp(a[0], (s)))

static int do_list_op(spif_obj_t c, int na, char **a)
{
    spif_obj_t e, r;
    int n;
    if (IS("append") && na == 2) { pb(SPIF_LIST_APPEND(c, mk_elem(a[1]))); }
    else if (IS("prepend") && na == 2) { pb(SPIF_LIST_PREPEND(c, mk_elem(a[1]))); }
    else if (IS("insert") && na == 2) { pb(SPIF_LIST_INSERT(c, mk_elem(a[1]))); }
    else if (IS("insert_at") && na == 3) {
        spif_bool_t ok;
        e = mk_elem(a[2]);
        ok = SPIF_LIST_INSERT_AT(c, e, (spif_listidx_t) atoi(a[1]));
        pb(ok);
        if (!ok) to_pool(e);                    /* refused: the element stays the caller's */
    }
    else if (IS("remove") && na == 2) { e = mk_elem(a[1]); r = SPIF_LIST_REMOVE(c, e); pe(r); to_pool(r); del_probe(e); }
    else if (IS("remove_at") && na == 2) { r = SPIF_LIST_REMOVE_AT(c, (spif_listidx_t) atoi(a[1])); pe(r); to_pool(r); }
    else if (IS("get") && na == 2) { pe(SPIF_LIST_GET(c, (spif_listidx_t) atoi(a[1]))); }
    else if (IS("index") && na == 2) { e = mk_elem(a[1]); printf("%d", (int) SPIF_LIST_INDEX(c, e)); del_probe(e); }
    else if (IS("find") && na == 2) { e = mk_elem(a[1]); pe(SPIF_LIST_FIND(c, e)); del_probe(e); }
    else if (IS("contains") && na == 2) { e = mk_elem(a[1]); pb(SPIF_LIST_CONTAINS(c, e)); del_probe(e); }
    else if (IS("count") && na == 1) { printf("%d", (int) SPIF_LIST_COUNT(c)); }
    else if (IS("reverse") && na == 1) { pb(SPIF_LIST_REVERSE(c)); }
    else if (IS("to_array") && na == 1) { n = (int) SPIF_LIST_COUNT(c); print_array_and_free(SPIF_LIST_TO_ARRAY(c), n, pe); }
    else if (IS("iterate") && na == 1) { n = (int) SPIF_LIST_COUNT(c); sweep(SPIF_LIST_ITERATOR(c), sane(n) ? n : 0, pe); }
    else if (IS("dup") && na == 1) {
        spif_list_t d = SPIF_LIST_DUP(c);
        int i;
        if (SPIF_LIST_ISNULL(d)) { putchar('?'); return 1; }
        n = (int) SPIF_LIST_COUNT(d);
        printf("%d/", n);
        sweep(SPIF_LIST_ITERATOR(d), sane(n) ? n : 0, pt);
        printf("/[");
        for (i = 0; sane(n) && i < n; i++) { if (i) putchar(','); pt(SPIF_LIST_GET(d, i)); }
        putchar(']');
        SPIF_LIST_DEL(d);
    }
    else if ((IS("remove_own") || IS("index_own") || IS("find_own") || IS("contains_own")) && na == 2) {
        /* the list is handed back an object it stores itself */
        e = SPIF_LIST_GET(c, (spif_listidx_t) atoi(a[1]));
        pe(e);
        putchar('/');
        if (!e) putchar('-');
        else if (IS("remove_own")) { r = SPIF_LIST_REMOVE(c, e); pe(r); to_pool(r); }
        else if (IS("index_own")) printf("%d", (int) SPIF_LIST_INDEX(c, e));
        else if (IS("find_own")) pe(SPIF_LIST_FIND(c, e));
        else pb(SPIF_LIST_CONTAINS(c, e));
    }
    else return 0;
    return 1;
}

static int do_vector_op(spif_obj_t c, int na, char **a)
{
    spif_obj_t e, r;
    int n, i;
    if (IS("insert") && na == 2) {
        spif_bool_t ok;
        e = mk_elem(a[1]);
        ok = SPIF_VECTOR_INSERT(c, e);
        pb(ok);
        if (ok) tab[slot_of(e)].inset = 1; else to_pool(e);
    }
    else if (IS("remove") && na == 2) {
        e = mk_elem(a[1]);
        r = SPIF_VECTOR_REMOVE(c, e);
        pv(r);
        i = r ? slot_of(r) : -1;
        if (i >= 0 && tab[i].inset) { tab[i].inset = 0; to_pool(r); }   /* handed back: now the caller's */
        del_probe(e);
    }
    else if (IS("find") && na == 2) { e = mk_elem(a[1]); pv(SPIF_VECTOR_FIND(c, e)); del_probe(e); }
    else if (IS("contains") && na == 2) { e = mk_elem(a[1]); pb(SPIF_VECTOR_CONTAINS(c, e)); del_probe(e); }
    else if (IS("count") && na == 1) { printf("%d", (int) (size_t) SPIF_VECTOR_COUNT(c)); }
    else if (IS("iterate") && na == 1) { n = (int) (size_t) SPIF_VECTOR_COUNT(c); sweep(SPIF_VECTOR_ITERATOR(c), sane(n) ? n : 0, pv); }
    else if (IS("to_array") && na == 1) { n = (int) (size_t) SPIF_VECTOR_COUNT(c); print_array_and_free(SPIF_VECTOR_TO_ARRAY(c), n, pv); }
    else if ((IS("remove_own") || IS("find_own") || IS("contains_own")) && na == 2) {
        /* the vector is handed back an object it stores itself */
        spif_obj_t f;
        e = mk_elem(a[1]);
        f = SPIF_VECTOR_FIND(c, e);
        pv(f);
        del_probe(e);
        putchar('/');
        i = f ? slot_of(f) : -1;
        if (i < 0 || !tab[i].inset || tab[i].own != cur) putchar('-');
        else if (IS("remove_own")) {
            r = SPIF_VECTOR_REMOVE(c, f);
            pv(r);
            i = r ? slot_of(r) : -1;
            if (i >= 0 && tab[i].inset && tab[i].own == cur) { tab[i].inset = 0; to_pool(r); }
        }
        else if (IS("find_own")) pv(SPIF_VECTOR_FIND(c, f));
        else pb(SPIF_VECTOR_CONTAINS(c, f));
    }
    else return 0;
    return 1;
}

static void drop_caller(void)
{
    if (ck) { SPIF_OBJ_DEL(ck); ck = NULL; }
    if (cv) { SPIF_OBJ_DEL(cv); cv = NULL; }
}
static void retext(spif_obj_t o, const char *t)
{
    spif_str_done(SPIF_STR(o));
    spif_str_init_from_ptr(SPIF_STR(o), (spif_charptr_t) t);
}

/* the map's OWN pair object for key text K, as its iterator hands it out (NULL if there is none) */
static spif_obj_t own_pair(spif_obj_t c, const char *K)
{
    spif_iterator_t it = SPIF_MAP_ITERATOR(c);
    spif_obj_t p, found = (spif_obj_t) NULL;
    int k = 0, n = (int) (size_t) SPIF_MAP_COUNT(c);

    if (SPIF_ITERATOR_ISNULL(it)) return found;
    while (!found && SPIF_ITERATOR_HAS_NEXT(it) && k++ <= (sane(n) ? n : 0) + 2) {
        p = SPIF_ITERATOR_NEXT(it);
        if (p && SPIF_OBJ_IS_OBJPAIR(p) && SPIF_OBJPAIR(p)->key
            && SPIF_OBJ_CLASS(SPIF_OBJPAIR(p)->key) == SPIF_CLASS(SPIF_STRCLASS_VAR(str))
            && !strcmp((const char *) SPIF_STR_STR(SPIF_STR(SPIF_OBJPAIR(p)->key)), K)) found = p;
    }
    SPIF_ITERATOR_DEL(it);
    return found;
}

static int do_map_op(spif_obj_t c, int na, char **a)
{
    spif_obj_t e, r;
    int n;
    if ((IS("set_own") || IS("has_value_own")) && na == 2) {
        /* the value argument is the very object the map stores for K */
        e = mk_str(a[1]);
        r = SPIF_MAP_GET(c, e);
        pt(r);
        putchar('/');
        if (!r) putchar('-');
        else if (IS("set_own")) pb(SPIF_MAP_SET(c, e, r));
        else pb(SPIF_MAP_HAS_VALUE(c, r));
        SPIF_OBJ_DEL(e);
        return 1;
    }
    if (IS("set_pair") && na == 3) {
        /* pair form with a pair of the caller's */
        spif_obj_t k = mk_str(a[1]), v = mk_str(a[2]);
        spif_objpair_t p = spif_objpair_new_from_both(k, v);
        SPIF_OBJ_DEL(k);
        SPIF_OBJ_DEL(v);
        pb(SPIF_MAP_SET(c, SPIF_OBJ(p), (spif_obj_t) NULL));
        spif_objpair_del(p);
        return 1;
    }
    if ((IS("set_ownpair") && na == 2) || (IS("set_ownkey") && na == 3) || (IS("get_ownkey") && na == 2) || (IS("remove_ownkey") && na == 2)) {
        /* the pair / key argument is the map's own object */
        spif_obj_t p = own_pair(c, a[1]);
        if (IS("set_ownpair")) pp(p); else pt(p ? SPIF_OBJPAIR(p)->key : (spif_obj_t) NULL);
        putchar('/');
        if (!p) putchar('-');
        else if (IS("set_ownpair")) pb(SPIF_MAP_SET(c, p, (spif_obj_t) NULL));
        else if (IS("set_ownkey")) { e = mk_str(a[2]); pb(SPIF_MAP_SET(c, SPIF_OBJPAIR(p)->key, e)); SPIF_OBJ_DEL(e); }
        else if (IS("get_ownkey")) pt(SPIF_MAP_GET(c, SPIF_OBJPAIR(p)->key));
        else { r = SPIF_MAP_REMOVE(c, SPIF_OBJPAIR(p)->key); pp(r); to_pool(r); }
        return 1;
    }
    if (IS("set") && na == 3) {
        drop_caller();
        ck = mk_str(a[1]); cv = mk_str(a[2]);
        pb(SPIF_MAP_SET(c, ck, cv));
    }
    else if (IS("set_pv") && na == 4) {
        /* the value is a pair <A, B> of the caller's: the map stores a value that compares by A alone */
        spif_obj_t ka, vb;
        drop_caller();
        ck = mk_str(a[1]);
        ka = mk_str(a[2]); vb = mk_str(a[3]);
        cv = SPIF_OBJ(spif_objpair_new_from_both(ka, vb));
        SPIF_OBJ_DEL(ka); SPIF_OBJ_DEL(vb);
        pb(SPIF_MAP_SET(c, ck, cv));
    }
    else if (IS("set_pk") && na == 3) {
        /* the KEY is a pair <K, "kk"> and a value is given as well: not the pair form - the pair is the key (it compares as K) */
        spif_obj_t ka, kb;
        drop_caller();
        ka = mk_str(a[1]); kb = mk_str("kk");
        ck = SPIF_OBJ(spif_objpair_new_from_both(ka, kb));
        SPIF_OBJ_DEL(ka); SPIF_OBJ_DEL(kb);
        cv = mk_str(a[2]);
        pb(SPIF_MAP_SET(c, ck, cv));
    }
    else if (IS("mutk") && na == 2) { if (ck) retext(SPIF_OBJ_IS_OBJPAIR(ck) ? SPIF_OBJPAIR(ck)->key : ck, a[1]); putchar('-'); }
    else if (IS("mutv") && na == 2) { if (cv) retext(SPIF_OBJ_IS_OBJPAIR(cv) ? SPIF_OBJPAIR(cv)->value : cv, a[1]); putchar('-'); }
    else if (IS("delk") && na == 1) { if (ck) { SPIF_OBJ_DEL(ck); ck = NULL; } putchar('-'); }
    else if (IS("delv") && na == 1) { if (cv) { SPIF_OBJ_DEL(cv); cv = NULL; } putchar('-'); }
    else if (IS("newpair") && na == 1) {
        /* an empty pair (spif_objpair_new) has neither key nor value and can be deleted again */
        spif_objpair_t p = spif_objpair_new();
        if (p && !p->key && !p->value) putchar('-'); else pp(SPIF_OBJ(p));
        if (p) spif_objpair_del(p);
    }
    else if (IS("get") && na == 2) { e = mk_str(a[1]); pt(SPIF_MAP_GET(c, e)); SPIF_OBJ_DEL(e); }
    else if (IS("remove") && na == 2) { e = mk_str(a[1]); r = SPIF_MAP_REMOVE(c, e); pp(r); to_pool(r); SPIF_OBJ_DEL(e); }
    else if (IS("has_key") && na == 2) { e = mk_str(a[1]); pb(SPIF_MAP_HAS_KEY(c, e)); SPIF_OBJ_DEL(e); }
    else if (IS("has_value") && na == 2) { e = mk_str(a[1]); pb(SPIF_MAP_HAS_VALUE(c, e)); SPIF_OBJ_DEL(e); }
    else if (IS("count") && na == 1) { printf("%d", (int) (size_t) SPIF_MAP_COUNT(c)); }
    else if (IS("get_keys") && na == 1) { print_list_and_del(SPIF_MAP_GET_KEYS(c, (spif_list_t) NULL), pt); }
    else if (IS("get_values") && na == 1) { print_list_and_del(SPIF_MAP_GET_VALUES(c, (spif_list_t) NULL), pt); }
    else if (IS("get_pairs") && na == 1) { print_list_and_del(SPIF_MAP_GET_PAIRS(c, (spif_list_t) NULL), pp); }
    else if (IS("iterate") && na == 1) { n = (int) (size_t) SPIF_MAP_COUNT(c); sweep(SPIF_MAP_ITERATOR(c), sane(n) ? n : 0, pp); }
    else if ((IS("get_keys_into") || IS("get_values_into") || IS("get_pairs_into")) && (na == 2 || na == 3)) {
        /* non-NULL form: the caller supplies the list (of class A / L / D) to append to; it already holds the one
           object "pre" (no count given) or the N objects pa, pb, .. (N = 0..5), which must stay in front, in order */
        spif_list_t l = (a[1][0] == 'A') ? SPIF_LIST_NEW(array) : (a[1][0] == 'L') ? SPIF_LIST_NEW(linked_list) : SPIF_LIST_NEW(dlinked_list);
        spif_list_t got;
        int i, held = 1;
        if (na == 2) SPIF_LIST_APPEND(l, mk_str("pre"));
        else {
            char t[3] = "pa";
            held = atoi(a[2]);
            if (held < 0 || held > 5) { SPIF_LIST_DEL(l); return 0; }
            for (i = 0; i < held; i++) { t[1] = (char) ('a' + i); SPIF_LIST_APPEND(l, mk_str(t)); }
        }
        got = IS("get_keys_into") ? SPIF_MAP_GET_KEYS(c, l) : IS("get_values_into") ? SPIF_MAP_GET_VALUES(c, l) : SPIF_MAP_GET_PAIRS(c, l);
        if (got != l) putchar('?');
        else {
            n = (int) SPIF_LIST_COUNT(l);
            putchar('[');
            for (i = 0; sane(n) && i < n; i++) {
                if (i) putchar(',');
                if (i < held || !IS("get_pairs_into")) pt(SPIF_LIST_GET(l, i)); else pp(SPIF_LIST_GET(l, i));
            }
            putchar(']');
        }
        SPIF_LIST_DEL(l);
    }
    else return 0;
    return 1;
}

static spif_obj_t new_container(void)
{
    switch (iface * 3 + cls) {
        case 0: return SPIF_OBJ(SPIF_LIST_NEW(array));
        case 1: return SPIF_OBJ(SPIF_LIST_NEW(linked_list));
        case 2: return SPIF_OBJ(SPIF_LIST_NEW(dlinked_list));
        case 3: return SPIF_OBJ(SPIF_VECTOR_NEW(array));
        case 4: return SPIF_OBJ(SPIF_VECTOR_NEW(linked_list));
        case 5: return SPIF_OBJ(SPIF_VECTOR_NEW(dlinked_list));
        case 6: return SPIF_OBJ(SPIF_MAP_NEW(array));
        case 7: return SPIF_OBJ(SPIF_MAP_NEW(linked_list));
        default: return SPIF_OBJ(SPIF_MAP_NEW(dlinked_list));
    }
}

/* fork: duplicate the current container through its interface; the copy becomes the current one.
 * copy[i] is registered under the id of original[i] when both are objects with equal text and copy[i]
 * is an object the table does not know yet, so that the ideal side needs no renaming; anything else
 * (shared object, wrong text, missing element) shows up as '?' / '_' in the read-back that follows. */
static void reg_copy(spif_obj_t q, spif_obj_t p, int tag)
{
    int i = q ? slot_of(q) : -1;
    if (i < 0 || !p || slot_of(p) >= 0 || ntab >= MAXENT) return;
    if (SPIF_OBJ_CLASS(p) != SPIF_CLASS(SPIF_STRCLASS_VAR(str)) || SPIF_OBJ_CLASS(q) != SPIF_CLASS(SPIF_STRCLASS_VAR(str))) return;
    if (strcmp((const char *) SPIF_STR_STR(SPIF_STR(p)), (const char *) SPIF_STR_STR(SPIF_STR(q)))) return;
    tab[ntab].p = p; tab[ntab].id = tab[i].id; tab[ntab].inset = tab[i].inset; tab[ntab].seen = 0; tab[ntab].own = tag;
    ntab++;
}
static int do_fork(void)
{
    spif_obj_t c = cont[cur], d;
    int i, n, m;
    if (cont[1 - cur]) return 0;                       /* one fork per history */
    if (iface == IF_LIST) {
        d = SPIF_OBJ(SPIF_LIST_DUP(c));
        if (!d) { putchar('?'); return 1; }
        n = (int) SPIF_LIST_COUNT(c);
        m = (int) SPIF_LIST_COUNT(d);
        for (i = 0; sane(n) && i < n && i < m; i++) reg_copy(SPIF_LIST_GET(c, i), SPIF_LIST_GET(d, i), 1 - cur);
    } else if (iface == IF_VECTOR) {
        spif_obj_t *x, *y;
        d = SPIF_OBJ(SPIF_VECTOR_DUP(c));
        if (!d) { putchar('?'); return 1; }
        n = (int) (size_t) SPIF_VECTOR_COUNT(c);
        m = (int) (size_t) SPIF_VECTOR_COUNT(d);
        x = SPIF_VECTOR_TO_ARRAY(c);
        y = SPIF_VECTOR_TO_ARRAY(d);
        for (i = 0; x && y && sane(n) && i < n && i < m; i++) reg_copy(x[i], y[i], 1 - cur);
        if (x) free(x);
        if (y) free(y);
    } else {
        d = SPIF_OBJ(SPIF_MAP_DUP(c));
        if (!d) { putchar('?'); return 1; }
    }
    cont[1 - cur] = d;
    cur = 1 - cur;
    putchar('T');
    return 1;
}

/* ---- DEPTH stratum ------------------------------------------------------------------------------
 * `deep:N` as the FIRST operation of a history switches the case to the depth mode: the container is
 * filled with N elements through the interface in the way that costs O(1) per step for the class where
 * there is one (see the grammar above), the element table is not used (positions are checked against
 * the harness's own array of the N objects), and the following operation names are scenarios that
 * leave the container as they found it.  The oracle is here, on the implementation side: every
 * scenario prints `name=ok` or `name=BAD(what)`; the ideal side prints `ok` for every name. */
#include <sys/resource.h>
#include <alloca.h>

static long dn;                       /* number of elements */
static spif_obj_t *dobj;              /* dobj[p] = the object at position p (list, vector); maps: NULL */
static const char *dbad;
static char dbuf[160];
static int show_stk;

static char *k5(long i, char *b)      /* fixed-width five-letter key whose order is the order of i */
{
    int k;
    for (k = 4; k >= 0; k--) { b[k] = (char) ('a' + i % 26); i /= 26; }
    b[5] = 0;
    return b;
}
static char *keyat(long p, char *b) { return k5(2 * p + 2, b); }          /* key of position p (odd codes lie between) */
static char *valat(long p, char *b) { b[0] = 'v'; k5(2 * p + 2, b + 1); return b; }
static int txt_is(spif_obj_t o, const char *t)
{
    return o && SPIF_OBJ_CLASS(o) == SPIF_CLASS(SPIF_STRCLASS_VAR(str)) && !strcmp((const char *) SPIF_STR_STR(SPIF_STR(o)), t);
}
static int pair_is(spif_obj_t o, const char *k, const char *v)
{
    return o && SPIF_OBJ_IS_OBJPAIR(o) && txt_is(SPIF_OBJPAIR(o)->key, k) && txt_is(SPIF_OBJPAIR(o)->value, v);
}
#define CK(cond, what) do { if (!(cond)) { snprintf(dbuf, sizeof(dbuf), "%s", (what)); dbad = dbuf; goto out; } } while (0)
#define CKS(call) do { if (!(call)) { dbad = dbuf; goto out; } } while (0)
#define CKP(cond, what, p) do { if (!(cond)) { snprintf(dbuf, sizeof(dbuf), "%s@%ld", (what), (long) (p)); dbad = dbuf; goto out; } } while (0)

/* stack high-water mark of one scenario (printed only with LV_CONT_STK=1): the region below the caller's
 * frame is painted before and scanned afterwards */
#define STK_BYTES (512 * 1024)
__attribute__((noinline, no_sanitize_address, no_sanitize_undefined)) static long stk_region(int paint)
{
    volatile unsigned char *p = (volatile unsigned char *) alloca(STK_BYTES);
    long i;
    __asm__ volatile("" : : "r"(p) : "memory");
    if (paint) { for (i = 0; i < STK_BYTES; i++) p[i] = 0xC3; return 0; }
    for (i = 0; i < STK_BYTES && p[i] == 0xC3; i++) { }
    return STK_BYTES - i;
}

/* position p of list c holds the very object dobj[q] */
static int deep_list_state(spif_obj_t c)
{
    long n = dn;
    CK((long) SPIF_LIST_COUNT(c) == n, "count");
    if (n) {
        CK(SPIF_LIST_GET(c, 0) == dobj[0], "get(0)");
        CK(SPIF_LIST_GET(c, (spif_listidx_t) (n / 2)) == dobj[n / 2], "get(n/2)");
        CK(SPIF_LIST_GET(c, (spif_listidx_t) (n - 1)) == dobj[n - 1], "get(n-1)");
        CK(SPIF_LIST_GET(c, -1) == dobj[n - 1], "get(-1)");
    }
    CK(SPIF_LIST_GET(c, (spif_listidx_t) n) == NULL, "get(n)");
    return 1;
out:
    return 0;
}

static void deep_list(spif_obj_t c, const char *op)
{
    long n = dn, k;
    char b[16];
    spif_obj_t e = NULL, r;
    spif_iterator_t it = NULL;
    spif_obj_t *a = NULL;
    spif_list_t d = NULL;

    if (!strcmp(op, "build")) {
        if (cls == CL_LL) { for (k = n - 1; k >= 0; k--) CKP(SPIF_LIST_PREPEND(c, dobj[k]), "prepend", k); }
        else { for (k = 0; k < n; k++) CKP(SPIF_LIST_APPEND(c, dobj[k]), "append", k); }
        CKS(deep_list_state(c));
    } else if (!strcmp(op, "get")) {
        CKS(deep_list_state(c));
    } else if (!strcmp(op, "iterate")) {
        it = SPIF_LIST_ITERATOR(c);
        CK(!SPIF_ITERATOR_ISNULL(it), "iterator");
        for (k = 0; k < n; k++) {
            CKP(SPIF_ITERATOR_HAS_NEXT(it), "has_next", k);
            CKP(SPIF_ITERATOR_NEXT(it) == dobj[k], "next", k);
        }
        CK(!SPIF_ITERATOR_HAS_NEXT(it), "has_next(end)");
        CK(SPIF_ITERATOR_NEXT(it) == NULL, "next(end)");
    } else if (!strcmp(op, "to_array")) {
        a = SPIF_LIST_TO_ARRAY(c);
        CK(a || !n, "to_array");
        for (k = 0; k < n; k++) CKP(a[k] == dobj[k], "to_array", k);
    } else if (!strcmp(op, "dup")) {
        d = SPIF_LIST_DUP(c);
        CK(!SPIF_LIST_ISNULL(d), "dup");
        CK((long) SPIF_LIST_COUNT(d) == n, "dup.count");
        it = SPIF_LIST_ITERATOR(d);
        CK(!SPIF_ITERATOR_ISNULL(it), "dup.iterator");
        for (k = 0; k < n; k++) {
            CKP(SPIF_ITERATOR_HAS_NEXT(it), "dup.has_next", k);
            r = SPIF_ITERATOR_NEXT(it);
            CKP(r != dobj[k] && txt_is(r, keyat(k, b)), "dup.next", k);
        }
        CK(!SPIF_ITERATOR_HAS_NEXT(it), "dup.has_next(end)");
        if (n) {
            CK(txt_is(SPIF_LIST_GET(d, (spif_listidx_t) (n - 1)), keyat(n - 1, b)), "dup.get(n-1)");
            CK(txt_is(SPIF_LIST_GET(d, 0), keyat(0, b)), "dup.get(0)");
            CK(txt_is(SPIF_LIST_GET(d, (spif_listidx_t) (n / 2)), keyat(n / 2, b)), "dup.get(n/2)");
        }
        CKS(deep_list_state(c));
    } else if (!strcmp(op, "reverse")) {
        CK(SPIF_LIST_REVERSE(c), "reverse");
        CK((long) SPIF_LIST_COUNT(c) == n, "reverse.count");
        if (n) {
            CK(SPIF_LIST_GET(c, 0) == dobj[n - 1], "reverse.get(0)");
            CK(SPIF_LIST_GET(c, (spif_listidx_t) (n - 1)) == dobj[0], "reverse.get(n-1)");
            CK(SPIF_LIST_GET(c, (spif_listidx_t) (n / 2)) == dobj[n - 1 - n / 2], "reverse.get(n/2)");
        }
        it = SPIF_LIST_ITERATOR(c);
        CK(!SPIF_ITERATOR_ISNULL(it), "reverse.iterator");
        for (k = 0; k < n; k++) CKP(SPIF_ITERATOR_NEXT(it) == dobj[n - 1 - k], "reverse.next", k);
        CK(!SPIF_ITERATOR_HAS_NEXT(it), "reverse.has_next(end)");
        CK(SPIF_LIST_REVERSE(c), "reverse2");
        CKS(deep_list_state(c));
    } else if (!strcmp(op, "find_last") && n) {
        e = mk_str(keyat(n - 1, b));
        CK((long) SPIF_LIST_INDEX(c, e) == n - 1, "index(last)");
        CK(SPIF_LIST_FIND(c, e) == dobj[n - 1], "find(last)");
        CK(SPIF_LIST_CONTAINS(c, e), "contains(last)");
        CK((long) SPIF_LIST_INDEX(c, dobj[n - 1]) == n - 1, "index(own last)");
        SPIF_OBJ_DEL(e);
        e = mk_str(k5(2 * n + 3, b));
        CK((long) SPIF_LIST_INDEX(c, e) == -1, "index(absent)");
        CK(SPIF_LIST_FIND(c, e) == NULL, "find(absent)");
        CK(!SPIF_LIST_CONTAINS(c, e), "contains(absent)");
    } else if (!strcmp(op, "remove_last") && n) {
        e = mk_str(keyat(n - 1, b));
        r = SPIF_LIST_REMOVE(c, e);
        CK(r == dobj[n - 1], "remove(last)");
        CK((long) SPIF_LIST_COUNT(c) == n - 1, "remove.count");
        CK(SPIF_LIST_GET(c, (spif_listidx_t) (n - 1)) == NULL, "remove.get(n-1)");
        if (n > 1) CK(SPIF_LIST_GET(c, -1) == dobj[n - 2], "remove.get(-1)");
        CK(SPIF_LIST_APPEND(c, r), "append(back)");
        CKS(deep_list_state(c));
    } else if (!strcmp(op, "remove_at_last") && n) {
        r = SPIF_LIST_REMOVE_AT(c, (spif_listidx_t) (n - 1));
        CK(r == dobj[n - 1], "remove_at(n-1)");
        CK((long) SPIF_LIST_COUNT(c) == n - 1, "remove_at.count");
        CK(SPIF_LIST_REMOVE_AT(c, (spif_listidx_t) (n - 1)) == NULL, "remove_at(n-1) again");
        CK(SPIF_LIST_INSERT_AT(c, r, (spif_listidx_t) (n - 1)), "insert_at(n-1)");
        CKS(deep_list_state(c));
    } else if (!strcmp(op, "insert_last") && n) {
        /* the ordered insert of a key above all others walks the whole (ascending) list */
        e = mk_str(k5(2 * n + 3, b));
        CK(SPIF_LIST_INSERT(c, e), "insert(top)");
        r = e; e = NULL;                /* now the list's */
        CK((long) SPIF_LIST_COUNT(c) == n + 1, "insert.count");
        CK(SPIF_LIST_GET(c, (spif_listidx_t) n) == r, "insert.get(n)");
        CK(SPIF_LIST_REMOVE_AT(c, -1) == r, "remove_at(-1)");
        e = r;
        CKS(deep_list_state(c));
    } else CK(0, "unknown-scenario");
out:
    if (e) SPIF_OBJ_DEL(e);
    if (it) SPIF_ITERATOR_DEL(it);
    if (a) free(a);
    if (d) SPIF_LIST_DEL(d);
}

static int deep_vector_state(spif_obj_t c)
{
    CK((long) (size_t) SPIF_VECTOR_COUNT(c) == dn, "count");
    return 1;
out:
    return 0;
}

static void deep_vector(spif_obj_t c, const char *op)
{
    long n = dn, k;
    char b[16];
    spif_obj_t e = NULL, r;
    spif_iterator_t it = NULL;
    spif_obj_t *a = NULL, *a2 = NULL;
    spif_vector_t d = NULL;

    if (!strcmp(op, "build")) {
        /* array, linked_list: descending (each element lands at the front); dlinked_list: ascending (at the tail) */
        if (cls == CL_DLL) { for (k = 0; k < n; k++) CKP(SPIF_VECTOR_INSERT(c, dobj[k]), "insert", k); }
        else { for (k = n - 1; k >= 0; k--) CKP(SPIF_VECTOR_INSERT(c, dobj[k]), "insert", k); }
        CKS(deep_vector_state(c));
    } else if (!strcmp(op, "iterate")) {
        it = SPIF_VECTOR_ITERATOR(c);
        CK(!SPIF_ITERATOR_ISNULL(it), "iterator");
        for (k = 0; k < n; k++) {
            CKP(SPIF_ITERATOR_HAS_NEXT(it), "has_next", k);
            CKP(SPIF_ITERATOR_NEXT(it) == dobj[k], "next", k);
        }
        CK(!SPIF_ITERATOR_HAS_NEXT(it), "has_next(end)");
        CK(SPIF_ITERATOR_NEXT(it) == NULL, "next(end)");
    } else if (!strcmp(op, "to_array")) {
        CKS(deep_vector_state(c));
        a = SPIF_VECTOR_TO_ARRAY(c);
        CK(a || !n, "to_array");
        for (k = 0; k < n; k++) CKP(a[k] == dobj[k], "to_array", k);
    } else if (!strcmp(op, "dup")) {
        d = SPIF_VECTOR_DUP(c);
        CK(!SPIF_VECTOR_ISNULL(d), "dup");
        CK((long) (size_t) SPIF_VECTOR_COUNT(d) == n, "dup.count");
        a2 = SPIF_VECTOR_TO_ARRAY(d);
        CK(a2 || !n, "dup.to_array");
        for (k = 0; k < n; k++) CKP(a2[k] != dobj[k] && txt_is(a2[k], keyat(k, b)), "dup.to_array", k);
        it = SPIF_VECTOR_ITERATOR(d);
        CK(!SPIF_ITERATOR_ISNULL(it), "dup.iterator");
        for (k = 0; k < n; k++) CKP(SPIF_ITERATOR_NEXT(it) == a2[k], "dup.next", k);
        CK(!SPIF_ITERATOR_HAS_NEXT(it), "dup.has_next(end)");
        if (n) {
            e = mk_str(keyat(n - 1, b));
            CK(SPIF_VECTOR_FIND(d, e) == a2[n - 1], "dup.find(last)");
        }
        CKS(deep_vector_state(c));
    } else if (!strcmp(op, "find_last") && n) {
        e = mk_str(keyat(n - 1, b));
        CK(SPIF_VECTOR_FIND(c, e) == dobj[n - 1], "find(last)");
        CK(SPIF_VECTOR_CONTAINS(c, e), "contains(last)");
        CK(SPIF_VECTOR_FIND(c, dobj[n - 1]) == dobj[n - 1], "find(own last)");
        SPIF_OBJ_DEL(e);
        e = mk_str(k5(2 * n + 3, b));
        CK(SPIF_VECTOR_FIND(c, e) == NULL, "find(above)");
        CK(!SPIF_VECTOR_CONTAINS(c, e), "contains(above)");
        SPIF_OBJ_DEL(e);
        e = mk_str(k5(2 * n - 1, b));
        CK(SPIF_VECTOR_FIND(c, e) == NULL, "find(between)");
        SPIF_OBJ_DEL(e);
        e = mk_str(keyat(n / 2, b));
        CK(SPIF_VECTOR_FIND(c, e) == dobj[n / 2], "find(middle)");
        SPIF_OBJ_DEL(e);
        e = mk_str(keyat(0, b));
        CK(SPIF_VECTOR_FIND(c, e) == dobj[0], "find(first)");
    } else if (!strcmp(op, "insert_last") && n) {
        spif_obj_t probe, mine;
        e = mk_str(k5(2 * n + 3, b));
        CK(SPIF_VECTOR_INSERT(c, e), "insert(top)");
        mine = e; e = NULL;             /* now the vector's */
        CK((long) (size_t) SPIF_VECTOR_COUNT(c) == n + 1, "insert.count");
        probe = mk_str(k5(2 * n + 3, b));
        r = SPIF_VECTOR_FIND(c, probe);
        if (r == mine) r = SPIF_VECTOR_REMOVE(c, probe); else r = NULL;
        SPIF_OBJ_DEL(probe);
        CK(r == mine, "find/remove(top)");
        e = mine;
        CKS(deep_vector_state(c));
    } else if (!strcmp(op, "remove_last") && n) {
        e = mk_str(keyat(n - 1, b));
        r = SPIF_VECTOR_REMOVE(c, e);
        CK(r == dobj[n - 1], "remove(last)");
        CK((long) (size_t) SPIF_VECTOR_COUNT(c) == n - 1, "remove.count");
        CK(SPIF_VECTOR_FIND(c, e) == NULL, "remove.find(last)");
        CK(SPIF_VECTOR_INSERT(c, r), "insert(back)");
        CK(SPIF_VECTOR_FIND(c, e) == dobj[n - 1], "insert(back).find");
        CKS(deep_vector_state(c));
    } else CK(0, "unknown-scenario");
out:
    if (e) SPIF_OBJ_DEL(e);
    if (it) SPIF_ITERATOR_DEL(it);
    if (a) free(a);
    if (a2) free(a2);
    if (d) SPIF_VECTOR_DEL(d);
}

/* a list the map handed back: n items with the expected texts, in order (walked with the list's iterator) */
static int deep_map_list(spif_list_t l, int what)
{
    long n = dn, k;
    char b[16], b2[16];
    spif_iterator_t it = NULL;
    spif_obj_t r;
    CK(!SPIF_LIST_ISNULL(l), "NULL");
    CK((long) SPIF_LIST_COUNT(l) == n, "count");
    it = SPIF_LIST_ITERATOR(l);
    CK(!SPIF_ITERATOR_ISNULL(it), "iterator");
    for (k = 0; k < n; k++) {
        r = SPIF_ITERATOR_NEXT(it);
        CKP(what == 0 ? txt_is(r, keyat(k, b)) : what == 1 ? txt_is(r, valat(k, b2)) : pair_is(r, keyat(k, b), valat(k, b2)), "item", k);
    }
    CK(!SPIF_ITERATOR_HAS_NEXT(it), "has_next(end)");
    SPIF_ITERATOR_DEL(it);
    return 1;
out:
    if (it) SPIF_ITERATOR_DEL(it);
    return 0;
}

static void deep_map(spif_obj_t c, const char *op)
{
    long n = dn, k;
    char b[16], b2[16], msg[100];
    spif_obj_t e = NULL, v = NULL, r, r2;
    spif_iterator_t it = NULL, it2 = NULL;
    spif_list_t l = NULL;
    spif_map_t d = NULL;

    if (!strcmp(op, "build")) {
        /* every set first probes the whole map for the key, so a step is linear in all three classes;
           linked_list: descending keys (the new pair lands at the front); array, dlinked_list: ascending */
        for (k = 0; k < n; k++) {
            long p = (cls == CL_LL) ? n - 1 - k : k;
            e = mk_str(keyat(p, b));
            v = mk_str(valat(p, b2));
            CKP(!SPIF_MAP_SET(c, e, v), "set", p);
            SPIF_OBJ_DEL(e); e = NULL;
            SPIF_OBJ_DEL(v); v = NULL;
        }
        CK((long) (size_t) SPIF_MAP_COUNT(c) == n, "count");
    } else if (!strcmp(op, "iterate")) {
        CK((long) (size_t) SPIF_MAP_COUNT(c) == n, "count");
        it = SPIF_MAP_ITERATOR(c);
        CK(!SPIF_ITERATOR_ISNULL(it), "iterator");
        for (k = 0; k < n; k++) {
            CKP(SPIF_ITERATOR_HAS_NEXT(it), "has_next", k);
            CKP(pair_is(SPIF_ITERATOR_NEXT(it), keyat(k, b), valat(k, b2)), "next", k);
        }
        CK(!SPIF_ITERATOR_HAS_NEXT(it), "has_next(end)");
        CK(SPIF_ITERATOR_NEXT(it) == NULL, "next(end)");
    } else if (!strcmp(op, "get_keys") || !strcmp(op, "get_values") || !strcmp(op, "get_pairs")) {
        int what = !strcmp(op, "get_keys") ? 0 : !strcmp(op, "get_values") ? 1 : 2;
        l = what == 0 ? SPIF_MAP_GET_KEYS(c, (spif_list_t) NULL) : what == 1 ? SPIF_MAP_GET_VALUES(c, (spif_list_t) NULL) : SPIF_MAP_GET_PAIRS(c, (spif_list_t) NULL);
        if (!deep_map_list(l, what)) { snprintf(msg, sizeof(msg), "%s.%s", op, dbuf); CK(0, msg); }
    } else if (!strcmp(op, "get_keys_into") || !strcmp(op, "get_values_into") || !strcmp(op, "get_pairs_into")) {
        /* receiving list of the class whose append is O(1) per step */
        int what = !strcmp(op, "get_keys_into") ? 0 : !strcmp(op, "get_values_into") ? 1 : 2;
        spif_list_t got;
        l = SPIF_LIST_NEW(dlinked_list);
        got = what == 0 ? SPIF_MAP_GET_KEYS(c, l) : what == 1 ? SPIF_MAP_GET_VALUES(c, l) : SPIF_MAP_GET_PAIRS(c, l);
        CK(got == l, "other list returned");
        if (!deep_map_list(l, what)) { snprintf(msg, sizeof(msg), "%s.%s", op, dbuf); CK(0, msg); }
    } else if (!strcmp(op, "dup")) {
        d = SPIF_MAP_DUP(c);
        CK(!SPIF_MAP_ISNULL(d), "dup");
        CK((long) (size_t) SPIF_MAP_COUNT(d) == n, "dup.count");
        it = SPIF_MAP_ITERATOR(d);
        it2 = SPIF_MAP_ITERATOR(c);
        CK(!SPIF_ITERATOR_ISNULL(it) && !SPIF_ITERATOR_ISNULL(it2), "dup.iterator");
        for (k = 0; k < n; k++) {
            r = SPIF_ITERATOR_NEXT(it);
            r2 = SPIF_ITERATOR_NEXT(it2);
            CKP(r != r2 && pair_is(r, keyat(k, b), valat(k, b2)) && pair_is(r2, b, b2)
                && SPIF_OBJPAIR(r)->key != SPIF_OBJPAIR(r2)->key && SPIF_OBJPAIR(r)->value != SPIF_OBJPAIR(r2)->value, "dup.next", k);
        }
        CK(!SPIF_ITERATOR_HAS_NEXT(it) && !SPIF_ITERATOR_HAS_NEXT(it2), "dup.has_next(end)");
        if (n) {
            e = mk_str(keyat(n - 1, b));
            CK(txt_is(SPIF_MAP_GET(d, e), valat(n - 1, b2)), "dup.get(last)");
        }
    } else if (!strcmp(op, "get_last") && n) {
        e = mk_str(keyat(n - 1, b));
        CK(txt_is(SPIF_MAP_GET(c, e), valat(n - 1, b2)), "get(last)");
        CK(SPIF_MAP_HAS_KEY(c, e), "has_key(last)");
        SPIF_OBJ_DEL(e);
        e = mk_str(valat(n - 1, b2));
        CK(SPIF_MAP_HAS_VALUE(c, e), "has_value(last)");
        CK(!SPIF_MAP_HAS_KEY(c, e), "has_key(a value)");
        SPIF_OBJ_DEL(e);
        e = mk_str(k5(2 * n + 3, b));
        CK(SPIF_MAP_GET(c, e) == NULL, "get(above)");
        CK(!SPIF_MAP_HAS_KEY(c, e), "has_key(above)");
        CK(!SPIF_MAP_HAS_VALUE(c, e), "has_value(absent)");
        SPIF_OBJ_DEL(e);
        e = mk_str(keyat(n / 2, b));
        CK(txt_is(SPIF_MAP_GET(c, e), valat(n / 2, b2)), "get(middle)");
        SPIF_OBJ_DEL(e);
        e = mk_str(keyat(0, b));
        CK(txt_is(SPIF_MAP_GET(c, e), valat(0, b2)), "get(first)");
    } else if (!strcmp(op, "set_last") && n) {
        e = mk_str(k5(2 * n + 3, b));
        v = mk_str("top");
        CK(!SPIF_MAP_SET(c, e, v), "set(top)");
        CK((long) (size_t) SPIF_MAP_COUNT(c) == n + 1, "set.count");
        CK(txt_is(SPIF_MAP_GET(c, e), "top"), "set.get(top)");
        CK(SPIF_MAP_GET(c, e) != v, "set stored the caller's value");
        r = SPIF_MAP_REMOVE(c, e);
        CK(pair_is(r, b, "top"), "remove(top)");
        SPIF_OBJ_DEL(r);
        CK((long) (size_t) SPIF_MAP_COUNT(c) == n, "remove.count");
        SPIF_OBJ_DEL(e);
        e = mk_str(keyat(n - 1, b));
        CK(SPIF_MAP_SET(c, e, v), "set(last, again)");
        CK(txt_is(SPIF_MAP_GET(c, e), "top"), "set(last).get");
        SPIF_OBJ_DEL(v);
        v = mk_str(valat(n - 1, b2));
        CK(SPIF_MAP_SET(c, e, v), "set(last, back)");
        CK((long) (size_t) SPIF_MAP_COUNT(c) == n, "set(last).count");
    } else if (!strcmp(op, "remove_last") && n) {
        e = mk_str(keyat(n - 1, b));
        v = mk_str(valat(n - 1, b2));
        r = SPIF_MAP_REMOVE(c, e);
        CK(pair_is(r, b, b2), "remove(last)");
        SPIF_OBJ_DEL(r);
        CK((long) (size_t) SPIF_MAP_COUNT(c) == n - 1, "remove.count");
        CK(SPIF_MAP_GET(c, e) == NULL, "remove.get(last)");
        CK(SPIF_MAP_REMOVE(c, e) == NULL, "remove(last) again");
        CK(!SPIF_MAP_SET(c, e, v), "set(back)");
        CK((long) (size_t) SPIF_MAP_COUNT(c) == n, "set(back).count");
    } else CK(0, "unknown-scenario");
out:
    if (e) SPIF_OBJ_DEL(e);
    if (v) SPIF_OBJ_DEL(v);
    if (it) SPIF_ITERATOR_DEL(it);
    if (it2) SPIF_ITERATOR_DEL(it2);
    if (l) SPIF_LIST_DEL(l);
    if (d) SPIF_MAP_DEL(d);
}

static void deep_step(spif_obj_t c, const char *name)
{
    long hw = 0;
    printf("%s=", name);
    fflush(stdout);                     /* a crash completes this step with FAULT:... */
    dbad = NULL;
    if (show_stk) stk_region(1);
    if (!strcmp(name, "del")) { if (!SPIF_OBJ_DEL(c)) dbad = "del"; }
    else if (iface == IF_LIST) deep_list(c, name);
    else if (iface == IF_VECTOR) deep_vector(c, name);
    else deep_map(c, name);
    if (show_stk) hw = stk_region(0);
    if (dbad) printf("BAD(%s)|", dbad); else printf("ok|");
    if (show_stk) printf("stk=%ld", hw);
    printf(" ; ");
}

static void run_deep(char **ops, int nops)
{
    struct rlimit rl;
    spif_obj_t c;
    long k;
    char b[16];
    const char *e = getenv("LV_CONT_STK");
    int j;

    show_stk = (e && e[0] && e[0] != '0');
    dn = atol(ops[0] + 5);
    if (dn < 0 || dn > 4000000) { printf("HARNESS-ERROR:bad-size"); return; }
    /* the default 8 MB stack (lowered to it when the environment allows more) */
    if (!getrlimit(RLIMIT_STACK, &rl) && (rl.rlim_cur == RLIM_INFINITY || rl.rlim_cur > (rlim_t) 8 << 20)) {
        rl.rlim_cur = (rlim_t) 8 << 20;
        setrlimit(RLIMIT_STACK, &rl);
    }
    alarm(dn > 500000 ? 120 : 60);
    dobj = NULL;
    if (iface != IF_MAP) {
        dobj = (spif_obj_t *) malloc(sizeof(spif_obj_t) * (size_t) (dn ? dn : 1));
        for (k = 0; k < dn; k++) dobj[k] = mk_str(keyat(k, b));
    }
    c = new_container();
    if (!c) { printf("HARNESS-ERROR:new"); return; }
    deep_step(c, "build");
    for (j = 1; j < nops && !dbad; j++) deep_step(c, ops[j]);
    /* tear-down: the container deletes what it holds */
    deep_step(c, "del");
    if (dobj) free(dobj);
    printf("end");
}

static void run_case(int ntok, char **tok)
{
    static char *ops[MAXENT];
    char *a[4];
    int nops, k, na, ok, quiet;
    const char *e = getenv("LV_CONT_B");

    show_b = (e && e[0] && e[0] != '0');
    if (ntok != 3) { printf("HARNESS-ERROR:bad-case"); return; }
    if (!strcmp(tok[0], "list")) iface = IF_LIST;
    else if (!strcmp(tok[0], "vector")) iface = IF_VECTOR;
    else if (!strcmp(tok[0], "map")) iface = IF_MAP;
    else { printf("HARNESS-ERROR:bad-interface"); return; }
    if (!strcmp(tok[1], "array")) cls = CL_ARRAY;
    else if (!strcmp(tok[1], "linked_list")) cls = CL_LL;
    else if (!strcmp(tok[1], "dlinked_list")) cls = CL_DLL;
    else { printf("HARNESS-ERROR:bad-class"); return; }

    ntab = next_id = npool = 0;
    ck = cv = NULL;
    cur = rb_tag = 0;
    cont[0] = new_container();
    cont[1] = (spif_obj_t) NULL;
    if (!cont[0]) { printf("HARNESS-ERROR:new"); return; }
    nops = split_on(tok[2], ';', ops, MAXENT);
    if (!strncmp(ops[0], "deep:", 5)) { SPIF_OBJ_DEL(cont[0]); run_deep(ops, nops); return; }
    for (k = 0; k < nops; k++) {
        char *o = ops[k];
        quiet = (o[0] == '~');
        if (quiet) o++;
        na = split_on(o, ':', a, 4);
        rb_tag = cur;
        if (IS("fork") && na == 1) ok = do_fork();
        else if (IS("swap") && na == 1) { if (cont[1 - cur]) cur = 1 - cur; putchar('T'); ok = 1; }
        else ok = (iface == IF_LIST) ? do_list_op(cont[cur], na, a) : (iface == IF_VECTOR) ? do_vector_op(cont[cur], na, a) : do_map_op(cont[cur], na, a);
        if (!ok) { printf("HARNESS-ERROR:bad-op:%s", a[0]); return; }
        if (quiet) { printf("| ; "); continue; }
        putchar(' ');
        rb_tag = cur;
        readback(cont[cur]);
        if (cont[1 - cur]) { printf(" O "); rb_tag = 1 - cur; readback(cont[1 - cur]); }
        putchar('|');
        if (show_b) {
            bdump(cont[cur]);
            if (cont[1 - cur]) { printf(" O "); bdump(cont[1 - cur]); }
        }
        printf(" ; ");
    }
    /* tear-down: the containers delete what they hold (the current one first), the harness what was handed back */
    drop_caller();
    SPIF_OBJ_DEL(cont[cur]);
    if (cont[1 - cur]) SPIF_OBJ_DEL(cont[1 - cur]);
    for (k = 0; k < npool; k++) { unreg(pool[k]); SPIF_OBJ_DEL(pool[k]); }
    printf("end");
}

/* ---- crash-resilient driver loop ---------------------------------------------------------------- */
static struct progress { volatile long k; volatile long next_off; } *pg;

static void child_loop(FILE *f, long k)
{
    char *line = NULL;
    size_t cap = 0;
    char *tok[LV_MAXTOK];

    while (getline(&line, &cap, f) > 0) {
        int n = lv_split(line, tok);
        pg->k = k;
        pg->next_off = ftell(f);
        alarm(30);
        printf("#%ld ", k);
        fflush(stdout);
        run_case(n, tok);
        putchar('\n');
        fflush(stdout);
        k++;
    }
    alarm(0);
    fflush(stdout);
    _exit(0);
}

static void classify(const char *rep, int status, char *out, size_t n)
{
    const char *p;
    if ((p = strstr(rep, "AddressSanitizer: "))) {
        char kind[64];
        size_t i = 0;
        p += 18;
        while (*p && *p != ' ' && *p != '\n' && i < sizeof(kind) - 1) kind[i++] = *p++;
        kind[i] = 0;
        if (!strcmp(kind, "heap-use-after-free")) snprintf(out, n, "FAULT:Use_after_free");
        else if (!strcmp(kind, "SEGV")) snprintf(out, n, "FAULT:Null_deref:SEGV");
        else if (!strcmp(kind, "attempting") || !strcmp(kind, "double-free") || !strcmp(kind, "bad-free")) snprintf(out, n, "FAULT:Bad_free:%s", kind);
        else if (!strcmp(kind, "stack-overflow")) snprintf(out, n, "FAULT:Out_of_fuel:stack-overflow");
        else if (strstr(kind, "overflow") || strstr(kind, "underflow")) snprintf(out, n, "FAULT:%s:%s", strstr(rep, "WRITE of size") ? "OOB_write" : "OOB_read", kind);
        else snprintf(out, n, "FAULT:asan:%s", kind);
    } else if ((p = strstr(rep, "runtime error: "))) {
        size_t i, l = strlen("FAULT:ubsan:");
        snprintf(out, n, "FAULT:ubsan:");
        p += 15;
        for (i = 0; p[i] && p[i] != '\n' && i < 60 && l + i + 1 < n; i++) out[l + i] = (p[i] == ' ') ? '_' : p[i];
        out[l + i] = 0;
    } else if (WIFSIGNALED(status) && WTERMSIG(status) == SIGALRM) snprintf(out, n, "FAULT:Out_of_fuel:timeout");
    else if (WIFSIGNALED(status)) snprintf(out, n, "FAULT:signal:%d", WTERMSIG(status));
    else snprintf(out, n, "FAULT:exit:%d", WEXITSTATUS(status));
}

int main(int argc, char **argv)
{
    FILE *f;
    char *line = NULL;
    size_t cap = 0;
    long k = 0, start = (argc > 2) ? atol(argv[2]) : 0, ncrash = getenv("LV_NOSYM") ? 21 : 0;

    if (argc < 2 || !(f = fopen(argv[1], "r"))) { fprintf(stderr, "usage: harness cases [start]\n"); return 2; }
    setvbuf(stdout, NULL, _IOFBF, 1 << 16);
    pg = (struct progress *) mmap(NULL, sizeof(*pg), PROT_READ | PROT_WRITE, MAP_SHARED | MAP_ANONYMOUS, -1, 0);
    if (pg == MAP_FAILED) { perror("mmap"); return 2; }
    while (k < start && getline(&line, &cap, f) > 0) k++;
    pg->next_off = ftell(f);
    for (;;) {
        FILE *errf = tmpfile();
        pid_t pid;
        int status = 0;
        char rep[4096], verdict[160];
        size_t got;

        fflush(stdout);
        fflush(stderr);
        fseek(f, pg->next_off, SEEK_SET);          /* also empties the stdio buffer the child would inherit */
        pg->k = -1;
        pid = fork();
        if (pid < 0) { perror("fork"); return 2; }
        if (pid == 0) {
            if (errf) dup2(fileno(errf), 2);
            child_loop(f, k);
        }
        while (waitpid(pid, &status, 0) < 0) { }
        if (WIFEXITED(status) && WEXITSTATUS(status) == 0) { if (errf) fclose(errf); break; }
        got = 0;
        if (errf) { rewind(errf); got = fread(rep, 1, sizeof(rep) - 1, errf); fclose(errf); }
        rep[got] = 0;
        classify(rep, status, verdict, sizeof(verdict));
        if (pg->k < 0) {                             /* died before reaching a case: nothing to resume from */
            fprintf(stderr, "%s\nharness child died outside a case\n", rep);
            return 3;
        }
        printf("%s\n", verdict);
        if (++ncrash <= 20) fprintf(stderr, "--- case %ld: %s\n%.1500s\n", (long) pg->k, verdict, rep);
        else fprintf(stderr, "--- case %ld: %s\n", (long) pg->k, verdict);
        k = pg->k + 1;
        if (ncrash >= 3000 + 21) {
            /* a tree this broken needs no more evidence (the check reports the shortest failing history) */
            fprintf(stderr, "harness: %ld faults, stopping at case %ld\n", ncrash, k);
            break;
        }
        if (ncrash == 20 && !getenv("LV_NOSYM")) {
            /* symbolising a report costs ~50 ms: after 20 full reports restart without the symbolizer */
            char opt[1024], start_s[32];
            const char *o;
            fflush(stdout);
            o = getenv("ASAN_OPTIONS");
            snprintf(opt, sizeof(opt), "%s%ssymbolize=0", o ? o : "", o ? ":" : "");
            setenv("ASAN_OPTIONS", opt, 1);
            o = getenv("UBSAN_OPTIONS");
            snprintf(opt, sizeof(opt), "%s%ssymbolize=0", o ? o : "", o ? ":" : "");
            setenv("UBSAN_OPTIONS", opt, 1);
            setenv("LV_NOSYM", "1", 1);
            snprintf(start_s, sizeof(start_s), "%ld", k);
            execl(argv[0], argv[0], argv[1], start_s, (char *) NULL);
            perror("execl");
        }
    }
    return 0;
}
