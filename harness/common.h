/* Shared harness glue: one case per input line, one output line "#k <result>" per case,
 * flushed; the "#k" marker is printed BEFORE the case runs so that a sanitizer abort or a
 * hang identifies the case.  Hex coding as in driver/common.ml: "-" = empty, "??" = a cell
 * the model treats as uninitialised (the harness fills it with the current paint byte). */
#ifndef LV_COMMON_H
#define LV_COMMON_H
#include <config.h>
#include <libast.h>
#include <stdio.h>
#include <stdlib.h>
#include <string.h>
#include <unistd.h>

#include <errno.h>
static unsigned char lv_paint = 0xA5;

/* Environment passes (lib/vlib.py runs a sample of every check's cases again under them):
 *   LV_DEBUG_LEVEL=n  the library's runtime debug level (default 0): D_* traces and REQUIRE logging become
 *                     live, ASSERT becomes fatal - none of which may change a result the property constrains;
 *   LV_ERRNO=e        a stale errno left behind by unrelated earlier code.
 * A constructor, so that harnesses with their own main() get it too. */
__attribute__((constructor)) static void lv_env_init(void)
{
    const char *d = getenv("LV_DEBUG_LEVEL"), *e = getenv("LV_ERRNO");
    if (d) libast_debug_level = (unsigned int) atoi(d);
    if (e) errno = atoi(e);
}

static int lv_hv(int c) { return (c <= '9') ? c - '0' : ((c | 32) - 'a' + 10); }
/* decode hex into a fresh exact-size malloc block; *n = number of cells */
static unsigned char *lv_unhex(const char *h, size_t *n)
{
    size_t i, len = (h[0] == '-') ? 0 : strlen(h) / 2;
    unsigned char *b = (unsigned char *) malloc(len ? len : 1);
    for (i = 0; i < len; i++) {
        b[i] = (h[2 * i] == '?') ? lv_paint : (unsigned char) (lv_hv(h[2 * i]) * 16 + lv_hv(h[2 * i + 1]));
    }
    *n = len;
    if (!len) { free(b); b = (unsigned char *) malloc(0); }
    return b;
}
/* decode hex bytes and append a NUL: exact-size C string */
static char *lv_unhex_str(const char *h)
{
    size_t i, len = (h[0] == '-') ? 0 : strlen(h) / 2;
    char *b = (char *) malloc(len + 1);
    for (i = 0; i < len; i++) b[i] = (char) (lv_hv(h[2 * i]) * 16 + lv_hv(h[2 * i + 1]));
    b[len] = 0;
    return b;
}
static void lv_puthex(const void *p, size_t n)
{
    const unsigned char *b = (const unsigned char *) p;
    size_t i;
    if (!n) { putchar('-'); return; }
    for (i = 0; i < n; i++) printf("%02x", b[i]);
}
/* print cells, showing "??" where the mask says the cell was never initialised by the
 * script and still holds the paint byte (so paint never leaks into a comparison) */
static void lv_putcells(const void *p, size_t n, const char *orig_hex)
{
    const unsigned char *b = (const unsigned char *) p;
    size_t i;
    if (!n) { putchar('-'); return; }
    for (i = 0; i < n; i++) {
        if (orig_hex && orig_hex[0] != '-' && orig_hex[2 * i] == '?' && b[i] == lv_paint) printf("??");
        else printf("%02x", b[i]);
    }
}

#ifndef LV_MAXTOK
#define LV_MAXTOK 4096
#endif
static int lv_split(char *line, char **tok)
{
    int n = 0;
    char *p = line;
    while (*p && n < LV_MAXTOK) {
        while (*p == ' ' || *p == '\n' || *p == '\r') p++;
        if (!*p) break;
        tok[n++] = p;
        while (*p && *p != ' ' && *p != '\n' && *p != '\r') p++;
        if (*p) *p++ = 0;
    }
    return n;
}

static void run_case(int ntok, char **tok);

int main(int argc, char **argv)
{
    FILE *f;
    char *line = NULL;
    size_t cap = 0;
    long k = 0, start = (argc > 2) ? atol(argv[2]) : 0;
    char *tok[LV_MAXTOK];

    if (argc < 2 || !(f = fopen(argv[1], "r"))) { fprintf(stderr, "usage: harness cases [start]\n"); return 2; }
    if (getenv("LV_PAINT")) lv_paint = (unsigned char) strtol(getenv("LV_PAINT"), NULL, 0);
    setvbuf(stdout, NULL, _IOFBF, 1 << 16);
    while (getline(&line, &cap, f) > 0) {
        if (k >= start) {
            int n = lv_split(line, tok);
            printf("#%ld ", k);
            fflush(stdout);
            run_case(n, tok);
            putchar('\n');
            fflush(stdout);
        }
        k++;
    }
    return 0;
}
#endif
