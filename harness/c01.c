/* C01 harness: one case line = one whole history on a str or ustr object.
 *   <class> <ctor> <op> <op> ...     tokens are name,arg,arg (see checks/c01.py)
 * After the constructor and after every operation it prints the return value, the length,
 * the text (hex, or a hash beyond 40 bytes), three flags (NUL at len, size > len, allocation
 * as seen by the sanitizer >= size), the exact size, and the same for the second object.
 * All text arguments live in exactly sized malloc blocks.  Stream constructors read real
 * files / pipes created under build/work/c01, or - for read(2) schedules with EINTR, EAGAIN
 * and short reads - a descriptor whose read() is served by __wrap_read (linked with
 * -Wl,--wrap=read; only the library's own calls to read() are redirected). */
#include "common.h"
#include <errno.h>
#include <fcntl.h>
extern size_t __sanitizer_get_allocated_size(const volatile void *p);   /* ASan runtime */

/* ---- argument decoding ---- */
static int c01_comma(char *tok, char **a, int max)
{
    int n = 0;
    char *p = tok;
    a[n++] = p;
    while (*p && n < max) {
        if (*p == ',') { *p = 0; a[n++] = p + 1; }
        p++;
    }
    return n;
}

/* "N" -> NULL; hex or hex*n -> exact-size NUL-terminated copy */
static char *c01_text(const char *tok, size_t *len)
{
    const char *star = strchr(tok, '*');
    char *b;
    size_t i, n;
    if (len) *len = 0;
    if (tok[0] == 'N') return NULL;
    if (!star) {
        n = (tok[0] == '-') ? 0 : strlen(tok) / 2;
        b = (char *) malloc(n + 1);
        for (i = 0; i < n; i++) b[i] = (char) (lv_hv(tok[2 * i]) * 16 + lv_hv(tok[2 * i + 1]));
    } else {
        size_t m = (size_t) (star - tok) / 2;
        n = (size_t) atol(star + 1);
        b = (char *) malloc(n + 1);
        for (i = 0; i < n; i++) {
            size_t j = i % m;
            b[i] = (char) (lv_hv(tok[2 * j]) * 16 + lv_hv(tok[2 * j + 1]));
        }
    }
    b[n] = 0;
    if (len) *len = n;
    return b;
}

/* cells for init_from_buff: exact block, no terminator added; "N" -> NULL */
static unsigned char *c01_cells(const char *tok, size_t *n)
{
    if (tok[0] == 'N') { *n = 0; return NULL; }
    if (strchr(tok, '*')) {
        size_t l;
        char *t = c01_text(tok, &l);
        unsigned char *b = (unsigned char *) malloc(l ? l : 1);
        memcpy(b, t, l);
        free(t);
        if (!l) { free(b); b = (unsigned char *) malloc(0); }
        *n = l;
        return b;
    }
    return lv_unhex(tok, n);
}

static void c01_text_obs(const unsigned char *p, long n)
{
    long i;
    if (n <= 0) { putchar('-'); return; }
    if (n <= 40) { lv_puthex(p, (size_t) n); return; }
    {
        unsigned long h = 7;
        for (i = 0; i < n; i++) h = (h * 31 + p[i] + 1) % 1073741789UL;
        printf("#%lu", h);
    }
}

/* ---- streams ---- */
static const char *c01_workdir(void)
{
    static char dir[4096];
    if (!dir[0]) {
        char exe[4096];
        ssize_t k = readlink("/proc/self/exe", exe, sizeof(exe) - 1);
        char *p;
        int up;
        if (k <= 0) { strcpy(dir, "."); return dir; }
        exe[k] = 0;                                     /* .../build/impl/<key>/harness */
        for (up = 0; up < 3; up++) { p = strrchr(exe, '/'); if (p) *p = 0; }
        snprintf(dir, sizeof(dir), "%s/work/c01", exe);
    }
    return dir;
}
static FILE *c01_file_stream(const char *t, size_t n)
{
    char path[4200];
    FILE *f;
    snprintf(path, sizeof(path), "%s/stream-%ld.bin", c01_workdir(), (long) getpid());
    f = fopen(path, "wb");
    if (!f) { printf("HARNESS-ERROR:file"); exit(3); }
    fwrite(t, 1, n, f);
    fclose(f);
    f = fopen(path, "rb");
    unlink(path);
    return f;
}
static int c01_pipe_fd(const char *t, size_t n)
{
    int fds[2];
    if (pipe(fds) || n > 60000) { printf("HARNESS-ERROR:pipe"); exit(3); }
    if (n && write(fds[1], t, n) != (ssize_t) n) { printf("HARNESS-ERROR:pipe-write"); exit(3); }
    close(fds[1]);
    return fds[0];
}
static FILE *c01_pipe_stream(const char *t, size_t n)
{
    return fdopen(c01_pipe_fd(t, n), "rb");
}

/* ---- read(2) schedule: d<text> data available, i EINTR, a EAGAIN, e EOF, x EIO ---- */
static int c01_sched_fd = -1;
static char *c01_sched_data[64];
static size_t c01_sched_len[64], c01_sched_off;
static char c01_sched_kind[64];
static int c01_sched_n, c01_sched_pos, c01_zero_reads;

static int c01_sched_open(char *tok)
{
    char *p = tok;
    c01_sched_n = c01_sched_pos = 0;
    c01_sched_off = 0;
    c01_zero_reads = 0;
    while (p && *p && *p != '-' && c01_sched_n < 64) {
        char *q = strchr(p, ':');
        if (q) *q = 0;
        c01_sched_kind[c01_sched_n] = p[0];
        c01_sched_data[c01_sched_n] = (p[0] == 'd') ? c01_text(p + 1, &c01_sched_len[c01_sched_n]) : NULL;
        c01_sched_n++;
        p = q ? q + 1 : NULL;
    }
    c01_sched_fd = open("/dev/null", O_RDONLY);
    return c01_sched_fd;
}
static void c01_sched_close(int fd)
{
    int i;
    for (i = 0; i < c01_sched_n; i++) free(c01_sched_data[i]);
    c01_sched_n = 0;
    c01_sched_fd = -1;
    close(fd);
}

ssize_t __real_read(int fd, void *buf, size_t count);
ssize_t __wrap_read(int fd, void *buf, size_t count)
{
    ssize_t r;
    if (fd != c01_sched_fd) {
        r = __real_read(fd, buf, count);
    } else if (c01_sched_pos >= c01_sched_n) {
        r = 0;                                           /* schedule exhausted: end of file */
    } else {
        int k = c01_sched_pos;
        switch (c01_sched_kind[k]) {
        case 'd': {
            size_t avail = c01_sched_len[k] - c01_sched_off;
            size_t n = (avail < count) ? avail : count;
            if (c01_sched_len[k] == 0) { c01_sched_pos++; r = 0; break; }
            memcpy(buf, c01_sched_data[k] + c01_sched_off, n);
            c01_sched_off += n;
            if (c01_sched_off >= c01_sched_len[k]) { c01_sched_pos++; c01_sched_off = 0; }
            r = (ssize_t) n;
            break;
        }
        case 'i': c01_sched_pos++; errno = EINTR; r = -1; break;
        case 'a': c01_sched_pos++; errno = EAGAIN; r = -1; break;
        case 'e': c01_sched_pos++; r = 0; break;
        default:  c01_sched_pos++; errno = EIO; r = -1; break;
        }
    }
    if (r == 0) {
        /* a caller that keeps reading at end of file never terminates: make that a crash */
        if (++c01_zero_reads > 1000) { fprintf(stderr, "endless read loop at end of file\n"); abort(); }
    }
    return r;
}

/* ---- the two instantiations ---- */
#define PFX(x) str_##x
#define F(x) spif_str_##x
#define T spif_str_t
#define RUN run_str
#include "c01_body.h"
#undef PFX
#undef F
#undef T
#undef RUN

#define PFX(x) ustr_##x
#define F(x) spif_ustr_##x
#define T spif_ustr_t
#define RUN run_ustr
#include "c01_body.h"

static void run_case(int ntok, char **tok)
{
    c01_zero_reads = 0;
    if (ntok >= 2 && !strcmp(tok[0], "str")) run_str(ntok, tok);
    else if (ntok >= 2 && !strcmp(tok[0], "ustr")) run_ustr(ntok, tok);
    else printf("HARNESS-ERROR:bad-case");
}
