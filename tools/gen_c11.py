#!/usr/bin/env python3
"""Derive coq/Gen/ConfGen.v from the source tree (properties C09 and C11): the C types behind the
four table indices and the four table capacities of src/conf.c (their widths in bits), the initial
capacities set by spifconf_init_subsystem, the sizes of the first-line buffer and of the magic-string
buffer of spifconf_open_file, and PATH_MAX as the configured headers define it (gcc -E -dM on
config.h + libast.h, so the libast.h fallback of 255 is honoured).

A missing anchor is reported on stderr AND recorded in the generated file as an entry of
`confgen_errors`; theorem LV.Properties.C11.C11_source_shape (`confgen_errors = []`) then no longer
compiles, and the constant concerned is emitted as 0 so that the model disagrees with the
implementation as well.  The script exits 0 in that case so that an unrecognisable source breaks
properties C09/C11 only (lib/vlib.py runs every tools/gen_*.py before every check).  Exit status 3
only if a source file cannot be read.  The file is rewritten only on change."""
import os, re, subprocess, sys

repo = sys.argv[1] if len(sys.argv) > 1 else os.environ.get('VERIF_REPO', '/repo')
out = sys.argv[2] if len(sys.argv) > 2 else os.path.join(os.path.dirname(os.path.abspath(__file__)), '..', 'coq', 'Gen', 'ConfGen.v')
errors = []


def err(msg):
    sys.stderr.write('gen_c11: %s\n' % msg)
    errors.append(msg)


def read(rel):
    try:
        with open(os.path.join(repo, rel), errors='replace') as f:
            return f.read()
    except OSError as e:
        sys.stderr.write('gen_c11: cannot read %s: %s\n' % (rel, e))
        sys.exit(3)


conf = read('src/conf.c')
lah = read('include/libast.h')
defs = []   # (name, value, provenance)

WIDTH = {'unsigned char': 8, 'spif_uint8_t': 8, 'unsigned short': 16, 'spif_uint16_t': 16, 'unsigned int': 32,
         'unsigned': 32, 'spif_uint32_t': 32, 'unsigned long': 64, 'size_t': 64, 'spif_uint64_t': 64}


def var_width(text, var, where):
    """width of the unsigned integer type in the file-scope declaration that declares `var`"""
    for m in re.finditer(r'^(?:static\s+|extern\s+)?((?:unsigned\s+)?\w+)\s+([^;()=]*\b%s\b[^;()]*);' % re.escape(var), text, flags=re.M):
        ty = ' '.join(m.group(1).split())
        names = [x.split('=')[0].strip() for x in m.group(2).split(',')]
        if var in names:
            if ty in WIDTH:
                return WIDTH[ty]
            err('%s: type "%s" of %s is not a known unsigned integer type' % (where, ty, var))
            return 0
    err('anchor not found: declaration of %s in %s' % (var, where))
    return 0


for v in ('ctx_idx', 'ctx_state_idx', 'builtin_idx'):
    defs.append((v + '_bits', var_width(conf, v, 'src/conf.c'), 'src/conf.c declaration of ' + v))
defs.append(('fstate_idx_bits', var_width(conf, 'fstate_idx', 'src/conf.c'), 'src/conf.c declaration of fstate_idx'))
for v in ('ctx_cnt', 'ctx_state_cnt', 'fstate_cnt', 'builtin_cnt'):
    defs.append((v + '_bits', var_width(conf, v, 'src/conf.c'), 'src/conf.c declaration of ' + v))

m = re.search(r'^spifconf_init_subsystem\(void\)\s*\{(.*?)^\}', conf, flags=re.M | re.S)
body = m.group(1) if m else ''
if not m:
    err('anchor not found: body of spifconf_init_subsystem')
for v in ('ctx_cnt', 'ctx_state_cnt', 'fstate_cnt', 'builtin_cnt'):
    mm = re.search(r'\b%s\s*=\s*(\d+)\s*;' % v, body)
    if not mm:
        err('anchor not found: initial value of %s in spifconf_init_subsystem' % v)
    defs.append((v + '_init', int(mm.group(1)) if mm else 0, 'spifconf_init_subsystem: ' + v))
nb = len(re.findall(r'spifconf_register_builtin\(', body))
if nb == 0:
    err('anchor not found: predefined built-ins in spifconf_init_subsystem')
defs.append(('builtin_predefined', nb, 'spifconf_init_subsystem: calls of spifconf_register_builtin'))

m = re.search(r'^spifconf_open_file\([^)]*\)\s*\{(.*?)^\}', conf, flags=re.M | re.S)
ob = m.group(1) if m else ''
mm = re.search(r'spif_char_t\s+buff\[(\d+)\]\s*,\s*test\[(\d+)\]', ob)
if not mm:
    err('anchor not found: buff[]/test[] in spifconf_open_file')
defs.append(('open_buff_size', int(mm.group(1)) if mm else 0, 'spifconf_open_file buff[]'))
defs.append(('open_test_size', int(mm.group(2)) if mm else 0, 'spifconf_open_file test[]'))
mm = re.search(r'fgets\(\(char \*\) buff, (\d+), fp\)', ob)
if not mm:
    err('anchor not found: fgets size in spifconf_open_file')
defs.append(('open_fgets_size', int(mm.group(1)) if mm else 0, 'spifconf_open_file fgets size'))

# the name[] / full_path[] buffers of spifconf_find_file are PATH_MAX long
m = re.search(r'^spifconf_find_file\([^)]*\)\s*\{(.*?)^\}', conf, flags=re.M | re.S)
fb = m.group(1) if m else ''
if not re.search(r'static\s+spif_char_t\s+name\[PATH_MAX\]\s*,\s*full_path\[PATH_MAX\]', fb):
    err('anchor not found: name[PATH_MAX], full_path[PATH_MAX] in spifconf_find_file')
if not re.search(r'\bshort\s+n\s*;', fb):
    err('anchor not found: "short n" in spifconf_find_file')
if not re.search(r'spif_int32_t\s+len\s*,\s*maxpathlen', fb):
    err('anchor not found: "spif_int32_t len, maxpathlen" in spifconf_find_file')

path_max = 0
try:
    p = subprocess.run(['gcc', '-E', '-dM', '-DHAVE_CONFIG_H', '-I' + repo, '-I' + os.path.join(repo, 'include'),
                        '-I' + os.path.join(repo, 'include', 'libast'), '-include', os.path.join(repo, 'config.h'),
                        os.path.join(repo, 'include', 'libast.h')], stdout=subprocess.PIPE, stderr=subprocess.PIPE, timeout=60)
    mm = re.search(r'^#define PATH_MAX (\d+)\s*$', p.stdout.decode(errors='replace'), flags=re.M)
    if mm:
        path_max = int(mm.group(1))
    else:
        err('PATH_MAX not found in the preprocessor output of config.h + libast.h')
except Exception as e:      # noqa
    err('gcc -E -dM failed: %s' % e)
defs.append(('conf_path_max', path_max, 'PATH_MAX from gcc -E -dM on config.h + include/libast.h'))

lines = ['(* GENERATED by tools/gen_c11.py from the source tree - do not edit *)',
         'From Coq Require Import ZArith List String.', 'Import ListNotations.', 'Local Open Scope Z_scope.', '']
for name, val, prov in defs:
    lines.append('(* %s *)' % prov)
    lines.append('Definition %s : Z := %d.' % (name, val))
lines.append('(* anchors that were not found (must be empty) *)')
lines.append('Definition confgen_errors : list string := [%s].' % '; '.join('"%s"%%string' % e.replace('"', "'") for e in errors))
text = '\n'.join(lines) + '\n'
try:
    with open(out) as f:
        old = f.read()
except OSError:
    old = None
if old != text:
    with open(out, 'w') as f:
        f.write(text)
sys.exit(0)
