#!/usr/bin/env python3
"""run seedrun for the seeded/ directories that have no coordinator result yet"""
import glob, json, os, re, subprocess, sys
here = os.path.dirname(os.path.dirname(os.path.abspath(__file__)))
res_p = os.path.join(here, 'seeded', 'RESULTS.json')
results = json.load(open(res_p)) if os.path.exists(res_p) else {}
for d in sorted(glob.glob(os.path.join(here, 'seeded', 'C*-*'))):
    patch = os.path.join(d, 'patch.diff')
    key = os.path.relpath(patch, here)
    if not os.path.exists(patch) or (key in results and '--all' not in sys.argv):
        continue
    pid = os.path.basename(d)[:3]
    out = subprocess.run([os.path.join(here, 'tools', 'seedrun.py'), pid, patch], stdout=subprocess.PIPE, stderr=subprocess.STDOUT).stdout.decode(errors='replace')
    m = re.search(r'RESULT (.*)', out)
    vio = [l for l in out.split('\n') if l.startswith('VIOLATION')]
    rep = [l.strip() for l in out.split('\n') if l.strip().startswith('replay:')]
    r = dict(property=pid, result=(m.group(1) if m else 'error'), violation=(vio[0] if vio else None), replay=(rep[0][:400] if rep else None))
    results[key] = r
    print(key, '->', r['result'], '|', (r['violation'] or '')[-70:]); sys.stdout.flush()
    mp = os.path.join(d, 'meta.json')
    try:
        meta = json.load(open(mp))
    except Exception:
        meta = {}
    meta['coordinator'] = dict(ran='tools/seedrun.py %s %s' % (pid, key), **r)
    json.dump(meta, open(mp, 'w'), indent=1)
    json.dump(results, open(res_p, 'w'), indent=1)
