#!/bin/sh
# run every claimed check (tier $1, default quick) against /repo, one line per property
tier=${1:-quick}
for p in $(python3 -c "import json;print(' '.join(c['property_id'] for c in json.load(open('/verif/MANIFEST.json'))['checks']))"); do
  s=$(date +%s); out=$(/verif/bin/check $p $tier 2>&1); rc=$?; e=$(date +%s)
  echo "$p rc=$rc $((e-s))s $(echo "$out" | grep -c '^VIOLATION') violation(s) $(echo "$out" | grep -c '^KNOWN-FINDING') known"
  echo "$out" | grep '^VIOLATION'
done
