#!/bin/sh
# usage: ls -d seeded/*-rN-* | xargs -P 5 -n 1 tools/parseed.sh   (one property at a time per worker; logs in /tmp/seedlogs; then tools/mergeseeds.py)
d=$1; name=$(basename $d); pid=$(echo $name | cut -c1-3)
mkdir -p /tmp/seedlogs; /verif/tools/seedrun.py $pid $d/patch.diff > /tmp/seedlogs/$name.log 2>&1
echo "$name $(grep RESULT /tmp/seedlogs/$name.log)"
