#!/usr/bin/env python3
"""Regenerate the `fixed` list of known_findings.json from /repo's `fix:` commits (hash, property, what failed).
The property is chosen from the files and words of the commit; OVERRIDE pins the cases the rule gets wrong."""
import json, os, re, subprocess
here = os.path.dirname(os.path.dirname(os.path.abspath(__file__)))
OVERRIDE = {}
def prop_of(subject, files):
    s = subject.lower()
    f = ' '.join(files)
    if 'version_compare' in s: return 'C17'
    if 'condense_whitespace' in s: return 'C13'
    if 'tok_eval dereferenced the null buffer' in s: return 'C05'
    if 'split' in s or 'num_words' in s or 'tok_eval' in s: return 'C12'
    if 'url_dup' in s or 'url_unparse turned' in s: return 'C05'
    if 'url' in s and 'url.c' in f: return 'C14'
    if 'mbuff_dup' in s: return 'C05'
    if 'mbuff_done leaked' in s: return 'C06'
    if 'mbuff' in s: return 'C07'
    if 'spifmem' in s or 'mem.c' in f: return 'C15'
    if 'socket_comp' in s or 'set_program_name' in s or 'iterator()' in s or 'iterator comp' in s or 'item comp' in s: return 'C16'
    if 'socket' in s: return 'C19'
    if 'options.c' in f: return 'C08'
    if 'msgs.c' in f or 'libast.h' in f and ('assert' in s or 'debug' in s or 'silenced' in s): return 'C20'
    if 'conf.c' in f:
        if 'expand' in s or '$' in s or '%' in s or 'builtin' in s or 'put_var' in s or 'get_var' in s: return 'C10'
        if 'find_file' in s or 'free_subsystem' in s or 'temp' in s or 'open_file' in s: return 'C11'
        return 'C09'
    if 'objpair' in s: return 'C06'
    if ' dup' in s and ('array' in s or 'list' in s): return 'C05'
    if 'map' in s: return 'C03'
    if 'dlinked_list insert dereferenced' in s: return 'C04'
    if 'array' in s or 'linked_list' in s or 'dlinked_list' in s: return 'C02'
    if 'str.c' in f or 'ustr.c' in f: return 'C01'
    if 'obj.h' in f or 'obj.c' in f or 'tok.c' in f or 'regexp.c' in f or 'url.c' in f or ' dup' in s or '_dup' in s or '_comp' in s: return 'C05'
    return 'C??'
log = subprocess.run(['git', '-C', '/repo', 'log', '--reverse', '--format=%h\t%s'], stdout=subprocess.PIPE).stdout.decode().strip().split('\n')
fixed = []
for line in log:
    h, subj = line.split('\t', 1)
    if not subj.startswith('fix:'):
        continue
    files = subprocess.run(['git', '-C', '/repo', 'show', '--name-only', '--format=', h], stdout=subprocess.PIPE).stdout.decode().split()
    p = OVERRIDE.get(h) or prop_of(subj, files)
    fixed.append('fixed: property=%s %s %s [%s]' % (p, h, subj[4:].strip(), ', '.join(files)))
kf = os.path.join(here, 'known_findings.json')
d = json.load(open(kf))
d['fixed'] = fixed
json.dump(d, open(kf, 'w'), indent=1)
print(len(fixed), 'fix commits;', sorted(set(x.split()[1] for x in fixed)))
print([x for x in fixed if 'C??' in x])
