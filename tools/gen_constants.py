#!/usr/bin/env python3
"""Derive coq/Gen/Constants.v from the current source tree.  Every constant is located by
an anchored regular expression; a missing anchor is an error (never a silent default).
The file is only rewritten when its content changes, so make does not rebuild needlessly."""
import os, re, sys

repo = sys.argv[1] if len(sys.argv) > 1 else os.environ.get('VERIF_REPO', '/repo')
out = os.path.join(os.path.dirname(os.path.abspath(__file__)), '..', 'coq', 'Gen', 'Constants.v')

def src(rel):
    with open(os.path.join(repo, rel), errors='replace') as f:
        return f.read()

class Missing(Exception):
    pass

missing = []

def need(text, pat, what, flags=0):
    """a missing anchor drops the constants of its group from Constants.v (so exactly the Coq files
    that use them stop compiling, and only the properties resting on those files are affected);
    it is never replaced by a default"""
    m = re.search(pat, text, flags)
    if not m:
        sys.stderr.write('gen_constants: anchor not found: %s\n' % what)
        missing.append(what)
        raise Missing(what)
    return m

def group(fn):
    try:
        fn()
    except Missing:
        pass

consts = []   # (name, coq type, coq value, provenance)

def add(name, val, prov, ty='Z'):
    consts.append((name, ty, val, prov))

def _g0():
    global strc, ustrc, mb, lah, bh
    strc = src('src/str.c')
    m = need(strc, r'static\s+const\s+size_t\s+buff_inc\s*=\s*(\d+)\s*;', 'str.c buff_inc')
    add('str_buff_inc', m.group(1), 'src/str.c buff_inc')
group(_g0)

def _g1():
    global strc, ustrc, mb, lah, bh
    ustrc = src('src/ustr.c')
    m = need(ustrc, r'const\s+size_t\s+buff_inc\s*=\s*(\d+)\s*;', 'ustr.c buff_inc')
    add('ustr_buff_inc', m.group(1), 'src/ustr.c buff_inc')
group(_g1)

def _g2():
    global strc, ustrc, mb, lah, bh
    mb = src('src/mbuff.c')
    m = need(mb, r'static\s+const\s+size_t\s+buff_inc\s*=\s*(\d+)\s*;', 'mbuff.c buff_inc')
    add('mbuff_buff_inc', m.group(1), 'src/mbuff.c buff_inc')

group(_g2)

def _g3():
    global strc, ustrc, mb, lah, bh
    lah = src('include/libast.h')
    m = need(lah, r'#\s*define\s+CONFIG_BUFF\s+(\d+)', 'libast.h CONFIG_BUFF')
    add('config_buff', m.group(1), 'include/libast.h CONFIG_BUFF')

group(_g3)

def _g4():
    global strc, ustrc, mb, lah, bh
    # Jenkins mix: nine lines "x -= y; x -= z; x ^= (w >> n);" translated to data
    m = need(lah, r'#\s*define\s+SPIFHASH_JENKINS_MIX\(a,\s*b,\s*c\)(.*?)\n\}', 'libast.h SPIFHASH_JENKINS_MIX', re.S)
    steps = re.findall(r'(\w)\s*-=\s*(\w)\s*;\s*(\w)\s*-=\s*(\w)\s*;\s*(\w)\s*\^=\s*\(\s*(\w)\s*(<<|>>)\s*(\d+)\s*\)\s*;', m.group(1))
    body = re.sub(r'[\\\s{}]', '', m.group(1))
    rebuilt = ''.join('%s-=%s;%s-=%s;%s^=(%s%s%s);' % st for st in steps)
    if len(steps) != 9 or body != rebuilt or any(not (st[0] == st[2] == st[4]) for st in steps):
        sys.stderr.write('gen_constants: SPIFHASH_JENKINS_MIX has an unexpected shape\n'); missing.append('mix shape'); raise Missing('mix')
    reg = {'a': 'RA', 'b': 'RB', 'c': 'RC'}
    mix = '[' + ';\n   '.join('(%s, %s, %s, %s, %s, %s)' % (reg[t], reg[s1], reg[s2], reg[w], 'true' if d == '<<' else 'false', amt)
                            for (t, s1, _, s2, _, w, d, amt) in steps) + ']'
    consts.append(('__raw__', '', 'Inductive reg : Set := RA | RB | RC.', 'register names of the mix'))
    add('jenkins_mix_steps', mix, 'include/libast.h SPIFHASH_JENKINS_MIX: (target, minus1, minus2, xor source, shift left?, amount)',
        'list (reg * reg * reg * reg * bool * Z)')

group(_g4)

def _g5():
    global strc, ustrc, mb, lah, bh
    bh = src('src/builtin_hashes.c')
    m = need(lah + bh, r'#\s*define\s+BUILTIN_RANDOM_SEED\s+\(*\s*(?:\(\s*spif_uint32_t\s*\))?\s*\(*\s*(0x[0-9a-fA-F]+|\d+)', 'BUILTIN_RANDOM_SEED')
    add('builtin_random_seed', str(int(m.group(1), 0)), 'BUILTIN_RANDOM_SEED')
group(_g5)

def _g6():
    global strc, ustrc, mb, lah, bh
    m = need(bh, r'seed\s*=\s*\(spif_uint32_t\)\s*(0x[0-9a-fA-F]+)\s*;\s*/\*\s*FNV-1a', 'builtin_hashes.c FNV init')
    add('fnv_init', str(int(m.group(1), 0)), 'src/builtin_hashes.c FNV-1a initial value')
    m = need(bh, r'#ifdef __GNUC__\s*hash \+= ((?:\(hash << \d+\)\s*\+?\s*)+);', 'builtin_hashes.c FNV shift-add')
    add('fnv_shifts', '[' + '; '.join(re.findall(r'<< (\d+)', m.group(1))) + ']', 'src/builtin_hashes.c FNV shift-add form (hash += sum of hash << k)', 'list Z')
    m = need(bh, r'hash \*= \(spif_uint32_t\) (0x[0-9a-fA-F]+);', 'builtin_hashes.c FNV prime')
    add('fnv_prime', str(int(m.group(1), 0)), 'src/builtin_hashes.c FNV prime (non-GNUC branch)')
group(_g6)

def _g7():
    global strc, ustrc, mb, lah, bh
    m = need(bh, r'hash = \(hash << (\d+)\) \^ \(hash >> (\d+)\) \^ key\[i\];\s*\}\s*return \(hash \^ \(hash >> (\d+)\) \^ \(hash >> (\d+)\)\);', 'builtin_hashes.c rotating')
    add('rotating_shifts', '(%s, %s, %s, %s)' % m.groups(), 'src/builtin_hashes.c rotating hash: <<, >>, final >>, >>', 'Z * Z * Z * Z')
group(_g7)

def _g8():
    global strc, ustrc, mb, lah, bh
    m = need(bh, r'hash \+= key\[i\];\s*hash \+= \(hash << (\d+)\);\s*hash \^= \(hash >> (\d+)\);\s*\}\s*hash \+= \(hash << (\d+)\);\s*hash \^= \(hash >> (\d+)\);\s*hash \+= \(hash << (\d+)\);', 'builtin_hashes.c one-at-a-time')
    add('oaat_shifts', '(%s, %s, %s, %s, %s)' % m.groups(), 'src/builtin_hashes.c one-at-a-time shifts', 'Z * Z * Z * Z * Z')


group(_g8)

lines = ['(* GENERATED by tools/gen_constants.py from %s - do not edit *)' % 'the source tree',
         'From Coq Require Import ZArith List String.', 'Import ListNotations.',
         'Local Open Scope Z_scope.', '']
for (n, ty, v, prov) in consts:
    lines.append('(* %s *)' % prov)
    if n == '__raw__':
        lines.append(v)
    else:
        lines.append('Definition %s : %s := %s.' % (n, ty, v))
text = '\n'.join(lines) + '\n'
os.makedirs(os.path.dirname(out), exist_ok=True)
old = None
if os.path.exists(out):
    with open(out) as f:
        old = f.read()
if missing:
    sys.stderr.write('gen_constants: %d anchor(s) missing; their constants are absent from Constants.v\n' % len(missing))
if old != text:
    with open(out, 'w') as f:
        f.write(text)
