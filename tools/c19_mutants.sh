#!/bin/bash
# Apply every mutants/C19-*.patch to a copy of a (repaired) tree, run the library's own suite and the C19 check.
# usage: tools/c19_mutants.sh <repaired tree> [patch name ...]     (scratch copy under /tmp, removed afterwards)
set -u
here=$(cd "$(dirname "$0")/.." && pwd)
src=${1:?repaired tree}; shift
pats=("$@"); [ ${#pats[@]} -eq 0 ] && pats=($(ls $here/mutants/C19-*.patch | xargs -n1 basename))
base=$(mktemp -d /tmp/c19-mut.XXXXXX)
# the suite's socket test binds the fixed endpoint 127.0.0.1:31737; wait until no connection (TIME_WAIT of an earlier run,
# another tree's run) holds it, and retry when the bind still loses the race
portfree() { for w in $(seq 1 90); do awk '$2 ~ /:7BF9$/ || $3 ~ /:7BF9$/' /proc/net/tcp | grep -q . || return 0; sleep 2; done; }
suite() { for i in $(seq 1 20); do portfree; make -C "$1" test > "$2" 2>&1; grep -q 'Address already in use' "$2" || break; sleep $((RANDOM % 5 + 2)); done; grep passed "$2" > "$2.passed"; }
cp -a "$src" $base/ref; suite $base/ref $base/ref.log
for p in "${pats[@]}"; do
  d=$base/m; rm -rf $d; cp -a "$src" $d
  (cd $d && patch -p1 -s < $here/mutants/$p) || { echo "$p: DOES NOT APPLY"; continue; }
  suite $d $base/m.log
  if cmp -s $base/ref.log.passed $base/m.log.passed; then s=suite-same; else s=SUITE-DIFFERS; fi
  out=$(cd $here && VERIF_REPO=$d bin/check C19 quick 2>&1 | grep -E '^(VIOLATION|KNOWN)' | head -3)
  echo "$p: $s: ${out:-NO VIOLATION}"
  r=$(echo "$out" | sed -n 's/.*replay=\([^ ]*\).*/\1/p' | head -1)
  [ -n "$r" ] && python3 -c "
import json,sys
p=json.load(open('$r'))
print('    case:', p.get('case'), '| impl:', (p.get('impl') or '')[:80], '|', (p.get('msg') or p.get('theorem') or '')[:200])
print('    broken:', p.get('broken_theorem') or p.get('theorem'))"
done
rm -rf $base
