#!/bin/sh
# usage: mkseedwt.sh <dir>   - a scratch git worktree of /repo (HEAD) that can build and run the suite
set -e
d=$1
git -C /repo worktree add -q --detach "$d" HEAD
rsync -a --ignore-existing /repo/ "$d"/ --exclude .git --exclude '*.o' --exclude '*.lo' --exclude '.libs' --exclude '*.la' --exclude 'test/libast-test' --exclude '.deps'
echo "$d"
