#!/usr/bin/env python3
"""Rewrite DESIGN.md section 12.2 (between the STATUS markers) from MANIFEST.json, evidence/*.json,
seeded/RESULTS.json and known_findings.json."""
import json, os, re
here = os.path.dirname(os.path.dirname(os.path.abspath(__file__)))
man = json.load(open(os.path.join(here, 'MANIFEST.json')))
res_p = os.path.join(here, 'seeded', 'RESULTS.json')
res = json.load(open(res_p)) if os.path.exists(res_p) else {}
kf = json.load(open(os.path.join(here, 'known_findings.json')))
lines = []
lines.append('| Prop | theorems (discharged/obligations) | axioms | cases in last quick run (A/B disagreements) | fix commits in /repo | seeded changes + mutants caught |')
lines.append('|------|------|------|------|------|------|')
for c in man['checks']:
    pid = c['property_id']
    try:
        ev = json.load(open(os.path.join(here, 'evidence', pid + '.json')))
        cov = ev['coverage']
    except Exception:
        cov = {}
    ax = [t for t in cov.get('trusted_base', []) if t.startswith('Print Assumptions')]
    nfix = sum(1 for f in kf['fixed'] if 'property=%s ' % pid in f)
    mine = {k: v for k, v in res.items() if v.get('property') == pid}
    caught = sum(1 for v in mine.values() if 'detected=True' in v.get('result', ''))
    nfi = sum(1 for v in mine.values() if v.get('violation') and 'no-failing-input-found' in v['violation'])
    lines.append('| %s | %s/%s | %s | %s (%s/%s) | %d | %d of %d (%d as no-failing-input-found) |' % (
        pid, cov.get('discharged', '?'), cov.get('obligations', '?'),
        (ax[0].replace('Print Assumptions: ', '') if ax else '?'),
        cov.get('evaluations', '?'), cov.get('disagreements_A', '?'), cov.get('disagreements_B', '?'), nfix, caught, len(mine), nfi))
lines.append('')
lines.append('Not claimed: ' + (', '.join('%s (%s)' % (n['property_id'], n['reason'][:60]) for n in man.get('not_applicable', [])) or 'none') + '.')
lines.append('')
lines.append('Seeded changes (written by independent sub-agents from the property text only, kept under `seeded/`) and hand-made mutants (`mutants/`), each applied to a scratch copy of /repo, suite compared with the baseline, then the property\'s quick check run against the copy (`tools/seedrun.py`):')
lines.append('')
lines.append('| change | result | how it was caught |')
lines.append('|---|---|---|')
for k in sorted(res):
    v = res[k]
    how = ''
    if v.get('replay'):
        m = re.search(r"'msg': '([^']*)'", v['replay'])
        c = re.search(r"'case': '([^']*)'", v['replay'])
        t = re.search(r"'(?:broken_theorem|theorem)': '([^']*)'", v['replay'])
        how = (('case `%s`' % c.group(1)[:50]) if c and c.group(1) != 'None' else '') + ((' — ' + m.group(1)[:70]) if m else '')
        if t and t.group(1) not in ('None',):
            how += ' — proof: ' + t.group(1)[:80]
    lines.append('| %s | %s | %s |' % (k, 'caught' + (' (no-failing-input-found)' if v.get('violation') and 'no-failing-input-found' in v['violation'] else '') if 'detected=True' in v.get('result', '') else 'MISSED: ' + v.get('result', ''), how.replace('|', '\\|')))
block = '\n'.join(lines)
p = os.path.join(here, 'DESIGN.md')
s = open(p).read()
B, E = '<!-- STATUS:BEGIN -->', '<!-- STATUS:END -->'
if B not in s:
    s = s.replace('(filled in as properties are integrated; see the end of this file)', B + '\n' + E)
s = s[:s.index(B) + len(B)] + '\n' + block + '\n' + s[s.index(E):]
open(p, 'w').write(s)
print(len(lines), 'lines')
