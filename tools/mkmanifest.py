#!/usr/bin/env python3
"""Write MANIFEST.json from the table below (kept in one place so it is always valid)."""
import json, os
here = os.path.dirname(os.path.dirname(os.path.abspath(__file__)))
TB = ('Coq 8.16.1 kernel incl. vm_compute (no native_compute); Print Assumptions of every theorem is recorded in the '
      'evidence and must be closed or within the stdlib allow-list of DESIGN.md section 6; extraction with ExtrOcamlBasic '
      'only; the correspondence check (extracted OCaml model vs ASan/UBSan build of /repo/src on the same generated cases), '
      'its generators, harness and gcc/sanitizer runtimes; libc functions are modelled, not verified.')
CLAIMED = {
 'C13': dict(
    technique='Rocq theorems about an executable Gallina model of the helpers + extracted-model/implementation correspondence check',
    text=('Exactness and frame theorems (all sizes, sources, prior destination contents, index/count values of either sign, all '
          'byte strings) proved in Rocq about Gallina mirrors of spiftool_safe_strncpy/strncat/substr/downcase/upcase/safe_str; '
          'chomp, condense_whitespace and strrev are modelled and tied by the correspondence check. The model is tied to the '
          'current tree by running its extracted OCaml form and the ASan build of src/strings.c on the same exhaustively enumerated '
          'small cases plus random long strings; a mismatch on an observable the property constrains is a failing input.'),
    design_ref='DESIGN.md section 7, C13'),
}
NOT_YET = {}
props = [json.loads(l) for l in open(os.path.join(here, 'properties.jsonl'))]
checks, na = [], []
for p in props:
    pid = p['id']
    if pid in CLAIMED:
        c = CLAIMED[pid]
        checks.append(dict(property_id=pid, quick_cmd='bin/check %s quick' % pid, thorough_cmd='bin/check %s thorough' % pid,
                           evidence_file='/verif/evidence/%s.json' % pid, replay_cmd_template='bin/check %s --replay {path}' % pid,
                           engine='rocq-model', level_claimed=dict(category='proof', text=c['text'], design_ref=c['design_ref']),
                           level_note=TB, technique=c['technique']))
    else:
        na.append(dict(property_id=pid, reason=NOT_YET.get(pid, 'check not built yet in this round (planned, see DESIGN.md section 7); not a claim that the technique cannot apply')))
man = dict(version=1, setup_cmd='make -C /verif setup',
           hooks=dict(guard='LIBAST_VERIF', enable='checks compile /repo/src/*.c themselves with -DLIBAST_VERIF (no guarded source hooks exist yet)',
                      baseline_off_cmd='make -C /repo test', source_commits=[], add_only=True),
           engines=[dict(name='rocq-model', path='/verif/coq', serves_properties=sorted(CLAIMED),
                         kind_free_text='Rocq/Coq 8.16.1 development (logical root LV) + extracted OCaml model drivers + C harnesses, driven by bin/check')],
           checks=checks, not_applicable=na,
           notes='See DESIGN.md. Defect repairs in /repo are unguarded "fix:" commits listed in known_findings.json.')
with open(os.path.join(here, 'MANIFEST.json'), 'w') as f:
    json.dump(man, f, indent=1)
