#!/usr/bin/env python3
"""Write MANIFEST.json from the table below (kept in one place so it is always valid)."""
import json, os
here = os.path.dirname(os.path.dirname(os.path.abspath(__file__)))
TB = ('Coq 8.16.1 kernel incl. vm_compute (no native_compute); Print Assumptions of every theorem is recorded in the '
      'evidence and must be closed or within the stdlib allow-list of DESIGN.md section 6; extraction with ExtrOcamlBasic '
      'only; the correspondence check (extracted OCaml model vs ASan/UBSan build of /repo/src on the same generated cases), '
      'its generators, harness and gcc/sanitizer runtimes; libc functions are modelled, not verified.')
# every checks/cNN.py that defines CHECK with a MANIFEST dict is a claimed property
import glob, importlib, sys
sys.path.insert(0, os.path.join(here, 'lib')); sys.path.insert(0, os.path.join(here, 'checks'))
READY = set(open(os.path.join(here, 'checks', 'ready.txt')).read().split())   # integrated by the coordinator
CLAIMED = {}
for f in sorted(glob.glob(os.path.join(here, 'checks', 'c[0-9]*.py'))):
    if os.path.basename(f)[:-3].upper() not in READY:
        continue
    mod = importlib.import_module(os.path.basename(f)[:-3])
    chk = getattr(mod, 'CHECK', None)
    if chk is not None and getattr(chk, 'MANIFEST', None) and not getattr(chk, 'DISABLED', False):
        CLAIMED[chk.id] = chk.MANIFEST
NOT_YET = {}
props = [json.loads(l) for l in open(os.path.join(here, 'properties.jsonl'))]
checks, na = [], []
for p in props:
    pid = p['id']
    if pid in CLAIMED:
        c = CLAIMED[pid]
        checks.append(dict(property_id=pid, quick_cmd='bin/check %s quick' % pid, thorough_cmd='bin/check %s thorough' % pid,
                           evidence_file='/verif/evidence/%s.json' % pid, replay_cmd_template='bin/check %s --replay {path}' % pid,
                           engine=c.get('engine', 'rocq-model'), level_claimed=dict(category='proof', text=c['text'], design_ref=c['design_ref']),
                           level_note=TB, technique=c['technique']))
    else:
        na.append(dict(property_id=pid, reason=NOT_YET.get(pid, 'check not built yet in this round (planned, see DESIGN.md section 7); not a claim that the technique cannot apply')))
man = dict(version=1, setup_cmd='make -C /verif setup',
           hooks=dict(guard='LIBAST_VERIF', enable='checks compile /repo/src/*.c themselves with -DLIBAST_VERIF (no guarded source hooks exist yet)',
                      baseline_off_cmd='make -C /repo test', source_commits=[], add_only=True),
           engines=[dict(name='rocq-model', path='/verif/coq', serves_properties=sorted(CLAIMED),
                         kind_free_text='Rocq/Coq 8.16.1 development (logical root LV) + extracted OCaml model drivers + C harnesses, driven by bin/check')],
           checks=checks, not_applicable=na,
           notes='See DESIGN.md. Defect repairs in /repo are unguarded "fix:" commits listed in known_findings.json.')
with open(os.path.join(here, 'MANIFEST.json'), 'w') as f:
    json.dump(man, f, indent=1)
