#!/usr/bin/env python3
"""C20 translator: include/libast.h debugging macros -> coq/Gen/DebugLadder.v.

Four blocks of the header are located by explicit anchors (the doc comment that precedes them or a
banner line) and parsed completely:

  hdr     the #if defined(__FILE__) ... block that defines __DEBUG()
  assert  the #if DEBUG >= 1 block that defines ASSERT*, ABORT, REQUIRE*
  dprintf the #if DEBUG >= 1 block that defines DPRINTF, DPRINTF1..9
  d       from `#define D_NEVER(x)` to the MEM GOOP banner: DEBUG_X levels, D_X_IF, D_X

Every #define inside a block becomes one alternative (path of compile-time conditions, body) of its
macro; bodies are parsed by a small recursive-descent parser into the language of
coq/Debug/LadderLang.v.  Anything that does not fit - an unknown directive, a statement form outside
the grammar, a call with the macro parameter among literal arguments, a macro that cannot be put into a
family, a second definition elsewhere in the header - is an error (exit status 3): the framework
reports it as a broken tie.  Nothing is defaulted.

Usable as a module: generate(repo) -> (coq_text, info) where info (a dict) is what checks/c20.py
builds its probe programs from."""
import hashlib, json, os, re, sys


class GenError(Exception):
    pass


def err(msg):
    raise GenError(msg)


def src(repo, rel):
    p = os.path.join(repo, rel)
    try:
        with open(p, errors='replace') as f:
            return f.read()
    except OSError as e:
        err('cannot read %s: %s' % (p, e))


# --------------------------------------------------------------------------------------
# lexical level
# --------------------------------------------------------------------------------------
def logical_lines(text, first_line):
    """join backslash-newline, strip comments; return list of (line number, text)"""
    out = []
    lines = text.split('\n')
    i = 0
    buf, start = '', None
    while i < len(lines):
        l = lines[i]
        if start is None:
            start = first_line + i
        if l.rstrip().endswith('\\'):
            buf += l.rstrip()[:-1] + ' '
        else:
            buf += l
            out.append((start, buf))
            buf, start = '', None
        i += 1
    if buf.strip():
        err('line %d: backslash at end of block' % start)
    # comments (after splicing, as translation phase 3 does); a comment may span logical lines
    res = []
    in_c = False
    for (ln, l) in out:
        s = ''
        j = 0
        while j < len(l):
            if in_c:
                k = l.find('*/', j)
                if k < 0:
                    j = len(l)
                else:
                    in_c = False
                    s += ' '
                    j = k + 2
            elif l.startswith('/*', j):
                in_c = True
                j += 2
            elif l[j] == '"':
                m = re.compile(r'"(?:\\.|[^"\\])*"').match(l, j)
                if not m:
                    err('line %d: unterminated string literal' % ln)
                s += m.group(0)
                j = m.end()
            else:
                s += l[j]
                j += 1
        res.append((ln, s))
    if in_c:
        err('unterminated comment in block')
    return [(ln, s) for (ln, s) in res if s.strip()]


TOKEN = re.compile(r'\s*(?:(?P<str>"(?:\\.|[^"\\])*")|(?P<id>[A-Za-z_]\w*)|(?P<num>\d+)|(?P<hash>#\s*[A-Za-z_]\w*)|(?P<op>>=|<=|==|!=|[(){};,!<>]))')


def tokenize(s, where):
    toks = []
    pos = 0
    s = s.rstrip()
    while pos < len(s):
        m = TOKEN.match(s, pos)
        if not m:
            err('%s: cannot tokenize macro body at: %r' % (where, s[pos:pos + 40]))
        pos = m.end()
        if m.group('str') is not None:
            toks.append(('str', m.group('str')))
        elif m.group('id') is not None:
            toks.append(('id', m.group('id')))
        elif m.group('num') is not None:
            toks.append(('num', m.group('num')))
        elif m.group('hash') is not None:
            toks.append(('hash', m.group('hash')[1:].strip()))
        else:
            toks.append(('op', m.group('op')))
    return toks


# --------------------------------------------------------------------------------------
# bodies
# --------------------------------------------------------------------------------------
CMP_OPS = {'>=': 'Ge', '>': 'Gt', '<=': 'Le', '<': 'Lt', '==': 'Eq', '!=': 'Ne'}
PRIMS = {'libast_dprintf': 'PDprintf', 'libast_print_warning': 'PWarn', 'libast_print_error': 'PError',
         'libast_fatal_error': 'PFatal', 'fprintf': 'PRaw'}
LITERAL_IDS = {'__FUNCTION__', '__FILE__', '__LINE__', 'time', 'NULL', 'unsigned', 'long', 'LIBAST_DEBUG_FD'}


class BodyParser:
    """tokens -> term (nested tuples).  ctx: dict(cond=param or None, val=param or None, args=param or None,
    levels={DEBUG_X: int}, where=str).  Records the names it refers to in self.calls / self.unders."""

    def __init__(self, toks, ctx):
        self.t = toks
        self.i = 0
        self.ctx = ctx
        self.calls = []
        self.unders = []

    def fail(self, msg):
        rest = ' '.join(v for (_, v) in self.t[self.i:self.i + 8])
        err('%s: %s (at: %s)' % (self.ctx['where'], msg, rest or '<end>'))

    def peek(self, k=0):
        return self.t[self.i + k] if self.i + k < len(self.t) else (None, None)

    def eat(self, kind, val=None):
        k, v = self.peek()
        if k != kind or (val is not None and v != val):
            self.fail('expected %s' % (val or kind))
        self.i += 1
        return v

    def at(self, kind, val=None, k=0):
        kk, v = self.peek(k)
        return kk == kind and (val is None or v == val)

    def end(self):
        return self.i >= len(self.t)

    # -- conditions -------------------------------------------------------------------
    def level(self):
        k, v = self.peek()
        if k == 'num':
            self.i += 1
            return int(v)
        if k == 'id' and v in self.ctx['levels']:
            self.i += 1
            return self.ctx['levels'][v]
        self.fail('expected a level (number or DEBUG_X constant defined before use)')

    def rcond(self):
        """after '(' : returns ('rcmp', op, k) | ('rconst', b) | ('notarg',)"""
        if self.at('op', '!'):
            self.eat('op', '!')
            self.eat('op', '(')
            v = self.eat('id')
            if v != self.ctx['cond'] or v is None:
                self.fail('negated condition must be the macro\'s condition parameter')
            self.eat('op', ')')
            return ('notarg',)
        if self.at('id', 'DEBUG_LEVEL'):
            self.eat('id')
            k, v = self.peek()
            if k != 'op' or v not in CMP_OPS:
                self.fail('expected a comparison operator after DEBUG_LEVEL')
            self.i += 1
            return ('rcmp', CMP_OPS[v], self.level())
        if self.at('num'):
            v = self.eat('num')
            if v not in ('0', '1'):
                self.fail('constant condition other than 0/1')
            return ('rconst', v == '1')
        self.fail('condition outside the grammar')

    # -- calls ------------------------------------------------------------------------
    def literal_args(self, fn):
        """'(' already eaten; consume up to the matching ')'.  The arguments may not evaluate a parameter, and
        the call must be `constant format, then one argument per conversion`: the format argument consists of
        string literals only (a format built from the stringified parameter - "text " #x "\\n" - would have the
        parameter's own spelling read as conversions and is outside the grammar), every conversion is one of
        the few plain forms the header uses, and each is matched by an argument of its type; the stringified
        parameter may only be a complete argument of a %s conversion."""
        depth = 1
        params = {self.ctx['cond'], self.ctx['val'], self.ctx['args']} - {None}
        args, cur = [], []
        while True:
            k, v = self.peek()
            if k is None:
                self.fail('unterminated argument list of %s' % fn)
            self.i += 1
            if k == 'op' and v == '(':
                depth += 1
            elif k == 'op' and v == ')':
                depth -= 1
                if depth == 0:
                    break
            elif k == 'op' and v == ',':
                if depth == 1:
                    args.append(cur)
                    cur = []
                    continue
            elif k in ('str', 'num'):
                pass
            elif k == 'hash':
                if v not in params:
                    self.fail('stringification of something that is not a parameter')
            elif k == 'id':
                if v in params:
                    self.fail('macro parameter %s evaluated inside the argument list of %s' % (v, fn))
                if v not in LITERAL_IDS:
                    self.fail('identifier %s not allowed in a literal argument list' % v)
            else:
                self.fail('token not allowed in an argument list')
            cur.append((k, v))
        if not args and not cur:
            self.fail('empty argument list of %s' % fn)
        args.append(cur)
        if any(not a for a in args):
            self.fail('empty argument in the argument list of %s' % fn)
        if self.ctx.get('lenient'):
            return          # listing the macros for the probe programs only (see generate())
        if fn == 'fprintf':
            if args[0] != [('id', 'LIBAST_DEBUG_FD')]:
                self.fail('fprintf to something other than LIBAST_DEBUG_FD')
            args = args[1:]
            if not args:
                self.fail('fprintf without a format')
        for a in args:
            if any(k == 'id' and v == 'LIBAST_DEBUG_FD' for (k, v) in a):
                self.fail('LIBAST_DEBUG_FD used as a message argument')
        fmt, rest = args[0], args[1:]
        if any(k == 'hash' for (k, _) in fmt):
            self.fail('the format string of %s is built from the stringified parameter (its text would be read as conversions); '
                      'the grammar has only `constant format, parameter text as an argument of %%s`' % fn)
        if any(k != 'str' for (k, _) in fmt):
            self.fail('format argument of %s is not a string literal' % fn)
        text = ''.join(v[1:-1] for (_, v) in fmt)
        convs = []
        j = 0
        while True:
            j = text.find('%', j)
            if j < 0:
                break
            m = re.compile(r'%(?:(%)|[-0 ]*\d*(?:\.\d+)?(l?)([dus]))').match(text, j)
            if not m:
                self.fail('conversion outside the grammar in the format of %s: %r' % (fn, text[j:j + 6]))
            if not m.group(1):
                convs.append((m.group(2), m.group(3)))
            j = m.end()
        if len(convs) != len(rest):
            self.fail('the format of %s has %d conversion(s) but %d argument(s) follow' % (fn, len(convs), len(rest)))
        for (ln, cv), a in zip(convs, rest):
            kinds = [k for (k, _) in a]
            if cv == 's':
                ok = (not ln) and (a == [a[0]] and (a[0][0] == 'hash' or a[0] in (('id', '__FILE__'), ('id', '__FUNCTION__')))
                                   or all(k == 'str' for k in kinds))
            elif ln:
                ok = a[:4] in ([('op', '('), ('id', 'unsigned'), ('id', 'long'), ('op', ')')],) and 'hash' not in kinds and 'str' not in kinds \
                    and cv == 'u'
            else:
                ok = cv == 'd' and (a == [('id', '__LINE__')] or (len(a) == 1 and a[0][0] == 'num'))
            if not ok:
                self.fail('argument %s of %s does not fit its conversion %%%s%s' % (' '.join(v for (_, v) in a), fn, ln, cv))

    def call(self):
        fn = self.eat('id')
        if fn == 'libast_dprintf' and self.at('id') and self.peek()[1] == self.ctx['args']:
            self.eat('id')
            return ('out', 'PDprintf', True)
        self.eat('op', '(')
        self.literal_args(fn)
        return ('out', PRIMS[fn], False)

    # -- statements -------------------------------------------------------------------
    def block_or_stmt(self):
        if self.at('op', '{'):
            return self.block()
        return self.stmt(True)

    def block(self):
        self.eat('op', '{')
        items = []
        while not self.at('op', '}'):
            if self.end():
                self.fail('unterminated block')
            items.append(self.stmt(True))
        self.eat('op', '}')
        return seq(items)

    def semi(self, need):
        if self.at('op', ';'):
            self.eat('op', ';')
        elif need:
            self.fail('expected ;')

    def stmt(self, need_semi):
        k, v = self.peek()
        if k == 'op' and v == ';':
            self.i += 1
            return ('nop',)
        if k != 'id':
            self.fail('statement outside the grammar')
        if v == 'do':
            self.eat('id')
            b = self.block()
            self.eat('id', 'while')
            self.eat('op', '(')
            self.eat('num', '0')
            self.eat('op', ')')
            self.semi(need_semi)
            return b
        if v == 'if':
            self.eat('id')
            self.eat('op', '(')
            c = self.rcond()
            self.eat('op', ')')
            t = self.block_or_stmt()
            e = ('nop',)
            if self.at('id', 'else'):
                self.eat('id')
                e = self.block_or_stmt()
            if c[0] == 'notarg':
                if e != ('nop',):
                    self.fail('else branch on the argument test')
                return ('ifnotarg', t)
            return ('if', c, t, e)
        if v == 'return':
            self.eat('id')
            withval = False
            if self.at('op', '('):
                self.eat('op', '(')
                p = self.eat('id')
                self.eat('op', ')')
                withval = True
            elif self.at('id'):
                p = self.eat('id')
                withval = True
            if withval and (self.ctx['val'] is None or p != self.ctx['val']):
                self.fail('return value is not the macro\'s value parameter')
            if not withval and self.ctx['val'] is not None:
                self.fail('bare return in a macro that takes a return value')
            self.semi(need_semi)
            return ('return', withval)
        if v == 'NOP':
            self.eat('id')
            self.semi(need_semi)
            return ('nop',)
        if v in PRIMS:
            c = self.call()
            self.semi(need_semi)
            return c
        # another macro: NAME() ; NAME(x) ; or NAME { ... }
        self.eat('id')
        if self.at('op', '{'):
            b = self.block()
            self.unders.append(v)
            return ('under', v, b)
        if self.at('op', '('):
            self.eat('op', '(')
            nargs = 0
            if not self.at('op', ')'):
                p = self.eat('id')
                if p != self.ctx['args']:
                    self.fail('macro %s applied to something other than the argument-list parameter' % v)
                nargs = 1
            self.eat('op', ')')
            self.semi(need_semi)
            self.calls.append((v, nargs))
            return ('call', v)
        self.fail('identifier %s is not a statement of the grammar' % v)

    def macro_body(self):
        """whole replacement list"""
        if self.end():
            self.fail('empty replacement list')
        # if-prefix macro:  if (cond)
        if self.at('id', 'if'):
            save = self.i
            self.eat('id')
            self.eat('op', '(')
            c = self.rcond()
            self.eat('op', ')')
            if self.end():
                if c[0] == 'notarg':
                    self.fail('prefix macro on the argument')
                return ('prefix', c)
            self.i = save
        b = self.stmt(False)
        if not self.end():
            self.fail('trailing tokens after the statement')
        return ('stmt', b)


def seq(items):
    items = [x for x in items]
    if not items:
        return ('nop',)
    r = items[-1]
    for x in reversed(items[:-1]):
        r = ('seq', x, r)
    return r


# --------------------------------------------------------------------------------------
# blocks
# --------------------------------------------------------------------------------------
RE_IF_DEBUG = re.compile(r'^#\s*if\s+\(?\s*DEBUG\s*(>=|<=|==|!=|>|<)\s*(\w+)\s*\)?\s*$')
RE_IF_FL = re.compile(r'^#\s*if\s+defined\s*\(\s*__FILE__\s*\)\s*&&\s*defined\s*\(\s*__LINE__\s*\)\s*$')
RE_IFDEF_GNUC = re.compile(r'^#\s*ifdef\s+__GNUC__\s*$')
RE_IFNDEF = re.compile(r'^#\s*ifndef\s+(\w+)\s*$')
RE_ELSE = re.compile(r'^#\s*else\s*$')
RE_ENDIF = re.compile(r'^#\s*endif\s*$')
RE_DEFINE = re.compile(r'^#\s*define\s+(\w+)(\(([^)]*)\))?(?:\s+(.*))?$')


def parse_block(lines, levels, single_conditional):
    """lines: logical lines of one block.  Returns list of raw definitions
    (line, name, params or None, body text, path of atoms).  If single_conditional, the block must be
    exactly one #if ... #endif group; otherwise top-level #defines are allowed (the D block)."""
    defs = []
    stack = []      # frames: dict(atom=..., in_else=bool, guard=name or None)
    groups = 0
    for (ln, raw) in lines:
        l = raw.strip()
        if not l.startswith('#'):
            err('line %d: text outside a directive inside an anchored block: %r' % (ln, l[:60]))
        if single_conditional and groups >= 1 and not stack:
            err('line %d: block continues after its #endif' % ln)
        m = RE_IF_DEBUG.match(l)
        if m:
            v = m.group(2)
            if v.isdigit():
                k = int(v)
            elif v in levels:
                k = levels[v]
            else:
                err('line %d: #if DEBUG %s %s: level constant not defined before use' % (ln, m.group(1), v))
            stack.append(dict(atom=('debug', CMP_OPS[m.group(1)], k), in_else=False, guard=None))
            continue
        if RE_IF_FL.match(l):
            stack.append(dict(atom=('fileline',), in_else=False, guard=None))
            continue
        if RE_IFDEF_GNUC.match(l):
            stack.append(dict(atom=('gnuc',), in_else=False, guard=None))
            continue
        m = RE_IFNDEF.match(l)
        if m:
            stack.append(dict(atom=None, in_else=False, guard=m.group(1), seen=0))
            continue
        if RE_ELSE.match(l):
            if not stack or stack[-1]['in_else'] or stack[-1]['guard']:
                err('line %d: unexpected #else' % ln)
            stack[-1]['in_else'] = True
            continue
        if RE_ENDIF.match(l):
            if not stack:
                err('line %d: unbalanced #endif' % ln)
            fr = stack.pop()
            if fr['guard'] and fr['seen'] != 1:
                err('line %d: #ifndef %s must guard exactly one #define of that name' % (ln, fr['guard']))
            if not stack:
                groups += 1
            continue
        m = RE_DEFINE.match(l)
        if m:
            name, hasp, params, body = m.group(1), m.group(2), m.group(3), (m.group(4) or '')
            if single_conditional and not stack:
                err('line %d: #define outside the conditional of the block' % ln)
            plist = None
            if hasp is not None:
                plist = [p.strip() for p in params.split(',')] if params.strip() else []
                for p in plist:
                    if not re.match(r'^[A-Za-z_]\w*$', p):
                        err('line %d: parameter list of %s outside the grammar' % (ln, name))
            for fr in stack:
                if fr['guard']:
                    if fr['guard'] != name:
                        err('line %d: #ifndef %s guards a #define of %s' % (ln, fr['guard'], name))
                    fr['seen'] += 1
            path = [(fr['atom'], not fr['in_else']) for fr in stack if fr['atom'] is not None]
            defs.append((ln, name, plist, body, path))
            continue
        err('line %d: directive outside the grammar: %r' % (ln, l[:80]))
    if stack:
        err('block ends inside a conditional')
    if single_conditional and groups != 1:
        err('block is not a single #if ... #endif group')
    return defs


def find_after_comment(text, marker, what):
    """offset just after the comment that contains marker"""
    k = text.find(marker)
    if k < 0:
        err('anchor not found: %s' % what)
    if text.find(marker, k + 1) >= 0:
        err('anchor not unique: %s' % what)
    e = text.find('*/', k)
    if e < 0:
        err('anchor comment not closed: %s' % what)
    return e + 2


def conditional_extent(text, start, what):
    """text[start:] must begin (after blank lines) with a #if; return end offset after its matching #endif"""
    depth = 0
    pos = start
    seen = False
    for m in re.finditer(r'^[ \t]*#[ \t]*(if|ifdef|ifndef|endif)\b.*$', text[start:], flags=re.M):
        kw = m.group(1)
        if not seen:
            between = text[start:start + m.start()]
            if between.strip():
                err('%s: unexpected text between the anchor and the block: %r' % (what, between.strip()[:60]))
            if kw == 'endif':
                err('%s: block starts with #endif' % what)
            seen = True
        if kw == 'endif':
            depth -= 1
            if depth == 0:
                return start + m.end()
        else:
            depth += 1
    err('%s: conditional block not closed' % what)


def lineno(text, off):
    return text.count('\n', 0, off) + 1


# --------------------------------------------------------------------------------------
# Coq output
# --------------------------------------------------------------------------------------
def coq_z(k):
    return str(k) if k >= 0 else '(%d)' % k


def coq_bool(b):
    return 'true' if b else 'false'


def coq_rcond(c):
    return '(RCmp %s %s)' % (c[1], coq_z(c[2])) if c[0] == 'rcmp' else '(RConst %s)' % coq_bool(c[1])


def coq_body(b):
    k = b[0]
    if k == 'nop':
        return 'Nop'
    if k == 'seq':
        return '(Seq %s %s)' % (coq_body(b[1]), coq_body(b[2]))
    if k == 'if':
        return '(If %s %s %s)' % (coq_rcond(b[1]), coq_body(b[2]), coq_body(b[3]))
    if k == 'ifnotarg':
        return '(IfNotArg %s)' % coq_body(b[1])
    if k == 'out':
        return '(Out %s %s)' % (b[1], coq_bool(b[2]))
    if k == 'return':
        return '(Return %s)' % coq_bool(b[1])
    if k == 'call':
        return '(Call "%s")' % b[1]
    if k == 'under':
        return '(Under "%s" %s)' % (b[1], coq_body(b[2]))
    raise AssertionError(k)


def coq_atom(a, pol):
    if a[0] == 'debug':
        return 'CDebug %s %s %s' % (a[1], coq_z(a[2]), coq_bool(pol))
    if a[0] == 'fileline':
        return 'CFileLine %s' % coq_bool(pol)
    return 'CGnuc %s' % coq_bool(pol)


# --------------------------------------------------------------------------------------
def generate(repo, lenient=False):
    """lenient: do not hold the output calls to the `constant format + matching arguments` grammar.  The
    result is then good for one thing only - the macro list (info) from which checks/c20.py builds its probe
    programs when the strict translation failed on exactly that point, so that the broken tie can be
    turned into a concrete failing cell.  The Coq text of a lenient run is never written anywhere."""
    h = src(repo, 'include/libast.h')
    # ---- single-line anchors -----------------------------------------------------------
    def need(text, pat, what, flags=re.M):
        m = re.search(pat, text, flags)
        if not m:
            err('anchor not found: %s' % what)
        return m
    need(h, r'^#\s*define\s+LIBAST_DEBUG_FD\s+\(stderr\)\s*$', 'libast.h LIBAST_DEBUG_FD is (stderr)')
    need(h, r'^#\s*define\s+DEBUG_LEVEL\s+\(libast_debug_level\)\s*$', 'libast.h DEBUG_LEVEL is (libast_debug_level)')
    need(h, r'^#\s*define\s+NOP\s+\(\(void\)\s*0\)\s*$', 'libast.h NOP is ((void)0)')
    m = need(h, r'^#ifndef DEBUG\s*\n(?:/\*\*.*?\*/\s*\n)?#\s*define\s+DEBUG\s+(\d+)\s*\n#endif', 'libast.h default of DEBUG', re.M | re.S)
    default_c = int(m.group(1))
    dbg = src(repo, 'src/debug.c')
    m = need(dbg, r'^unsigned\s+int\s+libast_debug_level\s*=\s*(\d+)\s*;', 'debug.c libast_debug_level (unsigned int, initial value)')
    initial_r = int(m.group(1))
    msgs = src(repo, 'src/msgs.c')
    need(msgs, r'^static\s+spif_bool_t\s+silent\s*=\s*FALSE\s*;', 'msgs.c static silent flag, initially FALSE')

    # ---- block extents -------------------------------------------------------------------
    blocks = {}
    a = find_after_comment(h, '@def __DEBUG()', 'doc comment of __DEBUG()')
    blocks['hdr'] = (a, conditional_extent(h, a, 'hdr block'))
    a = find_after_comment(h, '@def REQUIRE_RVAL(x, v)', 'doc comment of REQUIRE_RVAL (last before the ASSERT/REQUIRE block)')
    blocks['assert'] = (a, conditional_extent(h, a, 'assert block'))
    a = find_after_comment(h, '@def DPRINTF9(x)', 'doc comment of DPRINTF9 (last before the DPRINTFn block)')
    blocks['dprintf'] = (a, conditional_extent(h, a, 'dprintf block'))
    m1 = list(re.finditer(r'^#define\s+D_NEVER\(x\)', h, flags=re.M))
    m2 = list(re.finditer(r'^/\*+ MEM GOOP \*+/\s*$', h, flags=re.M))
    if len(m1) != 1 or len(m2) != 1 or m2[0].start() < m1[0].start():
        err('anchor not found: D block (#define D_NEVER(x) ... MEM GOOP banner)')
    blocks['d'] = (m1[0].start(), m2[0].start())
    order = ['hdr', 'assert', 'dprintf', 'd']
    for x, y in zip(order, order[1:]):
        if blocks[x][1] > blocks[y][0]:
            err('blocks %s and %s overlap or are out of order' % (x, y))

    # ---- level constants and their documented values (D block, before comment stripping) --------
    dtext = h[blocks['d'][0]:blocks['d'][1]]
    levels, doc_levels = {}, {}
    for m in re.finditer(r'^#define\s+(DEBUG_\w+)\s+(\S+)[ \t]*$', dtext, flags=re.M):
        nm, v = m.group(1), m.group(2)
        if not re.match(r'^\d+$', v):
            err('level constant %s is not a decimal literal: %s' % (nm, v))
        if nm in levels:
            err('level constant %s defined twice' % nm)
        levels[nm] = int(v)
        # the doc comment immediately before the #define
        before = dtext[:m.start()].rstrip()
        mm = re.search(r'/\*\*\s*Set [^*]*? debugging to level (\d+)\.[^*]*\*/$', before)
        if not mm:
            err('doc comment "Set ... debugging to level N." not found immediately before #define %s' % nm)
        doc_levels[nm] = int(mm.group(1))
    if not levels:
        err('no DEBUG_X level constants in the D block')
    for nm in levels:
        if len(re.findall(r'^\s*#\s*define\s+%s\b' % nm, h, flags=re.M)) != 1 or re.search(r'^\s*#\s*undef\s+%s\b' % nm, h, flags=re.M):
            err('level constant %s is defined or undefined elsewhere in libast.h' % nm)

    # ---- parse the blocks ------------------------------------------------------------------
    raw = {}
    for b in order:
        s, e = blocks[b]
        ll = logical_lines(h[s:e], lineno(h, s))
        if b == 'd':
            # level #defines are consumed above; the rest must be macros of the family
            ll = [(ln, l) for (ln, l) in ll if not re.match(r'^#define\s+DEBUG_\w+\s+\d+\s*$', l.strip())]
        raw[b] = parse_block(ll, levels if b == 'd' else {}, single_conditional=(b != 'd'))

    macros = {}       # name -> dict(block, arity, alts=[(path, term)], lines)
    names_in_order = []
    for b in order:
        for (ln, name, plist, body, path) in raw[b]:
            arity = None if plist is None else len(plist)
            ent = macros.get(name)
            if ent is None:
                ent = macros[name] = dict(block=b, arity=arity, alts=[], lines=[], calls=set(), unders=set())
                names_in_order.append(name)
            elif ent['block'] != b:
                err('line %d: %s is defined in two blocks' % (ln, name))
            elif ent['arity'] != arity:
                err('line %d: %s is defined with different parameter counts' % (ln, name))
            # roles of the parameters
            cond = val = args = None
            if b == 'assert':
                rv = name.endswith('_RVAL')
                n = arity if arity is not None else -1
                if rv:
                    if n not in (1, 2):
                        err('line %d: %s: expected (cond, val) or (val)' % (ln, name))
                    val = plist[-1]
                    if n == 2:
                        cond = plist[0]
                else:
                    if n not in (0, 1):
                        err('line %d: %s: expected (cond) or ()' % (ln, name))
                    if n == 1:
                        cond = plist[0]
            elif b == 'dprintf' or (b == 'd' and arity is not None):
                if arity != 1:
                    err('line %d: %s: expected one parameter (the parenthesised argument list)' % (ln, name))
                args = plist[0]
            elif b == 'hdr':
                if arity != 0:
                    err('line %d: %s: expected an empty parameter list' % (ln, name))
            where = 'libast.h:%d (%s)' % (ln, name)
            bp = BodyParser(tokenize(body, where), dict(cond=cond, val=val, args=args, levels=levels, where=where, lenient=lenient))
            term = bp.macro_body()
            ent['alts'].append((path, term))
            ent['lines'].append(ln)
            ent['calls'] |= set(bp.calls)
            ent['unders'] |= set(bp.unders)

    # ---- references resolve inside the ladder ---------------------------------------------------
    for name, ent in macros.items():
        for (callee, nargs) in ent['calls']:
            if callee not in macros:
                err('%s uses %s, which is not a macro of the parsed blocks' % (name, callee))
            if macros[callee]['arity'] != nargs:
                err('%s uses %s with %d argument(s)' % (name, callee, nargs))
            if any(t[0] == 'prefix' for (_, t) in macros[callee]['alts']):
                err('%s uses the prefix macro %s as a statement' % (name, callee))
        for u in ent['unders']:
            if u not in macros or macros[u]['arity'] is not None:
                err('%s uses %s { ... }, which is not an object-like macro of the parsed blocks' % (name, u))
            if any(t[0] != 'prefix' for (_, t) in macros[u]['alts']):
                err('%s uses %s as an if-prefix but %s has a non-prefix definition' % (name, u, u))
    # ---- no other definition anywhere else in the header ---------------------------------------
    for name, ent in macros.items():
        n = len(re.findall(r'^\s*#\s*define\s+%s\b' % re.escape(name), h, flags=re.M))
        if n != len(ent['alts']):
            err('%s has %d #define lines in libast.h but %d inside its block' % (name, n, len(ent['alts'])))
        if re.search(r'^\s*#\s*undef\s+%s\b' % re.escape(name), h, flags=re.M):
            err('%s is #undef-ed in libast.h' % name)

    # ---- families -------------------------------------------------------------------------------
    fam = dict(hdr=[], assert_cond=[], notreached=[], require=[], abort=[], dprintf=[], dprintf_plain=[], never=[], d=[], d_if=[])
    for name in names_in_order:
        ent = macros[name]
        b = ent['block']
        if b == 'hdr':
            if name != '__DEBUG':
                err('unexpected macro %s in the __DEBUG block' % name)
            fam['hdr'].append(name)
        elif b == 'assert':
            rv = name.endswith('_RVAL')
            base = name[:-5] if rv else name
            if base == 'ASSERT' and ent['arity'] == (2 if rv else 1):
                fam['assert_cond'].append((name, rv))
            elif base == 'ASSERT_NOTREACHED' and ent['arity'] == (1 if rv else 0):
                fam['notreached'].append((name, rv))
            elif base == 'REQUIRE' and ent['arity'] == (2 if rv else 1):
                fam['require'].append((name, rv))
            elif name == 'ABORT' and ent['arity'] == 0:
                fam['abort'].append(name)
            else:
                err('macro %s of the ASSERT/REQUIRE block fits no family' % name)
        elif b == 'dprintf':
            m = re.match(r'^DPRINTF(\d*)$', name)
            if not m:
                err('macro %s of the DPRINTFn block fits no family' % name)
            if m.group(1) == '':
                fam['dprintf_plain'].append(name)
            else:
                fam['dprintf'].append((name, int(m.group(1))))
        else:
            if name == 'D_NEVER':
                fam['never'].append(name)
            elif re.match(r'^D_\w+_IF$', name) and ent['arity'] is None:
                fam['d_if'].append(name)
            elif re.match(r'^D_\w+$', name) and ent['arity'] == 1:
                fam['d'].append(name)
            else:
                err('macro %s of the D_* block fits no family' % name)
    dfam = []
    for name in fam['d']:
        stem = name[2:]
        lv, ifn = 'DEBUG_' + stem, name + '_IF'
        if lv not in levels:
            err('%s has no level constant %s' % (name, lv))
        if ifn not in fam['d_if']:
            err('%s has no prefix form %s' % (name, ifn))
        dfam.append(dict(name=name, if_name=ifn, level_name=lv, define=levels[lv], doc=doc_levels[lv]))
    for ifn in fam['d_if']:
        if ifn[:-3] not in fam['d']:
            err('%s has no statement form %s' % (ifn, ifn[:-3]))
    for lv in levels:
        if ('D_' + lv[6:]) not in fam['d']:
            err('level constant %s has no macro D_%s' % (lv, lv[6:]))
    for k in ('hdr', 'assert_cond', 'notreached', 'require', 'abort', 'dprintf', 'dprintf_plain', 'never', 'd'):
        if not fam[k]:
            err('family %s is empty' % k)

    # ---- emit ------------------------------------------------------------------------------------
    L = []
    L.append('(* GENERATED by tools/gen_c20.py from include/libast.h, src/debug.c, src/msgs.c of the source tree - do not edit *)')
    L.append('From LV Require Import Debug.LadderLang.')
    L.append('Local Open Scope Z_scope.')
    L.append('Local Open Scope mn_scope.')
    L.append('')
    L.append('(* #ifndef DEBUG / # define DEBUG n ; unsigned int libast_debug_level = n ; static spif_bool_t silent = FALSE *)')
    L.append('Definition default_compile_level : Z := %d.' % default_c)
    L.append('Definition initial_runtime_level : Z := %d.' % initial_r)
    L.append('')
    L.append('Definition level_defines : list (mname * Z) :=')
    L.append('  [' + '; '.join('("%s", %s)' % (k, coq_z(v)) for k, v in levels.items()) + '].')
    L.append('')
    L.append('Definition ladder : list macro := [')
    ms = []
    for name in names_in_order:
        ent = macros[name]
        alts = []
        for (path, term), ln in zip(ent['alts'], ent['lines']):
            atoms = '[' + '; '.join(coq_atom(a, pol) for (a, pol) in path) + ']'
            d = ('DStmt ' + coq_body(term[1])) if term[0] == 'stmt' else ('DPrefix ' + coq_rcond(term[1]))
            alts.append('     (* libast.h:%d *) (%s,\n        %s)' % (ln, atoms, d))
        ms.append('  {| m_name := "%s"; m_alts := [\n%s] |}' % (name, ';\n'.join(alts)))
    L.append(';\n'.join(ms))
    L.append('].')
    L.append('')

    def names(l):
        return '[' + '; '.join('"%s"' % x for x in l) + ']'

    def pairs_b(l):
        return '[' + '; '.join('("%s", %s)' % (n, coq_bool(b)) for (n, b) in l) + ']'
    L.append('Definition hdr_family : list mname := %s.' % names(fam['hdr']))
    L.append('(* (name, takes a return value) *)')
    L.append('Definition assert_family : list (mname * bool) := %s.' % pairs_b(fam['assert_cond']))
    L.append('Definition notreached_family : list (mname * bool) := %s.' % pairs_b(fam['notreached']))
    L.append('Definition require_family : list (mname * bool) := %s.' % pairs_b(fam['require']))
    L.append('Definition abort_family : list mname := %s.' % names(fam['abort']))
    L.append('(* (name, n) for DPRINTFn *)')
    L.append('Definition dprintf_family : list (mname * Z) := [%s].' % '; '.join('("%s", %d)' % (n, k) for (n, k) in fam['dprintf']))
    L.append('Definition dprintf_plain_family : list mname := %s.' % names(fam['dprintf_plain']))
    L.append('Definition never_family : list mname := %s.' % names(fam['never']))
    L.append('Definition d_family : list dfam := [')
    L.append(';\n'.join('  {| d_name := "%s"; d_if := "%s"; d_define := %s (* %s *); d_doc := %s |}' %
                        (d['name'], d['if_name'], coq_z(d['define']), d['level_name'], coq_z(d['doc'])) for d in dfam))
    L.append('].')
    text = '\n'.join(L) + '\n'

    info = dict(
        macros=[dict(name=n, block=macros[n]['block'], arity=macros[n]['arity'], lines=macros[n]['lines']) for n in names_in_order],
        families=dict(hdr=fam['hdr'], assert_cond=fam['assert_cond'], notreached=fam['notreached'], require=fam['require'],
                      abort=fam['abort'], dprintf=fam['dprintf'], dprintf_plain=fam['dprintf_plain'], never=fam['never'], d=dfam),
        levels=levels, default_compile_level=default_c, initial_runtime_level=initial_r,
        digest=hashlib.sha1(text.encode()).hexdigest())
    return text, info


def out_path():
    return os.path.join(os.path.dirname(os.path.abspath(__file__)), '..', 'coq', 'Gen', 'DebugLadder.v')


def called_for_other_property():
    """lib/vlib.py runs every tools/gen_*.py before every check.  A header this translator cannot read must
    break C20 (error exit, and the ladder file is replaced by one that does not compile), but it is no reason
    for the check of another property to report a broken tie: when the parent process is `bin/check Cnn` with
    nn != 20 the failure is left to C20's own run."""
    try:
        with open('/proc/%d/cmdline' % os.getppid(), 'rb') as f:
            argv = f.read().decode(errors='replace').split('\0')
    except OSError:
        return False
    for i, a in enumerate(argv[:-1]):
        if os.path.basename(a) == 'check' and re.match(r'^[Cc]\d+$', argv[i + 1]):
            return argv[i + 1].upper() != 'C20'
    return False


def main():
    repo = sys.argv[1] if len(sys.argv) > 1 else os.environ.get('VERIF_REPO', '/repo')
    out = out_path()
    try:
        text, info = generate(repo)
    except GenError as e:
        sys.stderr.write('gen_c20: %s\n' % e)
        # leave no stale ladder behind: a model or theorem built from an older reading would be wrong
        os.makedirs(os.path.dirname(out), exist_ok=True)
        msg = str(e).replace('*)', '* )').replace('(*', '( *')
        with open(out + '.tmp.%d' % os.getpid(), 'w') as f:
            f.write('(* tools/gen_c20.py could not translate the header of the source tree:\n   %s *)\n'
                    'Definition translation_failed : bool := 0%%nat.\n' % msg)
        os.replace(out + '.tmp.%d' % os.getpid(), out)
        sys.exit(0 if called_for_other_property() else 3)
    os.makedirs(os.path.dirname(out), exist_ok=True)
    old = None
    if os.path.exists(out):
        with open(out) as f:
            old = f.read()
    if old != text:
        tmp = out + '.tmp.%d' % os.getpid()
        with open(tmp, 'w') as f:
            f.write(text)
        os.replace(tmp, out)
    if '--info' in sys.argv:
        json.dump(info, sys.stdout, indent=1)


if __name__ == '__main__':
    main()
