#!/usr/bin/env python3
"""Derive coq/Gen/HashGen.v from src/builtin_hashes.c (property C18).

The three Jenkins functions are translated to data: block-loop test, the loads of a block
(register, [(key index, shift)]), pointer advance, length decrement, the entries of the
fall-through tail switch (case label, register, key index, shift), the alignment mask of
spifhash_jenkinsLE and the word loads of its aligned path.  After the data has been pulled out
by anchored regular expressions the whole function body is REBUILT from the data and compared
with the comment- and whitespace-stripped source text: anything the data does not capture
(initialisation, `c += length`, a `break`, an extra statement) makes the comparison fail.
The bodies of the three one-loop hashes (rotating, one-at-a-time, FNV) are compared against a
template as a whole, too (their constants are in Gen/Constants.v).

A missing anchor or a shape mismatch is reported on stderr AND recorded in the generated file as
an entry of `hashgen_errors`; theorem LV.Properties.C18.C18_source_shape (`hashgen_errors = []`)
then no longer compiles and the data of the function concerned is emitted empty, so the model
disagrees with the implementation as well.  The script itself exits 0 in that case so that an
unrecognisable builtin_hashes.c breaks property C18 only (lib/vlib.py runs every tools/gen_*.py
before every property's check).  Exit status 3 only if the source file cannot be read.
The file is rewritten only when its content changes."""
import os, re, sys

repo = sys.argv[1] if len(sys.argv) > 1 else os.environ.get('VERIF_REPO', '/repo')
out = os.path.join(os.path.dirname(os.path.abspath(__file__)), '..', 'coq', 'Gen', 'HashGen.v')
errors = []


def err(msg):
    sys.stderr.write('gen_c18: %s\n' % msg)
    errors.append(msg)


try:
    with open(os.path.join(repo, 'src', 'builtin_hashes.c'), errors='replace') as f:
        text = f.read()
except OSError as e:
    sys.stderr.write('gen_c18: cannot read src/builtin_hashes.c: %s\n' % e)
    sys.exit(3)

text = re.sub(r'/\*.*?\*/', ' ', text, flags=re.S)


def body(name):
    """comment-free, whitespace-free text of the function body, braces included"""
    m = re.search(r'^spifhash_%s\s*\(([^)]*)\)\s*\n(\{.*?\n\})' % name, text, flags=re.S | re.M)
    if not m:
        err('anchor not found: definition of spifhash_%s' % name)
        return None, None
    return re.sub(r'\s+', '', m.group(1)), re.sub(r'\s+', '', m.group(2))


REG = {'a': 'RA', 'b': 'RB', 'c': 'RC'}
MIX = 'SPIFHASH_JENKINS_MIX(a,b,c);'
U32 = '(spif_uint32_t)'

# ---------------------------------------------------------------------------------------
# byte-wise block loop:  while (len >= N) { r += (key[i] + ((u32) key[j] << s) + ...); ... MIX; key += K; len -= D; }
BYTE_LOOP = re.compile(r'while\(len>=(\d+)\)\{((?:[abc]\+=\([^;]*\);)+)' + re.escape(MIX) + r'key\+=(\d+);len-=(\d+);\}')
TERM = re.compile(r'key\[(\d+)\]|\(\(spif_uint32_t\)key\[(\d+)\]<<(\d+)\)')
TAIL = re.compile(r'c\+=length;switch\(len\)\{((?:case\d+:[abc]\+=[^;]*;)*)\}' + re.escape(MIX) + r'returnc;\}$')
TAIL_ENTRY = re.compile(r'case(\d+):([abc])\+=(?:key\[(\d+)\]|\(\(spif_uint32_t\)key\[(\d+)\]<<(\d+)\));')


def parse_byte_loop(s, what):
    """returns (test, loads, adv, dec, rebuilt text) or None"""
    m = BYTE_LOOP.match(s)
    if not m:
        err('anchor not found: %s byte-wise block loop' % what)
        return None
    loads = []
    for (r, expr) in re.findall(r'([abc])\+=\(([^;]*)\);', m.group(2)):
        lanes = []
        pos = 0
        while pos < len(expr):
            t = TERM.match(expr, pos)
            if not t:
                err('%s: unexpected term in block load of %s: %s' % (what, r, expr[pos:pos + 40]))
                return None
            lanes.append((int(t.group(1)), 0) if t.group(1) is not None else (int(t.group(2)), int(t.group(3))))
            pos = t.end()
            if pos < len(expr):
                if expr[pos] != '+':
                    err('%s: unexpected operator in block load of %s' % (what, r))
                    return None
                pos += 1
        loads.append((r, lanes))
    return int(m.group(1)), loads, int(m.group(3)), int(m.group(4)), m.end()


def lane_text(i, s, bare_zero=True):
    return ('key[%d]' % i) if s == 0 else ('(%skey[%d]<<%d)' % (U32, i, s))


def byte_loop_text(test, loads, adv, dec):
    return 'while(len>=%d){%s%skey+=%d;len-=%d;}' % (
        test, ''.join('%s+=(%s);' % (r, '+'.join(lane_text(i, s) for (i, s) in lanes)) for (r, lanes) in loads), MIX, adv, dec)


def parse_tail(s, what):
    m = TAIL.search(s)
    if not m:
        err('anchor not found: %s tail switch' % what)
        return None
    ents = []
    pos = 0
    src = m.group(1)
    while pos < len(src):
        t = TAIL_ENTRY.match(src, pos)
        if not t:
            err('%s: unexpected statement in tail switch: %s' % (what, src[pos:pos + 40]))
            return None
        if t.group(3) is not None:
            ents.append((int(t.group(1)), t.group(2), int(t.group(3)), 0))
        else:
            if int(t.group(5)) == 0:
                err('%s: explicit shift by 0 in tail switch' % what)
                return None
            ents.append((int(t.group(1)), t.group(2), int(t.group(4)), int(t.group(5))))
        pos = t.end()
    return ents, m.start()


def tail_text(ents):
    return 'c+=length;switch(len){%s}%sreturnc;}' % (
        ''.join('case%d:%s+=%s;' % (n, r, lane_text(i, s)) for (n, r, i, s) in ents), MIX)


HEAD = '{registerspif_uint32_ta,b,c,len;len=length;a=b=BUILTIN_RANDOM_SEED;c=seed;'
ARGS3 = 'registerspif_uint8_t*key,registerspif_uint32_tlength,registerspif_uint32_tseed'

data = {}   # name -> coq text


def coq_loads(loads):
    return '[' + ';\n   '.join('(%s, [%s])' % (REG[r], '; '.join('(%d, %d)' % l for l in lanes)) for (r, lanes) in loads) + ']'


def coq_tail(ents):
    return '[' + ';\n   '.join('(%d, %s, %d, %d)' % (n, REG[r], i, s) for (n, r, i, s) in ents) + ']'


def emit_byte(prefix, parsed):
    if parsed is None:
        data[prefix + '_test'] = ('Z', '0'); data[prefix + '_loads'] = ('list (reg * list (Z * Z))', '[]')
        data[prefix + '_advance'] = ('Z', '0'); data[prefix + '_dec'] = ('Z', '0')
    else:
        test, loads, adv, dec = parsed[:4]
        data[prefix + '_test'] = ('Z', str(test)); data[prefix + '_loads'] = ('list (reg * list (Z * Z))', coq_loads(loads))
        data[prefix + '_advance'] = ('Z', str(adv)); data[prefix + '_dec'] = ('Z', str(dec))


def emit_tail(prefix, ents):
    data[prefix + '_tail'] = ('list (Z * reg * Z * Z)', coq_tail(ents) if ents is not None else '[]')


# ---- spifhash_jenkins ------------------------------------------------------------------
args, b = body('jenkins')
loop = tail = None
if b is not None:
    if args != ARGS3:
        err('spifhash_jenkins: unexpected parameter list')
    if not b.startswith(HEAD):
        err('spifhash_jenkins: unexpected declarations / initialisation')
    else:
        loop = parse_byte_loop(b[len(HEAD):], 'spifhash_jenkins')
        t = parse_tail(b, 'spifhash_jenkins')
        tail = t[0] if t else None
        if loop and t and HEAD + byte_loop_text(*loop[:4]) + tail_text(tail) != b:
            err('spifhash_jenkins: body is not (initialisation; block loop; c += length; tail switch; mix; return c)')
            loop = tail = None
emit_byte('jenkins', loop)
emit_tail('jenkins', tail)

# ---- spifhash_jenkinsLE ----------------------------------------------------------------
args, b = body('jenkinsLE')
mask = None
uloop = tail = None
aloop = None
if b is not None:
    if args != ARGS3:
        err('spifhash_jenkinsLE: unexpected parameter list')
    m = re.match(re.escape(HEAD) + r'if\(\(\(spif_uint32_t\)key\)&(\d+)\)\{', b)
    if not m:
        err('anchor not found: spifhash_jenkinsLE alignment dispatch')
    else:
        mask = int(m.group(1))
        rest = b[m.end():]
        uloop = parse_byte_loop(rest, 'spifhash_jenkinsLE (unaligned path)')
        if uloop:
            rest2 = rest[uloop[4]:]
            WLOOP = re.compile(r'\}else\{while\(len>=(\d+)\)\{((?:[abc]\+=\*\(\(spif_uint32_t\*\)(?:key|\(key\+\d+\))\);)+)' +
                               re.escape(MIX) + r'key\+=(\d+);len-=(\d+);\}\}')
            wm = WLOOP.match(rest2)
            if not wm:
                err('anchor not found: spifhash_jenkinsLE aligned word loop')
            else:
                wl = [(r, int(o) if o else 0) for (r, o) in
                      re.findall(r'([abc])\+=\*\(\(spif_uint32_t\*\)(?:key|\(key\+(\d+)\))\);', wm.group(2))]
                aloop = (int(wm.group(1)), wl, int(wm.group(3)), int(wm.group(4)))
                t = parse_tail(b, 'spifhash_jenkinsLE')
                tail = t[0] if t else None
                atext = '}else{while(len>=%d){%s%skey+=%d;len-=%d;}}' % (
                    aloop[0], ''.join('%s+=*((spif_uint32_t*)%s);' % (r, 'key' if o == 0 else '(key+%d)' % o) for (r, o) in wl),
                    MIX, aloop[2], aloop[3])
                if t and b != HEAD + 'if(((spif_uint32_t)key)&%d){' % mask + byte_loop_text(*uloop[:4]) + atext + tail_text(tail):
                    err('spifhash_jenkinsLE: body is not (initialisation; alignment dispatch over two block loops; c += length; tail switch; mix; return c)')
                    uloop = aloop = tail = None
data['jenkinsLE_align_mask'] = ('Z', str(mask if mask is not None else 0))
emit_byte('jenkinsLE', uloop if (uloop and aloop) else None)
if uloop and aloop:
    data['jenkinsLE_aligned_test'] = ('Z', str(aloop[0]))
    data['jenkinsLE_aligned_loads'] = ('list (reg * Z)', '[' + '; '.join('(%s, %d)' % (REG[r], o) for (r, o) in aloop[1]) + ']')
    data['jenkinsLE_aligned_advance'] = ('Z', str(aloop[2]))
    data['jenkinsLE_aligned_dec'] = ('Z', str(aloop[3]))
else:
    data['jenkinsLE_aligned_test'] = ('Z', '0'); data['jenkinsLE_aligned_loads'] = ('list (reg * Z)', '[]')
    data['jenkinsLE_aligned_advance'] = ('Z', '0'); data['jenkinsLE_aligned_dec'] = ('Z', '0')
emit_tail('jenkinsLE', tail if (uloop and aloop) else None)

# ---- spifhash_jenkins32 ----------------------------------------------------------------
args, b = body('jenkins32')
j32 = None
if b is not None:
    if args != 'spif_uint8_t*key,registerspif_uint32_tlength,registerspif_uint32_tseed':
        err('spifhash_jenkins32: unexpected parameter list')
    H32 = '{registerspif_uint32_ta,b,c,len;registerspif_uint32_t*key_dword=(spif_uint32_t*)key;len=length;a=b=BUILTIN_RANDOM_SEED;c=seed;'
    m = re.match(re.escape(H32) + r'while\(len>=(\d+)\)\{((?:[abc]\+=key_dword\[\d+\];)+)' + re.escape(MIX) +
                 r'key_dword\+=(\d+);len-=(\d+);\}c\+=length;switch\(len\)\{((?:case\d+:[abc]\+=key_dword\[\d+\];)*)\}' +
                 re.escape(MIX) + r'returnc;\}$', b)
    if not m:
        err('anchor not found: spifhash_jenkins32 body (initialisation; word block loop; c += length; tail switch; mix; return c)')
    else:
        loads = [(r, int(i)) for (r, i) in re.findall(r'([abc])\+=key_dword\[(\d+)\];', m.group(2))]
        ents = [(int(n), r, int(i)) for (n, r, i) in re.findall(r'case(\d+):([abc])\+=key_dword\[(\d+)\];', m.group(5))]
        j32 = (int(m.group(1)), loads, int(m.group(3)), int(m.group(4)), ents)
if j32:
    data['jenkins32_test'] = ('Z', str(j32[0]))
    data['jenkins32_loads'] = ('list (reg * Z)', '[' + '; '.join('(%s, %d)' % (REG[r], i) for (r, i) in j32[1]) + ']')
    data['jenkins32_advance'] = ('Z', str(j32[2])); data['jenkins32_dec'] = ('Z', str(j32[3]))
    data['jenkins32_tail'] = ('list (Z * reg * Z)', '[' + '; '.join('(%d, %s, %d)' % (n, REG[r], i) for (n, r, i) in j32[4]) + ']')
else:
    data['jenkins32_test'] = ('Z', '0'); data['jenkins32_loads'] = ('list (reg * Z)', '[]')
    data['jenkins32_advance'] = ('Z', '0'); data['jenkins32_dec'] = ('Z', '0')
    data['jenkins32_tail'] = ('list (Z * reg * Z)', '[]')

# ---- whole-body templates of the one-loop hashes (constants themselves: Gen/Constants.v) --------
SIMPLE = {
    'rotating': r'\{spif_uint32_thash,i;if\(!seed\)\{seed=BUILTIN_RANDOM_SEED;\}for\(hash=seed,i=0;i<len;i\+\+\)\{'
                r'hash=\(hash<<\d+\)\^\(hash>>\d+\)\^key\[i\];\}return\(hash\^\(hash>>\d+\)\^\(hash>>\d+\)\);\}$',
    'one_at_a_time': r'\{spif_uint32_thash,i;if\(!seed\)\{seed=BUILTIN_RANDOM_SEED;\}for\(hash=seed,i=0;i<len;i\+\+\)\{'
                     r'hash\+=key\[i\];hash\+=\(hash<<\d+\);hash\^=\(hash>>\d+\);\}hash\+=\(hash<<\d+\);hash\^=\(hash>>\d+\);'
                     r'hash\+=\(hash<<\d+\);returnhash;\}$',
    'fnv': r'\{spif_uint8_t\*key_end=key\+len;spif_uint32_thash;if\(!seed\)\{seed=\(spif_uint32_t\)0x[0-9a-fA-F]+;\}'
           r'for\(hash=seed;key<key_end;key\+\+\)\{hash\^=\(spif_uint32_t\)\(\*key\);#ifdef__GNUC__hash\+=(?:\(hash<<\d+\)\+?)+;'
           r'#elsehash\*=\(spif_uint32_t\)0x[0-9a-fA-F]+;#endif\}returnhash;\}$',
}
for name, pat in SIMPLE.items():
    args, b = body(name)
    if b is not None:
        if args != 'spif_uint8_t*key,spif_uint32_tlen,spif_uint32_tseed':
            err('spifhash_%s: unexpected parameter list' % name)
        if not re.match(pat, b):
            err('spifhash_%s: body does not have the expected shape (seed replacement; one loop; finalisation)' % name)
m = re.search(r'#\s*define\s+BUILTIN_RANDOM_SEED\s+\(\(spif_uint32_t\)\s*0x[0-9a-fA-F]+\)', text)
if not m:
    err('anchor not found: BUILTIN_RANDOM_SEED as a 32-bit constant')
if not re.search(r'#if\s*!\(WORDS_BIGENDIAN\)\s*spif_uint32_t\s*\nspifhash_jenkinsLE', text):
    err('anchor not found: spifhash_jenkinsLE inside #if !(WORDS_BIGENDIAN)')

# ---------------------------------------------------------------------------------------
lines = ['(* GENERATED by tools/gen_c18.py from src/builtin_hashes.c - do not edit *)',
         'From Coq Require Import ZArith List String.', 'From LV Require Import Gen.Constants.',
         'Import ListNotations.', 'Local Open Scope Z_scope.', 'Local Open Scope string_scope.', '',
         '(* anchors that were not found / shapes that did not match; must be empty *)',
         'Definition hashgen_errors : list string := [%s].' % '; '.join('"%s"' % e.replace('"', "'") for e in errors), '',
         '(* byte-wise loops: while (len >= test) { reg += sum of (key[index] << shift) ...; MIX; key += advance; len -= dec }',
         '   tail switches: (case label, register, key index, shift), in source order, every case falls through',
         '   aligned loads of jenkinsLE: (register, byte offset of the 32-bit load); jenkins32: (register, word index) *)']
order = ['jenkins_test', 'jenkins_loads', 'jenkins_advance', 'jenkins_dec', 'jenkins_tail',
         'jenkinsLE_align_mask', 'jenkinsLE_test', 'jenkinsLE_loads', 'jenkinsLE_advance', 'jenkinsLE_dec',
         'jenkinsLE_aligned_test', 'jenkinsLE_aligned_loads', 'jenkinsLE_aligned_advance', 'jenkinsLE_aligned_dec',
         'jenkinsLE_tail', 'jenkins32_test', 'jenkins32_loads', 'jenkins32_advance', 'jenkins32_dec', 'jenkins32_tail']
for n in order:
    ty, v = data[n]
    lines.append('Definition %s : %s := %s.' % (n, ty, v))
new = '\n'.join(lines) + '\n'
os.makedirs(os.path.dirname(out), exist_ok=True)
old = None
if os.path.exists(out):
    with open(out) as f:
        old = f.read()
if old != new:
    with open(out, 'w') as f:
        f.write(new)
sys.exit(0)
