import glob, json, os, re
here='/verif'
res_p=os.path.join(here,'seeded','RESULTS.json')
results=json.load(open(res_p))
for lp in sorted(glob.glob('/tmp/seedlogs/*.log')):
    name=os.path.basename(lp)[:-4]
    out=open(lp,errors='replace').read()
    if name.startswith('C11-temp'):
        key='mutants/%s.patch'%name; pid='C11'
    else:
        key='seeded/%s/patch.diff'%name; pid=name[:3]
    m=re.search(r'RESULT (.*)',out)
    if not m: continue
    vio=[l for l in out.split('\n') if l.startswith('VIOLATION')]
    rep=[l.strip() for l in out.split('\n') if l.strip().startswith('replay:')]
    r=dict(property=pid,result=m.group(1),violation=(vio[0] if vio else None),replay=(rep[0][:400] if rep else None))
    results[key]=r
    if key.startswith('seeded/'):
        mp=os.path.join(here,'seeded',name,'meta.json')
        try: meta=json.load(open(mp))
        except Exception: meta={}
        meta['coordinator']=dict(ran='tools/seedrun.py %s %s'%(pid,key),**r)
        json.dump(meta,open(mp,'w'),indent=1)
json.dump(results,open(res_p,'w'),indent=1)
print(sum(1 for k,v in results.items() if 'detected=False' in v['result']), 'undetected of', len(results))
print([k for k,v in results.items() if 'detected=False' in v['result']])
